/-
Main.lean — line-protocol driver for the executable models.
Run with `lake env lean --run Main.lean`; one tab-separated request per input line, one
response line per request.  Strings travel as dot-separated code points ("-" = empty).
-/
import RdVerif.Model.Driver
open RdVerif

partial def loop (h : IO.FS.Stream) (out : IO.FS.Stream) (st : Driver.State) : IO Unit := do
  let line ← h.getLine
  if line.isEmpty then return ()
  let l := if line.endsWith "\n" then (line.dropEnd 1).toString else line
  let (st', r) := Driver.handle st (l.splitOn "\t")
  out.putStrLn r
  loop h out st'

def main : IO Unit := do
  let out ← IO.getStdout
  loop (← IO.getStdin) out {}
  out.flush
