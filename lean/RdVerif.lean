-- Root of the `RdVerif` library: executable models, generated data, proofs, property theorems.
import RdVerif.Model.Driver
import RdVerif.Props.C09
import RdVerif.Props.C10
import RdVerif.Props.C10Entry
