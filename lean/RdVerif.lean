-- Root of the `RdVerif` library: executable models, generated data, proofs, property theorems.
import RdVerif.Model.Driver
import RdVerif.Props.C01
import RdVerif.Props.C02
import RdVerif.Props.C03
import RdVerif.Props.C04
import RdVerif.Props.C05
import RdVerif.Props.C06
import RdVerif.Props.C07
import RdVerif.Props.C09
import RdVerif.Props.C10
import RdVerif.Props.C10Entry
import RdVerif.Props.C14
