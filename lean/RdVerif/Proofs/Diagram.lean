/-
Proofs/Diagram.lean — properties of the decay-chain diagram builder `buildDigraph`
(`Model/Diagram.lean`) for every dataset and every root.
-/
import RdVerif.Model.Diagram

namespace RdVerif

theorem nodup_reverse' {α} {l : List α} : l.reverse.Nodup ↔ l.Nodup := by
  simp only [List.Nodup, List.pairwise_reverse]
  constructor <;> intro h <;> exact h.imp (fun hab => Ne.symm hab)

/-! ### the association list `generation_max_xpos` -/

theorem find_filter_ne (g : List (Nat × Int)) (k k' : Nat) (h : k' ≠ k) :
    (g.filter (fun p => !(p.1 == k))).find? (fun p => p.1 == k') = g.find? (fun p => p.1 == k') := by
  induction g with
  | nil => rfl
  | cons a t ih =>
    by_cases ha : a.1 = k
    · have hb : (a.1 == k') = false := by simp; omega
      have ha' : (a.1 == k) = true := by simp [ha]
      rw [List.filter_cons, List.find?_cons, hb]
      simp only [ha', Bool.not_true, Bool.false_eq_true, if_false]
      exact ih
    · have ha' : (a.1 == k) = false := by simp [ha]
      rw [List.filter_cons]
      simp only [ha', Bool.not_false, if_true, List.find?_cons]
      rw [ih]

theorem gmxGet_gmxSet (g : List (Nat × Int)) (k : Nat) (v : Int) (k' : Nat) :
    gmxGet (gmxSet g k v) k' = if k' = k then some v else gmxGet g k' := by
  unfold gmxGet gmxSet
  by_cases h : k' = k
  · subst h; simp
  · have hk : (k == k') = false := by simp; omega
    rw [List.find?_cons]
    simp only [hk, if_neg h]
    rw [find_filter_ne g k k' h]
/-! ### 1. positions -/

/-- position invariant: every node is bounded by the recorded maximum of its generation, and no
two nodes share a position -/
structure PInv (st : DState) : Prop where
  bound : ∀ n ∈ st.nodes, ∃ m, gmxGet st.gmx n.gen = some m ∧ (n.xpos : Int) ≤ m
  nodup : (st.nodes.map (fun n => (n.gen, n.xpos))).Nodup

theorem placeProgeny_PInv (ds : Dataset) (parentName : List Nat) (generation xpos : Nat) :
    ∀ (ls : List Link) (xcounter : Nat) (st : DState), PInv st →
      (∃ cur, gmxGet st.gmx generation = some cur ∧ cur < ((xpos + xcounter : Nat) : Int)) →
      PInv (placeProgeny ds parentName generation xpos ls xcounter st) := by
  intro ls
  induction ls with
  | nil => intro xcounter st h _; simpa [placeProgeny] using h
  | cons l ls ih =>
    intro xcounter st h ⟨cur, hcur, hlt⟩
    rw [placeProgeny]
    split
    · -- a new node at `(generation, xpos + xcounter)`
      have hgt : ((xpos + xcounter : Nat) : Int) > (gmxGet st.gmx generation).getD (-1) := by
        rw [hcur]; simpa using hlt
      simp only [hgt, if_true]
      apply ih
      · constructor
        · intro n hn
          simp only [List.mem_cons] at hn
          rcases hn with rfl | hn
          · exact ⟨((xpos + xcounter : Nat) : Int), by simp [gmxGet_gmxSet], Int.le_refl _⟩
          · obtain ⟨m, hm, hle⟩ := h.bound n hn
            by_cases hg : n.gen = generation
            · refine ⟨((xpos + xcounter : Nat) : Int), by simp [gmxGet_gmxSet, hg], ?_⟩
              rw [hg, hcur] at hm
              simp only [Option.some.injEq] at hm
              omega
            · exact ⟨m, by simp [gmxGet_gmxSet, hg, hm], hle⟩
        · simp only [List.map_cons, List.nodup_cons]
          refine ⟨?_, h.nodup⟩
          intro hmem
          simp only [List.mem_map, Prod.mk.injEq] at hmem
          obtain ⟨n, hn, hg, hx⟩ := hmem
          obtain ⟨m, hm, hle⟩ := h.bound n hn
          rw [hg, hcur] at hm
          simp only [Option.some.injEq] at hm
          omega
      · exact ⟨((xpos + xcounter : Nat) : Int), by simp [gmxGet_gmxSet], by omega⟩
    · apply ih
      · exact ⟨h.bound, h.nodup⟩
      · exact ⟨cur, hcur, hlt⟩

theorem bfsLoop_PInv (ds : Dataset) : ∀ (fuel : Nat) (st : DState), PInv st → PInv (bfsLoop ds fuel st) := by
  intro fuel
  induction fuel with
  | zero => intro st h; simpa [bfsLoop] using h
  | succ fuel ih =>
    intro st h
    rw [bfsLoop]
    split
    · exact h
    · rename_i p g x rest hq
      apply ih
      cases hget : gmxGet st.gmx (g + 1) with
      | none =>
        simp only [Option.isNone_none, if_true]
        apply placeProgeny_PInv
        · constructor
          · intro n hn
            obtain ⟨m, hm, hle⟩ := h.bound n hn
            have hg : n.gen ≠ g + 1 := by
              intro hg; rw [hg, hget] at hm; cases hm
            exact ⟨m, by simp [gmxGet_gmxSet, hg, hm], hle⟩
          · exact h.nodup
        · refine ⟨-1, by simp [gmxGet_gmxSet], ?_⟩
          simp [gmxGet_gmxSet]; omega
      | some cur =>
        simp only [Option.isNone_some, Bool.false_eq_true, if_false]
        apply placeProgeny_PInv
        · exact ⟨h.bound, h.nodup⟩
        · refine ⟨cur, hget, ?_⟩
          simp [hget]; omega

/-- no two nodes of the diagram share a position — for every dataset and every root -/
theorem positions_injective (ds : Dataset) (root : Nat) :
    ((buildDigraph ds root).nodes.map (fun n => (n.gen, n.xpos))).Nodup := by
  unfold buildDigraph
  simp only [List.map_reverse, nodup_reverse']
  apply (bfsLoop_PInv ds _ _ _).nodup
  constructor
  · intro n hn
    simp only [List.mem_singleton] at hn
    subst hn
    exact ⟨0, by simp [gmxGet], by simp⟩
  · simp

/-! ### 2. names

`node_names_nodup` is FALSE for arbitrary datasets: the membership test is on the link name
(`"SF"` for the pseudo-progeny, which is never put into `seen`) while the node that is created is
called `parent ++ "_SF"`.  So a second `SF` link of the same parent, a second visit of the same
parent, or a listed name that already has the form `X_SF` each produce two nodes with one name
(`names_cex1` … `names_cex5` below, one per hypothesis of `DiagramWF`).  The theorem is proved under
`DiagramWF`, five conditions on names and links only. -/

theorem sfName_inj {a b : List Nat} (h : sfName a = sfName b) : a = b := by
  unfold sfName at h
  exact List.append_cancel_right h

/-- the hypotheses of `node_names_nodup` -/
structure DiagramWF (ds : Dataset) : Prop where
  /-- no nuclide name has the form `X_SF` -/
  names_noSF : ∀ i q, get2 ds.names i [] ≠ sfName q
  /-- no listed progeny name has the form `X_SF` -/
  link_noSF : ∀ p, ∀ l ∈ get2 ds.links p [], ∀ q, l.name ≠ sfName q
  /-- a link to a dataset member is listed under the member's name -/
  link_name : ∀ p, ∀ l ∈ get2 ds.links p [], ∀ k, l.idx = some k → get2 ds.names k [] = l.name
  /-- the pseudo-progeny `SF` is not a dataset member -/
  sf_nonmember : ∀ p, ∀ l ∈ get2 ds.links p [], l.name = S "SF" → l.idx = none
  /-- a nuclide lists `SF` at most once -/
  sf_once : ∀ p, ((get2 ds.links p []).filter (fun l => l.name == S "SF")).length ≤ 1

/-- names of the queued parents -/
def qNames (ds : Dataset) (q : List (Nat × Nat × Nat)) : List (List Nat) :=
  q.map (fun e => get2 ds.names e.1 [])

/-- name invariant: `seen` is exactly the list of node names and has no duplicates; the queued
parents are distinct seen names none of which has its `_SF` node yet; an `X_SF` name is only seen
after `X` -/
structure NInv (ds : Dataset) (st : DState) : Prop where
  seen_eq : st.seen = st.nodes.map (·.name)
  nodup : st.seen.Nodup
  q_nodup : (qNames ds st.queue).Nodup
  q_seen : ∀ s ∈ qNames ds st.queue, s ∈ st.seen
  q_sf : ∀ s ∈ qNames ds st.queue, sfName s ∉ st.seen
  sf_parent : ∀ q, sfName q ∈ st.seen → q ∈ st.seen

theorem NInv_add (ds : Dataset) (st : DState) (h : NInv ds st) (nm : List Nat) (hnew : nm ∉ st.seen)
    (hno : ∀ q, nm ≠ sfName q) (Q' : List (Nat × Nat × Nat))
    (hQ : qNames ds Q' = qNames ds st.queue ∨ qNames ds Q' = qNames ds st.queue ++ [nm])
    (G : List (Nat × Int)) (g x : Nat) (E : List DEdge) :
    NInv ds { queue := Q', seen := nm :: st.seen, gmx := G, nodes := ⟨nm, g, x⟩ :: st.nodes, edges := E } := by
  have hsub : ∀ s ∈ qNames ds Q', s ∈ qNames ds st.queue ∨ s = nm := by
    intro s hs
    rcases hQ with hQ | hQ <;> rw [hQ] at hs
    · exact Or.inl hs
    · simpa using hs
  constructor
  · simp [h.seen_eq]
  · exact List.nodup_cons.2 ⟨hnew, h.nodup⟩
  · show (qNames ds Q').Nodup
    rcases hQ with hQ | hQ <;> rw [hQ]
    · exact h.q_nodup
    · rw [List.nodup_append]
      refine ⟨h.q_nodup, by simp, ?_⟩
      intro a ha b hb
      simp only [List.mem_singleton] at hb
      subst hb
      intro hab; subst hab
      exact hnew (h.q_seen _ ha)
  · intro s hs
    show s ∈ nm :: st.seen
    rcases hsub s hs with hs | rfl
    · exact List.mem_cons_of_mem _ (h.q_seen s hs)
    · exact List.mem_cons_self
  · intro s hs
    show sfName s ∉ nm :: st.seen
    simp only [List.mem_cons, not_or]
    rcases hsub s hs with hs | rfl
    · exact ⟨fun e => hno s e.symm, h.q_sf s hs⟩
    · exact ⟨fun e => hno s e.symm, fun hm => hnew (h.sf_parent _ hm)⟩
  · intro q hq
    show q ∈ nm :: st.seen
    have hq' : sfName q ∈ nm :: st.seen := hq
    simp only [List.mem_cons] at hq'
    rcases hq' with e | hq'
    · exact absurd e.symm (hno q)
    · exact List.mem_cons_of_mem _ (h.sf_parent q hq')

theorem NInv_addSF (ds : Dataset) (st : DState) (h : NInv ds st) (pn : List Nat) (hp : pn ∈ st.seen)
    (hpq : pn ∉ qNames ds st.queue) (hnew : sfName pn ∉ st.seen)
    (G : List (Nat × Int)) (g x : Nat) (E : List DEdge) :
    NInv ds { queue := st.queue, seen := sfName pn :: st.seen, gmx := G,
              nodes := ⟨sfName pn, g, x⟩ :: st.nodes, edges := E } := by
  constructor
  · simp [h.seen_eq]
  · exact List.nodup_cons.2 ⟨hnew, h.nodup⟩
  · exact h.q_nodup
  · intro s hs
    exact List.mem_cons_of_mem _ (h.q_seen s hs)
  · intro s hs
    show sfName s ∉ sfName pn :: st.seen
    simp only [List.mem_cons, not_or]
    refine ⟨fun e => hpq ?_, h.q_sf s hs⟩
    rw [← sfName_inj e]; exact hs
  · intro q hq
    show q ∈ sfName pn :: st.seen
    have hq' : sfName q ∈ sfName pn :: st.seen := hq
    simp only [List.mem_cons] at hq'
    rcases hq' with e | hq'
    · rw [sfName_inj e]; exact List.mem_cons_of_mem _ hp
    · exact List.mem_cons_of_mem _ (h.sf_parent q hq')

theorem filter_tail_le {α} (f : α → Bool) (a : α) (l : List α) (h : ((a :: l).filter f).length ≤ 1) :
    (l.filter f).length ≤ 1 := by
  rw [List.filter_cons] at h
  split at h
  · simp only [List.length_cons] at h; omega
  · exact h

theorem filter_tail_zero {α} (f : α → Bool) (a : α) (l : List α) (ha : f a = true)
    (h : ((a :: l).filter f).length ≤ 1) : (l.filter f).length = 0 := by
  rw [List.filter_cons, if_pos ha] at h
  simp only [List.length_cons] at h; omega

theorem placeProgeny_NInv (ds : Dataset) (hwf : DiagramWF ds) (p generation xpos : Nat) :
    ∀ (ls : List Link) (xcounter : Nat) (st : DState), (∀ l ∈ ls, l ∈ get2 ds.links p []) →
      (ls.filter (fun l => l.name == S "SF")).length ≤ 1 →
      NInv ds st → get2 ds.names p [] ∉ qNames ds st.queue → get2 ds.names p [] ∈ st.seen →
      (sfName (get2 ds.names p []) ∈ st.seen → ∀ l ∈ ls, l.name ≠ S "SF") →
      NInv ds (placeProgeny ds (get2 ds.names p []) generation xpos ls xcounter st) := by
  intro ls
  induction ls with
  | nil => intro xcounter st _ _ h _ _ _; simpa [placeProgeny] using h
  | cons l ls ih =>
    intro xcounter st hls hcnt h hpq hp hsf
    have hl : l ∈ get2 ds.links p [] := hls l (by simp)
    have hls' : ∀ l ∈ ls, l ∈ get2 ds.links p [] := fun a ha => hls a (by simp [ha])
    rw [placeProgeny]
    split
    · rename_i hnew
      have hnew : l.name ∉ st.seen := by simpa using hnew
      by_cases hname : l.name = S "SF"
      · -- the pseudo-progeny: node `parent_SF`
        have hidx : l.idx = none := hwf.sf_nonmember p l hl hname
        have hnosf : sfName (get2 ds.names p []) ∉ st.seen := fun hm => hsf hm l (by simp) hname
        have hcnt' : (ls.filter (fun l => l.name == S "SF")).length = 0 :=
          filter_tail_zero _ l ls (by simp [hname]) hcnt
        simp only [hidx, hname, beq_self_eq_true, if_true, Bool.false_eq_true, if_false]
        apply ih _ _ hls'
        · omega
        · exact NInv_addSF ds st h _ hp hpq hnosf _ _ _ _
        · exact hpq
        · exact List.mem_cons_of_mem _ hp
        · intro _ a ha hn
          have : a ∈ ls.filter (fun l => l.name == S "SF") := by simp [ha, hn]
          rw [List.length_eq_zero_iff] at hcnt'
          rw [hcnt'] at this
          cases this
      · have hname' : (l.name == S "SF") = false := by simpa using hname
        have hcnt' := filter_tail_le _ l ls hcnt
        simp only [hname', Bool.false_eq_true, if_false]
        apply ih _ _ hls' hcnt'
        · apply NInv_add ds st h _ hnew (hwf.link_noSF p l hl)
          cases hidx : l.idx with
          | none => left; simp
          | some k =>
            by_cases hr : get2 ds.rate k 0 = 0
            · left; simp [hr]
            · right; simp [hr, qNames, hwf.link_name p l hl k hidx]
        · show get2 ds.names p [] ∉ qNames ds _
          cases hidx : l.idx with
          | none => simpa using hpq
          | some k =>
            by_cases hr : get2 ds.rate k 0 = 0
            · simpa [hr] using hpq
            · simp only [bne_iff_ne, ne_eq, hr, not_false_eq_true, if_true]
              simp only [qNames, List.map_append, List.mem_append, not_or] at hpq ⊢
              refine ⟨hpq, ?_⟩
              simp [hwf.link_name p l hl k hidx]
              intro e; rw [e] at hp; exact hnew hp
        · exact List.mem_cons_of_mem _ hp
        · intro hm a ha
          have hm' : sfName (get2 ds.names p []) ∈ l.name :: st.seen := hm
          simp only [List.mem_cons] at hm'
          rcases hm' with e | hm'
          · exact absurd e.symm (hwf.link_noSF p l hl _)
          · exact hsf hm' a (by simp [ha])
    · have hcnt' := filter_tail_le _ l ls hcnt
      apply ih _ _ hls' hcnt'
      · exact ⟨h.seen_eq, h.nodup, h.q_nodup, h.q_seen, h.q_sf, h.sf_parent⟩
      · exact hpq
      · exact hp
      · intro hm a ha; exact hsf hm a (by simp [ha])

theorem bfsLoop_NInv (ds : Dataset) (hwf : DiagramWF ds) : ∀ (fuel : Nat) (st : DState),
    NInv ds st → NInv ds (bfsLoop ds fuel st) := by
  intro fuel
  induction fuel with
  | zero => intro st h; simpa [bfsLoop] using h
  | succ fuel ih =>
    intro st h
    rw [bfsLoop]
    split
    · exact h
    · rename_i p g x rest hq
      apply ih
      have hqn : qNames ds st.queue = get2 ds.names p [] :: qNames ds rest := by simp [hq, qNames]
      have hnd := h.q_nodup
      rw [hqn, List.nodup_cons] at hnd
      have hsf := h.q_sf (get2 ds.names p []) (by simp [hqn])
      apply placeProgeny_NInv ds hwf
      · intro l hl; exact hl
      · exact hwf.sf_once p
      · refine ⟨h.seen_eq, h.nodup, hnd.2, ?_, ?_, h.sf_parent⟩
        · intro s hs; exact h.q_seen s (by simp [hqn, hs])
        · intro s hs; exact h.q_sf s (by simp [hqn, hs])
      · exact hnd.1
      · exact h.q_seen _ (by simp [hqn])
      · intro hm; exact absurd hm hsf

/-- under `DiagramWF` every node name appears once -/
theorem node_names_nodup (ds : Dataset) (hwf : DiagramWF ds) (root : Nat) :
    ((buildDigraph ds root).nodes.map (·.name)).Nodup := by
  unfold buildDigraph
  simp only [List.map_reverse, nodup_reverse']
  have h := bfsLoop_NInv ds hwf (ds.n + 1)
    { queue := [(root, 0, 0)], seen := [get2 ds.names root []], gmx := [(0, 0)],
      nodes := [⟨get2 ds.names root [], 0, 0⟩], edges := [] } ?_
  · rw [← h.seen_eq]; exact h.nodup
  · constructor
    · simp
    · simp
    · simp [qNames]
    · simp [qNames]
    · intro s hs
      simp only [qNames, List.map_cons, List.map_nil, List.mem_singleton] at hs
      subst hs
      simp only [List.mem_singleton]
      intro e
      exact hwf.names_noSF root _ e.symm
    · intro q hq
      simp only [List.mem_singleton] at hq
      exact absurd hq.symm (hwf.names_noSF root q)
/-! counterexamples: without `DiagramWF` a name can occur twice (one per hypothesis) -/

/-- a one-block dataset with only names, links and rates filled in -/
def cexDs (names : List (List Nat)) (links : List (List Link)) (rate : List Rat) : Dataset :=
  { n := names.length, names := [names], hl := [], links := [links], parents := [], yearX := 0,
    yearF := 0, rate := [rate], massX := [], cx := [], cix := [], lamF := [], massF := [],
    cf := [], cif := [] }

def cexSF : Link := ⟨none, S "SF", 1, 0, "SF"⟩

/-- two `SF` links of one parent (violates only `sf_once`): nodes `X, X_SF, X_SF` -/
theorem names_cex1 :
    ¬ ((buildDigraph (cexDs [S "X"] [[cexSF, cexSF]] [1]) 0).nodes.map (·.name)).Nodup := by decide

/-- one member listed under two names that are not its own (violates only `link_name`): it is
queued twice; nodes `R, A, A2, B_SF, B_SF` -/
theorem names_cex2 :
    ¬ ((buildDigraph (cexDs [S "R", S "B"]
        [[⟨some 1, S "A", 1, 0, "a"⟩, ⟨some 1, S "A2", 1, 0, "a"⟩], [cexSF]] [1, 1]) 0).nodes.map
          (·.name)).Nodup := by decide

/-- a listed non-member called `X_SF` (violates only `link_noSF`): nodes `X, X_SF, X_SF` -/
theorem names_cex3 :
    ¬ ((buildDigraph (cexDs [S "X"] [[⟨none, S "X_SF", 1, 0, "a"⟩, cexSF]] [1]) 0).nodes.map
          (·.name)).Nodup := by decide

/-- a member nuclide called `SF` (violates only `sf_nonmember`): it is queued by every parent;
nodes `R, R_SF, Y, SF_SF, Y_SF, SF_SF` -/
theorem names_cex4 :
    ¬ ((buildDigraph (cexDs [S "R", S "Y", S "SF"]
        [[⟨some 2, S "SF", 1, 0, "SF"⟩, ⟨some 1, S "Y", 1, 0, "a"⟩], [⟨some 2, S "SF", 1, 0, "SF"⟩],
         [cexSF]] [1, 1, 1]) 0).nodes.map (·.name)).Nodup := by decide

/-- a root called `A_SF` (violates only `names_noSF`): nodes `A_SF, A, A_SF` -/
theorem names_cex5 :
    ¬ ((buildDigraph (cexDs [S "A_SF", S "A"] [[⟨some 1, S "A", 1, 0, "a"⟩], [cexSF]] [1, 1])
        0).nodes.map (·.name)).Nodup := by decide


/-! ### 3. edges -/

/-- every edge is a listed link of its source nuclide -/
def EdgeOk (ds : Dataset) (e : DEdge) : Prop :=
  ∃ p, get2 ds.names p [] = e.src ∧ ∃ l ∈ get2 ds.links p [],
    l.mode = e.mode ∧ l.bf = e.bf ∧ (e.dst = l.name ∨ e.dst = sfName (get2 ds.names p []))

theorem placeProgeny_edges (ds : Dataset) (p generation xpos : Nat) :
    ∀ (ls : List Link) (xcounter : Nat) (st : DState), (∀ l ∈ ls, l ∈ get2 ds.links p []) →
      (∀ e ∈ st.edges, EdgeOk ds e) →
      ∀ e ∈ (placeProgeny ds (get2 ds.names p []) generation xpos ls xcounter st).edges, EdgeOk ds e := by
  intro ls
  induction ls with
  | nil => intro xcounter st _ h; simpa [placeProgeny] using h
  | cons l ls ih =>
    intro xcounter st hls h
    have hl : l ∈ get2 ds.links p [] := hls l (by simp)
    have hls' : ∀ l ∈ ls, l ∈ get2 ds.links p [] := fun a ha => hls a (by simp [ha])
    rw [placeProgeny]
    split
    · apply ih _ _ hls'
      intro e he
      simp only [List.mem_cons] at he
      rcases he with rfl | he
      · refine ⟨p, rfl, l, hl, rfl, rfl, ?_⟩
        by_cases hsf : l.name = S "SF" <;> simp [hsf]
      · exact h e he
    · apply ih _ _ hls'
      intro e he
      simp only [List.mem_cons] at he
      rcases he with rfl | he
      · exact ⟨p, rfl, l, hl, rfl, rfl, Or.inl rfl⟩
      · exact h e he

theorem bfsLoop_edges (ds : Dataset) : ∀ (fuel : Nat) (st : DState),
    (∀ e ∈ st.edges, EdgeOk ds e) → ∀ e ∈ (bfsLoop ds fuel st).edges, EdgeOk ds e := by
  intro fuel
  induction fuel with
  | zero => intro st h; simpa [bfsLoop] using h
  | succ fuel ih =>
    intro st h
    rw [bfsLoop]
    split
    · exact h
    · apply ih
      apply placeProgeny_edges
      · intro l hl; exact hl
      · exact h

/-- every edge is a listed link of its source nuclide, with that link's mode and branching
fraction — for every dataset and every root -/
theorem edges_from_links (ds : Dataset) (root : Nat) :
    ∀ e ∈ (buildDigraph ds root).edges, ∃ p, get2 ds.names p [] = e.src ∧
      ∃ l ∈ get2 ds.links p [], l.mode = e.mode ∧ l.bf = e.bf ∧
        (e.dst = l.name ∨ e.dst = sfName (get2 ds.names p [])) := by
  intro e he
  unfold buildDigraph at he
  simp only [List.mem_reverse] at he
  exact bfsLoop_edges ds _ _ (by simp) e he

end RdVerif
