/-
Proofs/Nuclide.lean — helper lemmas about the nuclide-string model (core Lean only).
-/
import RdVerif.Model.Nuclide

set_option maxRecDepth 100000

namespace RdVerif

/-! ### facts about the generated tables (re-decided whenever the source tables change) -/

theorem elems_ok : ∀ el ∈ elems,
    el ≠ [] ∧ el.length ≤ 2 ∧ el.all isAl = true ∧ capitalize el = el ∧
    (∀ c, el.head? = some c → isUp c = true) := by decide +kernel

theorem states_ok : ∀ c ∈ states, isLo c = true := by decide +kernel

theorem states_nodup : states.Nodup := by decide +kernel

/-! ### character classes -/

theorem al_props (c : Nat) (h : isAl c = true) :
    isWs c = false ∧ isDig c = false ∧ isAlnum c = true ∧ c ≠ hy := by
  simp only [isAl, isUp, isLo, isWs, isDig, isAlnum, hy] at h ⊢
  grind

theorem dig_props (c : Nat) (h : isDig c = true) :
    isWs c = false ∧ isAl c = false ∧ isAlnum c = true ∧ c ≠ hy := by
  simp only [isAl, isUp, isLo, isWs, isDig, isAlnum, hy] at h ⊢
  grind

theorem lo_props (c : Nat) (h : isLo c = true) : isAl c = true ∧ toLo c = c ∧ isUp c = false := by
  simp only [isAl, isUp, isLo, toLo] at h ⊢
  grind

theorem up_not_lo (c : Nat) (h : isUp c = true) : isLo c = false := by
  simp only [isUp, isLo] at h ⊢
  grind

theorem toLo_al (c : Nat) (h : isAl c = true) : isLo (toLo c) = true := by
  simp only [isAl, isUp, isLo, toLo] at h ⊢
  grind

theorem toLo_idem (c : Nat) : toLo (toLo c) = toLo c := by
  simp only [isUp, toLo]
  grind

theorem toLo_isAl (c : Nat) (h : isAl (toLo c) = true) : isAl c = true := by
  simp only [isAl, isUp, isLo, toLo] at h ⊢
  grind

/-! ### list surgery -/

theorem eraseFirst_append (c : Ch) (a b : List Ch) (h : ∀ x ∈ a, x ≠ c) :
    eraseFirst c (a ++ c :: b) = a ++ b := by
  induction a with
  | nil => simp [eraseFirst]
  | cons x a ih =>
    have hx : x ≠ c := h x (by simp)
    simp [eraseFirst, hx, ih (fun y hy => h y (by simp [hy]))]

theorem eraseFirst_none (c : Ch) (a : List Ch) (h : ∀ x ∈ a, x ≠ c) : eraseFirst c a = a := by
  induction a with
  | nil => rfl
  | cons x a ih =>
    have hx : x ≠ c := h x (by simp)
    simp [eraseFirst, hx, ih (fun y hy => h y (by simp [hy]))]

theorem takeWhile_app (p : Ch → Bool) (a b : List Ch) (ha : ∀ x ∈ a, p x = true)
    (hb : ∀ y, b.head? = some y → p y = false) :
    (a ++ b).takeWhile p = a ∧ (a ++ b).dropWhile p = b := by
  induction a with
  | nil =>
    cases b with
    | nil => simp
    | cons y b => have := hb y rfl; simp [List.takeWhile, List.dropWhile, this]
  | cons x a ih =>
    have hx := ha x (by simp)
    have := ih (fun y hy => ha y (by simp [hy]))
    simp [List.takeWhile, List.dropWhile, hx, this]

theorem filter_all_true (p : Ch → Bool) (a : List Ch) (h : ∀ x ∈ a, p x = true) : a.filter p = a := by
  rw [List.filter_eq_self]; exact h

theorem filter_all_false (p : Ch → Bool) (a : List Ch) (h : ∀ x ∈ a, p x = false) : a.filter p = [] := by
  rw [List.filter_eq_nil_iff]; intro x hx; simp [h x hx]

theorem capitalize_all_al (w : List Ch) (h : (capitalize w).all isAl = true) : ∀ x ∈ w, isAl x = true := by
  cases w with
  | nil => simp
  | cons c r =>
    simp only [capitalize, List.all_cons, Bool.and_eq_true, List.all_eq_true, List.mem_map,
      forall_exists_index, and_imp, forall_apply_eq_imp_iff₂] at h
    intro x hx
    simp only [List.mem_cons] at hx
    rcases hx with rfl | hx
    · have := h.1
      simp only [isAl, isUp, isLo, toUp] at this ⊢
      grind
    · exact toLo_isAl x (h.2 x hx)

theorem capitalize_ne_nil (w : List Ch) (h : capitalize w ≠ []) : w ≠ [] := by
  cases w with
  | nil => simp [capitalize] at h
  | cons _ _ => simp

end RdVerif
