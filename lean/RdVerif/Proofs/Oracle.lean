/-
Proofs/Oracle.lean — soundness of the interval oracle for a whole row: the enclosure computed by
`solEncl` (and by its cached variant `solEnclT`) contains the exact real value `solReal`, and
`solReal` is the matrix closed form `C · exp(−Λ t) · C⁻¹ · N0`.
-/
import RdVerif.Proofs.Sparse
import RdVerif.Proofs.Interval

open RdVerif

namespace RdVerif

/-- the exact value the oracle encloses: `Σ_k a_ik · exp(−r_k ln2 · t)` -/
noncomputable def solReal (ds : Dataset) (v : N0) (t : ℝ) (i : ℕ) : ℝ :=
  ((coeffs ds v i).map (fun p => ((p.2 : ℚ) : ℝ) *
    Real.exp (-(((get2 ds.rate p.1 0 : ℚ) : ℝ) * Real.log 2 * t)))).sum

/-- the initial vector as a real vector -/
noncomputable def N0vec (n : ℕ) (v : N0) : Fin n → ℝ := fun j => ((n0At v j.val : ℚ) : ℝ)

/-! ### the fold of `addIv`/`scaleIv` -/

/-- generalised accumulator: if every factor interval `F p` encloses `x p`, the fold encloses
`y + Σ p.2 · x p` whenever the start interval encloses `y` -/
theorem foldEncl_sound (F : ℕ × ℚ → ℚ × ℚ) (x : ℕ × ℚ → ℝ) (l : List (ℕ × ℚ))
    (hF : ∀ p ∈ l, ((F p).1 : ℝ) ≤ x p ∧ x p ≤ ((F p).2 : ℝ)) (s : ℚ × ℚ) (y : ℝ)
    (hs : (s.1 : ℝ) ≤ y ∧ y ≤ (s.2 : ℝ)) :
    ((l.foldl (fun s p => addIv s (scaleIv p.2 (F p))) s).1 : ℝ)
        ≤ y + (l.map (fun p => ((p.2 : ℚ) : ℝ) * x p)).sum ∧
      y + (l.map (fun p => ((p.2 : ℚ) : ℝ) * x p)).sum
        ≤ ((l.foldl (fun s p => addIv s (scaleIv p.2 (F p))) s).2 : ℝ) := by
  induction l generalizing s y with
  | nil => simpa using hs
  | cons p l ih =>
    simp only [List.foldl_cons, List.map_cons, List.sum_cons]
    have h1 := addIv_sound s (scaleIv p.2 (F p)) y (((p.2 : ℚ) : ℝ) * x p) hs
      (scaleIv_sound p.2 (F p) (x p) (hF p (by simp)))
    have := ih (fun q hq => hF q (by simp [hq])) _ _ h1
    rw [add_assoc] at this
    exact this

/-- **the oracle's enclosure of `N_i(t)` is sound** -/
theorem solEncl_sound (ds : Dataset) (cfg : EvalCfg) (v : N0) (t : ℚ) (i : ℕ) (ht : 0 ≤ t)
    (hr : ∀ p ∈ coeffs ds v i, 0 ≤ get2 ds.rate p.1 0)
    (hln2 : (cfg.ln2.1 : ℝ) ≤ Real.log 2 ∧ Real.log 2 ≤ (cfg.ln2.2 : ℝ)) :
    ((solEncl ds cfg v t i).1 : ℝ) ≤ solReal ds v (t : ℝ) i ∧
    solReal ds v (t : ℝ) i ≤ ((solEncl ds cfg v t i).2 : ℝ) := by
  have h := foldEncl_sound (fun p => decayFactor cfg (get2 ds.rate p.1 0) t)
    (fun p => Real.exp (-(((get2 ds.rate p.1 0 : ℚ) : ℝ) * Real.log 2 * (t : ℝ))))
    (coeffs ds v i) (fun p hp => decayFactor_sound cfg _ t (hr p hp) ht hln2) (0, 0) 0
    (by simp)
  simp only [zero_add] at h
  exact h

/-! ### the cached factor table -/

theorem lookupFactor_factorTable (ds : Dataset) (cfg : EvalCfg) (t : ℚ) (ks : List ℕ) (k : ℕ)
    (hk : k ∈ ks) :
    lookupFactor (factorTable ds cfg t ks) k = decayFactor cfg (get2 ds.rate k 0) t := by
  induction ks with
  | nil => simp at hk
  | cons k0 ks ih =>
    by_cases h0 : k0 = k
    · subst h0
      simp [lookupFactor, factorTable]
    · have hk' : k ∈ ks := by
        rcases List.mem_cons.1 hk with h | h
        · exact absurd h.symm h0
        · exact h
      have := ih hk'
      simp only [lookupFactor, factorTable] at this ⊢
      simp only [List.map_cons, List.find?_cons]
      have hb : (k0 == k) = false := by simpa using h0
      simp only [hb]
      exact this

theorem foldl_congr_mem {α β} (f g : β → α → β) (l : List α) (h : ∀ s, ∀ p ∈ l, f s p = g s p)
    (s : β) : l.foldl f s = l.foldl g s := by
  induction l generalizing s with
  | nil => rfl
  | cons p l ih =>
    simp only [List.foldl_cons]
    rw [h s p (by simp)]
    exact ih (fun s q hq => h s q (by simp [hq])) _

/-- the driver's cached evaluation computes the same enclosure -/
theorem solEnclT_eq (ds : Dataset) (cfg : EvalCfg) (v : N0) (t : ℚ) (i : ℕ) (ks : List ℕ)
    (hks : ∀ p ∈ coeffs ds v i, p.1 ∈ ks) :
    solEnclT ds (factorTable ds cfg t ks) v i = solEncl ds cfg v t i := by
  unfold solEnclT solEncl
  apply foldl_congr_mem
  intro s p hp
  rw [lookupFactor_factorTable ds cfg t ks p.1 (hks p hp)]

/-! ### bridge to the matrix closed form -/

theorem foldl_add_eq_sum {α} (g : α → ℚ) (l : List α) (a : ℚ) :
    l.foldl (fun s e => s + g e) a = a + (l.map g).sum := by
  induction l generalizing a with
  | nil => simp
  | cons e l ih => simp only [List.foldl_cons, List.map_cons, List.sum_cons, ih]; ring

theorem cinvN0_eq_sum (ds : Dataset) (v : N0) (k : ℕ) :
    cinvN0 ds v k = ((getRow ds.cix k).map (fun e => e.val * n0At v e.col)).sum := by
  unfold cinvN0
  rw [foldl_add_eq_sum (fun e : E => e.val * n0At v e.col)]
  simp

theorem cinvN0_cast (ds : Dataset) (v : N0) (n k : ℕ)
    (hk : ∀ e ∈ getRow ds.cix k, e.col < n) :
    ((cinvN0 ds v k : ℚ) : ℝ)
      = ∑ j : Fin n, (((getRow ds.cix k).den j.val : ℚ) : ℝ) * ((n0At v j.val : ℚ) : ℝ) := by
  rw [den_sum n (fun j => ((n0At v j : ℚ) : ℝ)) (getRow ds.cix k) hk, cinvN0_eq_sum,
    cast_sum_map]
  simp only [Rat.cast_mul]

theorem map_sum_congr {α} (l : List α) (f g : α → ℝ) (h : ∀ e ∈ l, f e = g e) :
    (l.map f).sum = (l.map g).sum := by
  induction l with
  | nil => rfl
  | cons e l ih =>
    simp only [List.map_cons, List.sum_cons]
    rw [h e (by simp), ih (fun e' he' => h e' (by simp [he']))]

/-- **the value the oracle encloses is the closed form** `(C · exp(−Λ ln2 t) · C⁻¹ · N0)_i` -/
theorem solReal_eq_closed_form (ds : Dataset) (v : N0) (t : ℝ) (n : ℕ)
    (hcx : ∀ i < n, ∀ e ∈ getRow ds.cx i, e.col < n)
    (hcix : ∀ i < n, ∀ e ∈ getRow ds.cix i, e.col < n) (i : ℕ) (hi : i < n) :
    solReal ds v t i = ∑ k : Fin n, toMat n ds.cx ⟨i, hi⟩ k *
      Real.exp (-(rateVec n ds.rate k * Real.log 2) * t) *
      (∑ j : Fin n, toMat n ds.cix k j * N0vec n v j) := by
  simp only [toMat, rateVec, N0vec, mul_assoc]
  rw [den_sum n (fun k => Real.exp (-(((get2 ds.rate k 0 : ℚ) : ℝ) * Real.log 2) * t) *
      ∑ j : Fin n, (((getRow ds.cix k).den j.val : ℚ) : ℝ) * ((n0At v j.val : ℚ) : ℝ))
    (getRow ds.cx i) (hcx i hi)]
  unfold solReal coeffs
  rw [List.map_map]
  apply map_sum_congr
  intro e he
  simp only [Function.comp_apply, Rat.cast_mul]
  rw [cinvN0_cast ds v n e.col (hcix e.col (hcx i hi e he))]
  simp only [neg_mul, mul_assoc]
  ring

end RdVerif
