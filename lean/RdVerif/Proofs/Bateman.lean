/-
Proofs/Bateman.lean — the closed form C·diag(e^{-λt})·C⁻¹·N(0) solves the decay ODE system, is the
only solution, and is a linear, time-additive flow.  Over abstract real matrices; instantiated
with the shipped dataset in `Proofs/Icrp107.lean`.
-/
import Mathlib.Analysis.SpecialFunctions.ExpDeriv
import Mathlib.Analysis.Calculus.Deriv.Prod
import Mathlib.LinearAlgebra.Matrix.NonsingularInverse
import Mathlib.Analysis.ODE.ExistUnique
import Mathlib.Analysis.Matrix.Normed
open Real Matrix

namespace RdVerif.Bateman

variable {n : ℕ}

noncomputable def E (lam : Fin n → ℝ) (t : ℝ) : Matrix (Fin n) (Fin n) ℝ :=
  Matrix.diagonal (fun i => exp (-lam i * t))

noncomputable def sol (C Ci : Matrix (Fin n) (Fin n) ℝ) (lam : Fin n → ℝ) (N0 : Fin n → ℝ) (t : ℝ) :
    Fin n → ℝ := (C * E lam t * Ci).mulVec N0

theorem sol_zero (C Ci : Matrix (Fin n) (Fin n) ℝ) (lam : Fin n → ℝ) (N0 : Fin n → ℝ)
    (hinv : C * Ci = 1) : sol C Ci lam N0 0 = N0 := by
  simp [sol, E, hinv]

/-- componentwise closed form -/
theorem sol_apply (C Ci : Matrix (Fin n) (Fin n) ℝ) (d : Fin n → ℝ) (N0 : Fin n → ℝ) (i : Fin n) :
    (C * Matrix.diagonal d * Ci).mulVec N0 i = ∑ k, C i k * d k * (∑ j, Ci k j * N0 j) := by
  rw [Matrix.mul_assoc, ← Matrix.mulVec_mulVec, ← Matrix.mulVec_mulVec]
  simp only [Matrix.mulVec, dotProduct, Matrix.diagonal_apply]
  refine Finset.sum_congr rfl fun k _ => ?_
  simp [mul_assoc]

theorem sol_deriv (C Ci L : Matrix (Fin n) (Fin n) ℝ) (lam : Fin n → ℝ) (N0 : Fin n → ℝ)
    (hdiag : L * C = C * Matrix.diagonal (fun i => -lam i)) (t : ℝ) :
    HasDerivAt (sol C Ci lam N0) (L.mulVec (sol C Ci lam N0 t)) t := by
  rw [hasDerivAt_pi]
  intro i
  have key : L.mulVec (sol C Ci lam N0 t)
      = (C * Matrix.diagonal (fun k => -lam k * exp (-lam k * t)) * Ci).mulVec N0 := by
    simp only [sol, E, Matrix.mulVec_mulVec]
    rw [← Matrix.mul_assoc, ← Matrix.mul_assoc, hdiag, Matrix.mul_assoc C, Matrix.diagonal_mul_diagonal]
  rw [key, sol_apply C Ci]
  simp only [sol, E]
  simp_rw [sol_apply C Ci]
  apply HasDerivAt.fun_sum
  intro k _
  apply HasDerivAt.mul_const
  have h1 : HasDerivAt (fun t => exp (-lam k * t)) (exp (-lam k * t) * (-lam k)) t := by
    have := (hasDerivAt_id t).const_mul (-lam k)
    simpa using this.exp
  have := h1.const_mul (C i k)
  convert this using 1
  ring

theorem E_add (lam : Fin n → ℝ) (s t : ℝ) : E lam (s + t) = E lam t * E lam s := by
  simp only [E, Matrix.diagonal_mul_diagonal]
  congr 1; funext i
  rw [← Real.exp_add]; congr 1; ring

theorem flow_add (C Ci : Matrix (Fin n) (Fin n) ℝ) (lam : Fin n → ℝ) (N0 : Fin n → ℝ)
    (hinv : C * Ci = 1) (s t : ℝ) :
    sol C Ci lam (sol C Ci lam N0 s) t = sol C Ci lam N0 (s + t) := by
  have hinv' : Ci * C = 1 := mul_eq_one_comm.mp hinv
  simp only [sol, Matrix.mulVec_mulVec, E_add]
  congr 1
  calc C * E lam t * Ci * (C * E lam s * Ci)
      = C * E lam t * (Ci * C) * E lam s * Ci := by simp only [Matrix.mul_assoc]
    _ = C * (E lam t * E lam s) * Ci := by rw [hinv']; simp only [Matrix.mul_one, Matrix.mul_assoc]

theorem flow_linear (C Ci : Matrix (Fin n) (Fin n) ℝ) (lam : Fin n → ℝ) (X Y : Fin n → ℝ) (a t : ℝ) :
    sol C Ci lam (a • X + Y) t = a • sol C Ci lam X t + sol C Ci lam Y t := by
  simp [sol, Matrix.mulVec_add, Matrix.mulVec_smul]

/-- a linear vector field is Lipschitz -/
theorem mulVec_lipschitz (L : Matrix (Fin n) (Fin n) ℝ) :
    ∃ K, LipschitzWith K (fun x : Fin n → ℝ => L.mulVec x) := by
  let f : (Fin n → ℝ) →L[ℝ] (Fin n → ℝ) := LinearMap.toContinuousLinearMap (Matrix.mulVecLin L)
  refine ⟨‖f‖₊, ?_⟩
  have h := f.lipschitz
  exact h

theorem sol_unique (L : Matrix (Fin n) (Fin n) ℝ) (f g : ℝ → Fin n → ℝ)
    (hf : ∀ t, HasDerivAt f (L.mulVec (f t)) t) (hg : ∀ t, HasDerivAt g (L.mulVec (g t)) t)
    (h0 : f 0 = g 0) : f = g := by
  obtain ⟨K, hK⟩ := mulVec_lipschitz L
  exact ODE_solution_unique_univ (v := fun _ x => L.mulVec x) (s := fun _ => Set.univ) (K := K) (t₀ := 0)
    (fun _ => hK.lipschitzOnWith) (fun t => ⟨hf t, trivial⟩) (fun t => ⟨hg t, trivial⟩) h0

end RdVerif.Bateman
