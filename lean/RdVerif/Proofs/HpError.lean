/-
Proofs/HpError.lean — error of the high-precision evaluation `C · Ê · C⁻¹ · N0` with the EXACT
matrices and exponentials / operations carried out at a working precision (320 significant digits
in the library): every term carries a relative perturbation ≤ Θ and every exponential an absolute
error ≤ η.  With the kernel-checked condition sum `Σ_k |C_ik C⁻¹_kj| ≤ 1000` the result is within
`(Θ(1+η)+η)·1000·ΣN0` of the exact solution; so its RELATIVE error is ≤ 1e-13 whenever the exact
value is at least `1e-290·ΣN0` — and the theorem shows where that guarantee ends: below that
magnitude the 320 digits are used up by cancellation (known finding F6).
-/
import RdVerif.Proofs.Rounding

set_option maxRecDepth 20000

namespace RdVerif.Icrp107
open RdVerif RdVerif.Gen

/-- absolute error of the high-precision evaluation -/
theorem icrp107_hp_error (t : ℝ) (ht : 0 ≤ t) (N0 : Fin N → ℝ) (hN0 : ∀ j, 0 ≤ N0 j) (i : Fin N)
    (Θ η : ℝ) (hΘ : 0 ≤ Θ) (hη : 0 ≤ η)
    (etil : Fin N → ℝ) (hetil : ∀ k, |etil k - Real.exp (-(lam k * t))| ≤ η)
    (θ : Fin N → Fin N → ℝ) (hθ : ∀ k j, |θ k j| ≤ Θ)
    (comp : ℝ)
    (hcomp : comp = ∑ j, ∑ k, C i k * etil k * Ci k j * N0 j * (1 + θ k j)) :
    |comp - RdVerif.C01.Nt N0 t i| ≤ (Θ * (1 + η) + η) * (1000 * ∑ j, N0 j) := by
  have he : ∀ k, 0 ≤ Real.exp (-(lam k * t)) ∧ Real.exp (-(lam k * t)) ≤ 1 := by
    intro k
    refine ⟨(Real.exp_pos _).le, ?_⟩
    rw [Real.exp_le_one_iff]
    have := mul_nonneg (lam_nonneg k) ht
    linarith
  have h := rounding_bound C Ci (fun k => Real.exp (-(lam k * t))) etil N0 i Θ η hΘ hη he hetil θ hθ
  rw [Nt_eq_sum, hcomp]
  refine h.trans ?_
  have hc : 0 ≤ Θ * (1 + η) + η := by positivity
  refine mul_le_mul_of_nonneg_left ?_ hc
  rw [Finset.mul_sum]
  refine Finset.sum_le_sum (fun j _ => ?_)
  rw [abs_of_nonneg (hN0 j)]
  have hK := icrp107_K i j
  have : (((aggCondBound : ℚ)) : ℝ) = 1000 := by simp [aggCondBound]
  rw [this] at hK
  exact mul_le_mul_of_nonneg_right hK (hN0 j)

/-- **relative error ≤ 1e-13** of the high-precision evaluation for every value that is at least
`1e-290` of the initial atoms, when the working precision makes `Θ(1+η)+η ≤ 1e-306` (320 digits
leave a margin of fourteen orders of magnitude) -/
theorem icrp107_hp_rel_error (t : ℝ) (ht : 0 ≤ t) (N0 : Fin N → ℝ) (hN0 : ∀ j, 0 ≤ N0 j)
    (i : Fin N) (Θ η : ℝ) (hΘ : 0 ≤ Θ) (hη : 0 ≤ η) (hsmall : Θ * (1 + η) + η ≤ 1 / 10 ^ 306)
    (etil : Fin N → ℝ) (hetil : ∀ k, |etil k - Real.exp (-(lam k * t))| ≤ η)
    (θ : Fin N → Fin N → ℝ) (hθ : ∀ k j, |θ k j| ≤ Θ)
    (comp : ℝ)
    (hcomp : comp = ∑ j, ∑ k, C i k * etil k * Ci k j * N0 j * (1 + θ k j))
    (hbig : 1 / 10 ^ 290 * ∑ j, N0 j ≤ |RdVerif.C01.Nt N0 t i|) :
    |comp - RdVerif.C01.Nt N0 t i| ≤ 1 / 10 ^ 13 * |RdVerif.C01.Nt N0 t i| := by
  have h := icrp107_hp_error t ht N0 hN0 i Θ η hΘ hη etil hetil θ hθ comp hcomp
  have hs : 0 ≤ ∑ j, N0 j := Finset.sum_nonneg (fun j _ => hN0 j)
  have h1 : (Θ * (1 + η) + η) * (1000 * ∑ j, N0 j) ≤ 1 / 10 ^ 306 * (1000 * ∑ j, N0 j) :=
    mul_le_mul_of_nonneg_right hsmall (by positivity)
  have e : (10 : ℝ) ^ 306 = 10 ^ 290 * 10 ^ 13 * 1000 := by
    rw [show (306 : ℕ) = 290 + 13 + 3 by norm_num, pow_add, pow_add]; norm_num
  have h2 : (1 : ℝ) / 10 ^ 306 * (1000 * ∑ j, N0 j) = 1 / 10 ^ 13 * (1 / 10 ^ 290 * ∑ j, N0 j) := by
    rw [e]
    have h290 : (10 : ℝ) ^ 290 ≠ 0 := by positivity
    field_simp
  calc |comp - RdVerif.C01.Nt N0 t i| ≤ (Θ * (1 + η) + η) * (1000 * ∑ j, N0 j) := h
    _ ≤ 1 / 10 ^ 306 * (1000 * ∑ j, N0 j) := h1
    _ = 1 / 10 ^ 13 * (1 / 10 ^ 290 * ∑ j, N0 j) := h2
    _ ≤ 1 / 10 ^ 13 * |RdVerif.C01.Nt N0 t i| := by
        exact mul_le_mul_of_nonneg_left hbig (by positivity)

end RdVerif.Icrp107
