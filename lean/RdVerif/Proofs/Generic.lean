/-
Proofs/Generic.lean — the dataset-level theorems for EVERY dataset that passes the executable
well-formedness predicate `wellFormedB` (`Model/WellFormed.lean`), not only the shipped one:
C01 (the closed form is the unique solution of the decay equations assembled from the listed
rates / branching fractions; sound oracle; nuclide set = closure under progeny), C03 (cumulative
decays = integrated activity, atom balance, sound oracle) and C07 (linear, time-additive flow).

The shipped-dataset versions (`Proofs/Icrp107*.lean`, `Props/C01|C03|C07.lean`) combine generic
checker-soundness lemmas with kernel-evaluated facts `w1_all … w5_all`; here the latter are
replaced by the components of the hypothesis `wellFormedB ds = true`.
-/
import RdVerif.Model.WellFormed
import RdVerif.Proofs.Cumulative
import RdVerif.Proofs.OracleCum
import RdVerif.Proofs.NuclideSet

open Matrix

set_option maxRecDepth 20000

namespace RdVerif.Generic
open RdVerif

/-! ### unpacking the executable predicate -/

theorem allBlocks_spec {α} (L : List (List α)) (f : ℕ → Bool) (h : allBlocks L f = true) :
    ∀ b < L.length, f b = true := by
  intro b hb
  unfold allBlocks at h
  exact List.all_eq_true.mp h b (List.mem_range.mpr hb)

/-- a two-level lookup returns the default or a member of one of the blocks -/
theorem get2_default_or_mem {α} (L : List (List α)) (k : ℕ) (d : α) :
    get2 L k d = d ∨ ∃ blk ∈ L, get2 L k d ∈ blk := by
  unfold get2
  rw [List.getD_eq_getElem?_getD, List.getD_eq_getElem?_getD]
  cases hb : L[k / blockSize]? with
  | none => left; simp
  | some blk =>
    simp only [Option.getD_some]
    cases hx : blk[k % blockSize]? with
    | none => left; simp
    | some x =>
      right
      exact ⟨blk, List.mem_of_getElem? hb, by simpa using List.mem_of_getElem? hx⟩

theorem ratesNonneg_spec (rate : Rates) (h : ratesNonneg rate = true) (i : ℕ) :
    0 ≤ get2 rate i 0 := by
  rcases get2_default_or_mem rate i 0 with h0 | ⟨blk, hblk, hmem⟩
  · rw [h0]
  · unfold ratesNonneg at h
    have h1 := List.all_eq_true.mp h blk hblk
    have h2 := List.all_eq_true.mp h1 _ hmem
    exact of_decide_eq_true h2

/-- the content of `wellFormedB ds = true`, verdict by verdict -/
structure WF (ds : Dataset) : Prop where
  shape_cx : blocksShapeOk ds.cx ds.n = true
  shape_cix : blocksShapeOk ds.cix ds.n = true
  shape_names : blocksShapeOk ds.names ds.n = true
  shape_hl : blocksShapeOk ds.hl ds.n = true
  shape_links : blocksShapeOk ds.links ds.n = true
  shape_parents : blocksShapeOk ds.parents ds.n = true
  shape_rate : blocksShapeOk ds.rate ds.n = true
  shape_cf : blocksShapeOk ds.cf ds.n = true
  shape_cif : blocksShapeOk ds.cif ds.n = true
  w1 : ∀ b < ds.cx.length, checkInvBlock ds.cx ds.cix b = true
  w2 : ∀ b < ds.cx.length, checkDiagBlock ds.cx ds.rate ds.parents b = true
  w3 : ∀ b < ds.hl.length, checkRatesBlock ds b = true
  w6 : ∀ b < ds.cx.length, checkStableBlock ds.cx ds.rate b = true
  w47 : ∀ b < ds.links.length, checkLinksBlock ds b = true
  wparL : ∀ b < ds.links.length, checkParentsBlock ds b = true
  wparP : ∀ b < ds.parents.length, checkParentsBlock ds b = true
  w5 : ∀ b < ds.cx.length, checkPatternBlock ds b = true
  rates : ∀ i, 0 ≤ get2 ds.rate i 0

theorem wf_of_wellFormedB (ds : Dataset) (h : wellFormedB ds = true) : WF ds := by
  unfold wellFormedB wfVerdicts at h
  simp only [List.all_cons, List.all_nil, Bool.and_eq_true, Bool.and_true] at h
  obtain ⟨⟨⟨⟨⟨⟨⟨⟨⟨s1, s2⟩, s3⟩, s4⟩, s5⟩, s6⟩, s7⟩, s8⟩, s9⟩, h1, h2, h3, h6, h47, ⟨hpL, hpP⟩, h5,
    hr⟩ := h
  exact
    { shape_cx := s1, shape_cix := s2, shape_names := s3, shape_hl := s4, shape_links := s5,
      shape_parents := s6, shape_rate := s7, shape_cf := s8, shape_cif := s9,
      w1 := allBlocks_spec _ _ h1, w2 := allBlocks_spec _ _ h2, w3 := allBlocks_spec _ _ h3,
      w6 := allBlocks_spec _ _ h6, w47 := allBlocks_spec _ _ h47,
      wparL := allBlocks_spec _ _ hpL, wparP := allBlocks_spec _ _ hpP,
      w5 := allBlocks_spec _ _ h5, rates := ratesNonneg_spec ds.rate hr }

/-! ### the real objects a dataset denotes -/

/-- the exact eigenvector matrix, its inverse over ℝ -/
noncomputable def C (ds : Dataset) : Matrix (Fin ds.n) (Fin ds.n) ℝ := toMat ds.n ds.cx
noncomputable def Ci (ds : Dataset) : Matrix (Fin ds.n) (Fin ds.n) ℝ := toMat ds.n ds.cix
/-- decay constants λ_i = r_i · ln 2 -/
noncomputable def lam (ds : Dataset) : Fin ds.n → ℝ :=
  fun i => Real.log 2 * rateVec ds.n ds.rate i
/-- the matrix of the decay ODE system dN/dt = L N -/
noncomputable def L (ds : Dataset) : Matrix (Fin ds.n) (Fin ds.n) ℝ :=
  Real.log 2 • rMat ds.n ds.rate ds.parents
/-- the matrix of branching fractions: `B i j` = listed fraction of decays of `j` producing `i` -/
noncomputable def Bm (ds : Dataset) : Matrix (Fin ds.n) (Fin ds.n) ℝ := fun i j =>
  (((get2 ds.parents i.val []).filter (fun p => p.1 = j.val)).map
    (fun p => ((p.2 : ℚ) : ℝ))).sum
/-- the inventory after time `t` as the closed form gives it: `C · diag(e^{−λ t}) · C⁻¹ · N(0)` -/
noncomputable def Nt (ds : Dataset) (N0 : Fin ds.n → ℝ) (t : ℝ) : Fin ds.n → ℝ :=
  Bateman.sol (C ds) (Ci ds) (lam ds) N0 t
/-- cumulative decays as the library evaluates them (exact arithmetic) -/
noncomputable def Dt (ds : Dataset) (N0 : Fin ds.n → ℝ) (t : ℝ) : Fin ds.n → ℝ :=
  Bateman.cum (C ds) (Ci ds) (lam ds) N0 t

/-! ### matrix identities from the verdicts -/

theorem C_mul_Ci {ds : Dataset} (w : WF ds) : C ds * Ci ds = 1 :=
  checkInv_sound ds.n ds.cx ds.cix w.shape_cx w.w1

theorem R_diag {ds : Dataset} (w : WF ds) :
    rMat ds.n ds.rate ds.parents * C ds
      = C ds * Matrix.diagonal (fun j => -(rateVec ds.n ds.rate j)) :=
  checkDiag_sound ds.n ds.cx ds.rate ds.parents w.shape_cx w.w2

theorem L_diag {ds : Dataset} (w : WF ds) :
    L ds * C ds = C ds * Matrix.diagonal (fun i => -lam ds i) := by
  have h := R_diag w
  unfold L lam
  rw [Matrix.smul_mul, h]
  ext i j
  simp only [Matrix.smul_apply, Matrix.mul_apply, Matrix.diagonal_apply, smul_eq_mul]
  rw [Finset.mul_sum]
  refine Finset.sum_congr rfl fun k _ => ?_
  split_ifs <;> ring

/-- the ODE matrix is `(B − I)·diag(λ)`: loss at rate λ_j, gain `B i j · λ_j` for each listed
link (holds for every dataset) -/
theorem L_apply (ds : Dataset) (i j : Fin ds.n) :
    L ds i j = (Bm ds i j - if i = j then 1 else 0) * lam ds j := by
  show Real.log 2 * rMat ds.n ds.rate ds.parents i j = _
  unfold rMat Bm lam
  have hs : (List.map (fun p : ℕ × ℚ => ((p.2 : ℚ) : ℝ) * rateVec ds.n ds.rate j)
        (List.filter (fun p => decide (p.1 = j.val)) (get2 ds.parents i.val []))).sum =
      (List.map (fun p : ℕ × ℚ => ((p.2 : ℚ) : ℝ))
        (List.filter (fun p => decide (p.1 = j.val)) (get2 ds.parents i.val []))).sum *
        rateVec ds.n ds.rate j := by
    rw [← List.sum_map_mul_right]
  rw [hs]
  split_ifs <;> ring

theorem lam_eq_zero_iff (ds : Dataset) (k : Fin ds.n) :
    lam ds k = 0 ↔ get2 ds.rate k.val 0 = 0 := by
  unfold lam rateVec
  constructor
  · intro h
    rcases mul_eq_zero.mp h with h | h
    · exact absurd h Icrp107.log_two_ne_zero
    · exact_mod_cast h
  · intro h
    rw [h]; simp

/-- **W6 over ℝ**: a stable nuclide feeds nothing -/
theorem stable_feeds_nothing {ds : Dataset} (w : WF ds) (i k : Fin ds.n) (hk : lam ds k = 0)
    (hne : k ≠ i) : C ds i k = 0 := by
  have hrow := rows_checked (stableColsOk ds.rate) ds.cx ds.n w.shape_cx w.w6 i.val i.isLt
  have hr : get2 ds.rate k.val 0 = 0 := (lam_eq_zero_iff ds k).mp hk
  unfold C toMat
  have : (getRow ds.cx i.val).den k.val = 0 := by
    apply Icrp107.den_eq_zero_of_not_mem
    intro e he hcol
    have h1 := (List.all_eq_true.mp hrow) e he
    simp only [Bool.or_eq_true, beq_iff_eq, bne_iff_ne, ne_eq] at h1
    rcases h1 with h1 | h1
    · exact hne (Fin.ext (by rw [← hcol, h1]))
    · rw [hcol] at h1; exact h1 hr
  rw [this]; simp

/-! ### row facts -/

theorem rowInv {ds : Dataset} (w : WF ds) (i : ℕ) (hi : i < ds.n) :
    checkRowInv ds.cix i (getRow ds.cx i) = true :=
  rows_checked (checkRowInv ds.cix) ds.cx ds.n w.shape_cx w.w1 i hi

theorem rowDiag {ds : Dataset} (w : WF ds) (i : ℕ) (hi : i < ds.n) :
    checkRowDiag ds.cx ds.rate ds.parents i (getRow ds.cx i) = true :=
  rows_checked (checkRowDiag ds.cx ds.rate ds.parents) ds.cx ds.n w.shape_cx w.w2 i hi

theorem rowPattern {ds : Dataset} (w : WF ds) (i : ℕ) (hi : i < ds.n) :
    patternOk ds i (getRow ds.cx i) = true :=
  items_checked (patternOk ds) ds.cx ds.n [] w.shape_cx w.w5 i hi

theorem cols_lt {ds : Dataset} (w : WF ds) : ∀ i < ds.n,
    (∀ e ∈ getRow ds.cx i, e.col < ds.n) ∧ (∀ e ∈ getRow ds.cix i, e.col < ds.n) := by
  intro i hi
  have hcx : ∀ e ∈ getRow ds.cx i, e.col < ds.n := fun e he =>
    lt_of_le_of_lt ((checkRowInv_spec (rowInv w i hi)).1 e he) hi
  refine ⟨hcx, ?_⟩
  intro e he
  obtain ⟨hc, _⟩ := Icrp107.patternOk_spec ds i _ (rowPattern w i hi)
  have hm : e.col ∈ colsOf (getRow ds.cx i) := by
    rw [← hc]; exact List.mem_map.2 ⟨e, he, rfl⟩
  obtain ⟨e', he', hcol⟩ := List.mem_map.1 hm
  rw [← hcol]; exact hcx e' he'

/-- parents are stored first -/
theorem parents_lt {ds : Dataset} (w : WF ds) :
    ∀ i < ds.n, ∀ p ∈ get2 ds.parents i [], p.1 < i :=
  fun i hi => (checkRowDiag_spec (rowDiag w i hi)).1

/-! ### C01 -/

/-- **C01 for every well-formed dataset**: the closed form satisfies the initial condition and
the decay differential equations `dN/dt = L·N` at every real time, and it is the only function
that does -/
theorem exact_solution (ds : Dataset) (h : wellFormedB ds = true) (N0 : Fin ds.n → ℝ) :
    Nt ds N0 0 = N0 ∧ (∀ t, HasDerivAt (Nt ds N0) ((L ds).mulVec (Nt ds N0 t)) t) ∧
    (∀ f : ℝ → Fin ds.n → ℝ, f 0 = N0 → (∀ t, HasDerivAt f ((L ds).mulVec (f t)) t) →
      f = Nt ds N0) := by
  have w := wf_of_wellFormedB ds h
  have hz : Nt ds N0 0 = N0 := Bateman.sol_zero (C ds) (Ci ds) (lam ds) N0 (C_mul_Ci w)
  have hd : ∀ t, HasDerivAt (Nt ds N0) ((L ds).mulVec (Nt ds N0 t)) t :=
    fun t => Bateman.sol_deriv (C ds) (Ci ds) (L ds) (lam ds) N0 (L_diag w) t
  refine ⟨hz, hd, ?_⟩
  intro f h0 hf
  exact Bateman.sol_unique (L ds) f (Nt ds N0) hf hd (by rw [h0]; exact hz.symm)

/-- componentwise closed form (every dataset) -/
theorem closed_form (ds : Dataset) (N0 : Fin ds.n → ℝ) (t : ℝ) (i : Fin ds.n) :
    Nt ds N0 t i
      = ∑ k, C ds i k * Real.exp (-lam ds k * t) * (∑ j, Ci ds k j * N0 j) :=
  Bateman.sol_apply' (C ds) (Ci ds) (lam ds) N0 t i

/-- a stable nuclide has decay constant exactly 0 and feeds no other nuclide -/
theorem stable (ds : Dataset) (h : wellFormedB ds = true) (k : Fin ds.n)
    (hk : get2 ds.rate k.val 0 = 0) : lam ds k = 0 ∧ ∀ i, i ≠ k → C ds i k = 0 :=
  have w := wf_of_wellFormedB ds h
  ⟨(lam_eq_zero_iff ds k).mpr hk,
    fun i hi => stable_feeds_nothing w i k ((lam_eq_zero_iff ds k).mpr hk) (Ne.symm hi)⟩

/-- decay constants are non-negative -/
theorem lam_nonneg (ds : Dataset) (h : wellFormedB ds = true) (k : Fin ds.n) : 0 ≤ lam ds k := by
  have w := wf_of_wellFormedB ds h
  unfold lam rateVec
  have h1 : (0 : ℝ) ≤ ((get2 ds.rate k.val 0 : ℚ) : ℝ) := by exact_mod_cast w.rates k.val
  exact mul_nonneg (Real.log_nonneg (by norm_num)) h1

theorem Nt_eq_solReal {ds : Dataset} (w : WF ds) (v : N0) (t : ℝ) (i : ℕ) (hi : i < ds.n) :
    Nt ds (N0vec ds.n v) t ⟨i, hi⟩ = solReal ds v t i := by
  rw [closed_form,
    solReal_eq_closed_form ds v t ds.n (fun i hi => (cols_lt w i hi).1)
      (fun i hi => (cols_lt w i hi).2) i hi]
  refine Finset.sum_congr rfl (fun k _ => ?_)
  have e : -lam ds k * t = -(rateVec ds.n ds.rate k * Real.log 2) * t := by
    unfold lam; ring
  rw [e]
  rfl

/-- **the interval oracle encloses the exact solution** of every well-formed dataset -/
theorem oracle_sound (ds : Dataset) (h : wellFormedB ds = true) (cfg : EvalCfg) (v : N0) (t : ℚ)
    (i : ℕ) (hi : i < ds.n) (ht : 0 ≤ t)
    (hln2 : (cfg.ln2.1 : ℝ) ≤ Real.log 2 ∧ Real.log 2 ≤ (cfg.ln2.2 : ℝ)) :
    ((solEncl ds cfg v t i).1 : ℝ) ≤ Nt ds (N0vec ds.n v) (t : ℝ) ⟨i, hi⟩ ∧
    Nt ds (N0vec ds.n v) (t : ℝ) ⟨i, hi⟩ ≤ ((solEncl ds cfg v t i).2 : ℝ) := by
  have w := wf_of_wellFormedB ds h
  rw [Nt_eq_solReal w]
  exact solEncl_sound ds cfg v t i ht (fun p _ => w.rates p.1) hln2

/-! ### C03 -/

/-- **cumulative decays = ∫₀ᵗ activity** under the exact solution -/
theorem cum_integral (ds : Dataset) (h : wellFormedB ds = true) (N0 : Fin ds.n → ℝ)
    (i : Fin ds.n) (t : ℝ) : Dt ds N0 t i = ∫ s in (0 : ℝ)..t, lam ds i * Nt ds N0 s i :=
  Bateman.cum_eq_integral (C ds) (Ci ds) (lam ds) N0
    (stable_feeds_nothing (wf_of_wellFormedB ds h)) i t

/-- a stable nuclide has no decays (every dataset) -/
theorem cum_stable (ds : Dataset) (N0 : Fin ds.n → ℝ) (i : Fin ds.n) (t : ℝ)
    (hi : lam ds i = 0) : Dt ds N0 t i = 0 :=
  Bateman.cum_stable (C ds) (Ci ds) (lam ds) N0 t i hi

/-- **atom balance**: `N_i(t) − N_i(0) = −D_i(t) + Σ_j B_ij·D_j(t)` -/
theorem atom_balance (ds : Dataset) (h : wellFormedB ds = true) (N0 : Fin ds.n → ℝ) (t : ℝ)
    (i : Fin ds.n) :
    Nt ds N0 t i - N0 i = - Dt ds N0 t i + ∑ j, Bm ds i j * Dt ds N0 t j :=
  have w := wf_of_wellFormedB ds h
  Bateman.atom_balance (C ds) (Ci ds) (L ds) (Bm ds) (lam ds) N0 (C_mul_Ci w) (L_diag w)
    (L_apply ds) (stable_feeds_nothing w) t i

theorem Dt_eq_cumReal {ds : Dataset} (w : WF ds) (v : N0) (t : ℝ) (i : ℕ) (hi : i < ds.n) :
    Dt ds (N0vec ds.n v) t ⟨i, hi⟩ = cumReal ds v t i := by
  rw [cumReal_eq_closed_form ds v t ds.n (fun i hi => (cols_lt w i hi).1)
      (fun i hi => (cols_lt w i hi).2) i hi]
  unfold Dt
  rw [Bateman.cum_apply]
  rfl

/-- **the cumulative oracle encloses the exact cumulative decays** -/
theorem cum_oracle_sound (ds : Dataset) (h : wellFormedB ds = true) (cfg : EvalCfg) (v : N0)
    (t : ℚ) (i : ℕ) (hi : i < ds.n) (ht : 0 ≤ t)
    (hln2 : (cfg.ln2.1 : ℝ) ≤ Real.log 2 ∧ Real.log 2 ≤ (cfg.ln2.2 : ℝ)) :
    ((cumEncl ds cfg v t i).1 : ℝ) ≤ Dt ds (N0vec ds.n v) (t : ℝ) ⟨i, hi⟩ ∧
    Dt ds (N0vec ds.n v) (t : ℝ) ⟨i, hi⟩ ≤ ((cumEncl ds cfg v t i).2 : ℝ) := by
  have w := wf_of_wellFormedB ds h
  rw [Dt_eq_cumReal w]
  exact cumEncl_sound ds cfg v t i ht (fun p _ => w.rates p.1) hln2

/-! ### C07 -/

/-- decaying for `t₁` and then `t₂` = decaying once for `t₁ + t₂` -/
theorem flow_add (ds : Dataset) (h : wellFormedB ds = true) (N0 : Fin ds.n → ℝ) (t₁ t₂ : ℝ) :
    Nt ds (Nt ds N0 t₁) t₂ = Nt ds N0 (t₁ + t₂) :=
  Bateman.flow_add (C ds) (Ci ds) (lam ds) N0 (C_mul_Ci (wf_of_wellFormedB ds h)) t₁ t₂

/-- decaying for zero time changes nothing -/
theorem flow_zero (ds : Dataset) (h : wellFormedB ds = true) (N0 : Fin ds.n → ℝ) :
    Nt ds N0 0 = N0 :=
  Bateman.sol_zero (C ds) (Ci ds) (lam ds) N0 (C_mul_Ci (wf_of_wellFormedB ds h))

/-- decay of a scaled sum = scaled sum of the decays (every dataset) -/
theorem flow_linear (ds : Dataset) (X Y : Fin ds.n → ℝ) (a t : ℝ) :
    Nt ds (a • X + Y) t = a • Nt ds X t + Nt ds Y t :=
  Bateman.flow_linear (C ds) (Ci ds) (lam ds) X Y a t

/-- splitting a decay time into any number of pieces does not matter -/
theorem flow_split (ds : Dataset) (h : wellFormedB ds = true) (N0 : Fin ds.n → ℝ)
    (ts : List ℝ) : ts.foldl (fun v t => Nt ds v t) N0 = Nt ds N0 ts.sum := by
  induction ts generalizing N0 with
  | nil => simp [flow_zero ds h]
  | cons t ts ih => simp only [List.foldl_cons, List.sum_cons]; rw [ih, flow_add ds h]

/-! ### C01 nuclide set -/

/-- the stored pattern of every row of `C` is the nuclide and its ancestors -/
theorem cols_iff (ds : Dataset) (h : wellFormedB ds = true) (i : ℕ) (hi : i < ds.n) (j : ℕ) :
    j ∈ colsOf (getRow ds.cx i) ↔ AncOrSelf ds j i :=
  have w := wf_of_wellFormedB ds h
  cols_iff_ancOrSelf ds ds.n (rowPattern w) (parents_lt w) i hi j

/-- **the decayed inventory holds exactly the input nuclides and all their direct and indirect
progeny** -/
theorem nuclide_set (ds : Dataset) (h : wellFormedB ds = true) (inputs : List ℕ) (i : ℕ) :
    i ∈ decayIndices ds inputs ↔ i < ds.n ∧ ∃ j ∈ inputs, AncOrSelf ds j i := by
  have w := wf_of_wellFormedB ds h
  unfold decayIndices
  rw [List.mem_filter, List.mem_range]
  refine and_congr_right (fun hi => ?_)
  have hf : fcolsOf (get2 ds.cf i []) = colsOf (getRow ds.cx i) :=
    (Icrp107.patternOk_spec ds i _ (rowPattern w i hi)).2.1
  rw [List.any_eq_true]
  constructor
  · rintro ⟨x, hx, hc⟩
    have hin : x.col ∈ inputs := by simpa using hc
    refine ⟨x.col, hin, (cols_iff ds h i hi x.col).1 ?_⟩
    rw [← hf]
    exact List.mem_map.2 ⟨x, hx, rfl⟩
  · rintro ⟨j, hj, ha⟩
    have hm : j ∈ fcolsOf (get2 ds.cf i []) := by
      rw [hf]; exact (cols_iff ds h i hi j).2 ha
    obtain ⟨x, hx, rfl⟩ := List.mem_map.1 hm
    exact ⟨x, hx, by simpa using hj⟩

/-! ### non-vacuity: a two-nuclide dataset H-3 → He-3 (stable) passes `wellFormedB` -/

/-- `H-3 → He-3` with half-life 1 s: `C = [[1,0],[−1,1]]`, `C⁻¹ = [[1,0],[1,1]]` -/
def tiny : Dataset where
  n := 2
  names := [[[72, 45, 51], [72, 101, 45, 51]]]
  hl := [[HL.mk (some (mkRat 1 1)) 4607182418800017408 "s" "1 s", HL.mk none 0 "s" "stable"]]
  links := [[[Link.mk (some 1) [72, 101, 45, 51] (mkRat 1 1) 4607182418800017408 "β-"], []]]
  parents := [[[], [(0, mkRat 1 1)]]]
  yearX := mkRat 1461 4
  yearF := mkRat 1461 4
  rate := [[mkRat 1 1, mkRat 0 1]]
  massX := [[(mkRat 3 1, mkRat 3 1), (mkRat 3 1, mkRat 3 1)]]
  cx := [[[⟨0, 1, 1⟩], [⟨0, -1, 1⟩, ⟨1, 1, 1⟩]]]
  cix := [[[⟨0, 1, 1⟩], [⟨0, 1, 1⟩, ⟨1, 1, 1⟩]]]
  lamF := [[mkRat 1 1, mkRat 0 1]]
  massF := [[mkRat 3 1, mkRat 3 1]]
  cf := [[[⟨0, 1, 0⟩], [⟨0, -1, 0⟩, ⟨1, 1, 0⟩]]]
  cif := [[[⟨0, 1, 0⟩], [⟨0, 1, 0⟩, ⟨1, 1, 0⟩]]]

theorem tiny_wellFormed : wellFormedB tiny = true := by decide +kernel

/-- the hypothesis is satisfiable, so the theorems above are not vacuous; and the decay system
of `tiny` is not trivial (H-3 decays) -/
example (N0 : Fin tiny.n → ℝ) (t₁ t₂ : ℝ) :
    Nt tiny (Nt tiny N0 t₁) t₂ = Nt tiny N0 (t₁ + t₂) := flow_add tiny tiny_wellFormed N0 t₁ t₂

example : get2 tiny.rate 0 0 ≠ 0 := by decide +kernel

end RdVerif.Generic
