/-
Proofs/ErrorBound.lean — the *data* error of the double-precision matrices and decay constants
contributes at most 5e-12 of the initial atoms to any decay result.

Part A: pure analysis (perturbation of `exp(−x)`, error of a weighted sum).
Part B: what the kernel-checked Boolean `aggRowOk` means (per-column totals are bounded).
Part C: the combination for abstract data, and the numeric corollary.
-/
import RdVerif.Proofs.Sparse
import RdVerif.Model.Dataset
import RdVerif.Proofs.Interval
import RdVerif.Model.DatasetBounds

open RdVerif

namespace RdVerif

/-! ### Part A: analysis -/

/-- for `u ≤ w`: `0 ≤ e^{-u} − e^{-w} ≤ (w − u) e^{-u}` -/
theorem exp_neg_sub_le (u w : ℝ) (h : u ≤ w) :
    0 ≤ Real.exp (-u) - Real.exp (-w) ∧
      Real.exp (-u) - Real.exp (-w) ≤ (w - u) * Real.exp (-u) := by
  have hu := Real.exp_pos (-u)
  have e : Real.exp (-w) = Real.exp (-u) * Real.exp (-(w - u)) := by
    rw [← Real.exp_add]; congr 1; ring
  have h1 : -(w - u) + 1 ≤ Real.exp (-(w - u)) := Real.add_one_le_exp _
  have h2 : Real.exp (-(w - u)) ≤ 1 := by
    rw [Real.exp_le_one_iff]; linarith
  rw [e]
  constructor
  · nlinarith
  · nlinarith

/-- `y e^{-y} ≤ e^{-1} ≤ 1/2` -/
theorem mul_exp_neg_le_half (y : ℝ) : y * Real.exp (-y) ≤ 1 / 2 := by
  have h1 : y ≤ Real.exp (y - 1) := by linarith [Real.add_one_le_exp (y - 1)]
  have h2 : Real.exp (y - 1) * Real.exp (-y) = Real.exp (-1) := by
    rw [← Real.exp_add]; congr 1; ring
  have h3 := (Real.exp_pos (-y)).le
  have h4 : Real.exp (-1) ≤ 1 / 2 := by
    rw [Real.exp_neg, one_div]
    exact inv_anti₀ (by norm_num) (by linarith [Real.add_one_le_exp (1 : ℝ)])
  calc y * Real.exp (-y) ≤ Real.exp (y - 1) * Real.exp (-y) := mul_le_mul_of_nonneg_right h1 h3
    _ = Real.exp (-1) := h2
    _ ≤ 1 / 2 := h4

/-- perturbation of `exp(−x)` under a relative perturbation of `x` (sharp form, the constant
`1/2` stands for `1/e`) -/
theorem exp_perturb_abs_sharp (x xhat ρ : ℝ) (hx : 0 ≤ x) (hρ : 0 ≤ ρ) (hρ1 : ρ < 1)
    (h : |xhat - x| ≤ ρ * x) :
    |Real.exp (-xhat) - Real.exp (-x)| ≤ ρ / (2 * (1 - ρ)) := by
  have h1ρ : 0 < 2 * (1 - ρ) := by linarith
  obtain ⟨hlo, hhi⟩ := abs_le.1 h
  -- common bound `ρ x e^{-x(1-ρ)}`
  have hy : ρ * x * Real.exp (-(x * (1 - ρ))) ≤ ρ / (2 * (1 - ρ)) := by
    rw [le_div_iff₀ h1ρ]
    have := mul_exp_neg_le_half (x * (1 - ρ))
    calc ρ * x * Real.exp (-(x * (1 - ρ))) * (2 * (1 - ρ))
        = ρ * (2 * (x * (1 - ρ) * Real.exp (-(x * (1 - ρ))))) := by ring
      _ ≤ ρ * 1 := mul_le_mul_of_nonneg_left (by linarith) hρ
      _ = ρ := mul_one ρ
  have hρx : 0 ≤ ρ * x := mul_nonneg hρ hx
  refine le_trans ?_ hy
  rcases le_total x xhat with hc | hc
  · -- x ≤ xhat
    obtain ⟨a0, a1⟩ := exp_neg_sub_le x xhat hc
    rw [abs_sub_comm, abs_of_nonneg a0]
    have hmono : Real.exp (-x) ≤ Real.exp (-(x * (1 - ρ))) := by
      rw [Real.exp_le_exp]; nlinarith
    calc Real.exp (-x) - Real.exp (-xhat) ≤ (xhat - x) * Real.exp (-x) := a1
      _ ≤ (ρ * x) * Real.exp (-x) :=
          mul_le_mul_of_nonneg_right hhi (Real.exp_pos _).le
      _ ≤ (ρ * x) * Real.exp (-(x * (1 - ρ))) := mul_le_mul_of_nonneg_left hmono hρx
  · -- xhat ≤ x
    obtain ⟨a0, a1⟩ := exp_neg_sub_le xhat x hc
    rw [abs_of_nonneg a0]
    have hmono : Real.exp (-xhat) ≤ Real.exp (-(x * (1 - ρ))) := by
      rw [Real.exp_le_exp]; nlinarith
    calc Real.exp (-xhat) - Real.exp (-x) ≤ (x - xhat) * Real.exp (-xhat) := a1
      _ ≤ (ρ * x) * Real.exp (-xhat) :=
          mul_le_mul_of_nonneg_right (by linarith) (Real.exp_pos _).le
      _ ≤ (ρ * x) * Real.exp (-(x * (1 - ρ))) := mul_le_mul_of_nonneg_left hmono hρx

theorem half_delta_le (ρ : ℝ) (hρ : 0 ≤ ρ) (hρ1 : ρ < 1) :
    0 ≤ ρ / (2 * (1 - ρ)) ∧ ρ / (2 * (1 - ρ)) ≤ ρ / (1 - ρ) := by
  have h1 : 0 < 1 - ρ := by linarith
  have h2 : 0 ≤ ρ / (1 - ρ) := div_nonneg hρ h1.le
  have e : ρ / (2 * (1 - ρ)) = ρ / (1 - ρ) / 2 := by rw [mul_comm, div_div]
  rw [e]
  exact ⟨by linarith, by linarith⟩

/-- perturbation of `exp(−x)` under a relative perturbation of `x` (division-free form) -/
theorem exp_perturb_abs (x xhat ρ : ℝ) (hx : 0 ≤ x) (hρ : 0 ≤ ρ) (hρ1 : ρ < 1)
    (h : |xhat - x| ≤ ρ * x) : |Real.exp (-xhat) - Real.exp (-x)| ≤ ρ / (1 - ρ) :=
  (exp_perturb_abs_sharp x xhat ρ hx hρ hρ1 h).trans (half_delta_le ρ hρ hρ1).2

/-- **A1** -/
theorem exp_perturb (x ρ ε : ℝ) (hx : 0 ≤ x) (hρ : 0 ≤ ρ) (hρ1 : ρ < 1) (hε : |ε| ≤ ρ) :
    |Real.exp (-(x * (1 + ε))) - Real.exp (-x)| ≤ ρ / (1 - ρ) := by
  apply exp_perturb_abs x (x * (1 + ε)) ρ hx hρ hρ1
  have : x * (1 + ε) - x = x * ε := by ring
  rw [this, abs_mul, abs_of_nonneg hx, mul_comm]
  exact mul_le_mul_of_nonneg_right hε hx

/-- **A2** -/
theorem sum_error_bound {ι} (s : Finset ι) (a ahat e ehat : ι → ℝ) (δ : ℝ)
    (he : ∀ k ∈ s, 0 ≤ e k ∧ e k ≤ 1) (hd : ∀ k ∈ s, |ehat k - e k| ≤ δ) :
    |∑ k ∈ s, ahat k * ehat k - ∑ k ∈ s, a k * e k|
      ≤ ∑ k ∈ s, |ahat k - a k| + (∑ k ∈ s, |ahat k|) * δ := by
  rw [← Finset.sum_sub_distrib, Finset.sum_mul, ← Finset.sum_add_distrib]
  refine (Finset.abs_sum_le_sum_abs _ _).trans (Finset.sum_le_sum ?_)
  intro k hk
  obtain ⟨e0, e1⟩ := he k hk
  have hsplit : ahat k * ehat k - a k * e k = (ahat k - a k) * e k + ahat k * (ehat k - e k) := by
    ring
  rw [hsplit]
  refine (abs_add_le _ _).trans (add_le_add ?_ ?_)
  · rw [abs_mul, abs_of_nonneg e0]
    exact mul_le_of_le_one_right (abs_nonneg _) e1
  · rw [abs_mul]
    exact mul_le_mul_of_nonneg_left (hd k hk) (abs_nonneg _)

/-! ### Part B: meaning of `aggRowOk` -/

theorem ratAbs_eq_abs (q : ℚ) : ratAbs q = |q| := by
  unfold ratAbs
  split
  · rename_i h; rw [abs_of_neg h]
  · rename_i h; rw [abs_of_nonneg (not_lt.1 h)]

/-- strictly increasing keys -/
def Acc.keysSorted (a : Acc) : Prop := a.Pairwise (fun p q => p.1 < q.1)

theorem Row.sorted_cons {e : E} {r : Row} (h : Row.sorted (e :: r) = true) :
    Row.sorted r = true ∧ ∀ f ∈ r, e.col < f.col := by
  induction r generalizing e with
  | nil => simp [Row.sorted]
  | cons f r ih =>
    simp only [Row.sorted, Bool.and_eq_true, decide_eq_true_eq] at h
    obtain ⟨hef, hs⟩ := h
    refine ⟨hs, ?_⟩
    intro g hg
    rcases List.mem_cons.1 hg with rfl | hg
    · exact hef
    · exact lt_trans hef ((ih hs).2 g hg)

theorem Row.sorted_pairwise (r : Row) (h : Row.sorted r = true) :
    r.Pairwise (fun e f => e.col < f.col) := by
  induction r with
  | nil => exact List.Pairwise.nil
  | cons e r ih =>
    obtain ⟨hs, hlt⟩ := Row.sorted_cons h
    exact List.pairwise_cons.2 ⟨hlt, ih hs⟩

/-- sortedness only depends on the column pattern (so `patternOk` gives it for rows of `cix`) -/
theorem Row.sorted_of_colsOf_eq (r r' : Row) (hc : colsOf r' = colsOf r)
    (h : Row.sorted r = true) : Row.sorted r' = true := by
  induction r generalizing r' with
  | nil =>
    cases r' with
    | nil => rfl
    | cons _ _ => simp [colsOf] at hc
  | cons e r ih =>
    cases r' with
    | nil => simp [colsOf] at hc
    | cons e' r' =>
      simp only [colsOf, List.map_cons, List.cons.injEq] at hc
      obtain ⟨hc1, hc2⟩ := hc
      obtain ⟨hs, hlt⟩ := Row.sorted_cons h
      have ih' := ih r' hc2 hs
      cases r' with
      | nil => simp [Row.sorted]
      | cons f' r'' =>
        cases r with
        | nil => simp at hc2
        | cons f r2 =>
          simp only [List.map_cons, List.cons.injEq] at hc2
          simp only [Row.sorted, Bool.and_eq_true, decide_eq_true_eq]
          refine ⟨?_, ih'⟩
          rw [hc1, hc2.1]
          exact hlt f (by simp)

/-! #### `mergeAdd` -/

theorem mergeAdd_tot (f : ℕ) (ts acc : Acc) (hf : ts.length + acc.length ≤ f) (j : ℕ) :
    (mergeAdd f ts acc).tot j = acc.tot j + ts.tot j := by
  induction f generalizing ts acc with
  | zero =>
    have : ts = [] := List.length_eq_zero_iff.1 (by omega)
    subst this
    simp [mergeAdd, Acc.tot]
  | succ f ih =>
    cases ts with
    | nil => simp [mergeAdd, Acc.tot]
    | cons p ts =>
      obtain ⟨c, x⟩ := p
      cases acc with
      | nil => simp [mergeAdd, Acc.tot]
      | cons q acc =>
        obtain ⟨k, v⟩ := q
        simp only [List.length_cons] at hf
        simp only [mergeAdd]
        split
        · simp only [Acc.tot]
          rw [ih ts ((k, v) :: acc) (by simp only [List.length_cons]; omega)]
          simp only [Acc.tot]
          ring
        · split
          · simp only [Acc.tot]
            rw [ih ((c, x) :: ts) acc (by simp only [List.length_cons]; omega)]
            simp only [Acc.tot]
            ring
          · rename_i h1 h2
            have hk : c = k := by omega
            subst hk
            simp only [Acc.tot]
            rw [ih ts acc (by omega)]
            split <;> ring

theorem mergeAdd_keys (f : ℕ) (ts acc : Acc) :
    ∀ p ∈ mergeAdd f ts acc, (∃ q ∈ ts, q.1 = p.1) ∨ (∃ q ∈ acc, q.1 = p.1) := by
  induction f generalizing ts acc with
  | zero => intro p hp; simp only [mergeAdd] at hp; exact Or.inr ⟨p, hp, rfl⟩
  | succ f ih =>
    cases ts with
    | nil => intro p hp; simp only [mergeAdd] at hp; exact Or.inr ⟨p, hp, rfl⟩
    | cons t ts =>
      obtain ⟨c, x⟩ := t
      cases acc with
      | nil => intro p hp; simp only [mergeAdd] at hp; exact Or.inl ⟨p, hp, rfl⟩
      | cons q acc =>
        obtain ⟨k, v⟩ := q
        intro p hp
        simp only [mergeAdd] at hp
        split at hp
        · rcases List.mem_cons.1 hp with rfl | hp
          · exact Or.inl ⟨(c, x), by simp, rfl⟩
          · rcases ih ts ((k, v) :: acc) p hp with ⟨q, hq, e⟩ | ⟨q, hq, e⟩
            · exact Or.inl ⟨q, by simp [hq], e⟩
            · exact Or.inr ⟨q, hq, e⟩
        · split at hp
          · rcases List.mem_cons.1 hp with rfl | hp
            · exact Or.inr ⟨(k, v), by simp, rfl⟩
            · rcases ih ((c, x) :: ts) acc p hp with ⟨q, hq, e⟩ | ⟨q, hq, e⟩
              · exact Or.inl ⟨q, hq, e⟩
              · exact Or.inr ⟨q, by simp [hq], e⟩
          · rcases List.mem_cons.1 hp with rfl | hp
            · exact Or.inr ⟨(k, v), by simp, rfl⟩
            · rcases ih ts acc p hp with ⟨q, hq, e⟩ | ⟨q, hq, e⟩
              · exact Or.inl ⟨q, by simp [hq], e⟩
              · exact Or.inr ⟨q, by simp [hq], e⟩

theorem mergeAdd_sorted (f : ℕ) (ts acc : Acc) (hts : Acc.keysSorted ts)
    (hacc : Acc.keysSorted acc) : Acc.keysSorted (mergeAdd f ts acc) := by
  unfold Acc.keysSorted at *
  induction f generalizing ts acc with
  | zero => simpa only [mergeAdd] using hacc
  | succ f ih =>
    cases ts with
    | nil => simpa only [mergeAdd] using hacc
    | cons t ts =>
      obtain ⟨c, x⟩ := t
      cases acc with
      | nil => simpa only [mergeAdd] using hts
      | cons q acc =>
        obtain ⟨k, v⟩ := q
        obtain ⟨ht1, ht2⟩ := List.pairwise_cons.1 hts
        obtain ⟨ha1, ha2⟩ := List.pairwise_cons.1 hacc
        simp only [mergeAdd]
        split
        · rename_i hck
          refine List.pairwise_cons.2 ⟨?_, ih ts ((k, v) :: acc) ht2 hacc⟩
          intro p hp
          rcases mergeAdd_keys f ts ((k, v) :: acc) p hp with ⟨q, hq, e⟩ | ⟨q, hq, e⟩
          · rw [← e]; exact ht1 q hq
          · rw [← e]
            rcases List.mem_cons.1 hq with rfl | hq
            · exact hck
            · exact lt_trans hck (ha1 q hq)
        · split
          · rename_i _ hkc
            refine List.pairwise_cons.2 ⟨?_, ih ((c, x) :: ts) acc hts ha2⟩
            intro p hp
            rcases mergeAdd_keys f ((c, x) :: ts) acc p hp with ⟨q, hq, e⟩ | ⟨q, hq, e⟩
            · rw [← e]
              rcases List.mem_cons.1 hq with rfl | hq
              · exact hkc
              · exact lt_trans hkc (ht1 q hq)
            · rw [← e]; exact ha1 q hq
          · rename_i h1 h2
            have hk : c = k := by omega
            subst hk
            refine List.pairwise_cons.2 ⟨?_, ih ts acc ht2 ha2⟩
            intro p hp
            rcases mergeAdd_keys f ts acc p hp with ⟨q, hq, e⟩ | ⟨q, hq, e⟩
            · rw [← e]; exact ht1 q hq
            · rw [← e]; exact ha1 q hq

/-! #### totals of accumulators with strictly increasing keys -/

theorem Acc.tot_eq_zero_of_not_key (a : Acc) (j : ℕ) (h : ∀ p ∈ a, p.1 ≠ j) : a.tot j = 0 := by
  induction a with
  | nil => simp [Acc.tot]
  | cons p r ih =>
    obtain ⟨c, v⟩ := p
    have hc : ¬ c = j := h (c, v) (by simp)
    simp only [Acc.tot, if_neg hc, zero_add]
    exact ih (fun q hq => h q (by simp [hq]))

theorem Acc.tot_le_of_sorted (a : Acc) (hs : Acc.keysSorted a) (b : ℚ) (hb : 0 ≤ b)
    (h : ∀ p ∈ a, p.2 ≤ b) (j : ℕ) : a.tot j ≤ b := by
  unfold Acc.keysSorted at hs
  induction a with
  | nil => simpa [Acc.tot] using hb
  | cons p r ih =>
    obtain ⟨c, v⟩ := p
    obtain ⟨h1, h2⟩ := List.pairwise_cons.1 hs
    simp only [Acc.tot]
    by_cases hc : c = j
    · subst hc
      rw [if_pos rfl, Acc.tot_eq_zero_of_not_key r c (fun q hq => (h1 q hq).ne'), add_zero]
      exact h (c, v) (by simp)
    · rw [if_neg hc, zero_add]
      exact ih h2 (fun q hq => h q (by simp [hq]))

/-! #### the term lists -/

theorem errTerms_length (xc c : ℚ) (xs : FRow) (es : Row) :
    (errTerms xc c xs es).length ≤ es.length := by
  induction xs generalizing es with
  | nil => simp [errTerms]
  | cons x xs ih =>
    cases es with
    | nil => simp [errTerms]
    | cons e es => simp only [errTerms, List.length_cons]; exact Nat.succ_le_succ (ih es)

theorem errTerms_keys (xc c : ℚ) (xs : FRow) (es : Row) :
    ∀ p ∈ errTerms xc c xs es, ∃ f ∈ es, f.col = p.1 := by
  induction xs generalizing es with
  | nil => intro p hp; simp [errTerms] at hp
  | cons x xs ih =>
    cases es with
    | nil => intro p hp; simp [errTerms] at hp
    | cons e es =>
      intro p hp
      simp only [errTerms] at hp
      rcases List.mem_cons.1 hp with rfl | hp
      · exact ⟨e, by simp, rfl⟩
      · obtain ⟨f, hf, e'⟩ := ih es p hp
        exact ⟨f, by simp [hf], e'⟩

theorem errTerms_sorted (xc c : ℚ) (xs : FRow) (es : Row)
    (hs : es.Pairwise (fun e f => e.col < f.col)) : Acc.keysSorted (errTerms xc c xs es) := by
  unfold Acc.keysSorted
  induction xs generalizing es with
  | nil => simp [errTerms]
  | cons x xs ih =>
    cases es with
    | nil => simp [errTerms]
    | cons e es =>
      obtain ⟨h1, h2⟩ := List.pairwise_cons.1 hs
      simp only [errTerms]
      refine List.pairwise_cons.2 ⟨?_, ih es h2⟩
      intro p hp
      obtain ⟨f, hf, e'⟩ := errTerms_keys xc c xs es p hp
      rw [← e']; exact h1 f hf

theorem errTerms_tot (xc c : ℚ) (xs : FRow) (es : Row) (j : ℕ) :
    Acc.tot (errTerms xc c xs es) j
      = (((xs.zip es).filter (fun q => q.2.col = j)).map
          (fun q => |xc * q.1.val - c * q.2.val|)).sum := by
  induction xs generalizing es with
  | nil => simp [errTerms, Acc.tot]
  | cons x xs ih =>
    cases es with
    | nil => simp [errTerms, Acc.tot]
    | cons e es =>
      simp only [errTerms, Acc.tot, List.zip_cons_cons, ih es, ratAbs_eq_abs]
      by_cases hc : e.col = j
      · simp [hc]
      · simp [hc]

theorem absTerms_length (c : ℚ) (es : Row) : (absTerms c es).length = es.length := by
  induction es with
  | nil => simp [absTerms]
  | cons e es ih => simp [absTerms, ih]

theorem absTerms_keys (c : ℚ) (es : Row) : ∀ p ∈ absTerms c es, ∃ f ∈ es, f.col = p.1 := by
  induction es with
  | nil => intro p hp; simp [absTerms] at hp
  | cons e es ih =>
    intro p hp
    simp only [absTerms] at hp
    rcases List.mem_cons.1 hp with rfl | hp
    · exact ⟨e, by simp, rfl⟩
    · obtain ⟨f, hf, e'⟩ := ih p hp
      exact ⟨f, by simp [hf], e'⟩

theorem absTerms_sorted (c : ℚ) (es : Row) (hs : es.Pairwise (fun e f => e.col < f.col)) :
    Acc.keysSorted (absTerms c es) := by
  unfold Acc.keysSorted
  induction es with
  | nil => simp [absTerms]
  | cons e es ih =>
    obtain ⟨h1, h2⟩ := List.pairwise_cons.1 hs
    simp only [absTerms]
    refine List.pairwise_cons.2 ⟨?_, ih h2⟩
    intro p hp
    obtain ⟨f, hf, e'⟩ := absTerms_keys c es p hp
    rw [← e']; exact h1 f hf

theorem absTerms_tot (c : ℚ) (es : Row) (j : ℕ) :
    Acc.tot (absTerms c es) j
      = ((es.filter (fun f => f.col = j)).map (fun f => |c * f.val|)).sum := by
  induction es with
  | nil => simp [absTerms, Acc.tot]
  | cons e es ih =>
    simp only [absTerms, Acc.tot, ih, ratAbs_eq_abs]
    by_cases hc : e.col = j
    · simp [hc]
    · simp [hc]

/-! #### the two accumulations -/

/-- `Σ_k |Ĉ_ik Ĉ⁻¹_kj − C_ik C⁻¹_kj|` as `errAcc` computes it: the float row `i` of `Ĉ` is
zipped with the exact row `i` of `C`, and for each pair the float row `k = e.col` of `Ĉ⁻¹` is
zipped with the exact row `k` of `C⁻¹`; a term belongs to column `j` when the *exact* entry of
`C⁻¹` sits in column `j` -/
def errSumRow (ds : Dataset) (fx : FRow) (r : Row) (j : ℕ) : ℚ :=
  ((fx.zip r).map (fun p =>
    ((((get2 ds.cif p.2.col []).zip (getRow ds.cix p.2.col)).filter (fun q => q.2.col = j)).map
      (fun q => |p.1.val * q.1.val - p.2.val * q.2.val|)).sum)).sum

def condSumRow (ds : Dataset) (r : Row) (j : ℕ) : ℚ :=
  (r.map (fun e =>
    (((getRow ds.cix e.col).filter (fun f => f.col = j)).map (fun f => |e.val * f.val|)).sum)).sum

def errSum (ds : Dataset) (i j : ℕ) : ℚ := errSumRow ds (get2 ds.cf i []) (getRow ds.cx i) j

def condSum (ds : Dataset) (i j : ℕ) : ℚ := condSumRow ds (getRow ds.cx i) j

theorem errAcc_spec (ds : Dataset) (fx : FRow) (r : Row) (acc : Acc)
    (hacc : Acc.keysSorted acc)
    (hs : ∀ e ∈ r, Row.sorted (getRow ds.cix e.col) = true) :
    Acc.keysSorted (errAcc ds fx r acc) ∧
      ∀ j, (errAcc ds fx r acc).tot j = acc.tot j + errSumRow ds fx r j := by
  induction fx generalizing r acc with
  | nil => simp [errAcc, errSumRow, hacc]
  | cons x xs ih =>
    cases r with
    | nil => simp [errAcc, errSumRow, hacc]
    | cons e es =>
      simp only [errAcc]
      have hrow := Row.sorted_pairwise _ (hs e (by simp))
      obtain ⟨h1, h2⟩ := ih es _
        (mergeAdd_sorted _ _ acc (errTerms_sorted x.val e.val _ _ hrow) hacc)
        (fun e' he' => hs e' (by simp [he']))
      refine ⟨h1, ?_⟩
      intro j
      have hlen := errTerms_length x.val e.val (get2 ds.cif e.col []) (getRow ds.cix e.col)
      rw [h2 j, mergeAdd_tot _ _ _ (by omega), errTerms_tot]
      simp only [errSumRow, List.zip_cons_cons, List.map_cons, List.sum_cons]
      ring

theorem absAcc_spec (ds : Dataset) (r : Row) (acc : Acc)
    (hacc : Acc.keysSorted acc)
    (hs : ∀ e ∈ r, Row.sorted (getRow ds.cix e.col) = true) :
    Acc.keysSorted (absAcc ds r acc) ∧
      ∀ j, (absAcc ds r acc).tot j = acc.tot j + condSumRow ds r j := by
  induction r generalizing acc with
  | nil => simp [absAcc, condSumRow, hacc]
  | cons e es ih =>
    simp only [absAcc]
    have hrow := Row.sorted_pairwise _ (hs e (by simp))
    obtain ⟨h1, h2⟩ := ih _
      (mergeAdd_sorted _ _ acc (absTerms_sorted e.val _ hrow) hacc)
      (fun e' he' => hs e' (by simp [he']))
    refine ⟨h1, ?_⟩
    intro j
    rw [h2 j, mergeAdd_tot _ _ _ (by rw [absTerms_length]; omega), absTerms_tot]
    simp only [condSumRow, List.map_cons, List.sum_cons]
    ring

/-- **meaning of the aggregated W9 check** for row `i`: the per-column totals are bounded.
Hypotheses added: the bounds are non-negative (a column without terms has total 0), and the rows
of `C⁻¹` met along row `i` have strictly increasing columns (`patternOk` provides this via
`Row.sorted_of_colsOf_eq`). -/
theorem aggRowOk_meaning (ds : Dataset) (bErr bCond : ℚ) (i : ℕ) (hbE : 0 ≤ bErr)
    (hbC : 0 ≤ bCond)
    (hs : ∀ e ∈ getRow ds.cx i, Row.sorted (getRow ds.cix e.col) = true)
    (h : aggRowOk ds bErr bCond i (getRow ds.cx i) = true) :
    ∀ j, errSum ds i j ≤ bErr ∧ condSum ds i j ≤ bCond := by
  unfold aggRowOk at h
  simp only [Bool.and_eq_true, List.all_eq_true, decide_eq_true_eq] at h
  obtain ⟨hE, hC⟩ := h
  have hnil : Acc.keysSorted [] := List.Pairwise.nil
  obtain ⟨e1, e2⟩ := errAcc_spec ds (get2 ds.cf i []) (getRow ds.cx i) [] hnil hs
  obtain ⟨c1, c2⟩ := absAcc_spec ds (getRow ds.cx i) [] hnil hs
  intro j
  constructor
  · have := Acc.tot_le_of_sorted _ e1 bErr hbE hE j
    rw [e2 j] at this
    simpa [Acc.tot, errSum] using this
  · have := Acc.tot_le_of_sorted _ c1 bCond hbC hC j
    rw [c2 j] at this
    simpa [Acc.tot, condSum] using this

/-- `patternOk` for row `k` makes row `k` of `C⁻¹` strictly increasing -/
theorem cix_sorted_of_patternOk (ds : Dataset) (k : ℕ)
    (h : patternOk ds k (getRow ds.cx k) = true) : Row.sorted (getRow ds.cix k) = true := by
  unfold patternOk at h
  simp only [Bool.and_eq_true, beq_iff_eq] at h
  obtain ⟨⟨⟨⟨⟨⟨_, hc⟩, _⟩, _⟩, _⟩, _⟩, hsorted⟩ := h
  exact Row.sorted_of_colsOf_eq _ _ hc hsorted

/-! ### Part C: combination -/

/-- combination for an arbitrary bound `δ` on the error of the exponential factors -/
theorem data_contribution_gen {n : ℕ} (C Ci Chat Cihat : Matrix (Fin n) (Fin n) ℝ)
    (lam lamhat : Fin n → ℝ) (δ B K : ℝ) (hδ : 0 ≤ δ)
    (hlam : ∀ k, 0 ≤ lam k)
    (t : ℝ) (ht : 0 ≤ t)
    (hd : ∀ k, |Real.exp (-(lamhat k * t)) - Real.exp (-(lam k * t))| ≤ δ)
    (hB : ∀ i j, ∑ k, |Chat i k * Cihat k j - C i k * Ci k j| ≤ B)
    (hK : ∀ i j, ∑ k, |C i k * Ci k j| ≤ K)
    (N0 : Fin n → ℝ) (hN0 : ∀ j, 0 ≤ N0 j) (i : Fin n) :
    |∑ j, (∑ k, Chat i k * Real.exp (-(lamhat k * t)) * Cihat k j) * N0 j
      - ∑ j, (∑ k, C i k * Real.exp (-(lam k * t)) * Ci k j) * N0 j|
      ≤ (B + (K + B) * δ) * ∑ j, N0 j := by
  -- entrywise bound
  have hentry : ∀ j, |(∑ k, Chat i k * Real.exp (-(lamhat k * t)) * Cihat k j)
      - (∑ k, C i k * Real.exp (-(lam k * t)) * Ci k j)| ≤ B + (K + B) * δ := by
    intro j
    have h1 := sum_error_bound Finset.univ (fun k => C i k * Ci k j)
      (fun k => Chat i k * Cihat k j) (fun k => Real.exp (-(lam k * t)))
      (fun k => Real.exp (-(lamhat k * t))) δ
      (fun k _ => ⟨(Real.exp_pos _).le, by
        rw [Real.exp_le_one_iff]; have := mul_nonneg (hlam k) ht; linarith⟩)
      (fun k _ => hd k)
    have hsum : ∑ k, |Chat i k * Cihat k j| ≤ K + B := by
      calc ∑ k, |Chat i k * Cihat k j|
          ≤ ∑ k, (|C i k * Ci k j| + |Chat i k * Cihat k j - C i k * Ci k j|) := by
            apply Finset.sum_le_sum
            intro k _
            have := abs_add_le (C i k * Ci k j) (Chat i k * Cihat k j - C i k * Ci k j)
            simpa using this
        _ = ∑ k, |C i k * Ci k j| + ∑ k, |Chat i k * Cihat k j - C i k * Ci k j| :=
            Finset.sum_add_distrib
        _ ≤ K + B := add_le_add (hK i j) (hB i j)
    have e1 : (∑ k, Chat i k * Real.exp (-(lamhat k * t)) * Cihat k j)
        = ∑ k, Chat i k * Cihat k j * Real.exp (-(lamhat k * t)) :=
      Finset.sum_congr rfl (fun k _ => by ring)
    have e2 : (∑ k, C i k * Real.exp (-(lam k * t)) * Ci k j)
        = ∑ k, C i k * Ci k j * Real.exp (-(lam k * t)) :=
      Finset.sum_congr rfl (fun k _ => by ring)
    rw [e1, e2]
    refine h1.trans (add_le_add (hB i j) (mul_le_mul_of_nonneg_right hsum hδ))
  rw [← Finset.sum_sub_distrib, Finset.mul_sum]
  refine (Finset.abs_sum_le_sum_abs _ _).trans (Finset.sum_le_sum ?_)
  intro j _
  rw [← sub_mul, abs_mul, abs_of_nonneg (hN0 j)]
  exact mul_le_mul_of_nonneg_right (hentry j) (hN0 j)

theorem exp_factor_err (lam lamhat ρ t : ℝ) (hρ : 0 ≤ ρ) (hρ1 : ρ < 1) (hlam : 0 ≤ lam)
    (h : |lamhat - lam| ≤ ρ * lam) (ht : 0 ≤ t) :
    |Real.exp (-(lamhat * t)) - Real.exp (-(lam * t))| ≤ ρ / (2 * (1 - ρ)) := by
  apply exp_perturb_abs_sharp (lam * t) (lamhat * t) ρ (mul_nonneg hlam ht) hρ hρ1
  rw [← sub_mul, abs_mul, abs_of_nonneg ht, ← mul_assoc]
  exact mul_le_mul_of_nonneg_right h ht

/-- sharp form of the data contribution (`ρ/(2(1−ρ))`, needed for the 5e-12 corollary) -/
theorem data_contribution_bound_sharp {n : ℕ} (C Ci Chat Cihat : Matrix (Fin n) (Fin n) ℝ)
    (lam lamhat : Fin n → ℝ) (ρ B K : ℝ) (hρ : 0 ≤ ρ) (hρ1 : ρ < 1)
    (hlam : ∀ k, 0 ≤ lam k) (hlamhat : ∀ k, |lamhat k - lam k| ≤ ρ * lam k)
    (hB : ∀ i j, ∑ k, |Chat i k * Cihat k j - C i k * Ci k j| ≤ B)
    (hK : ∀ i j, ∑ k, |C i k * Ci k j| ≤ K)
    (t : ℝ) (ht : 0 ≤ t) (N0 : Fin n → ℝ) (hN0 : ∀ j, 0 ≤ N0 j) (i : Fin n) :
    |∑ j, (∑ k, Chat i k * Real.exp (-(lamhat k * t)) * Cihat k j) * N0 j
      - ∑ j, (∑ k, C i k * Real.exp (-(lam k * t)) * Ci k j) * N0 j|
      ≤ (B + (K + B) * (ρ / (2 * (1 - ρ)))) * ∑ j, N0 j :=
  data_contribution_gen C Ci Chat Cihat lam lamhat _ B K (half_delta_le ρ hρ hρ1).1 hlam t ht
    (fun k => exp_factor_err (lam k) (lamhat k) ρ t hρ hρ1 (hlam k) (hlamhat k) ht) hB hK N0 hN0 i

/-- **the data contribution**: if the float matrices/decay constants are close to the exact ones
in the aggregated sense (`B`, `K`, `ρ`), every decay result moves by at most
`(B + (K + B)·ρ/(1−ρ)) · Σ N0` -/
theorem data_contribution_bound {n : ℕ} (C Ci Chat Cihat : Matrix (Fin n) (Fin n) ℝ)
    (lam lamhat : Fin n → ℝ) (ρ B K : ℝ) (hρ : 0 ≤ ρ) (hρ1 : ρ < 1)
    (hlam : ∀ k, 0 ≤ lam k) (hlamhat : ∀ k, |lamhat k - lam k| ≤ ρ * lam k)
    (hB : ∀ i j, ∑ k, |Chat i k * Cihat k j - C i k * Ci k j| ≤ B)
    (hK : ∀ i j, ∑ k, |C i k * Ci k j| ≤ K)
    (t : ℝ) (ht : 0 ≤ t) (N0 : Fin n → ℝ) (hN0 : ∀ j, 0 ≤ N0 j) (i : Fin n) :
    |∑ j, (∑ k, Chat i k * Real.exp (-(lamhat k * t)) * Cihat k j) * N0 j
      - ∑ j, (∑ k, C i k * Real.exp (-(lam k * t)) * Ci k j) * N0 j|
      ≤ (B + (K + B) * (ρ / (1 - ρ))) * ∑ j, N0 j :=
  data_contribution_gen C Ci Chat Cihat lam lamhat _ B K
    ((half_delta_le ρ hρ hρ1).1.trans (half_delta_le ρ hρ hρ1).2) hlam t ht
    (fun k => (exp_factor_err (lam k) (lamhat k) ρ t hρ hρ1 (hlam k) (hlamhat k) ht).trans
      (half_delta_le ρ hρ hρ1).2) hB hK N0 hN0 i

/-- the factor for the dataset's tolerances is below 5e-12 -/
theorem factor_5e12 :
    ((aggErrBound : ℚ) : ℝ) + (((aggCondBound : ℚ) : ℝ) + ((aggErrBound : ℚ) : ℝ)) *
      (((lamRel : ℚ) : ℝ) / (2 * (1 - ((lamRel : ℚ) : ℝ)))) ≤ 5 / 1000000000000 := by
  simp only [aggErrBound, aggCondBound, lamRel]
  norm_num

/-- **numeric corollary**: with `B = 4e-12`, `K = 1000`, `ρ = 1e-15` the data error is at most
`5e-12 · Σ N0` -/
theorem data_contribution_5e12 {n : ℕ} (C Ci Chat Cihat : Matrix (Fin n) (Fin n) ℝ)
    (lam lamhat : Fin n → ℝ)
    (hlam : ∀ k, 0 ≤ lam k) (hlamhat : ∀ k, |lamhat k - lam k| ≤ ((lamRel : ℚ) : ℝ) * lam k)
    (hB : ∀ i j, ∑ k, |Chat i k * Cihat k j - C i k * Ci k j| ≤ ((aggErrBound : ℚ) : ℝ))
    (hK : ∀ i j, ∑ k, |C i k * Ci k j| ≤ ((aggCondBound : ℚ) : ℝ))
    (t : ℝ) (ht : 0 ≤ t) (N0 : Fin n → ℝ) (hN0 : ∀ j, 0 ≤ N0 j) (i : Fin n) :
    |∑ j, (∑ k, Chat i k * Real.exp (-(lamhat k * t)) * Cihat k j) * N0 j
      - ∑ j, (∑ k, C i k * Real.exp (-(lam k * t)) * Ci k j) * N0 j|
      ≤ 5 / 1000000000000 * ∑ j, N0 j := by
  have hρ : (0 : ℝ) ≤ ((lamRel : ℚ) : ℝ) := by simp only [lamRel]; norm_num
  have hρ1 : ((lamRel : ℚ) : ℝ) < 1 := by simp only [lamRel]; norm_num
  refine (data_contribution_bound_sharp C Ci Chat Cihat lam lamhat _ _ _ hρ hρ1 hlam hlamhat hB hK
    t ht N0 hN0 i).trans ?_
  exact mul_le_mul_of_nonneg_right factor_5e12 (Finset.sum_nonneg (fun j _ => hN0 j))

end RdVerif
