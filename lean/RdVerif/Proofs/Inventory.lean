/-
Proofs/Inventory.lean — lemmas about the inventory model (`Model/Inventory.lean`) used by the
property theorems of `Props/C08.lean`: the name order, insertion sort, dictionary lookup,
`add_dictionaries`, value maps and `remove`.
-/
import Mathlib.Algebra.Group.Basic
import Mathlib.Algebra.GroupWithZero.Basic
import Mathlib.Algebra.Field.Basic
import Mathlib.Data.List.Perm.Basic
import RdVerif.Model.Inventory

namespace RdVerif

variable {α β : Type}

/-! ### the name order -/

theorem nameLt_cons (x y : Nat) (xs ys : Name) :
    nameLt (x :: xs) (y :: ys) = true ↔ x < y ∨ (x = y ∧ nameLt xs ys = true) := by
  simp only [nameLt]
  by_cases h1 : x < y
  · simp [h1]
  · by_cases h2 : y < x
    · simp only [h1, h2, if_false]
      constructor
      · intro h; cases h
      · rintro (h | ⟨h, _⟩) <;> exfalso <;> omega
    · have : x = y := by omega
      subst this
      simp

theorem nameLt_irrefl (a : Name) : nameLt a a = false := by
  induction a with
  | nil => rfl
  | cons x xs ih => simp [nameLt, ih]

theorem nameLt_trans : ∀ {a b c : Name}, nameLt a b = true → nameLt b c = true → nameLt a c = true
  | [], [], _, h, _ => by simp [nameLt] at h
  | [], _ :: _, [], _, h => by simp [nameLt] at h
  | [], _ :: _, _ :: _, _, _ => by simp [nameLt]
  | _ :: _, [], _, h, _ => by simp [nameLt] at h
  | _ :: _, _ :: _, [], _, h => by simp [nameLt] at h
  | x :: xs, y :: ys, z :: zs, h1, h2 => by
    rw [nameLt_cons] at h1 h2 ⊢
    rcases h1 with h1 | ⟨rfl, h1⟩ <;> rcases h2 with h2 | ⟨rfl, h2⟩
    · left; omega
    · left; exact h1
    · left; exact h2
    · right; exact ⟨rfl, nameLt_trans h1 h2⟩

theorem nameLt_total : ∀ {a b : Name}, a ≠ b → nameLt a b = true ∨ nameLt b a = true
  | [], [], h => absurd rfl h
  | [], _ :: _, _ => by simp [nameLt]
  | _ :: _, [], _ => by simp [nameLt]
  | x :: xs, y :: ys, h => by
    rw [nameLt_cons, nameLt_cons]
    rcases Nat.lt_trichotomy x y with hxy | rfl | hxy
    · exact .inl (.inl hxy)
    · have hne : xs ≠ ys := fun e => h (by rw [e])
      rcases nameLt_total hne with h' | h'
      · exact .inl (.inr ⟨rfl, h'⟩)
      · exact .inr (.inr ⟨rfl, h'⟩)
    · exact .inr (.inl hxy)

theorem nameLt_asymm {a b : Name} (h : nameLt a b = true) : nameLt b a = false := by
  cases h' : nameLt b a
  · rfl
  · have := nameLt_trans h h'
    rw [nameLt_irrefl] at this
    cases this

/-! ### keys and lookup -/

theorem keys_cons (p : Name × α) (l : Contents α) : Contents.keys (p :: l) = p.1 :: l.keys := rfl

theorem mem_keys_iff (c : Contents α) (n : Name) : n ∈ c.keys ↔ ∃ x, (n, x) ∈ c := by
  simp [Contents.keys]

theorem mem_keys_of_mem {c : Contents α} {p : Name × α} (h : p ∈ c) : p.1 ∈ c.keys :=
  List.mem_map_of_mem h

theorem keys_perm {l l' : Contents α} (h : l.Perm l') : l.keys.Perm l'.keys := h.map _

theorem any_key_iff (c : Contents α) (n : Name) : c.any (fun p => p.1 == n) = true ↔ n ∈ c.keys := by
  simp [Contents.keys]

theorem get?_nil (n : Name) : Contents.get? ([] : Contents α) n = none := rfl

theorem get?_cons (p : Name × α) (l : Contents α) (n : Name) :
    Contents.get? (p :: l) n = if p.1 = n then some p.2 else Contents.get? l n := by
  by_cases h : p.1 = n
  · simp [Contents.get?, h]
  · have hb : (p.1 == n) = false := by simpa using h
    simp [Contents.get?, hb, h]

theorem get?_eq_none_iff (l : Contents α) (n : Name) : l.get? n = none ↔ n ∉ l.keys := by
  induction l with
  | nil => simp [get?_nil, Contents.keys]
  | cons p l ih =>
    rw [get?_cons, keys_cons]
    by_cases h : p.1 = n
    · simp [h]
    · simp [h, ih, Ne.symm h]

theorem get?_eq_some_iff {l : Contents α} (hl : l.keys.Nodup) (n : Name) (x : α) :
    l.get? n = some x ↔ (n, x) ∈ l := by
  induction l with
  | nil => simp [get?_nil]
  | cons p l ih =>
    rw [keys_cons, List.nodup_cons] at hl
    rw [get?_cons, List.mem_cons]
    by_cases h : p.1 = n
    · rw [if_pos h]
      constructor
      · intro e
        left
        cases p
        simp only [Option.some.injEq] at e
        simp only at h
        rw [h, e]
      · rintro (e | e)
        · rw [← e]
        · exact absurd (h ▸ mem_keys_of_mem e) hl.1
    · rw [if_neg h, ih hl.2]
      constructor
      · exact .inr
      · rintro (e | e)
        · exact absurd (by rw [← e]) h
        · exact e

theorem get?_perm {l l' : Contents α} (h : l.Perm l') (hl : l.keys.Nodup) (n : Name) :
    l.get? n = l'.get? n := by
  have hl' : l'.keys.Nodup := (keys_perm h).nodup_iff.1 hl
  apply Option.ext
  intro x
  rw [get?_eq_some_iff hl, get?_eq_some_iff hl', h.mem_iff]

theorem get?_append (a b : Contents α) (n : Name) :
    Contents.get? (a ++ b) n = (a.get? n).or (b.get? n) := by
  induction a with
  | nil => simp [get?_nil]
  | cons p a ih =>
    rw [List.cons_append, get?_cons, get?_cons]
    by_cases h : p.1 = n <;> simp [h, ih]

/-- mapping the values (possibly depending on the name) commutes with lookup -/
theorem get?_map_val (g : Name → α → β) (c : Contents α) (n : Name) :
    Contents.get? (c.map (fun p => (p.1, g p.1 p.2))) n = (c.get? n).map (g n) := by
  induction c with
  | nil => rfl
  | cons p c ih =>
    rw [List.map_cons, get?_cons, get?_cons]
    by_cases h : p.1 = n
    · simp [h]
    · simp [h, ih]

theorem keys_map_val (g : Name → α → β) (c : Contents α) :
    Contents.keys (c.map (fun p => (p.1, g p.1 p.2))) = c.keys := by
  simp [Contents.keys, List.map_map, Function.comp_def]

/-- lookup in a dictionary restricted to the names satisfying `q` -/
theorem get?_filter (q : Name → Bool) (c : Contents α) (n : Name) :
    Contents.get? (c.filter (fun p => q p.1)) n = if q n = true then c.get? n else none := by
  induction c with
  | nil => simp [get?_nil]
  | cons p c ih =>
    rw [List.filter_cons]
    by_cases hq : q p.1 = true
    · rw [if_pos hq, get?_cons, get?_cons, ih]
      by_cases h : p.1 = n
      · subst h; simp [hq]
      · simp [h]
    · rw [if_neg hq, get?_cons, ih]
      by_cases h : p.1 = n
      · subst h; simp [hq]
      · simp [h]

theorem mem_keys_filter (q : Name → Bool) (c : Contents α) (n : Name) :
    n ∈ Contents.keys (c.filter (fun p => q p.1)) ↔ n ∈ c.keys ∧ q n = true := by
  simp only [Contents.keys, List.mem_map, List.mem_filter]
  constructor
  · rintro ⟨p, ⟨hp, hq⟩, rfl⟩
    exact ⟨⟨p, hp, rfl⟩, hq⟩
  · rintro ⟨⟨p, hp, rfl⟩, hq⟩
    exact ⟨p, ⟨hp, hq⟩, rfl⟩

theorem amount_eq_of_get? [Zero α] {c c' : Contents α} {n : Name} (h : c.get? n = c'.get? n) :
    c.amount n = c'.amount n := by
  simp only [Contents.amount, h]

theorem amount_of_not_mem [Zero α] {c : Contents α} {n : Name} (h : n ∉ c.keys) : c.amount n = 0 := by
  simp only [Contents.amount, (get?_eq_none_iff c n).2 h]
  rfl

theorem amount_cons [Zero α] (p : Name × α) (c : Contents α) (n : Name) :
    Contents.amount (p :: c) n = if p.1 = n then p.2 else c.amount n := by
  simp only [Contents.amount, get?_cons]
  by_cases h : p.1 = n <;> simp [h]

/-! ### sortedness -/

/-- the Bool recursion `Contents.sorted` is pairwise strict increase of the names -/
theorem sorted_iff_pairwise :
    ∀ (c : Contents α), c.sorted = true ↔ c.Pairwise (fun p q => nameLt p.1 q.1 = true)
  | [] => by simp [Contents.sorted]
  | [_] => by simp [Contents.sorted]
  | p :: q :: r => by
    have ih := sorted_iff_pairwise (q :: r)
    simp only [Contents.sorted, Bool.and_eq_true, ih]
    constructor
    · rintro ⟨hpq, hqr⟩
      refine List.pairwise_cons.2 ⟨?_, hqr⟩
      intro s hs
      rcases List.mem_cons.1 hs with rfl | hs
      · exact hpq
      · exact nameLt_trans hpq ((List.pairwise_cons.1 hqr).1 s hs)
    · intro h
      have := List.pairwise_cons.1 h
      exact ⟨this.1 q List.mem_cons_self, this.2⟩

/-- strictly sorted names are distinct -/
theorem nodup_keys_of_sorted {c : Contents α} (h : c.sorted = true) : c.keys.Nodup := by
  rw [sorted_iff_pairwise] at h
  unfold Contents.keys List.Nodup
  rw [List.pairwise_map]
  refine h.imp ?_
  intro p q hpq e
  rw [e, nameLt_irrefl] at hpq
  cases hpq

theorem insertSorted_perm (p : Name × α) : ∀ l : Contents α, (insertSorted p l).Perm (p :: l)
  | [] => by simp [insertSorted]
  | q :: r => by
    simp only [insertSorted]
    split
    · exact List.Perm.refl _
    · exact ((insertSorted_perm p r).cons q).trans (List.Perm.swap p q r)

theorem insertSorted_pairwise (p : Name × α) :
    ∀ l : Contents α, l.Pairwise (fun p q => nameLt p.1 q.1 = true) → p.1 ∉ l.keys →
      (insertSorted p l).Pairwise (fun p q => nameLt p.1 q.1 = true)
  | [], _, _ => by simp [insertSorted]
  | q :: r, hl, hp => by
    rw [keys_cons, List.mem_cons, not_or] at hp
    have hl' := List.pairwise_cons.1 hl
    simp only [insertSorted]
    split
    · rename_i hpq
      refine List.pairwise_cons.2 ⟨?_, hl⟩
      intro s hs
      rcases List.mem_cons.1 hs with rfl | hs
      · exact hpq
      · exact nameLt_trans hpq (hl'.1 s hs)
    · rename_i hpq
      refine List.pairwise_cons.2 ⟨?_, insertSorted_pairwise p r hl'.2 hp.2⟩
      intro s hs
      rcases List.mem_cons.1 ((insertSorted_perm p r).mem_iff.1 hs) with rfl | hs
      · rcases nameLt_total hp.1 with h | h
        · exact absurd h hpq
        · exact h
      · exact hl'.1 s hs

theorem foldl_insertSorted_perm : ∀ (c acc : Contents α),
    (c.foldl (fun acc p => insertSorted p acc) acc).Perm (acc ++ c)
  | [], acc => by simp
  | p :: c, acc => by
    rw [List.foldl_cons]
    refine (foldl_insertSorted_perm c (insertSorted p acc)).trans ?_
    refine ((insertSorted_perm p acc).append_right c).trans ?_
    exact (List.perm_middle (l₁ := acc) (a := p) (l₂ := c)).symm

theorem foldl_insertSorted_pairwise : ∀ (c acc : Contents α),
    acc.Pairwise (fun p q => nameLt p.1 q.1 = true) → (∀ p ∈ c, p.1 ∉ acc.keys) → c.keys.Nodup →
    (c.foldl (fun acc p => insertSorted p acc) acc).Pairwise (fun p q => nameLt p.1 q.1 = true)
  | [], acc, h, _, _ => by simpa using h
  | p :: c, acc, h, hd, hn => by
    rw [List.foldl_cons]
    rw [keys_cons, List.nodup_cons] at hn
    refine foldl_insertSorted_pairwise c _
      (insertSorted_pairwise p acc h (hd p List.mem_cons_self)) ?_ hn.2
    intro q hq hmem
    have := (keys_perm (insertSorted_perm p acc)).mem_iff.1 hmem
    rw [keys_cons, List.mem_cons] at this
    rcases this with e | hm
    · exact hn.1 (e ▸ mem_keys_of_mem hq)
    · exact hd q (List.mem_cons_of_mem _ hq) hm

theorem sortContents_perm (c : Contents α) : (sortContents c).Perm c := by
  simpa [sortContents] using foldl_insertSorted_perm c []

theorem sortContents_sorted (c : Contents α) (h : c.keys.Nodup) : (sortContents c).sorted = true := by
  rw [sorted_iff_pairwise]
  exact foldl_insertSorted_pairwise c [] List.Pairwise.nil (by simp [Contents.keys]) h

theorem sortContents_keys_nodup (c : Contents α) (h : c.keys.Nodup) : (sortContents c).keys.Nodup :=
  (keys_perm (sortContents_perm c)).nodup_iff.2 h

theorem sortContents_get? (c : Contents α) (h : c.keys.Nodup) (n : Name) :
    (sortContents c).get? n = c.get? n :=
  (get?_perm (sortContents_perm c).symm h n).symm

theorem sortContents_amount [Zero α] (c : Contents α) (h : c.keys.Nodup) (n : Name) :
    (sortContents c).amount n = c.amount n :=
  amount_eq_of_get? (sortContents_get? c h n)

theorem mem_keys_sortContents (c : Contents α) (n : Name) : n ∈ (sortContents c).keys ↔ n ∈ c.keys :=
  (keys_perm (sortContents_perm c)).mem_iff

/-! ### `add_dictionaries` -/

/-- one step of `addDictionaries` -/
def addEntry [Add α] (a : Contents α) (n : Name) (x : α) : Contents α :=
  if a.any (fun p => p.1 == n) then a.map (fun p => if p.1 == n then (p.1, p.2 + x) else p)
  else a ++ [(n, x)]

theorem addDictionaries_cons [Add α] (a b : Contents α) (n : Name) (x : α) :
    addDictionaries a ((n, x) :: b) = addDictionaries (addEntry a n x) b := rfl

theorem addEntry_map_eq [Add α] (a : Contents α) (n : Name) (x : α) :
    a.map (fun p => if p.1 == n then (p.1, p.2 + x) else p) =
      a.map (fun p => (p.1, if p.1 = n then p.2 + x else p.2)) := by
  apply List.map_congr_left
  intro p _
  by_cases h : p.1 = n <;> simp [h]

theorem addEntry_keys [Add α] (a : Contents α) (n : Name) (x : α) :
    (addEntry a n x).keys = if n ∈ a.keys then a.keys else a.keys ++ [n] := by
  unfold addEntry
  by_cases h : n ∈ a.keys
  · rw [if_pos ((any_key_iff a n).2 h), if_pos h, addEntry_map_eq]
    exact keys_map_val (fun k v => if k = n then v + x else v) a
  · rw [if_neg (fun h' => h ((any_key_iff a n).1 h')), if_neg h]
    simp [Contents.keys]

theorem mem_addEntry_keys [Add α] (a : Contents α) (n : Name) (x : α) (m : Name) :
    m ∈ (addEntry a n x).keys ↔ m ∈ a.keys ∨ m = n := by
  rw [addEntry_keys]
  by_cases h : n ∈ a.keys
  · rw [if_pos h]
    constructor
    · exact .inl
    · rintro (h' | rfl)
      · exact h'
      · exact h
  · rw [if_neg h]; simp

theorem addEntry_nodup [Add α] (a : Contents α) (n : Name) (x : α) (ha : a.keys.Nodup) :
    (addEntry a n x).keys.Nodup := by
  rw [addEntry_keys]
  by_cases h : n ∈ a.keys
  · rw [if_pos h]; exact ha
  · rw [if_neg h]
    exact List.nodup_append.2 ⟨ha, List.nodup_cons.2 ⟨List.not_mem_nil, List.nodup_nil⟩, by
      intro u hu v hv
      rw [List.mem_singleton] at hv
      rintro rfl
      exact h (hv ▸ hu)⟩

theorem amount_addEntry [AddZeroClass α] (a : Contents α) (n : Name) (x : α) (m : Name) :
    (addEntry a n x).amount m = if m = n then a.amount m + x else a.amount m := by
  unfold addEntry
  by_cases h : n ∈ a.keys
  · rw [if_pos ((any_key_iff a n).2 h), addEntry_map_eq]
    have hmap := get?_map_val (fun k v => if k = n then v + x else v) a m
    simp only [Contents.amount]
    rw [hmap]
    by_cases hm : m = n
    · subst hm
      rw [if_pos rfl]
      cases hg : a.get? m with
      | none => exact absurd ((get?_eq_none_iff a m).1 hg) (not_not.2 h)
      | some y => simp
    · rw [if_neg hm]
      cases hg : a.get? m <;> simp [hm]
  · rw [if_neg (fun h' => h ((any_key_iff a n).1 h'))]
    simp only [Contents.amount, get?_append, get?_cons, get?_nil]
    by_cases hm : m = n
    · subst hm
      rw [if_pos rfl, (get?_eq_none_iff a m).2 h]
      simp
    · rw [if_neg hm, if_neg (Ne.symm hm)]
      simp

/-- `add_dictionaries` is pointwise addition on the union of the names -/
theorem addDictionaries_spec' [AddZeroClass α] : ∀ (b a : Contents α), a.keys.Nodup → b.keys.Nodup →
    (addDictionaries a b).keys.Nodup ∧
    (∀ n, n ∈ (addDictionaries a b).keys ↔ n ∈ a.keys ∨ n ∈ b.keys) ∧
    (∀ n, (addDictionaries a b).amount n = a.amount n + b.amount n)
  | [], a, ha, _ => by
    refine ⟨ha, ?_, ?_⟩
    · intro n; simp [addDictionaries, Contents.keys]
    · intro n
      show a.amount n = a.amount n + 0
      rw [add_zero]
  | (k, x) :: b, a, ha, hb => by
    rw [keys_cons, List.nodup_cons] at hb
    obtain ⟨h1, h2, h3⟩ := addDictionaries_spec' b (addEntry a k x) (addEntry_nodup a k x ha) hb.2
    rw [addDictionaries_cons]
    refine ⟨h1, ?_, ?_⟩
    · intro n
      rw [h2, mem_addEntry_keys, keys_cons, List.mem_cons, or_assoc]
    · intro n
      rw [h3, amount_addEntry, amount_cons]
      by_cases hn : n = k
      · subst hn
        rw [if_pos rfl, if_pos rfl, amount_of_not_mem hb.1, add_zero]
      · rw [if_neg hn, if_neg (Ne.symm hn)]

/-! ### value maps: negation, multiple, quotient -/

theorem amount_map_neg [AddGroup α] (c : Contents α) (n : Name) :
    Contents.amount (c.map (fun p => (p.1, -p.2))) n = -(c.amount n) := by
  have := get?_map_val (fun _ v => -v) c n
  simp only [Contents.amount]
  rw [this]
  cases c.get? n <;> simp

theorem keys_map_neg [Neg α] (c : Contents α) : Contents.keys (c.map (fun p => (p.1, -p.2))) = c.keys :=
  keys_map_val (fun _ v => -v) c

theorem amount_map_mul [MulZeroClass α] (c : Contents α) (k : α) (n : Name) :
    Contents.amount (c.map (fun p => (p.1, p.2 * k))) n = c.amount n * k := by
  have := get?_map_val (fun _ v => v * k) c n
  simp only [Contents.amount]
  rw [this]
  cases c.get? n <;> simp

theorem keys_map_mul [Mul α] (c : Contents α) (k : α) :
    Contents.keys (c.map (fun p => (p.1, p.2 * k))) = c.keys :=
  keys_map_val (fun _ v => v * k) c

theorem amount_map_div [DivisionRing α] (c : Contents α) (k : α) (n : Name) :
    Contents.amount (c.map (fun p => (p.1, p.2 / k))) n = c.amount n / k := by
  have := get?_map_val (fun _ v => v / k) c n
  simp only [Contents.amount]
  rw [this]
  cases c.get? n <;> simp

theorem keys_map_div [Div α] (c : Contents α) (k : α) :
    Contents.keys (c.map (fun p => (p.1, p.2 / k))) = c.keys :=
  keys_map_val (fun _ v => v / k) c

/-! ### `remove` -/

/-- a successful `removeNames` is the restriction to the names not listed, and every listed
name was present -/
theorem removeNames_ok : ∀ (ns : List Name) (c c' : Contents α), removeNames c ns = .ok c' →
    c' = c.filter (fun p => !ns.contains p.1) ∧ ∀ n ∈ ns, n ∈ c.keys
  | [], c, c', h => by
    simp only [removeNames, Except.ok.injEq] at h
    subst h
    simp
  | n :: ns, c, c', h => by
    simp only [removeNames] at h
    split at h
    · rename_i hn
      obtain ⟨h1, h2⟩ := removeNames_ok ns _ c' h
      refine ⟨?_, ?_⟩
      · rw [h1, List.filter_filter]
        apply List.filter_congr
        intro p _
        by_cases e : p.1 = n <;> simp [e]
      · intro m hm
        rcases List.mem_cons.1 hm with rfl | hm
        · exact (any_key_iff c m).1 hn
        · exact ((mem_keys_filter (fun k => !(k == n)) c m).1 (h2 m hm)).1
    · cases h

theorem sorted_filter (q : Name × α → Bool) {c : Contents α} (h : c.sorted = true) :
    Contents.sorted (c.filter q) = true := by
  rw [sorted_iff_pairwise] at h ⊢
  exact h.sublist List.filter_sublist

/-! ### duplicate check -/

theorem nodupNames_iff (l : List Name) : nodupNames l = true ↔ l.Nodup := by
  induction l with
  | nil => simp [nodupNames]
  | cons n r ih => simp [nodupNames, ih]

end RdVerif
