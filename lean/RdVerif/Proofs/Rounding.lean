/-
Proofs/Rounding.lean — the rounding part of the forward-error bound of the double-precision decay
calculation `((Ĉ @ Ê) @ Ĉ⁻¹) @ N0`.

Part A: pure analysis (error of the evaluation under the standard model of floating-point
arithmetic, the computed exponential, products of `(1 + δ)` factors).
Part B: what the kernel-checked Boolean `roundRowOk` means.
Part C: the shipped dataset: rounding coefficient, forward error, ancestors-only refinement.
-/
import RdVerif.Proofs.NuclideSet
import RdVerif.Model.Rounding
import RdVerif.Gen.Icrp107.Obl.WroundAll

set_option maxRecDepth 20000

open RdVerif

namespace RdVerif

/-! ### Part A: analysis -/

/-- one term: a factor in `[0, 1]` known up to `η`, then a relative perturbation `θ` -/
theorem term_perturb (e etil θ Θ η : ℝ) (_hΘ : 0 ≤ Θ) (hη : 0 ≤ η) (he0 : 0 ≤ e) (he1 : e ≤ 1)
    (hetil : |etil - e| ≤ η) (hθ : |θ| ≤ Θ) : |etil * (1 + θ) - e| ≤ Θ * (1 + η) + η := by
  have hsplit : etil * (1 + θ) - e = (etil - e) * (1 + θ) + e * θ := by ring
  rw [hsplit]
  have h1 : |(etil - e) * (1 + θ)| ≤ η * (1 + Θ) := by
    rw [abs_mul]
    have : |1 + θ| ≤ 1 + Θ := (abs_add_le 1 θ).trans (by rw [abs_one]; linarith)
    exact mul_le_mul hetil this (abs_nonneg _) hη
  have h2 : |e * θ| ≤ 1 * Θ := by
    rw [abs_mul, abs_of_nonneg he0]
    exact mul_le_mul he1 hθ (abs_nonneg _) zero_le_one
  refine (abs_add_le _ _).trans ?_
  calc |(etil - e) * (1 + θ)| + |e * θ| ≤ η * (1 + Θ) + 1 * Θ := add_le_add h1 h2
    _ = Θ * (1 + η) + η := by ring

/-- rounding error of the evaluation: every term passes through a bounded relative perturbation
and the exponentials carry a bounded absolute error -/
theorem rounding_bound {n : ℕ} (Chat Cihat : Matrix (Fin n) (Fin n) ℝ) (ehat etil : Fin n → ℝ)
    (N0 : Fin n → ℝ) (i : Fin n) (Θ η : ℝ) (hΘ : 0 ≤ Θ) (hη : 0 ≤ η)
    (he : ∀ k, 0 ≤ ehat k ∧ ehat k ≤ 1) (hetil : ∀ k, |etil k - ehat k| ≤ η)
    (θ : Fin n → Fin n → ℝ) (hθ : ∀ k j, |θ k j| ≤ Θ) :
    |(∑ j, ∑ k, Chat i k * etil k * Cihat k j * N0 j * (1 + θ k j))
        - ∑ j, (∑ k, Chat i k * ehat k * Cihat k j) * N0 j|
      ≤ (Θ * (1 + η) + η) * ∑ j, (∑ k, |Chat i k * Cihat k j|) * |N0 j| := by
  rw [← Finset.sum_sub_distrib, Finset.mul_sum]
  refine (Finset.abs_sum_le_sum_abs _ _).trans (Finset.sum_le_sum ?_)
  intro j _
  rw [Finset.sum_mul, ← Finset.sum_sub_distrib, Finset.sum_mul, Finset.mul_sum]
  refine (Finset.abs_sum_le_sum_abs _ _).trans (Finset.sum_le_sum ?_)
  intro k _
  have e : Chat i k * etil k * Cihat k j * N0 j * (1 + θ k j) - Chat i k * ehat k * Cihat k j * N0 j
      = (Chat i k * Cihat k j) * N0 j * (etil k * (1 + θ k j) - ehat k) := by ring
  rw [e, abs_mul, abs_mul, mul_comm (Θ * (1 + η) + η)]
  exact mul_le_mul_of_nonneg_left
    (term_perturb _ _ _ _ _ hΘ hη (he k).1 (he k).2 (hetil k) (hθ k j))
    (mul_nonneg (abs_nonneg _) (abs_nonneg _))

/-- the computed exponential: one rounding of the product t·λ̂ (relative δ₁), one of exp
(relative δ₂) -/
theorem exp_model (x δ₁ δ₂ : ℝ) (hx : 0 ≤ x) (h1 : |δ₁| ≤ 1 / 2 ^ 53) (h2 : |δ₂| ≤ 1 / 2 ^ 52) :
    |Real.exp (-(x * (1 + δ₁))) * (1 + δ₂) - Real.exp (-x)| ≤ 3 / 2 ^ 53 := by
  have hρ : (0 : ℝ) ≤ 1 / 2 ^ 53 := by norm_num
  have hρ1 : (1 : ℝ) / 2 ^ 53 < 1 := by norm_num
  have hA : |Real.exp (-(x * (1 + δ₁))) - Real.exp (-x)|
      ≤ (1 / 2 ^ 53 : ℝ) / (2 * (1 - 1 / 2 ^ 53)) := by
    apply exp_perturb_abs_sharp x (x * (1 + δ₁)) (1 / 2 ^ 53) hx hρ hρ1
    have : x * (1 + δ₁) - x = x * δ₁ := by ring
    rw [this, abs_mul, abs_of_nonneg hx, mul_comm]
    exact mul_le_mul_of_nonneg_right h1 hx
  have hδ₁ : -1 ≤ δ₁ := by
    have := (abs_le.1 h1).1
    have h' : (-1 : ℝ) ≤ -(1 / 2 ^ 53) := by norm_num
    linarith
  have hB0 : Real.exp (-(x * (1 + δ₁))) ≤ 1 := by
    rw [Real.exp_le_one_iff]
    have : 0 ≤ x * (1 + δ₁) := mul_nonneg hx (by linarith)
    linarith
  have hB : |Real.exp (-(x * (1 + δ₁))) * δ₂| ≤ 1 * (1 / 2 ^ 52) := by
    rw [abs_mul, abs_of_nonneg (Real.exp_pos _).le]
    exact mul_le_mul hB0 h2 (abs_nonneg _) zero_le_one
  have hsplit : Real.exp (-(x * (1 + δ₁))) * (1 + δ₂) - Real.exp (-x)
      = (Real.exp (-(x * (1 + δ₁))) - Real.exp (-x)) + Real.exp (-(x * (1 + δ₁))) * δ₂ := by ring
  rw [hsplit]
  refine (abs_add_le _ _).trans ((add_le_add hA hB).trans ?_)
  norm_num

/-- a product of `m` factors `(1 + δ)`, `|δ| ≤ u`, is within `(1 + u)^m − 1` of 1 -/
theorem prod_one_add_le_pow (m : ℕ) (u : ℝ) (hu : 0 ≤ u) (δ : Fin m → ℝ) (hδ : ∀ l, |δ l| ≤ u) :
    |∏ l, (1 + δ l) - 1| ≤ (1 + u) ^ m - 1 := by
  induction m with
  | zero => simp
  | succ m ih =>
    rw [Fin.prod_univ_succ, pow_succ]
    have hE := ih (fun l => δ l.succ) (fun l => hδ l.succ)
    set P := ∏ l : Fin m, (1 + δ l.succ) with hP
    have hE0 : 0 ≤ (1 + u) ^ m - 1 := (abs_nonneg _).trans hE
    have hsplit : (1 + δ 0) * P - 1 = δ 0 + (P - 1) + δ 0 * (P - 1) := by ring
    rw [hsplit]
    have h3 : |δ 0 * (P - 1)| ≤ u * ((1 + u) ^ m - 1) := by
      rw [abs_mul]
      exact mul_le_mul (hδ 0) hE (abs_nonneg _) hu
    refine (abs_add_le _ _).trans ?_
    have h12 := (abs_add_le (δ 0) (P - 1)).trans (add_le_add (hδ 0) hE)
    calc |δ 0 + (P - 1)| + |δ 0 * (P - 1)|
        ≤ (u + ((1 + u) ^ m - 1)) + u * ((1 + u) ^ m - 1) := add_le_add h12 h3
      _ = (1 + u) ^ m * (1 + u) - 1 := by ring

/-- `(1 + u)^m (1 − m u) ≤ 1` -/
theorem one_add_pow_mul_le (m : ℕ) (u : ℝ) (hu : 0 ≤ u) : (1 + u) ^ m * (1 - (m : ℝ) * u) ≤ 1 := by
  induction m with
  | zero => simp
  | succ m ih =>
    have hp : 0 ≤ (1 + u) ^ m := pow_nonneg (by linarith) m
    have hb : (1 + u) * (1 - ((m + 1 : ℕ) : ℝ) * u) ≤ 1 - (m : ℝ) * u := by
      push_cast
      have : 0 ≤ ((m : ℝ) + 1) * (u * u) :=
        mul_nonneg (by positivity) (mul_nonneg hu hu)
      nlinarith
    calc (1 + u) ^ (m + 1) * (1 - ((m + 1 : ℕ) : ℝ) * u)
        = (1 + u) ^ m * ((1 + u) * (1 - ((m + 1 : ℕ) : ℝ) * u)) := by rw [pow_succ]; ring
      _ ≤ (1 + u) ^ m * (1 - (m : ℝ) * u) := mul_le_mul_of_nonneg_left hb hp
      _ ≤ 1 := ih

theorem one_add_pow_sub_one_le (m : ℕ) (u : ℝ) (hu : 0 ≤ u) (hmu : (m : ℝ) * u < 1) :
    (1 + u) ^ m - 1 ≤ (m : ℝ) * u / (1 - (m : ℝ) * u) := by
  have hpos : 0 < 1 - (m : ℝ) * u := by linarith
  rw [le_div_iff₀ hpos]
  have := one_add_pow_mul_le m u hu
  linarith

/-- the standard model gives the per-term factor: a product of at most m factors (1+δ), |δ| ≤ u,
m·u < 1, is 1+θ with |θ| ≤ m·u/(1 − m·u) -/
theorem prod_one_add_le (m : ℕ) (u : ℝ) (hu : 0 ≤ u) (hmu : (m : ℝ) * u < 1) (δ : Fin m → ℝ)
    (hδ : ∀ l, |δ l| ≤ u) :
    |∏ l, (1 + δ l) - 1| ≤ (m : ℝ) * u / (1 - (m : ℝ) * u) :=
  (prod_one_add_le_pow m u hu δ hδ).trans (one_add_pow_sub_one_le m u hu hmu)

/-! ### Part B: meaning of `roundRowOk` -/

/-- with strictly increasing keys the total under a key is 0 or the value of one stored pair -/
theorem Acc.tot_eq_of_sorted (a : Acc) (hs : Acc.keysSorted a) (j : ℕ) :
    a.tot j = 0 ∨ ∃ p ∈ a, a.tot j = p.2 := by
  unfold Acc.keysSorted at hs
  induction a with
  | nil => left; simp [Acc.tot]
  | cons p r ih =>
    obtain ⟨c, v⟩ := p
    obtain ⟨h1, h2⟩ := List.pairwise_cons.1 hs
    simp only [Acc.tot]
    by_cases hc : c = j
    · subst hc
      right
      refine ⟨(c, v), by simp, ?_⟩
      rw [if_pos rfl, Acc.tot_eq_zero_of_not_key r c (fun q hq => (h1 q hq).ne'), add_zero]
    · rw [if_neg hc, zero_add]
      rcases ih h2 with h | ⟨q, hq, e⟩
      · exact Or.inl h
      · exact Or.inr ⟨q, by simp [hq], e⟩

/-- **meaning of the rounding check** for row `i`: for every column `j` the exact condition weight
`K_ij = Σ_k |C_ik C⁻¹_kj|` either vanishes (no stored term in that column) or satisfies the
checked inequality -/
theorem roundRowOk_meaning (ds : Dataset) (bound : ℚ) (i : ℕ)
    (hs : ∀ e ∈ getRow ds.cx i, Row.sorted (getRow ds.cix e.col) = true)
    (h : roundRowOk ds bound i (getRow ds.cx i) = true) :
    ∀ j, condSum ds i j = 0 ∨
      roundCoef (getRow ds.cx i).length * (condSum ds i j + aggErrBound) ≤ bound := by
  unfold roundRowOk at h
  simp only [List.all_eq_true, decide_eq_true_eq] at h
  have hnil : Acc.keysSorted [] := List.Pairwise.nil
  obtain ⟨c1, c2⟩ := absAcc_spec ds (getRow ds.cx i) [] hnil hs
  intro j
  have e : (absAcc ds (getRow ds.cx i) []).tot j = condSum ds i j := by
    rw [c2 j]; simp [Acc.tot, condSum]
  rcases Acc.tot_eq_of_sorted _ c1 j with h0 | ⟨p, hp, hp2⟩
  · left; rw [← e]; exact h0
  · right; rw [← e, hp2]; exact h p hp

/-! #### the coefficient -/

theorem gammaU_nonneg (m : ℕ) (h : (m : ℚ) * uRound < 1) : 0 ≤ gammaU m := by
  unfold gammaU
  have hu : (0 : ℚ) ≤ uRound := by unfold uRound; norm_num
  exact div_nonneg (mul_nonneg (Nat.cast_nonneg m) hu) (by linarith)

theorem gammaU_mono (m M : ℕ) (hm : m ≤ M) (h : (M : ℚ) * uRound < 1) : gammaU m ≤ gammaU M := by
  unfold gammaU
  have hu : (0 : ℚ) ≤ uRound := by unfold uRound; norm_num
  have hmM : (m : ℚ) * uRound ≤ (M : ℚ) * uRound :=
    mul_le_mul_of_nonneg_right (by exact_mod_cast hm) hu
  exact div_le_div₀ (mul_nonneg (Nat.cast_nonneg M) hu) hmM (by linarith) (by linarith)

theorem roundCoef_nonneg (len : ℕ) (h : ((2 * len + 3 : ℕ) : ℚ) * uRound < 1) :
    0 ≤ roundCoef len := by
  unfold roundCoef
  have h1 := gammaU_nonneg _ h
  have h2 : (0 : ℚ) ≤ etaExp := by unfold etaExp; norm_num
  exact add_nonneg (mul_nonneg h1 (by linarith)) h2

theorem roundCoef_mono (len L : ℕ) (hl : len ≤ L) (h : ((2 * L + 3 : ℕ) : ℚ) * uRound < 1) :
    roundCoef len ≤ roundCoef L := by
  unfold roundCoef
  have h1 := gammaU_mono (2 * len + 3) (2 * L + 3) (by omega) h
  have h2 : (0 : ℚ) ≤ etaExp := by unfold etaExp; norm_num
  have := mul_le_mul_of_nonneg_right h1 (by linarith : (0 : ℚ) ≤ 1 + etaExp)
  linarith

/-- a row with at most 2000 stored entries: coefficient non-negative, and the `aggErrBound` part
alone is far below the bound -/
theorem roundCoef_small (len : ℕ) (hl : len ≤ 2000) :
    0 ≤ roundCoef len ∧ roundCoef len * aggErrBound ≤ roundBound := by
  have hu : ((2 * 2000 + 3 : ℕ) : ℚ) * uRound < 1 := by unfold uRound; norm_num
  have hu' : ((2 * len + 3 : ℕ) : ℚ) * uRound < 1 := by
    have hu0 : (0 : ℚ) ≤ uRound := by unfold uRound; norm_num
    have : ((2 * len + 3 : ℕ) : ℚ) ≤ ((2 * 2000 + 3 : ℕ) : ℚ) := by
      exact_mod_cast (by omega : 2 * len + 3 ≤ 2 * 2000 + 3)
    exact lt_of_le_of_lt (mul_le_mul_of_nonneg_right this hu0) hu
  refine ⟨roundCoef_nonneg len hu', ?_⟩
  have h1 := roundCoef_mono len 2000 hl hu
  have h2 : roundCoef 2000 * aggErrBound ≤ roundBound := by
    unfold roundCoef gammaU uRound etaExp aggErrBound roundBound
    norm_num
  have h3 : (0 : ℚ) ≤ aggErrBound := by unfold aggErrBound; norm_num
  exact (mul_le_mul_of_nonneg_right h1 h3).trans h2

/-- a row with strictly increasing columns in `[a, n)` has at most `n − a` entries -/
theorem Row.length_le_of_sorted (r : Row) (n a : ℕ) (hs : r.Pairwise (fun e f => e.col < f.col))
    (hlt : ∀ e ∈ r, a ≤ e.col ∧ e.col < n) : r.length ≤ n - a := by
  induction r generalizing a with
  | nil => simp
  | cons e r ih =>
    obtain ⟨h1, h2⟩ := List.pairwise_cons.1 hs
    have he := hlt e (by simp)
    have := ih (e.col + 1) h2 (fun f hf => ⟨h1 f hf, (hlt f (by simp [hf])).2⟩)
    simp only [List.length_cons]
    omega

end RdVerif

/-! ### Part C: the shipped dataset -/

namespace RdVerif

theorem AncOrSelf.trans {ds : Dataset} {j k i : ℕ} (h1 : AncOrSelf ds j k)
    (h2 : AncOrSelf ds k i) : AncOrSelf ds j i := by
  induction h2 with
  | self => exact h1
  | step p i' hp _ ih => exact AncOrSelf.step j p i' hp ih

end RdVerif

namespace RdVerif.Icrp107
open RdVerif RdVerif.Gen RdVerif.Gen.Icrp107.Obl

theorem rowRound (i : ℕ) (hi : i < N) :
    roundRowOk icrp107 roundBound i (getRow icrp107.cx i) = true :=
  items_checked (roundRowOk icrp107 roundBound) icrp107.cx N [] shape_cx
    (fun b hb => wround_all b (lt_nb hb)) i hi

/-- the checked inequality, or a column without terms -/
theorem icrp107_round (i j : Fin N) :
    condSum icrp107 i.val j.val = 0 ∨
      roundCoef (getRow icrp107.cx i.val).length * (condSum icrp107 i.val j.val + aggErrBound)
        ≤ roundBound :=
  roundRowOk_meaning icrp107 roundBound i.val
    (fun e he => icrp107_patternFacts.cix_sorted e.col
      (icrp107_patternFacts.cx_lt i.val i.isLt e he))
    (rowRound i.val i.isLt) j.val

/-- every row of the shipped `C` stores at most `N ≤ 2000` entries -/
theorem row_length_le (i : ℕ) (hi : i < N) : (getRow icrp107.cx i).length ≤ 2000 := by
  have h := Row.length_le_of_sorted (getRow icrp107.cx i) N 0
    (Row.sorted_pairwise _ (icrp107_patternFacts.cx_sorted i hi))
    (fun e he => ⟨Nat.zero_le _, icrp107_patternFacts.cx_lt i hi e he⟩)
  have hN : N ≤ 2000 := by decide
  omega

/-- `Σ_k |Ĉ_ik Ĉ⁻¹_kj| ≤ K_ij + B` -/
theorem sum_abs_hat_le (i j : Fin N) :
    ∑ k, |toMatF N icrp107.cf i k * toMatF N icrp107.cif k j|
      ≤ ((condSum icrp107 i.val j.val : ℚ) : ℝ) + ((aggErrBound : ℚ) : ℝ) := by
  have hK : (∑ k : Fin N, |C i k * Ci k j|) = ((condSum icrp107 i.val j.val : ℚ) : ℝ) := by
    unfold C Ci
    exact sum_cond_eq icrp107 N icrp107_patternFacts i j
  calc ∑ k, |toMatF N icrp107.cf i k * toMatF N icrp107.cif k j|
      ≤ ∑ k, (|C i k * Ci k j|
          + |toMatF N icrp107.cf i k * toMatF N icrp107.cif k j - C i k * Ci k j|) := by
        apply Finset.sum_le_sum
        intro k _
        have := abs_add_le (C i k * Ci k j)
          (toMatF N icrp107.cf i k * toMatF N icrp107.cif k j - C i k * Ci k j)
        simpa using this
    _ = ∑ k, |C i k * Ci k j|
          + ∑ k, |toMatF N icrp107.cf i k * toMatF N icrp107.cif k j - C i k * Ci k j| :=
        Finset.sum_add_distrib
    _ ≤ _ := add_le_add hK.le (icrp107_B i j)

/-- rounding part: with the kernel-checked `wround_all` -/
theorem icrp107_round_coef (i j : Fin N) :
    (((roundCoef (getRow icrp107.cx i.val).length : ℚ) : ℝ))
      * ∑ k, |toMatF N icrp107.cf i k * toMatF N icrp107.cif k j| ≤ 4 / 10 ^ 12 := by
  obtain ⟨h0, hsmall⟩ := roundCoef_small _ (row_length_le i.val i.isLt)
  have hq : roundCoef (getRow icrp107.cx i.val).length
      * (condSum icrp107 i.val j.val + aggErrBound) ≤ roundBound := by
    rcases icrp107_round i j with h | h
    · rw [h, zero_add]; exact hsmall
    · exact h
  have hr : (((roundCoef (getRow icrp107.cx i.val).length : ℚ) : ℝ))
      * (((condSum icrp107 i.val j.val : ℚ) : ℝ) + ((aggErrBound : ℚ) : ℝ))
      ≤ ((roundBound : ℚ) : ℝ) := by exact_mod_cast hq
  have h0' : (0 : ℝ) ≤ ((roundCoef (getRow icrp107.cx i.val).length : ℚ) : ℝ) := by
    exact_mod_cast h0
  refine (mul_le_mul_of_nonneg_left (sum_abs_hat_le i j) h0').trans (hr.trans ?_)
  simp only [roundBound]
  norm_num

theorem lamHat_nonneg (k : Fin N) : 0 ≤ lamHat k := by
  have h := (abs_le.1 (lamHat_close k)).1
  have hl := lam_nonneg k
  nlinarith

theorem Nt_eq_sum (N0 : Fin N → ℝ) (t : ℝ) (i : Fin N) :
    RdVerif.C01.Nt N0 t i = ∑ j, (∑ k, C i k * Real.exp (-(lam k * t)) * Ci k j) * N0 j := by
  rw [RdVerif.C01.C01_closed_form]
  simp only [Finset.mul_sum, Finset.sum_mul]
  rw [Finset.sum_comm]
  refine Finset.sum_congr rfl (fun j _ => Finset.sum_congr rfl (fun k _ => ?_))
  rw [neg_mul]; ring

/-- the rounding part alone: the computed value against the closed form evaluated exactly on the
stored doubles -/
theorem icrp107_rounding_part (t : ℝ) (ht : 0 ≤ t) (N0 : Fin N → ℝ) (hN0 : ∀ j, 0 ≤ N0 j)
    (i : Fin N)
    (etil : Fin N → ℝ) (hetil : ∀ k, |etil k - Real.exp (-(lamHat k * t))| ≤ 3 / 2 ^ 53)
    (θ : Fin N → Fin N → ℝ)
    (hθ : ∀ k j, |θ k j| ≤ (((gammaU (2 * (getRow icrp107.cx i.val).length + 3) : ℚ)) : ℝ)) :
    |(∑ j, ∑ k, toMatF N icrp107.cf i k * etil k * toMatF N icrp107.cif k j * N0 j * (1 + θ k j))
      - ∑ j, (∑ k, toMatF N icrp107.cf i k * Real.exp (-(lamHat k * t))
          * toMatF N icrp107.cif k j) * N0 j| ≤ 4 / 10 ^ 12 * ∑ j, N0 j := by
  have hlen := row_length_le i.val i.isLt
  have hΘ : (0 : ℝ) ≤ (((gammaU (2 * (getRow icrp107.cx i.val).length + 3) : ℚ)) : ℝ) := by
    have hu0 : (0 : ℚ) ≤ uRound := by unfold uRound; norm_num
    have hu : ((2 * 2000 + 3 : ℕ) : ℚ) * uRound < 1 := by unfold uRound; norm_num
    have hle : ((2 * (getRow icrp107.cx i.val).length + 3 : ℕ) : ℚ) ≤ ((2 * 2000 + 3 : ℕ) : ℚ) := by
      exact_mod_cast (by omega : 2 * (getRow icrp107.cx i.val).length + 3 ≤ 2 * 2000 + 3)
    have := gammaU_nonneg (2 * (getRow icrp107.cx i.val).length + 3)
      (lt_of_le_of_lt (mul_le_mul_of_nonneg_right hle hu0) hu)
    exact_mod_cast this
  have key := rounding_bound (toMatF N icrp107.cf) (toMatF N icrp107.cif)
    (fun k => Real.exp (-(lamHat k * t))) etil N0 i _ (3 / 2 ^ 53) hΘ (by norm_num)
    (fun k => ⟨(Real.exp_pos _).le, by
      rw [Real.exp_le_one_iff]; have := mul_nonneg (lamHat_nonneg k) ht; linarith⟩)
    hetil θ hθ
  refine key.trans ?_
  have hcoef : (((gammaU (2 * (getRow icrp107.cx i.val).length + 3) : ℚ)) : ℝ) * (1 + 3 / 2 ^ 53)
      + 3 / 2 ^ 53 = ((roundCoef (getRow icrp107.cx i.val).length : ℚ) : ℝ) := by
    simp only [roundCoef, etaExp]
    push_cast
    ring
  rw [hcoef, Finset.mul_sum, Finset.mul_sum]
  refine Finset.sum_le_sum (fun j _ => ?_)
  rw [abs_of_nonneg (hN0 j), ← mul_assoc]
  exact mul_le_mul_of_nonneg_right (icrp107_round_coef i j) (hN0 j)

/-- **forward error of the double-precision decay calculation for the shipped dataset**:
under the standard model of floating-point arithmetic (hypotheses hetil, hθ, hcomp describe the
computed value) the result differs from the exact solution by at most 1e-11 of the initial atoms -/
theorem icrp107_forward_error (t : ℝ) (ht : 0 ≤ t) (N0 : Fin N → ℝ) (hN0 : ∀ j, 0 ≤ N0 j)
    (i : Fin N)
    (etil : Fin N → ℝ) (hetil : ∀ k, |etil k - Real.exp (-(lamHat k * t))| ≤ 3 / 2 ^ 53)
    (θ : Fin N → Fin N → ℝ)
    (hθ : ∀ k j, |θ k j| ≤ (((gammaU (2 * (getRow icrp107.cx i.val).length + 3) : ℚ)) : ℝ))
    (comp : ℝ)
    (hcomp : comp = ∑ j, ∑ k,
      toMatF N icrp107.cf i k * etil k * toMatF N icrp107.cif k j * N0 j * (1 + θ k j)) :
    |comp - RdVerif.C01.Nt N0 t i| ≤ 1 / 10 ^ 11 * ∑ j, N0 j := by
  have h1 := icrp107_rounding_part t ht N0 hN0 i etil hetil θ hθ
  have h2 := icrp107_data_contribution t ht N0 hN0 i
  have hs : 0 ≤ ∑ j, N0 j := Finset.sum_nonneg (fun j _ => hN0 j)
  rw [← hcomp] at h1
  have := abs_sub_le comp
    (∑ j, (∑ k, toMatF N icrp107.cf i k * Real.exp (-(lamHat k * t))
      * toMatF N icrp107.cif k j) * N0 j) (RdVerif.C01.Nt N0 t i)
  nlinarith

/-! non-vacuity: exact exponentials, no rounding -/
example (t : ℝ) (ht : 0 ≤ t) (N0 : Fin N → ℝ) (hN0 : ∀ j, 0 ≤ N0 j) (i : Fin N) :
    |(∑ j, ∑ k, toMatF N icrp107.cf i k * Real.exp (-(lamHat k * t)) * toMatF N icrp107.cif k j
        * N0 j * (1 + 0)) - RdVerif.C01.Nt N0 t i| ≤ 1 / 10 ^ 11 * ∑ j, N0 j :=
  icrp107_forward_error t ht N0 hN0 i (fun k => Real.exp (-(lamHat k * t)))
    (fun k => by rw [sub_self, abs_zero]; norm_num) (fun _ _ => 0)
    (fun k j => by
      rw [abs_zero]
      have hu0 : (0 : ℚ) ≤ uRound := by unfold uRound; norm_num
      have hu : ((2 * 2000 + 3 : ℕ) : ℚ) * uRound < 1 := by unfold uRound; norm_num
      have hlen := row_length_le i.val i.isLt
      have hle : ((2 * (getRow icrp107.cx i.val).length + 3 : ℕ) : ℚ)
          ≤ ((2 * 2000 + 3 : ℕ) : ℚ) := by
        exact_mod_cast (by omega : 2 * (getRow icrp107.cx i.val).length + 3 ≤ 2 * 2000 + 3)
      have := gammaU_nonneg (2 * (getRow icrp107.cx i.val).length + 3)
        (lt_of_le_of_lt (mul_le_mul_of_nonneg_right hle hu0) hu)
      exact_mod_cast this)
    _ rfl

/-! #### only the ancestors' atoms count -/

theorem toMatF_eq_zero (n : ℕ) (M : List (List FRow)) (i j : Fin n)
    (h : j.val ∉ fcolsOf (get2 M i.val [])) : toMatF n M i j = 0 := by
  rw [toMatF_eq_selSum]
  apply selSum_eq_zero
  intro x hx hc
  exact h (List.mem_map.2 ⟨x, hx, hc⟩)

theorem toMat_eq_zero (n : ℕ) (M : Blocks) (i j : Fin n)
    (h : j.val ∉ colsOf (getRow M i.val)) : toMat n M i j = 0 := by
  unfold toMat
  rw [den_eq_zero_of_not_mem _ _ (fun e he hc => h (List.mem_map.2 ⟨e, he, hc⟩))]
  simp

/-- `Ĉ_ik Ĉ⁻¹_kj = 0` for every `k` unless `j` is `i` or an ancestor of `i` -/
theorem hat_prod_eq_zero (i j k : Fin N) (h : ¬ AncOrSelf icrp107 j.val i.val) :
    toMatF N icrp107.cf i k * toMatF N icrp107.cif k j = 0 := by
  by_cases hk : k.val ∈ colsOf (getRow icrp107.cx i.val)
  · have hki := (icrp107_cols_iff i.val i.isLt k.val).1 hk
    have hj : j.val ∉ fcolsOf (get2 icrp107.cif k.val []) := by
      rw [icrp107_patternFacts.cif_cols k.val k.isLt]
      intro hj
      exact h (((icrp107_cols_iff k.val k.isLt j.val).1 hj).trans hki)
    rw [toMatF_eq_zero N icrp107.cif k j hj, mul_zero]
  · have hk' : k.val ∉ fcolsOf (get2 icrp107.cf i.val []) := by
      rw [icrp107_patternFacts.cf_cols i.val i.isLt]; exact hk
    rw [toMatF_eq_zero N icrp107.cf i k hk', zero_mul]

/-- `C_ik C⁻¹_kj = 0` for every `k` unless `j` is `i` or an ancestor of `i` -/
theorem exact_prod_eq_zero (i j k : Fin N) (h : ¬ AncOrSelf icrp107 j.val i.val) :
    C i k * Ci k j = 0 := by
  unfold C Ci
  by_cases hk : k.val ∈ colsOf (getRow icrp107.cx i.val)
  · have hki := (icrp107_cols_iff i.val i.isLt k.val).1 hk
    have hj : j.val ∉ colsOf (getRow icrp107.cix k.val) := by
      rw [icrp107_patternFacts.cix_cols k.val k.isLt]
      intro hj
      exact h (((icrp107_cols_iff k.val k.isLt j.val).1 hj).trans hki)
    rw [toMat_eq_zero N icrp107.cix k j hj, mul_zero]
  · rw [toMat_eq_zero N icrp107.cx i k hk, zero_mul]

open Classical in
/-- the initial atoms restricted to `i` and its ancestors -/
noncomputable def ancPart (i : Fin N) (N0 : Fin N → ℝ) : Fin N → ℝ :=
  fun j => if AncOrSelf icrp107 j.val i.val then N0 j else 0

theorem ancPart_nonneg (i : Fin N) (N0 : Fin N → ℝ) (hN0 : ∀ j, 0 ≤ N0 j) (j : Fin N) :
    0 ≤ ancPart i N0 j := by
  unfold ancPart
  split
  · exact hN0 j
  · exact le_rfl

/-- the exact solution at `i` only sees the atoms of `i` and its ancestors -/
theorem Nt_ancPart (N0 : Fin N → ℝ) (t : ℝ) (i : Fin N) :
    RdVerif.C01.Nt (ancPart i N0) t i = RdVerif.C01.Nt N0 t i := by
  rw [Nt_eq_sum, Nt_eq_sum]
  refine Finset.sum_congr rfl (fun j _ => ?_)
  unfold ancPart
  split
  · rfl
  · rename_i h
    have hz : (∑ k, C i k * Real.exp (-(lam k * t)) * Ci k j) = 0 := by
      refine Finset.sum_eq_zero (fun k _ => ?_)
      have e : C i k * Real.exp (-(lam k * t)) * Ci k j
          = (C i k * Ci k j) * Real.exp (-(lam k * t)) := by ring
      rw [e, exact_prod_eq_zero i j k h, zero_mul]
    rw [hz, zero_mul, zero_mul]

/-- so does the computed value -/
theorem comp_ancPart (N0 : Fin N → ℝ) (i : Fin N) (etil : Fin N → ℝ) (θ : Fin N → Fin N → ℝ) :
    (∑ j, ∑ k, toMatF N icrp107.cf i k * etil k * toMatF N icrp107.cif k j * ancPart i N0 j
        * (1 + θ k j))
      = ∑ j, ∑ k, toMatF N icrp107.cf i k * etil k * toMatF N icrp107.cif k j * N0 j
        * (1 + θ k j) := by
  refine Finset.sum_congr rfl (fun j _ => Finset.sum_congr rfl (fun k _ => ?_))
  unfold ancPart
  split
  · rfl
  · rename_i h
    have e : ∀ x : ℝ, toMatF N icrp107.cf i k * etil k * toMatF N icrp107.cif k j * x
        * (1 + θ k j)
        = (toMatF N icrp107.cf i k * toMatF N icrp107.cif k j) * (etil k * x * (1 + θ k j)) :=
      fun x => by ring
    rw [e, e, hat_prod_eq_zero i j k h, zero_mul, zero_mul]

open Classical in
/-- **forward error relative to the initial atoms held by the nuclide and its ancestors**: same
hypotheses as `icrp107_forward_error`; only the atoms of `i` itself and of its direct and indirect
parents enter the bound -/
theorem icrp107_forward_error_ancestors (t : ℝ) (ht : 0 ≤ t) (N0 : Fin N → ℝ)
    (hN0 : ∀ j, 0 ≤ N0 j) (i : Fin N)
    (etil : Fin N → ℝ) (hetil : ∀ k, |etil k - Real.exp (-(lamHat k * t))| ≤ 3 / 2 ^ 53)
    (θ : Fin N → Fin N → ℝ)
    (hθ : ∀ k j, |θ k j| ≤ (((gammaU (2 * (getRow icrp107.cx i.val).length + 3) : ℚ)) : ℝ))
    (comp : ℝ)
    (hcomp : comp = ∑ j, ∑ k,
      toMatF N icrp107.cf i k * etil k * toMatF N icrp107.cif k j * N0 j * (1 + θ k j)) :
    |comp - RdVerif.C01.Nt N0 t i|
      ≤ 1 / 10 ^ 11 * ∑ j, (if AncOrSelf icrp107 j.val i.val then N0 j else 0) := by
  have h := icrp107_forward_error t ht (ancPart i N0) (ancPart_nonneg i N0 hN0) i etil hetil θ hθ
    comp (by rw [hcomp, comp_ancPart])
  rw [Nt_ancPart] at h
  exact h

end RdVerif.Icrp107

-- every theorem below depends on [propext, Classical.choice, Quot.sound] only
-- #print axioms RdVerif.rounding_bound
-- #print axioms RdVerif.exp_model
-- #print axioms RdVerif.prod_one_add_le
-- #print axioms RdVerif.roundRowOk_meaning
-- #print axioms RdVerif.Icrp107.icrp107_round_coef
-- #print axioms RdVerif.Icrp107.icrp107_forward_error
-- #print axioms RdVerif.Icrp107.icrp107_forward_error_ancestors
