/-
Proofs/OracleCum.lean — soundness of the cumulative-decays oracle: the enclosure computed by
`cumEncl` (and by its cached variant `cumEnclT`) contains the exact real value `cumReal`, and for
the shipped dataset `cumReal` is the cumulative number of decays `C03.Dt`.
-/
import RdVerif.Proofs.Oracle
import RdVerif.Proofs.Icrp107Error
import RdVerif.Props.C03

set_option maxRecDepth 20000

open RdVerif

namespace RdVerif

/-- the exact value `cumEncl` encloses: `Σ_{k radioactive} (r_i / r_k) · a_ik · (1 − e^{−r_k ln2 t})` -/
noncomputable def cumReal (ds : Dataset) (v : N0) (t : ℝ) (i : ℕ) : ℝ :=
  ((coeffs ds v i).map (fun p =>
    if get2 ds.rate p.1 0 = 0 then 0
    else ((get2 ds.rate i 0 : ℚ) : ℝ) / ((get2 ds.rate p.1 0 : ℚ) : ℝ) * ((p.2 : ℚ) : ℝ) *
      (1 - Real.exp (-(((get2 ds.rate p.1 0 : ℚ) : ℝ) * Real.log 2 * t))))).sum

/-! ### the fold -/

theorem oneMinus_sound (iv : ℚ × ℚ) (x : ℝ) (h : (iv.1 : ℝ) ≤ x ∧ x ≤ (iv.2 : ℝ)) :
    ((oneMinus iv).1 : ℝ) ≤ 1 - x ∧ 1 - x ≤ ((oneMinus iv).2 : ℝ) := by
  unfold oneMinus
  push_cast
  exact ⟨by linarith [h.2], by linarith [h.1]⟩

/-- generalised accumulator with skipped entries -/
theorem foldCondEncl_sound (c : ℕ × ℚ → Bool) (a : ℕ × ℚ → ℚ) (F : ℕ × ℚ → ℚ × ℚ)
    (x : ℕ × ℚ → ℝ) (l : List (ℕ × ℚ))
    (hF : ∀ p ∈ l, c p = false → ((F p).1 : ℝ) ≤ x p ∧ x p ≤ ((F p).2 : ℝ)) (s : ℚ × ℚ) (y : ℝ)
    (hs : (s.1 : ℝ) ≤ y ∧ y ≤ (s.2 : ℝ)) :
    ((l.foldl (fun s p => if c p then s else addIv s (scaleIv (a p) (F p))) s).1 : ℝ)
        ≤ y + (l.map (fun p => if c p then 0 else ((a p : ℚ) : ℝ) * x p)).sum ∧
      y + (l.map (fun p => if c p then 0 else ((a p : ℚ) : ℝ) * x p)).sum
        ≤ ((l.foldl (fun s p => if c p then s else addIv s (scaleIv (a p) (F p))) s).2 : ℝ) := by
  induction l generalizing s y with
  | nil => simpa using hs
  | cons p l ih =>
    simp only [List.foldl_cons, List.map_cons, List.sum_cons]
    cases hc : c p with
    | true =>
      have := ih (fun q hq => hF q (by simp [hq])) s y hs
      simpa using this
    | false =>
      have h1 := addIv_sound s (scaleIv (a p) (F p)) y (((a p : ℚ) : ℝ) * x p) hs
        (scaleIv_sound (a p) (F p) (x p) (hF p (by simp) hc))
      have := ih (fun q hq => hF q (by simp [hq])) _ _ h1
      rw [add_assoc] at this
      simpa using this

/-- **the oracle's enclosure of the cumulative decays is sound** -/
theorem cumEncl_sound (ds : Dataset) (cfg : EvalCfg) (v : N0) (t : ℚ) (i : ℕ) (ht : 0 ≤ t)
    (hr : ∀ p ∈ coeffs ds v i, 0 ≤ get2 ds.rate p.1 0)
    (hln2 : (cfg.ln2.1 : ℝ) ≤ Real.log 2 ∧ Real.log 2 ≤ (cfg.ln2.2 : ℝ)) :
    ((cumEncl ds cfg v t i).1 : ℝ) ≤ cumReal ds v (t : ℝ) i ∧
    cumReal ds v (t : ℝ) i ≤ ((cumEncl ds cfg v t i).2 : ℝ) := by
  have h := foldCondEncl_sound (fun p => get2 ds.rate p.1 0 == 0)
    (fun p => get2 ds.rate i 0 / get2 ds.rate p.1 0 * p.2)
    (fun p => oneMinus (decayFactor cfg (get2 ds.rate p.1 0) t))
    (fun p => 1 - Real.exp (-(((get2 ds.rate p.1 0 : ℚ) : ℝ) * Real.log 2 * (t : ℝ))))
    (coeffs ds v i)
    (fun p hp _ => oneMinus_sound _ _ (decayFactor_sound cfg _ t (hr p hp) ht hln2)) (0, 0) 0
    (by simp)
  simp only [zero_add] at h
  have e : cumReal ds v (t : ℝ) i = ((coeffs ds v i).map (fun p =>
      if (get2 ds.rate p.1 0 == 0) = true then (0 : ℝ)
      else ((get2 ds.rate i 0 / get2 ds.rate p.1 0 * p.2 : ℚ) : ℝ) *
        (1 - Real.exp (-(((get2 ds.rate p.1 0 : ℚ) : ℝ) * Real.log 2 * (t : ℝ)))))).sum := by
    unfold cumReal
    apply map_sum_congr
    intro p _
    by_cases h0 : get2 ds.rate p.1 0 = 0
    · simp [h0]
    · have : ¬ (get2 ds.rate p.1 0 == 0) = true := by simpa using h0
      rw [if_neg h0, if_neg this]
      push_cast
      ring
  rw [e]
  exact h

/-! ### the cached factor table -/

theorem cumEnclT_eq (ds : Dataset) (cfg : EvalCfg) (v : N0) (t : ℚ) (i : ℕ) (ks : List ℕ)
    (hks : ∀ p ∈ coeffs ds v i, p.1 ∈ ks) :
    cumEnclT ds (factorTable ds cfg t ks) v i = cumEncl ds cfg v t i := by
  unfold cumEnclT cumEncl
  apply foldl_congr_mem
  intro s p hp
  simp only [lookupFactor_factorTable ds cfg t ks p.1 (hks p hp)]

/-! ### bridge to the matrix form -/

/-- **the value the cumulative oracle encloses is the matrix expression**
`λ_i · (C · diag((1 − e^{−λ_k t})/λ_k) · C⁻¹ · N0)_i` with `λ = ln2 · rate` -/
theorem cumReal_eq_closed_form (ds : Dataset) (v : N0) (t : ℝ) (n : ℕ)
    (hcx : ∀ i < n, ∀ e ∈ getRow ds.cx i, e.col < n)
    (hcix : ∀ i < n, ∀ e ∈ getRow ds.cix i, e.col < n) (i : ℕ) (hi : i < n) :
    cumReal ds v t i = (Real.log 2 * rateVec n ds.rate ⟨i, hi⟩) *
      ∑ k : Fin n, toMat n ds.cx ⟨i, hi⟩ k *
        (if Real.log 2 * rateVec n ds.rate k = 0 then 0
          else (1 - Real.exp (-(Real.log 2 * rateVec n ds.rate k) * t)) /
            (Real.log 2 * rateVec n ds.rate k)) *
        (∑ j : Fin n, toMat n ds.cix k j * N0vec n v j) := by
  have hL : Real.log 2 ≠ 0 := Icrp107.log_two_ne_zero
  obtain ⟨f, hf⟩ : ∃ f : ℕ → ℝ, f = fun k : ℕ =>
      (if Real.log 2 * ((get2 ds.rate k 0 : ℚ) : ℝ) = 0 then 0
        else (1 - Real.exp (-(Real.log 2 * ((get2 ds.rate k 0 : ℚ) : ℝ)) * t)) /
          (Real.log 2 * ((get2 ds.rate k 0 : ℚ) : ℝ))) *
      ∑ j : Fin n, (((getRow ds.cix k).den j.val : ℚ) : ℝ) * ((n0At v j.val : ℚ) : ℝ) :=
    ⟨_, rfl⟩
  have hterm : ∀ k : Fin n, toMat n ds.cx ⟨i, hi⟩ k *
        (if Real.log 2 * rateVec n ds.rate k = 0 then 0
          else (1 - Real.exp (-(Real.log 2 * rateVec n ds.rate k) * t)) /
            (Real.log 2 * rateVec n ds.rate k)) *
        (∑ j : Fin n, toMat n ds.cix k j * N0vec n v j)
      = (((getRow ds.cx i).den k.val : ℚ) : ℝ) * f k.val := fun k => by
    rw [mul_assoc, hf]
    rfl
  rw [Finset.sum_congr rfl (fun k _ => hterm k),
    den_sum n f (getRow ds.cx i) (hcx i hi)]
  subst hf
  show _ = Real.log 2 * ((get2 ds.rate i 0 : ℚ) : ℝ) * _
  unfold cumReal coeffs
  rw [List.map_map, ← List.sum_map_mul_left]
  apply map_sum_congr
  intro e he
  simp only [Function.comp_apply, Rat.cast_mul]
  rw [cinvN0_cast ds v n e.col (hcix e.col (hcx i hi e he))]
  by_cases h0 : get2 ds.rate e.col 0 = 0
  · simp [h0]
  · have h0' : ((get2 ds.rate e.col 0 : ℚ) : ℝ) ≠ 0 := by exact_mod_cast h0
    have h1 : ¬ Real.log 2 * ((get2 ds.rate e.col 0 : ℚ) : ℝ) = 0 := mul_ne_zero hL h0'
    rw [if_neg h0, if_neg h1]
    have e1 : -(((get2 ds.rate e.col 0 : ℚ) : ℝ) * Real.log 2 * t)
        = -(Real.log 2 * ((get2 ds.rate e.col 0 : ℚ) : ℝ)) * t := by ring
    rw [e1]
    field_simp

namespace Icrp107
open RdVerif.Gen RdVerif.Gen.Icrp107.Obl

theorem Dt_eq_cumReal (v : N0) (t : ℝ) (i : ℕ) (hi : i < N) :
    RdVerif.C03.Dt (N0vec N v) t ⟨i, hi⟩ = cumReal icrp107 v t i := by
  rw [cumReal_eq_closed_form icrp107 v t N (fun i hi => (icrp107_cols_lt i hi).1)
      (fun i hi => (icrp107_cols_lt i hi).2) i hi]
  unfold RdVerif.C03.Dt
  rw [Bateman.cum_apply]
  rfl

/-- **the cumulative oracle encloses the exact cumulative decays of the shipped data** -/
theorem icrp107_cum_oracle_sound (cfg : EvalCfg) (v : N0) (t : ℚ) (i : ℕ) (hi : i < N)
    (ht : 0 ≤ t) (hln2 : (cfg.ln2.1 : ℝ) ≤ Real.log 2 ∧ Real.log 2 ≤ (cfg.ln2.2 : ℝ)) :
    ((cumEncl icrp107 cfg v t i).1 : ℝ) ≤ RdVerif.C03.Dt (N0vec N v) (t : ℝ) ⟨i, hi⟩ ∧
    RdVerif.C03.Dt (N0vec N v) (t : ℝ) ⟨i, hi⟩ ≤ ((cumEncl icrp107 cfg v t i).2 : ℝ) := by
  rw [Dt_eq_cumReal]
  apply cumEncl_sound icrp107 cfg v t i ht _ hln2
  intro p hp
  unfold coeffs at hp
  obtain ⟨e, he, rfl⟩ := List.mem_map.1 hp
  exact icrp107_rates_nonneg e.col ((icrp107_cols_lt i hi).1 e he)

end Icrp107

end RdVerif
