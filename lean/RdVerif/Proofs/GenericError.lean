/-
Proofs/GenericError.lean — the forward-error theorem of the double-precision decay calculation
for EVERY dataset that passes the two executable checks `wellFormedB` (exact side,
`Model/WellFormed.lean`) and `errorCheckedB` (double-precision side, `Model/ErrorChecked.lean`),
with the tolerances `bErr`, `bCond`, `lamRel`, `bRound` as parameters:

  |computed − exact| ≤ errorBoundQ bErr bCond lamRel bRound · Σ N0,
  errorBoundQ = bErr + (bCond + bErr)·ρ/(2(1−ρ)) + bRound,   ρ = rhoQ lamRel = lamRel + 2e-39.

The shipped-dataset versions are `icrp107_data_contribution` (`Proofs/Icrp107Error.lean`) and
`icrp107_forward_error` (`Proofs/Rounding.lean`); the lemmas they rest on (`sum_err_eq`,
`sum_cond_eq`, `aggRowOk_meaning`, `rounding_bound`, `data_contribution_bound_sharp`) are generic
in the dataset and are reused here.  Last section: the shipped dataset passes `wellFormedB`
(from the kernel-checked obligations), so it is an instance of the generic theorems.
-/
import RdVerif.Proofs.Generic
import RdVerif.Proofs.Icrp107Error
import RdVerif.Proofs.Rounding
import RdVerif.Model.ErrorChecked
import RdVerif.Gen.Icrp107.Obl

set_option maxRecDepth 20000

namespace RdVerif.Generic
open RdVerif

/-! ### unpacking `errorCheckedB` -/

/-- the content of `errorCheckedB ds bErr bCond lamRel bRound = true` -/
structure EC (ds : Dataset) (bErr bCond lamRel bRound : ℚ) : Prop where
  shape_lamF : blocksShapeOk ds.lamF ds.n = true
  bErr_nonneg : 0 ≤ bErr
  bCond_nonneg : 0 ≤ bCond
  lamRel_nonneg : 0 ≤ lamRel
  lamRel_lt : lamRel < 1 / 1000
  bRound_nonneg : 0 ≤ bRound
  agg : ∀ b < ds.cx.length, checkAggBlock ds bErr bCond b = true
  lamc : ∀ b < ds.lamF.length, checkLamBlock ds ln2Lo ln2Hi lamRel b = true
  round : ∀ b < ds.cx.length, checkRoundBlockP ds bErr bRound b = true

theorem ec_of_errorCheckedB (ds : Dataset) (bErr bCond lamRel bRound : ℚ)
    (h : errorCheckedB ds bErr bCond lamRel bRound = true) : EC ds bErr bCond lamRel bRound := by
  unfold errorCheckedB at h
  simp only [Bool.and_eq_true, decide_eq_true_eq] at h
  obtain ⟨⟨⟨⟨⟨⟨⟨⟨s, h1⟩, h2⟩, h3⟩, h4⟩, h5⟩, ha⟩, hl⟩, hr⟩ := h
  exact
    { shape_lamF := s, bErr_nonneg := h1, bCond_nonneg := h2, lamRel_nonneg := h3,
      lamRel_lt := h4, bRound_nonneg := h5, agg := allBlocks_spec _ _ ha,
      lamc := allBlocks_spec _ _ hl, round := allBlocks_spec _ _ hr }

/-! ### pattern facts and row facts -/

theorem patternFacts {ds : Dataset} (w : WF ds) : Icrp107.PatternFacts ds ds.n where
  cx_lt := fun i hi => (cols_lt w i hi).1
  cx_sorted := fun i hi => (Icrp107.patternOk_spec ds i _ (rowPattern w i hi)).2.2.2
  cix_cols := fun i hi => (Icrp107.patternOk_spec ds i _ (rowPattern w i hi)).1
  cf_cols := fun i hi => (Icrp107.patternOk_spec ds i _ (rowPattern w i hi)).2.1
  cif_cols := fun i hi => (Icrp107.patternOk_spec ds i _ (rowPattern w i hi)).2.2.1

theorem cix_rows_sorted {ds : Dataset} (w : WF ds) (i : ℕ) (hi : i < ds.n) :
    ∀ e ∈ getRow ds.cx i, Row.sorted (getRow ds.cix e.col) = true :=
  fun e he => (patternFacts w).cix_sorted e.col ((patternFacts w).cx_lt i hi e he)

theorem rowAgg {ds : Dataset} {bErr bCond lamRel bRound : ℚ} (w : WF ds)
    (ec : EC ds bErr bCond lamRel bRound) (i : ℕ) (hi : i < ds.n) :
    aggRowOk ds bErr bCond i (getRow ds.cx i) = true :=
  items_checked (aggRowOk ds bErr bCond) ds.cx ds.n [] w.shape_cx ec.agg i hi

theorem rowLam {ds : Dataset} {bErr bCond lamRel bRound : ℚ}
    (ec : EC ds bErr bCond lamRel bRound) (i : ℕ) (hi : i < ds.n) :
    lamOk ln2Lo ln2Hi lamRel (get2 ds.rate i 0) (get2 ds.lamF i 0) = true :=
  items_checked (fun i lam => lamOk ln2Lo ln2Hi lamRel (get2 ds.rate i 0) lam)
    ds.lamF ds.n 0 ec.shape_lamF ec.lamc i hi

theorem rowRound {ds : Dataset} {bErr bCond lamRel bRound : ℚ} (w : WF ds)
    (ec : EC ds bErr bCond lamRel bRound) (i : ℕ) (hi : i < ds.n) :
    roundRowOkP ds bErr bRound i (getRow ds.cx i) = true :=
  items_checked (roundRowOkP ds bErr bRound) ds.cx ds.n [] w.shape_cx ec.round i hi

/-! ### the double-precision decay constants -/

/-- the double-precision decay constants of a dataset -/
noncomputable def lamHat (ds : Dataset) : Fin ds.n → ℝ :=
  fun k => ((get2 ds.lamF k.val 0 : ℚ) : ℝ)

theorem rhoQ_nonneg (lamRel : ℚ) (h0 : 0 ≤ lamRel) : 0 ≤ rhoQ lamRel := by
  unfold rhoQ
  have : (0 : ℚ) ≤ 2 / 1000000000000000000000000000000000000000 := by norm_num
  linarith

theorem rhoQ_lt_one (lamRel : ℚ) (h1 : lamRel < 1 / 1000) : rhoQ lamRel < 1 := by
  unfold rhoQ
  have : (2 : ℚ) / 1000000000000000000000000000000000000000 < 1 / 1000 := by norm_num
  linarith

theorem rhoQ_cast_nonneg (lamRel : ℚ) (h0 : 0 ≤ lamRel) : (0 : ℝ) ≤ ((rhoQ lamRel : ℚ) : ℝ) := by
  exact_mod_cast rhoQ_nonneg lamRel h0

theorem rhoQ_cast_lt_one (lamRel : ℚ) (h1 : lamRel < 1 / 1000) :
    ((rhoQ lamRel : ℚ) : ℝ) < 1 := by
  exact_mod_cast rhoQ_lt_one lamRel h1

/-- `lamOk ln2Lo ln2Hi rel` gives a relative distance `rhoQ rel = rel + 2e-39` to `r·ln 2`: the
two ends of the 40-digit enclosure of ln 2 are 1e-40 apart -/
theorem lamOk_close (rel rq lq : ℚ) (h0 : 0 ≤ rel) (h1 : rel < 1 / 1000)
    (h : lamOk ln2Lo ln2Hi rel rq lq = true) :
    |((lq : ℚ) : ℝ) - Real.log 2 * ((rq : ℚ) : ℝ)|
      ≤ ((rhoQ rel : ℚ) : ℝ) * (Real.log 2 * ((rq : ℚ) : ℝ)) := by
  unfold lamOk at h
  split at h
  · rename_i hz
    rw [beq_iff_eq] at hz h
    rw [hz, h]
    simp
  · simp only [Bool.and_eq_true, decide_eq_true_eq] at h
    obtain ⟨⟨hr, hlo⟩, hhi⟩ := h
    obtain ⟨ha, hb⟩ := Icrp107.ln2_bounds
    have q1 : ln2Hi * (1 - rhoQ rel) ≤ ln2Lo * (1 - rel) := by
      unfold ln2Hi ln2Lo rhoQ; linarith
    have q2 : ln2Hi * (1 + rel) ≤ ln2Lo * (1 + rhoQ rel) := by
      unfold ln2Hi ln2Lo rhoQ; linarith
    have q1' : ((ln2Hi : ℚ) : ℝ) * (1 - ((rhoQ rel : ℚ) : ℝ))
        ≤ ((ln2Lo : ℚ) : ℝ) * (1 - ((rel : ℚ) : ℝ)) := by
      have h := (Rat.cast_le (K := ℝ)).2 q1
      push_cast at h
      exact h
    have q2' : ((ln2Hi : ℚ) : ℝ) * (1 + ((rel : ℚ) : ℝ))
        ≤ ((ln2Lo : ℚ) : ℝ) * (1 + ((rhoQ rel : ℚ) : ℝ)) := by
      have h := (Rat.cast_le (K := ℝ)).2 q2
      push_cast at h
      exact h
    have hlo' : ((rq : ℚ) : ℝ) * ((ln2Lo : ℚ) : ℝ) * (1 - ((rel : ℚ) : ℝ))
        ≤ ((lq : ℚ) : ℝ) := by exact_mod_cast hlo
    have hhi' : ((lq : ℚ) : ℝ)
        ≤ ((rq : ℚ) : ℝ) * ((ln2Hi : ℚ) : ℝ) * (1 + ((rel : ℚ) : ℝ)) := by
      exact_mod_cast hhi
    have hr' : (0 : ℝ) < ((rq : ℚ) : ℝ) := by exact_mod_cast hr
    have e1 : (0 : ℝ) ≤ 1 - ((rhoQ rel : ℚ) : ℝ) := by
      have := rhoQ_cast_lt_one rel h1; linarith
    have e2 : (0 : ℝ) ≤ 1 + ((rhoQ rel : ℚ) : ℝ) := by
      have := rhoQ_cast_nonneg rel h0; linarith
    generalize ((rhoQ rel : ℚ) : ℝ) = ρ at *
    generalize ((rq : ℚ) : ℝ) = r at *
    generalize ((lq : ℚ) : ℝ) = lf at *
    generalize ((ln2Lo : ℚ) : ℝ) = a at *
    generalize ((ln2Hi : ℚ) : ℝ) = b at *
    generalize ((rel : ℚ) : ℝ) = rl at *
    generalize Real.log 2 = L at *
    -- lower: r L (1-ρ) ≤ r b (1-ρ) ≤ r a (1-rel) ≤ lf
    have lower : r * (L * (1 - ρ)) ≤ lf := by
      have s1 : L * (1 - ρ) ≤ b * (1 - ρ) := mul_le_mul_of_nonneg_right hb e1
      have s2 : r * (L * (1 - ρ)) ≤ r * (a * (1 - rl)) :=
        mul_le_mul_of_nonneg_left (s1.trans q1') hr'.le
      calc r * (L * (1 - ρ)) ≤ r * (a * (1 - rl)) := s2
        _ = r * a * (1 - rl) := by ring
        _ ≤ lf := hlo'
    have upper : lf ≤ r * (L * (1 + ρ)) := by
      have s1 : a * (1 + ρ) ≤ L * (1 + ρ) := mul_le_mul_of_nonneg_right ha e2
      have s2 : r * (b * (1 + rl)) ≤ r * (L * (1 + ρ)) :=
        mul_le_mul_of_nonneg_left (q2'.trans s1) hr'.le
      calc lf ≤ r * b * (1 + rl) := hhi'
        _ = r * (b * (1 + rl)) := by ring
        _ ≤ r * (L * (1 + ρ)) := s2
    rw [abs_le]
    constructor <;> linarith

theorem lamHat_close {ds : Dataset} {bErr bCond lamRel bRound : ℚ}
    (ec : EC ds bErr bCond lamRel bRound) (k : Fin ds.n) :
    |lamHat ds k - lam ds k| ≤ ((rhoQ lamRel : ℚ) : ℝ) * lam ds k :=
  lamOk_close lamRel _ _ ec.lamRel_nonneg ec.lamRel_lt (rowLam ec k.val k.isLt)

theorem lamHat_nonneg (ds : Dataset) (hwf : wellFormedB ds = true) {bErr bCond lamRel bRound : ℚ}
    (ec : EC ds bErr bCond lamRel bRound) (k : Fin ds.n) : 0 ≤ lamHat ds k := by
  have h := (abs_le.1 (lamHat_close ec k)).1
  have hl := lam_nonneg ds hwf k
  have h1 := rhoQ_cast_lt_one lamRel ec.lamRel_lt
  have : 0 ≤ (1 - ((rhoQ lamRel : ℚ) : ℝ)) * lam ds k := mul_nonneg (by linarith) hl
  linarith

/-! ### the aggregated data error -/

theorem agg {ds : Dataset} {bErr bCond lamRel bRound : ℚ} (w : WF ds)
    (ec : EC ds bErr bCond lamRel bRound) (i j : Fin ds.n) :
    errSum ds i.val j.val ≤ bErr ∧ condSum ds i.val j.val ≤ bCond :=
  aggRowOk_meaning ds bErr bCond i.val ec.bErr_nonneg ec.bCond_nonneg
    (cix_rows_sorted w i.val i.isLt) (rowAgg w ec i.val i.isLt) j.val

/-- `Σ_k |Ĉ_ik Ĉ⁻¹_kj − C_ik C⁻¹_kj| ≤ bErr` -/
theorem sum_err_le {ds : Dataset} {bErr bCond lamRel bRound : ℚ} (w : WF ds)
    (ec : EC ds bErr bCond lamRel bRound) (i j : Fin ds.n) :
    (∑ k : Fin ds.n, |Icrp107.toMatF ds.n ds.cf i k * Icrp107.toMatF ds.n ds.cif k j
        - C ds i k * Ci ds k j|) ≤ ((bErr : ℚ) : ℝ) := by
  unfold C Ci
  rw [Icrp107.sum_err_eq ds ds.n (patternFacts w) i j]
  exact_mod_cast (agg w ec i j).1

/-- `Σ_k |C_ik C⁻¹_kj| ≤ bCond` -/
theorem sum_cond_le {ds : Dataset} {bErr bCond lamRel bRound : ℚ} (w : WF ds)
    (ec : EC ds bErr bCond lamRel bRound) (i j : Fin ds.n) :
    (∑ k : Fin ds.n, |C ds i k * Ci ds k j|) ≤ ((bCond : ℚ) : ℝ) := by
  unfold C Ci
  rw [Icrp107.sum_cond_eq ds ds.n (patternFacts w) i j]
  exact_mod_cast (agg w ec i j).2

theorem Nt_eq_sum (ds : Dataset) (N0 : Fin ds.n → ℝ) (t : ℝ) (i : Fin ds.n) :
    Nt ds N0 t i = ∑ j, (∑ k, C ds i k * Real.exp (-(lam ds k * t)) * Ci ds k j) * N0 j := by
  rw [closed_form]
  simp only [Finset.mul_sum, Finset.sum_mul]
  rw [Finset.sum_comm]
  refine Finset.sum_congr rfl (fun j _ => Finset.sum_congr rfl (fun k _ => ?_))
  rw [neg_mul]; ring

/-- **data part, every checked dataset**: the closed form evaluated exactly on the stored doubles
(matrices `Ĉ`, `Ĉ⁻¹`, decay constants `λ̂`) differs from the exact solution of the decay
equations by at most `(bErr + (bCond + bErr)·ρ/(2(1−ρ)))·Σ N0`, `ρ = rhoQ lamRel` -/
theorem data_contribution (ds : Dataset) (hwf : wellFormedB ds = true)
    (bErr bCond lamRel bRound : ℚ) (herr : errorCheckedB ds bErr bCond lamRel bRound = true)
    (t : ℝ) (ht : 0 ≤ t) (N0 : Fin ds.n → ℝ) (hN0 : ∀ j, 0 ≤ N0 j) (i : Fin ds.n) :
    |∑ j, (∑ k, Icrp107.toMatF ds.n ds.cf i k * Real.exp (-(lamHat ds k * t))
          * Icrp107.toMatF ds.n ds.cif k j) * N0 j - Nt ds N0 t i|
      ≤ ((bErr : ℝ) + ((bCond : ℝ) + (bErr : ℝ))
          * (((rhoQ lamRel : ℚ) : ℝ) / (2 * (1 - ((rhoQ lamRel : ℚ) : ℝ))))) * ∑ j, N0 j := by
  have w := wf_of_wellFormedB ds hwf
  have ec := ec_of_errorCheckedB ds bErr bCond lamRel bRound herr
  have key := data_contribution_bound_sharp (C ds) (Ci ds) (Icrp107.toMatF ds.n ds.cf)
    (Icrp107.toMatF ds.n ds.cif) (lam ds) (lamHat ds) ((rhoQ lamRel : ℚ) : ℝ) ((bErr : ℚ) : ℝ)
    ((bCond : ℚ) : ℝ) (rhoQ_cast_nonneg lamRel ec.lamRel_nonneg)
    (rhoQ_cast_lt_one lamRel ec.lamRel_lt) (lam_nonneg ds hwf) (lamHat_close ec)
    (sum_err_le w ec) (sum_cond_le w ec) t ht N0 hN0 i
  rw [Nt_eq_sum]
  exact key

/-! ### the rounding part -/

/-- **meaning of the parametrised rounding check** for row `i`: for every column `j` the checked
inequality holds with the exact condition weight `K_ij = Σ_k |C_ik C⁻¹_kj|` (for a column without
stored terms `K_ij = 0` and the second conjunct of `roundRowOkP` applies) -/
theorem roundRowOkP_meaning (ds : Dataset) (bErr bound : ℚ) (i : ℕ)
    (hs : ∀ e ∈ getRow ds.cx i, Row.sorted (getRow ds.cix e.col) = true)
    (h : roundRowOkP ds bErr bound i (getRow ds.cx i) = true) :
    ∀ j, roundCoef (getRow ds.cx i).length * (condSum ds i j + bErr) ≤ bound := by
  unfold roundRowOkP at h
  simp only [Bool.and_eq_true, List.all_eq_true, decide_eq_true_eq] at h
  obtain ⟨hall, hz⟩ := h
  have hnil : Acc.keysSorted [] := List.Pairwise.nil
  obtain ⟨c1, c2⟩ := absAcc_spec ds (getRow ds.cx i) [] hnil hs
  intro j
  have e : (absAcc ds (getRow ds.cx i) []).tot j = condSum ds i j := by
    rw [c2 j]; simp [Acc.tot, condSum]
  rcases Acc.tot_eq_of_sorted _ c1 j with h0 | ⟨p, hp, hp2⟩
  · rw [← e, h0, zero_add]; exact hz
  · rw [← e, hp2]; exact hall p hp

/-- `Σ_k |Ĉ_ik Ĉ⁻¹_kj| ≤ K_ij + bErr` -/
theorem sum_abs_hat_le {ds : Dataset} {bErr bCond lamRel bRound : ℚ} (w : WF ds)
    (ec : EC ds bErr bCond lamRel bRound) (i j : Fin ds.n) :
    ∑ k, |Icrp107.toMatF ds.n ds.cf i k * Icrp107.toMatF ds.n ds.cif k j|
      ≤ ((condSum ds i.val j.val : ℚ) : ℝ) + ((bErr : ℚ) : ℝ) := by
  have hK : (∑ k : Fin ds.n, |C ds i k * Ci ds k j|) = ((condSum ds i.val j.val : ℚ) : ℝ) := by
    unfold C Ci
    exact Icrp107.sum_cond_eq ds ds.n (patternFacts w) i j
  calc ∑ k, |Icrp107.toMatF ds.n ds.cf i k * Icrp107.toMatF ds.n ds.cif k j|
      ≤ ∑ k, (|C ds i k * Ci ds k j|
          + |Icrp107.toMatF ds.n ds.cf i k * Icrp107.toMatF ds.n ds.cif k j
              - C ds i k * Ci ds k j|) := by
        apply Finset.sum_le_sum
        intro k _
        have := abs_add_le (C ds i k * Ci ds k j)
          (Icrp107.toMatF ds.n ds.cf i k * Icrp107.toMatF ds.n ds.cif k j - C ds i k * Ci ds k j)
        simpa using this
    _ = ∑ k, |C ds i k * Ci ds k j|
          + ∑ k, |Icrp107.toMatF ds.n ds.cf i k * Icrp107.toMatF ds.n ds.cif k j
              - C ds i k * Ci ds k j| :=
        Finset.sum_add_distrib
    _ ≤ _ := add_le_add hK.le (sum_err_le w ec i j)

/-- the rounding coefficient times the condition weight of the stored doubles is at most
`bRound` (given that the coefficient is non-negative) -/
theorem round_coef {ds : Dataset} {bErr bCond lamRel bRound : ℚ} (w : WF ds)
    (ec : EC ds bErr bCond lamRel bRound) (i j : Fin ds.n)
    (h0 : (0 : ℝ) ≤ ((roundCoef (getRow ds.cx i.val).length : ℚ) : ℝ)) :
    (((roundCoef (getRow ds.cx i.val).length : ℚ) : ℝ))
      * ∑ k, |Icrp107.toMatF ds.n ds.cf i k * Icrp107.toMatF ds.n ds.cif k j|
      ≤ ((bRound : ℚ) : ℝ) := by
  have hq := roundRowOkP_meaning ds bErr bRound i.val (cix_rows_sorted w i.val i.isLt)
    (rowRound w ec i.val i.isLt) j.val
  have hr : (((roundCoef (getRow ds.cx i.val).length : ℚ) : ℝ))
      * (((condSum ds i.val j.val : ℚ) : ℝ) + ((bErr : ℚ) : ℝ)) ≤ ((bRound : ℚ) : ℝ) := by
    exact_mod_cast hq
  exact (mul_le_mul_of_nonneg_left (sum_abs_hat_le w ec i j) h0).trans hr

/-- the rounding part alone: the computed value against the closed form evaluated exactly on the
stored doubles -/
theorem rounding_part (ds : Dataset) (hwf : wellFormedB ds = true)
    (bErr bCond lamRel bRound : ℚ) (herr : errorCheckedB ds bErr bCond lamRel bRound = true)
    (t : ℝ) (ht : 0 ≤ t) (N0 : Fin ds.n → ℝ) (hN0 : ∀ j, 0 ≤ N0 j) (i : Fin ds.n)
    (etil : Fin ds.n → ℝ) (hetil : ∀ k, |etil k - Real.exp (-(lamHat ds k * t))| ≤ 3 / 2 ^ 53)
    (θ : Fin ds.n → Fin ds.n → ℝ)
    (hθ : ∀ k j, |θ k j| ≤ (((gammaU (2 * (getRow ds.cx i.val).length + 3) : ℚ)) : ℝ)) :
    |(∑ j, ∑ k, Icrp107.toMatF ds.n ds.cf i k * etil k * Icrp107.toMatF ds.n ds.cif k j * N0 j
          * (1 + θ k j))
      - ∑ j, (∑ k, Icrp107.toMatF ds.n ds.cf i k * Real.exp (-(lamHat ds k * t))
          * Icrp107.toMatF ds.n ds.cif k j) * N0 j| ≤ ((bRound : ℚ) : ℝ) * ∑ j, N0 j := by
  have w := wf_of_wellFormedB ds hwf
  have ec := ec_of_errorCheckedB ds bErr bCond lamRel bRound herr
  -- the hypothesis on θ forces the coefficient to be non-negative
  have hΘ : (0 : ℝ) ≤ (((gammaU (2 * (getRow ds.cx i.val).length + 3) : ℚ)) : ℝ) :=
    (abs_nonneg _).trans (hθ i i)
  have key := rounding_bound (Icrp107.toMatF ds.n ds.cf) (Icrp107.toMatF ds.n ds.cif)
    (fun k => Real.exp (-(lamHat ds k * t))) etil N0 i _ (3 / 2 ^ 53) hΘ (by norm_num)
    (fun k => ⟨(Real.exp_pos _).le, by
      rw [Real.exp_le_one_iff]; have := mul_nonneg (lamHat_nonneg ds hwf ec k) ht; linarith⟩)
    hetil θ hθ
  refine key.trans ?_
  have hcoef : (((gammaU (2 * (getRow ds.cx i.val).length + 3) : ℚ)) : ℝ) * (1 + 3 / 2 ^ 53)
      + 3 / 2 ^ 53 = ((roundCoef (getRow ds.cx i.val).length : ℚ) : ℝ) := by
    simp only [roundCoef, etaExp]
    push_cast
    ring
  have h0 : (0 : ℝ) ≤ ((roundCoef (getRow ds.cx i.val).length : ℚ) : ℝ) := by
    rw [← hcoef]
    have : (0 : ℝ) ≤ 1 + 3 / 2 ^ 53 := by norm_num
    have := mul_nonneg hΘ this
    have h3 : (0 : ℝ) ≤ 3 / 2 ^ 53 := by norm_num
    linarith
  rw [hcoef, Finset.mul_sum, Finset.mul_sum]
  refine Finset.sum_le_sum (fun j _ => ?_)
  rw [abs_of_nonneg (hN0 j), ← mul_assoc]
  exact mul_le_mul_of_nonneg_right (round_coef w ec i j h0) (hN0 j)

theorem errorBoundQ_cast (bErr bCond lamRel bRound : ℚ) :
    ((errorBoundQ bErr bCond lamRel bRound : ℚ) : ℝ)
      = ((bErr : ℝ) + ((bCond : ℝ) + (bErr : ℝ))
          * (((rhoQ lamRel : ℚ) : ℝ) / (2 * (1 - ((rhoQ lamRel : ℚ) : ℝ))))) + (bRound : ℝ) := by
  unfold errorBoundQ
  push_cast
  ring

/-- **forward error of the double-precision decay calculation, every checked dataset**: under the
standard model of floating-point arithmetic (hypotheses `hetil`, `hθ`, `hcomp` describe the
computed value) the result differs from the exact solution of the decay equations by at most
`errorBoundQ bErr bCond lamRel bRound` of the initial atoms -/
theorem forward_error (ds : Dataset) (hwf : wellFormedB ds = true)
    (bErr bCond lamRel bRound : ℚ) (herr : errorCheckedB ds bErr bCond lamRel bRound = true)
    (t : ℝ) (ht : 0 ≤ t) (N0 : Fin ds.n → ℝ) (hN0 : ∀ j, 0 ≤ N0 j) (i : Fin ds.n)
    (etil : Fin ds.n → ℝ) (hetil : ∀ k, |etil k - Real.exp (-(lamHat ds k * t))| ≤ 3 / 2 ^ 53)
    (θ : Fin ds.n → Fin ds.n → ℝ)
    (hθ : ∀ k j, |θ k j| ≤ (((gammaU (2 * (getRow ds.cx i.val).length + 3) : ℚ)) : ℝ))
    (comp : ℝ)
    (hcomp : comp = ∑ j, ∑ k, Icrp107.toMatF ds.n ds.cf i k * etil k
      * Icrp107.toMatF ds.n ds.cif k j * N0 j * (1 + θ k j)) :
    |comp - Nt ds N0 t i|
      ≤ (((errorBoundQ bErr bCond lamRel bRound : ℚ)) : ℝ) * ∑ j, N0 j := by
  have h1 := rounding_part ds hwf bErr bCond lamRel bRound herr t ht N0 hN0 i etil hetil θ hθ
  have h2 := data_contribution ds hwf bErr bCond lamRel bRound herr t ht N0 hN0 i
  rw [← hcomp] at h1
  have h3 := abs_sub_le comp
    (∑ j, (∑ k, Icrp107.toMatF ds.n ds.cf i k * Real.exp (-(lamHat ds k * t))
      * Icrp107.toMatF ds.n ds.cif k j) * N0 j) (Nt ds N0 t i)
  rw [errorBoundQ_cast, add_mul]
  linarith

/-! ### non-vacuity: a two-nuclide dataset passes both checks

`Generic.tiny` (H-3 → He-3, half-life 1 s) stores `lamF = [1, 0]`, which is not `ln 2`, so it does
not pass the decay-constant check; `tinyF` is the same dataset with `λ̂ = ln2Lo` (a 40-digit value
of ln 2).  Its float matrices equal the exact ones, so `bErr = 0`; `K ≤ 2`. -/

def tinyF : Dataset := { tiny with lamF := [[ln2Lo, mkRat 0 1]] }

theorem tinyF_wellFormed : wellFormedB tinyF = true := by decide +kernel

theorem tinyF_errorChecked :
    errorCheckedB tinyF 0 2 0 (1 / 100000000000000) = true := by decide +kernel

/-- the hypotheses of `forward_error` are satisfiable (exact exponentials, no rounding) -/
example (t : ℝ) (ht : 0 ≤ t) (N0 : Fin tinyF.n → ℝ) (hN0 : ∀ j, 0 ≤ N0 j) (i : Fin tinyF.n) :
    |(∑ j, ∑ k, Icrp107.toMatF tinyF.n tinyF.cf i k * Real.exp (-(lamHat tinyF k * t))
        * Icrp107.toMatF tinyF.n tinyF.cif k j * N0 j * (1 + 0)) - Nt tinyF N0 t i|
      ≤ (((errorBoundQ 0 2 0 (1 / 100000000000000) : ℚ)) : ℝ) * ∑ j, N0 j :=
  forward_error tinyF tinyF_wellFormed 0 2 0 _ tinyF_errorChecked t ht N0 hN0 i
    (fun k => Real.exp (-(lamHat tinyF k * t)))
    (fun k => by rw [sub_self, abs_zero]; norm_num) (fun _ _ => 0)
    (fun k j => by
      rw [abs_zero]
      have hlen : (getRow tinyF.cx i.val).length ≤ 2 := by
        have hi : i.val < 2 := i.isLt
        have h01 : i.val = 0 ∨ i.val = 1 := by omega
        rcases h01 with h | h <;> rw [h] <;> decide
      have hu0 : (0 : ℚ) ≤ uRound := by unfold uRound; norm_num
      have hu : ((2 * 2 + 3 : ℕ) : ℚ) * uRound < 1 := by unfold uRound; norm_num
      have hle : ((2 * (getRow tinyF.cx i.val).length + 3 : ℕ) : ℚ) ≤ ((2 * 2 + 3 : ℕ) : ℚ) := by
        exact_mod_cast (by omega : 2 * (getRow tinyF.cx i.val).length + 3 ≤ 2 * 2 + 3)
      have := gammaU_nonneg (2 * (getRow tinyF.cx i.val).length + 3)
        (lt_of_le_of_lt (mul_le_mul_of_nonneg_right hle hu0) hu)
      exact_mod_cast this)
    _ rfl

/-! ### the shipped dataset is an instance -/

theorem allBlocks_of {α} (L : List (List α)) (f : ℕ → Bool) (h : ∀ b < L.length, f b = true) :
    allBlocks L f = true := by
  unfold allBlocks
  exact List.all_eq_true.mpr (fun b hb => h b (List.mem_range.mp hb))

/-- the converse of `wf_of_wellFormedB` -/
theorem wellFormedB_of_WF (ds : Dataset) (w : WF ds) (hr : ratesNonneg ds.rate = true) :
    wellFormedB ds = true := by
  unfold wellFormedB wfVerdicts
  simp only [List.all_cons, List.all_nil, Bool.and_eq_true, Bool.and_true]
  exact ⟨⟨⟨⟨⟨⟨⟨⟨⟨w.shape_cx, w.shape_cix⟩, w.shape_names⟩, w.shape_hl⟩, w.shape_links⟩,
    w.shape_parents⟩, w.shape_rate⟩, w.shape_cf⟩, w.shape_cif⟩,
    allBlocks_of _ _ w.w1, allBlocks_of _ _ w.w2, allBlocks_of _ _ w.w3, allBlocks_of _ _ w.w6,
    allBlocks_of _ _ w.w47, ⟨allBlocks_of _ _ w.wparL, allBlocks_of _ _ w.wparP⟩,
    allBlocks_of _ _ w.w5, hr⟩

open RdVerif.Gen RdVerif.Gen.Icrp107.Obl in
theorem icrp107_ratesNonneg : ratesNonneg icrp107.rate = true := by decide +kernel

open RdVerif.Gen RdVerif.Gen.Icrp107.Obl in
/-- **the shipped dataset passes the executable well-formedness predicate** (from the
kernel-checked obligations), so every theorem of `Proofs/Generic.lean` and of this file applies
to it -/
theorem icrp107_wellFormed : wellFormedB icrp107 = true := by
  have len : ∀ {α} (M : List (List α)), blocksShapeOk M icrp107.n = true → M.length = 38 :=
    fun M h => (Icrp107.blocks_length_eq M icrp107.cx icrp107.n h shape_cx).trans nblocks
  have lt38 : ∀ {α} (M : List (List α)), blocksShapeOk M icrp107.n = true →
      ∀ b, b < M.length → b < 38 := fun M h b hb => Nat.lt_of_lt_of_eq hb (len M h)
  apply wellFormedB_of_WF icrp107 _ icrp107_ratesNonneg
  exact
    { shape_cx := shape_cx, shape_cix := shape_cix, shape_names := shape_names,
      shape_hl := shape_hl, shape_links := shape_links, shape_parents := shape_parents,
      shape_rate := shape_rate, shape_cf := shape_cf, shape_cif := shape_cif,
      w1 := fun b hb => w1_all b (lt38 _ shape_cx b hb),
      w2 := fun b hb => w2_all b (lt38 _ shape_cx b hb),
      w3 := fun b hb => w3_all b (lt38 _ shape_hl b hb),
      w6 := fun b hb => w6_all b (lt38 _ shape_cx b hb),
      w47 := fun b hb => w47_all b (lt38 _ shape_links b hb),
      wparL := fun b hb => wpar_all b (lt38 _ shape_links b hb),
      wparP := fun b hb => wpar_all b (lt38 _ shape_parents b hb),
      w5 := fun b hb => w5_all b (lt38 _ shape_cx b hb),
      rates := ratesNonneg_spec icrp107.rate icrp107_ratesNonneg }

end RdVerif.Generic

-- every theorem below depends on [propext, Classical.choice, Quot.sound] only
-- #print axioms RdVerif.Generic.data_contribution
-- #print axioms RdVerif.Generic.forward_error
-- #print axioms RdVerif.Generic.tinyF_errorChecked
-- #print axioms RdVerif.Generic.icrp107_wellFormed
