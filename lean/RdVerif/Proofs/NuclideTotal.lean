/-
Proofs/NuclideTotal.lean — totality of the parser models and the digit-run decomposition.
-/
import RdVerif.Proofs.NuclideId

set_option maxRecDepth 100000
set_option linter.unusedSimpArgs false

namespace RdVerif

theorem processMetaElem_ok (s : List Ch) : ∃ v, processMetaElem s = .ok v ∧ v.1 ++ v.2 = s := by
  unfold processMetaElem
  split
  · rename_i h
    cases s with
    | nil => simp at h
    | cons c r => exact ⟨_, rfl, rfl⟩
  · cases s with
    | nil => exact ⟨_, rfl, rfl⟩
    | cons c r =>
      simp only
      split
      · exact ⟨_, rfl, rfl⟩
      · exact ⟨_, rfl, rfl⟩

/-- every outcome of `parse_nuclide_str` is a name or `NuclideStrError` -/
theorem parseCore_total (s2 : List Ch) :
    (∃ r, parseCore s2 = .ok r) ∨ parseCore s2 = .error .nuclideStr := by
  unfold parseCore
  simp only [bind, Except.bind, pure, Except.pure, throw, throwThe, MonadExceptOf.throw]
  split
  · exact .inr rfl
  split
  · exact .inr rfl
  split
  · exact .inr rfl
  split
  · obtain ⟨v, hv, _⟩ := processMetaElem_ok (List.dropWhile isDig (List.dropWhile (fun c => !isDig c) s2))
    rw [hv]
    simp only
    split
    · exact .inr rfl
    split
    · exact .inr rfl
    split
    · exact .inr rfl
    · exact .inl ⟨_, rfl⟩
  · split
    · exact .inr rfl
    split
    · exact .inr rfl
    split
    · exact .inr rfl
    · exact .inl ⟨_, rfl⟩

theorem decodeState_total (k : Int) : (∃ r, decodeState k = .ok r) ∨ decodeState k = .error .value := by
  unfold decodeState
  split
  · exact .inr rfl
  · rename_i h1
    split
    · rename_i h2
      left
      have hlt : (k - 1).toNat < states.length := by omega
      have hnn : ¬ (k - 1 < 0) := by omega
      simp only [pyIndex, hnn, if_false, bind, Except.bind]
      rw [List.getElem?_eq_getElem hlt]
      exact ⟨_, rfl⟩
    · exact .inl ⟨_, rfl⟩

theorem parseId_total (x : Int) : (∃ r, parseId x = .ok r) ∨ parseId x = .error .value := by
  rw [parseId_eq]
  rcases decodeState_total (x - x.tdiv Gen.parseIdDivState * Gen.parseIdDivState) with ⟨r, hr⟩ | hr
  · rw [hr]
    simp only [bind, Except.bind, buildNuclideString]
    split
    · exact .inr rfl
    · exact .inl ⟨_, rfl⟩
  · rw [hr]; exact .inr rfl


theorem mem_takeWhile_p (p : Ch → Bool) (l : List Ch) : ∀ x ∈ l.takeWhile p, p x = true := by
  induction l with
  | nil => simp
  | cons a l ih =>
    intro x hx
    simp only [List.takeWhile] at hx
    split at hx
    · simp only [List.mem_cons] at hx
      rcases hx with rfl | hx
      · assumption
      · exact ih x hx
    · simp at hx

/-- the digit run: when the part after the first digit run holds no digit, the digits of the
whole string are exactly that run (this is why `nuclide.split(A)` yields two components) -/
theorem digits_contiguous (s2 : List Ch)
    (h : (List.dropWhile isDig (List.dropWhile (fun c => !isDig c) s2)).any isDig = false) :
    s2 = s2.takeWhile (fun c => !isDig c) ++
      (s2.dropWhile (fun c => !isDig c)).takeWhile isDig ++
      (s2.dropWhile (fun c => !isDig c)).dropWhile isDig ∧
    s2.filter isDig = (s2.dropWhile (fun c => !isDig c)).takeWhile isDig := by
  have e1 := List.takeWhile_append_dropWhile (p := fun c => !isDig c) (l := s2)
  have e2 := List.takeWhile_append_dropWhile (p := isDig) (l := s2.dropWhile (fun c => !isDig c))
  constructor
  · rw [List.append_assoc, e2, e1]
  · have hpre : (s2.takeWhile (fun c => !isDig c)).filter isDig = [] :=
      filter_all_false _ _ (fun x hx => by simpa using mem_takeWhile_p _ _ x hx)
    have hrun : ((s2.dropWhile (fun c => !isDig c)).takeWhile isDig).filter isDig =
        (s2.dropWhile (fun c => !isDig c)).takeWhile isDig :=
      filter_all_true _ _ (mem_takeWhile_p _ _)
    have hsuf : ((s2.dropWhile (fun c => !isDig c)).dropWhile isDig).filter isDig = [] :=
      filter_all_false _ _ (fun x hx => by
        simp only [List.any_eq_false] at h
        simpa using h x hx)
    conv => lhs; rw [← e1, ← e2]
    rw [List.filter_append, List.filter_append, hpre, hrun, hsuf]
    simp

end RdVerif
