/-
Proofs/NuclideForms.lean — the two structural lemmas behind `all_forms`: what `parseCore`
returns on `letters ++ digits ++ letters` (element first) and on `digits ++ letters` (mass
first).  Proved for every digit string, not by enumeration.
-/
import RdVerif.Proofs.Nuclide

set_option maxRecDepth 100000
set_option linter.unusedSimpArgs false

namespace RdVerif

/-- the state suffix as the user may type it when the element comes first: nothing, or one
letter whose lower-case image is a metastable character -/
def StateAnyCase (st : List Ch) : Prop := st = [] ∨ ∃ c, toLo c ∈ states ∧ st = [c]

/-- the state suffix in canonical (lower) case -/
def StateCanon (st : List Ch) : Prop := st = [] ∨ ∃ c ∈ states, st = [c]

theorem StateCanon.anyCase {st} (h : StateCanon st) : StateAnyCase st := by
  rcases h with rfl | ⟨c, hc, rfl⟩
  · exact .inl rfl
  · exact .inr ⟨c, by rw [(lo_props c (states_ok c hc)).2.1]; exact hc, rfl⟩

theorem StateCanon.map_toLo {st} (h : StateCanon st) : st.map toLo = st := by
  rcases h with rfl | ⟨c, hc, rfl⟩
  · rfl
  · simp [(lo_props c (states_ok c hc)).2.1]

theorem stateAnyCase_al {st} (h : StateAnyCase st) : ∀ x ∈ st, isAl x = true := by
  rcases h with rfl | ⟨c, hc, rfl⟩
  · simp
  · intro x hx
    simp only [List.mem_singleton] at hx
    subst hx
    exact toLo_isAl x (lo_props _ (states_ok _ hc)).1

/-- digit strings the parser accepts as a mass number -/
structure MassDigits (ds : List Ch) : Prop where
  ne : ds ≠ []
  dig : ∀ d ∈ ds, isDig d = true
  le : digitsVal ds ≤ Gen.massCutoff

private theorem tail_after (ds st rest : List Ch) (hds : MassDigits ds)
    (hnd : ∀ x ∈ st ++ rest, isDig x = false) :
    (ds ++ (st ++ rest)).dropWhile isDig = st ++ rest := by
  have := takeWhile_app isDig ds (st ++ rest) hds.dig (fun y hy => by
    have : y ∈ st ++ rest := by
      cases h : st ++ rest with
      | nil => simp [h] at hy
      | cons z zs => simp [h] at hy; subst hy; simp
    exact hnd y this)
  exact this.2

/-- **Element first**: `letters ++ digits ++ state` -/
theorem parseCore_elemFirst (w ds st : List Ch) (hcap : capitalize w ∈ elems)
    (hds : MassDigits ds) (hst : StateAnyCase st) :
    parseCore (w ++ ds ++ st) = .ok (capitalize w ++ [hy] ++ ds ++ st.map toLo) := by
  obtain ⟨hel0, _, helal, _, _⟩ := elems_ok _ hcap
  have hwal : ∀ x ∈ w, isAl x = true := capitalize_all_al w helal
  have hw0 : w ≠ [] := capitalize_ne_nil w hel0
  have hstal := stateAnyCase_al hst
  have hwnd : ∀ x ∈ w, isDig x = false := fun x hx => (al_props x (hwal x hx)).2.1
  have hstnd : ∀ x ∈ st, isDig x = false := fun x hx => (al_props x (hstal x hx)).2.1
  obtain ⟨d0, ds', rfl⟩ : ∃ d0 ds', ds = d0 :: ds' := by
    cases ds with
    | nil => exact absurd rfl hds.ne
    | cons d ds' => exact ⟨d, ds', rfl⟩
  have h3 : (w ++ (d0 :: ds') ++ st).all isAlnum = true := by
    simp only [List.all_eq_true, List.mem_append]
    rintro x ((hx | hx) | hx)
    · exact (al_props x (hwal x hx)).2.2.1
    · exact (dig_props x (hds.dig x hx)).2.2.1
    · exact (al_props x (hstal x hx)).2.2.1
  have h3' : (w ++ (d0 :: ds') ++ st).isEmpty = false := by
    cases w with
    | nil => exact absurd rfl hw0
    | cons _ _ => rfl
  have h4 : (w ++ (d0 :: ds') ++ st).filter isDig = d0 :: ds' := by
    rw [List.filter_append, List.filter_append, filter_all_false _ _ hwnd,
      filter_all_true _ _ hds.dig, filter_all_false _ _ hstnd]
    simp
  have h5 := takeWhile_app (fun c => !isDig c) w ((d0 :: ds') ++ st)
    (fun x hx => by simp [hwnd x hx]) (fun y hy => by
      simp at hy; subst hy; simp [hds.dig d0 (by simp)])
  have h6 := tail_after (d0 :: ds') st [] hds (by simpa using hstnd)
  have h7 : st.any isDig = false := by
    simp only [List.any_eq_false]; intro x hx; simp [hstnd x hx]
  have h8 : st.length ≤ 1 := by rcases hst with rfl | ⟨c, _, rfl⟩ <;> simp
  have h10 : ((st.map toLo).isEmpty || (st.map toLo).all states.contains) = true := by
    rcases hst with rfl | ⟨c, hc, rfl⟩
    · rfl
    · simp [hc]
  have h11 : elems.contains (capitalize w) = true := by simpa using hcap
  have h12 : w.isEmpty = false := by
    cases w with
    | nil => exact absurd rfl hw0
    | cons _ _ => rfl
  have hv' : ¬ (digitsVal (d0 :: ds') > Gen.massCutoff) := Nat.not_lt.mpr hds.le
  have e1 : w ++ (d0 :: ds') ++ st = w ++ ((d0 :: ds') ++ st) := by simp
  have h6' : List.dropWhile isDig (d0 :: ds' ++ st) = st := by simpa using h6
  unfold parseCore
  simp only [h3, h3', h4]
  rw [e1]
  simp only [h5.1, h5.2, h6', h7, h12]
  simp [hv', h8, Nat.not_lt.mpr h8, pure, Except.pure, bind, Except.bind, throw, throwThe,
    MonadExceptOf.throw, h11, h10]
  have h11' : capitalize w ∈ elems := hcap
  have h10' : ¬ (¬ st = [] ∧ ∃ x ∈ st, ¬ toLo x ∈ states) := by
    rintro ⟨_, x, hx, hnx⟩
    rcases hst with rfl | ⟨c, hc, rfl⟩
    · simp at hx
    · simp at hx; subst hx; exact hnx hc
  simp [h11', h10']

/-- **Mass first**: `digits ++ state ++ element`, exact letter case -/
theorem parseCore_massFirst (el ds st : List Ch) (hel : el ∈ elems)
    (hds : MassDigits ds) (hst : StateCanon st) :
    parseCore (ds ++ st ++ el) = .ok (el ++ [hy] ++ ds ++ st) := by
  obtain ⟨hel0, hlen, helal, hcap, hup⟩ := elems_ok el hel
  have helal' : ∀ x ∈ el, isAl x = true := by simpa [List.all_eq_true] using helal
  have hstal := stateAnyCase_al hst.anyCase
  have helnd : ∀ x ∈ el, isDig x = false := fun x hx => (al_props x (helal' x hx)).2.1
  have hstnd : ∀ x ∈ st, isDig x = false := fun x hx => (al_props x (hstal x hx)).2.1
  obtain ⟨d0, ds', rfl⟩ : ∃ d0 ds', ds = d0 :: ds' := by
    cases ds with
    | nil => exact absurd rfl hds.ne
    | cons d ds' => exact ⟨d, ds', rfl⟩
  have hd0 : isDig d0 = true := hds.dig d0 (by simp)
  have h3 : ((d0 :: ds') ++ st ++ el).all isAlnum = true := by
    simp only [List.all_eq_true, List.mem_append]
    rintro x ((hx | hx) | hx)
    · exact (dig_props x (hds.dig x hx)).2.2.1
    · exact (al_props x (hstal x hx)).2.2.1
    · exact (al_props x (helal' x hx)).2.2.1
  have h4 : ((d0 :: ds') ++ st ++ el).filter isDig = d0 :: ds' := by
    rw [List.filter_append, List.filter_append, filter_all_false _ _ helnd,
      filter_all_true _ _ hds.dig, filter_all_false _ _ hstnd]
    simp
  have e1 : (d0 :: ds') ++ st ++ el = d0 :: (ds' ++ st ++ el) := by simp
  have h6 := tail_after (d0 :: ds') st el hds (by
    intro x hx; simp only [List.mem_append] at hx
    rcases hx with hx | hx
    · exact hstnd x hx
    · exact helnd x hx)
  have h6' : List.dropWhile isDig (d0 :: (ds' ++ st ++ el)) = st ++ el := by
    have : d0 :: (ds' ++ st ++ el) = (d0 :: ds') ++ (st ++ el) := by simp
    rw [this]; exact h6
  have h7 : (st ++ el).any isDig = false := by
    simp only [List.any_eq_false, List.mem_append]
    rintro x (hx | hx)
    · simp [hstnd x hx]
    · simp [helnd x hx]
  -- what `_process_metastable_element_str` returns
  have hpm : processMetaElem (st ++ el) = .ok (st, el) := by
    rcases hst with rfl | ⟨c, hc, rfl⟩
    · -- ground state: the element starts with an upper-case letter, never a state character
      cases el with
      | nil => exact absurd rfl hel0
      | cons e0 er =>
        have hupe : isUp e0 = true := hup e0 rfl
        have hns : states.contains e0 = false := by
          cases h : states.contains e0 with
          | false => rfl
          | true =>
            have : e0 ∈ states := by simpa using h
            have := states_ok e0 this
            rw [up_not_lo e0 hupe] at this
            exact absurd this (by simp)
        have hl : ¬ ((e0 :: er).length > 2) := by simpa using hlen
        simp only [List.nil_append, processMetaElem, hl, if_false, hns, Bool.false_and]
        rfl
    · by_cases hl : ([c] ++ el).length > 2
      · simp only [processMetaElem, hl, if_true]
        rfl
      · have hc' : states.contains c = true := by simpa using hc
        have he' : elems.contains el = true := by simpa using hel
        simp only [processMetaElem, hl, if_false]
        simp [hc, hel]
  have h8 : st.length ≤ 1 := by rcases hst with rfl | ⟨c, _, rfl⟩ <;> simp
  have h9 : st.map toLo = st := hst.map_toLo
  have h11 : elems.contains el = true := by simpa using hel
  have hv' : ¬ (digitsVal (d0 :: ds') > Gen.massCutoff) := Nat.not_lt.mpr hds.le
  have hnd0 : (!isDig d0) = false := by simp [hd0]
  unfold parseCore
  simp only [h3, h4]
  rw [e1]
  simp only [List.takeWhile_cons, List.dropWhile_cons, hnd0, h6', h7]
  simp [hv', hpm, hcap, h8, Nat.not_lt.mpr h8, pure, Except.pure, bind, Except.bind, throw, throwThe,
    MonadExceptOf.throw, h9]
  have h10' : ¬ (¬ st = [] ∧ ∃ x ∈ st, ¬ x ∈ states) := by
    rintro ⟨_, x, hx, hnx⟩
    rcases hst with rfl | ⟨c, hc, rfl⟩
    · simp at hx
    · simp at hx; subst hx; exact hnx hc
  have h6'' : List.dropWhile isDig (d0 :: (ds' ++ (st ++ el))) = st ++ el := by
    simpa using h6'
  have h7' : ¬ ∃ x, x ∈ st ++ el ∧ isDig x = true := by
    rintro ⟨x, hx, hd⟩
    simp only [List.mem_append] at hx
    rcases hx with hx | hx
    · rw [hstnd x hx] at hd; exact absurd hd (by simp)
    · rw [helnd x hx] at hd; exact absurd hd (by simp)
  rw [h6'', if_neg h7', hpm]
  simp [hcap, hel, Nat.not_lt.mpr h8, h9]
  intro _ x hx
  rcases hst with rfl | ⟨c, hc, rfl⟩
  · simp at hx
  · simp at hx; subst hx; rw [(lo_props x (states_ok x hc)).2.1]; exact hc

end RdVerif
