/-
Proofs/Labels.lean — the diagram node label DENOTES the nuclide: it can be read back
(`decodeLabel`), hence `nuclideLabel` is injective on canonical names `element-isotope`.
Core Lean only.
-/
import RdVerif.Model.Labels
import RdVerif.Spec.Elements

namespace RdVerif

/-- inverse table lookup -/
def unsupChar (c : Nat) : Option Nat := (Gen.nuclideSup.find? (fun p => p.2 == c)).map (·.1)

/-- read a label back: the longest prefix of superscript characters is the isotope part, the rest
the element; the result is `(element, isotope)` -/
def decodeLabel (l : List Nat) : Option (List Nat × List Nat) :=
  let pre := l.takeWhile (fun c => (unsupChar c).isSome)
  (pre.mapM unsupChar).map (fun iso => (l.dropWhile (fun c => (unsupChar c).isSome), iso))

/-- facts about the generated table, decided by evaluation -/
theorem table_facts :
    (Gen.nuclideSup.map (·.1)).Nodup ∧ (Gen.nuclideSup.map (·.2)).Nodup ∧
    (∀ p ∈ Gen.nuclideSup, unsupChar p.2 = some p.1 ∧ supChar p.1 = some p.2) := by
  decide +kernel

/-- the two lookups are inverse to each other -/
theorem unsup_of_sup {c d : Nat} (h : supChar c = some d) : unsupChar d = some c := by
  unfold supChar at h
  rw [Option.map_eq_some_iff] at h
  obtain ⟨p, hp, rfl⟩ := h
  have hmem := List.mem_of_find?_eq_some hp
  have hc := List.find?_some hp
  have h1 := (table_facts.2.2 p hmem).1
  have : p.1 = c := by simpa using hc
  rw [← this]; exact h1

theorem sup_of_unsup {c d : Nat} (h : unsupChar d = some c) : supChar c = some d := by
  unfold unsupChar at h
  rw [Option.map_eq_some_iff] at h
  obtain ⟨p, hp, rfl⟩ := h
  have hmem := List.mem_of_find?_eq_some hp
  have hc := List.find?_some hp
  have h1 := (table_facts.2.2 p hmem).2
  have : p.2 = d := by simpa using hc
  rw [← this]; exact h1

/-- a name `el-iso` with no further hyphen splits into its two parts -/
theorem splitHyphen_canonical (el iso : List Nat)
    (hel : ∀ c ∈ el, c ≠ 45) (hiso : ∀ c ∈ iso, c ≠ 45) :
    splitHyphen (el ++ [45] ++ iso) = some (el, iso) := by
  have hp : ∀ c ∈ el, (c != 45) = true := by
    intro c hc; simpa using hel c hc
  have htw : (el ++ [45] ++ iso).takeWhile (· != 45) = el := by
    rw [List.append_assoc, List.takeWhile_append_of_pos hp]
    simp
  have hdw : (el ++ [45] ++ iso).dropWhile (· != 45) = 45 :: iso := by
    rw [List.append_assoc, List.dropWhile_append_of_pos hp]
    simp
  have hc : iso.contains 45 = false := by
    cases hcon : iso.contains 45 with
    | false => rfl
    | true =>
      rw [List.contains_iff_mem] at hcon
      exact absurd rfl (hiso 45 hcon)
  unfold splitHyphen
  simp only [htw, hdw, hc]
  rfl

/-- superscripting the isotope part succeeds, and reading the result back returns it -/
theorem mapM_sup_unsup (iso : List Nat) (hiso : ∀ c ∈ iso, (supChar c).isSome) :
    ∃ sup, iso.mapM supChar = some sup ∧ sup.mapM unsupChar = some iso ∧
      ∀ d ∈ sup, (unsupChar d).isSome = true := by
  induction iso with
  | nil => exact ⟨[], rfl, rfl, by simp⟩
  | cons c t ih =>
    obtain ⟨sup, h1, h2, h3⟩ := ih (fun x hx => hiso x (List.mem_cons_of_mem _ hx))
    have hc := hiso c List.mem_cons_self
    rw [Option.isSome_iff_exists] at hc
    obtain ⟨d, hd⟩ := hc
    have hu := unsup_of_sup hd
    refine ⟨d :: sup, ?_, ?_, ?_⟩
    · rw [List.mapM_cons, hd, h1]; rfl
    · rw [List.mapM_cons, hu, h2]; rfl
    · intro x hx
      rcases List.mem_cons.1 hx with rfl | hx
      · rw [hu]; rfl
      · exact h3 x hx

/-- reading back `sup ++ el`, where every character of `sup` is a superscript character and no
character of `el` is one -/
theorem decodeLabel_append (sup el iso : List Nat)
    (hsup : ∀ d ∈ sup, (unsupChar d).isSome = true) (hback : sup.mapM unsupChar = some iso)
    (hel : ∀ c ∈ el, unsupChar c = none) :
    decodeLabel (sup ++ el) = some (el, iso) := by
  have hel' : el.takeWhile (fun c => (unsupChar c).isSome) = [] := by
    cases el with
    | nil => rfl
    | cons a t =>
      have := hel a List.mem_cons_self
      simp [this]
  have hel'' : el.dropWhile (fun c => (unsupChar c).isSome) = el := by
    cases el with
    | nil => rfl
    | cons a t =>
      have := hel a List.mem_cons_self
      simp [this]
  unfold decodeLabel
  simp only [List.takeWhile_append_of_pos hsup, List.dropWhile_append_of_pos hsup, hel', hel'',
    List.append_nil, hback, Option.map_some]

/-- a name containing a hyphen is not the special name -/
theorem canonical_ne_special (el iso : List Nat) : el ++ [45] ++ iso ≠ Gen.labelSpecialName := by
  intro h
  have : (45 : Nat) ∈ Gen.labelSpecialName := by
    rw [← h]; simp
  revert this
  decide

/-- **decoding**: for an element part `el` none of whose characters is a superscript character or
'-', and an isotope part `iso` all of whose characters have a superscript and are not '-', the
label of `el-iso` exists and `decodeLabel` reads `(el, iso)` back from it.  (The hypothesis
`el ++ "-" ++ iso ≠ "SF"` of the design is derivable — `canonical_ne_special` — so it is omitted.) -/
theorem label_decodes (el iso : List Nat)
    (hel : ∀ c ∈ el, unsupChar c = none ∧ c ≠ 45)
    (hiso : ∀ c ∈ iso, (supChar c).isSome ∧ c ≠ 45) :
    ∃ lbl, nuclideLabel (el ++ [45] ++ iso) = some lbl ∧ decodeLabel lbl = some (el, iso) := by
  obtain ⟨sup, h1, h2, h3⟩ := mapM_sup_unsup iso (fun c hc => (hiso c hc).1)
  refine ⟨sup ++ el, ?_, decodeLabel_append sup el iso h3 h2 (fun c hc => (hel c hc).1)⟩
  have hne : (el ++ [45] ++ iso == Gen.labelSpecialName) = false := by
    simpa using canonical_ne_special el iso
  unfold nuclideLabel
  rw [hne, splitHyphen_canonical el iso (fun c hc => (hel c hc).2) (fun c hc => (hiso c hc).2)]
  simp [h1]

/-- the form with the explicit (redundant) hypothesis of the design -/
theorem label_decodes' (el iso : List Nat)
    (hel : ∀ c ∈ el, unsupChar c = none ∧ c ≠ 45)
    (hiso : ∀ c ∈ iso, (supChar c).isSome ∧ c ≠ 45)
    (_hne : el ++ [45] ++ iso ≠ Gen.labelSpecialName) :
    ∃ lbl, nuclideLabel (el ++ [45] ++ iso) = some lbl ∧ decodeLabel lbl = some (el, iso) :=
  label_decodes el iso hel hiso

/-- hence two canonical names with the same label are the same name -/
theorem label_injective (el iso el' iso' : List Nat)
    (hel : ∀ c ∈ el, unsupChar c = none ∧ c ≠ 45)
    (hiso : ∀ c ∈ iso, (supChar c).isSome ∧ c ≠ 45)
    (hel' : ∀ c ∈ el', unsupChar c = none ∧ c ≠ 45)
    (hiso' : ∀ c ∈ iso', (supChar c).isSome ∧ c ≠ 45)
    (h : nuclideLabel (el ++ [45] ++ iso) = nuclideLabel (el' ++ [45] ++ iso')) :
    el = el' ∧ iso = iso' := by
  obtain ⟨l, hl, hd⟩ := label_decodes el iso hel hiso
  obtain ⟨l', hl', hd'⟩ := label_decodes el' iso' hel' hiso'
  rw [hl, hl'] at h
  have hll : l = l' := Option.some.inj h
  subst hll
  rw [hd] at hd'
  have := Option.some.inj hd'
  exact ⟨congrArg Prod.fst this, congrArg Prod.snd this⟩

/-- the names themselves coincide -/
theorem label_injective_name (el iso el' iso' : List Nat)
    (hel : ∀ c ∈ el, unsupChar c = none ∧ c ≠ 45)
    (hiso : ∀ c ∈ iso, (supChar c).isSome ∧ c ≠ 45)
    (hel' : ∀ c ∈ el', unsupChar c = none ∧ c ≠ 45)
    (hiso' : ∀ c ∈ iso', (supChar c).isSome ∧ c ≠ 45)
    (h : nuclideLabel (el ++ [45] ++ iso) = nuclideLabel (el' ++ [45] ++ iso')) :
    el ++ [45] ++ iso = el' ++ [45] ++ iso' := by
  obtain ⟨h1, h2⟩ := label_injective el iso el' iso' hel hiso hel' hiso' h
  rw [h1, h2]

/-- every element symbol of the periodic table qualifies as `el` -/
theorem element_symbols_ok :
    ∀ s ∈ Spec.elementSymbols, ∀ c ∈ s.toList.map Char.toNat, unsupChar c = none ∧ c ≠ 45 := by
  decide +kernel

/-- the characters allowed in the isotope part: digits and the state letters m n p q r x -/
theorem isotope_chars_ok :
    ∀ c ∈ S "0123456789mnpqrx", (supChar c).isSome ∧ c ≠ 45 := by
  decide +kernel

/-- sanity example: Tc-99m ↦ ⁹⁹ᵐTc -/
theorem label_Tc99m : nuclideLabel (S "Tc-99m") = some [8313, 8313, 7504, 84, 99] := by
  decide +kernel

theorem decode_Tc99m : decodeLabel [8313, 8313, 7504, 84, 99] = some (S "Tc", S "99m") := by
  decide +kernel

/-- the special name -/
theorem label_SF : nuclideLabel (S "SF") = some (S "various") := by
  decide +kernel

end RdVerif

