/-
Proofs/Interval.lean — soundness over ℝ of the rational enclosures of `Model/Interval.lean`.
-/
import Mathlib.Analysis.SpecialFunctions.Log.Basic
import Mathlib.Analysis.SpecialFunctions.Exponential
import Mathlib.Data.Rat.Cast.Order
import Mathlib.Algebra.Order.Floor.Ring
import RdVerif.Model.Interval

open RdVerif

namespace RdVerif

/-! ### helpers: rounding -/

theorem twoPow_pos (P : ℕ) : (0 : ℚ) < ((2 ^ P : ℕ) : ℚ) := by positivity

/-- outward rounding is outward -/
theorem rdown_le (P : ℕ) (q : ℚ) : rdown P q ≤ q := by
  unfold rdown
  rw [div_le_iff₀ (twoPow_pos P)]
  exact Rat.floor_le _

theorem le_rup (P : ℕ) (q : ℚ) : q ≤ rup P q := by
  unfold rup
  rw [le_div_iff₀ (twoPow_pos P)]
  exact Rat.le_ceil

theorem rdown_nonneg (P : ℕ) (q : ℚ) (h : 0 ≤ q) : 0 ≤ rdown P q := by
  unfold rdown
  apply div_nonneg _ (twoPow_pos P).le
  have h0 : (0 : ℤ) ≤ (q * ((2 ^ P : ℕ) : ℚ)).floor := by
    rw [Rat.le_floor_iff]
    simpa using mul_nonneg h (twoPow_pos P).le
  exact_mod_cast h0

theorem rdown_le_real (P : ℕ) (q : ℚ) : ((rdown P q : ℚ) : ℝ) ≤ (q : ℝ) := by
  exact_mod_cast rdown_le P q

theorem le_rup_real (P : ℕ) (q : ℚ) : (q : ℝ) ≤ ((rup P q : ℚ) : ℝ) := by
  exact_mod_cast le_rup P q

/-! ### helpers: Taylor sums -/

theorem factorial_eq (n : ℕ) : factorial n = n.factorial := by
  induction n with
  | zero => rfl
  | succ n ih => simp [factorial, Nat.factorial_succ, ih]

theorem taylor_cast (y : ℚ) (n : ℕ) :
    ((taylor y n : ℚ) : ℝ) = ∑ m ∈ Finset.range n, (y : ℝ) ^ m / (m.factorial : ℝ) := by
  induction n with
  | zero => simp [taylor]
  | succ n ih => simp [taylor, Finset.sum_range_succ, ih, factorial_eq]

theorem taylor_nonneg (y : ℚ) (h0 : 0 ≤ y) (n : ℕ) : 0 ≤ taylor y n := by
  induction n with
  | zero => simp [taylor]
  | succ n ih =>
    simp only [taylor]
    have : (0 : ℚ) ≤ y ^ n / (factorial n : ℚ) := by positivity
    exact add_nonneg ih this

/-- Taylor enclosure on [0,1] -/
theorem expEncl01_sound (y : ℚ) (h0 : 0 ≤ y) (h1 : y ≤ 1) (n : ℕ) (hn : 0 < n) :
    ((expEncl01 y n).1 : ℝ) ≤ Real.exp y ∧ Real.exp y ≤ ((expEncl01 y n).2 : ℝ) := by
  have h0' : (0 : ℝ) ≤ (y : ℝ) := by exact_mod_cast h0
  have h1' : (y : ℝ) ≤ 1 := by exact_mod_cast h1
  constructor
  · simp only [expEncl01, taylor_cast]
    exact Real.sum_le_exp_of_nonneg h0' n
  · have := Real.exp_bound' h0' h1' hn
    simp only [expEncl01]
    push_cast
    rw [taylor_cast, factorial_eq]
    exact this

/-! ### helpers: repeated squaring, reciprocal, tail -/

theorem sqDown_sound (P : ℕ) (k : ℕ) : ∀ (v : ℚ) (y : ℝ), 0 ≤ v → (v : ℝ) ≤ Real.exp y →
    ((sqDown P k v : ℚ) : ℝ) ≤ Real.exp ((2 : ℝ) ^ k * y) := by
  induction k with
  | zero => intro v y _ h; simpa [sqDown] using h
  | succ k ih =>
    intro v y hv h
    have hv' : (0 : ℝ) ≤ (v : ℝ) := by exact_mod_cast hv
    have e : Real.exp (2 * y) = Real.exp y * Real.exp y := by rw [two_mul, Real.exp_add]
    have h2 : ((rdown P (v * v) : ℚ) : ℝ) ≤ Real.exp (2 * y) := by
      calc ((rdown P (v * v) : ℚ) : ℝ) ≤ ((v * v : ℚ) : ℝ) := rdown_le_real P _
        _ = (v : ℝ) * (v : ℝ) := by push_cast; ring
        _ ≤ Real.exp y * Real.exp y := mul_le_mul h h hv' (Real.exp_pos y).le
        _ = Real.exp (2 * y) := e.symm
    have := ih (rdown P (v * v)) (2 * y) (rdown_nonneg P _ (mul_nonneg hv hv)) h2
    simp only [sqDown]
    rw [pow_succ, mul_assoc]
    exact this

theorem sqUp_sound (P : ℕ) (k : ℕ) : ∀ (v : ℚ) (y : ℝ), Real.exp y ≤ (v : ℝ) →
    Real.exp ((2 : ℝ) ^ k * y) ≤ ((sqUp P k v : ℚ) : ℝ) := by
  induction k with
  | zero => intro v y h; simpa [sqUp] using h
  | succ k ih =>
    intro v y h
    have hp := Real.exp_pos y
    have e : Real.exp (2 * y) = Real.exp y * Real.exp y := by rw [two_mul, Real.exp_add]
    have h2 : Real.exp (2 * y) ≤ ((rup P (v * v) : ℚ) : ℝ) := by
      calc Real.exp (2 * y) = Real.exp y * Real.exp y := e
        _ ≤ (v : ℝ) * (v : ℝ) := mul_le_mul h h hp.le (hp.le.trans h)
        _ = ((v * v : ℚ) : ℝ) := by push_cast; ring
        _ ≤ ((rup P (v * v) : ℚ) : ℝ) := le_rup_real P _
    have := ih (rup P (v * v)) (2 * y) h2
    simp only [sqUp]
    rw [pow_succ, mul_assoc]
    exact this

/-- `2^1100 ≤ exp 800` -/
theorem two_pow_le_exp_800 : (2 : ℝ) ^ 1100 ≤ Real.exp 800 := by
  have h1 : (8 / 3 : ℝ) ≤ Real.exp 1 := by
    have := Real.sum_le_exp_of_nonneg (x := 1) zero_le_one 4
    simp [Finset.sum_range_succ, Nat.factorial] at this
    linarith
  have h8 : (2 : ℝ) ^ 11 ≤ Real.exp 1 ^ 8 :=
    calc (2 : ℝ) ^ 11 ≤ (8 / 3 : ℝ) ^ 8 := by norm_num
      _ ≤ Real.exp 1 ^ 8 := pow_le_pow_left₀ (by norm_num) h1 8
  calc (2 : ℝ) ^ 1100 = ((2 : ℝ) ^ 11) ^ 100 := by rw [← pow_mul]
    _ ≤ (Real.exp 1 ^ 8) ^ 100 := pow_le_pow_left₀ (by positivity) h8 100
    _ = Real.exp 1 ^ 800 := by rw [← pow_mul]
    _ = Real.exp ((800 : ℕ) * 1) := (Real.exp_nat_mul 1 800).symm
    _ = Real.exp 800 := by norm_num

theorem exp_neg_le_tail (x : ℝ) (h : 800 ≤ x) : Real.exp (-x) ≤ 1 / (2 : ℝ) ^ 1100 := by
  have hp : (0 : ℝ) < (2 : ℝ) ^ 1100 := by positivity
  calc Real.exp (-x) ≤ Real.exp (-800) := Real.exp_le_exp.2 (by linarith)
    _ = 1 / Real.exp 800 := by rw [Real.exp_neg, one_div]
    _ ≤ 1 / (2 : ℝ) ^ 1100 := one_div_le_one_div_of_le hp two_pow_le_exp_800

theorem trivial_encl (x : ℝ) (h0 : 0 ≤ x) :
    (((0 : ℚ), (1 : ℚ)).1 : ℝ) ≤ Real.exp (-x) ∧ Real.exp (-x) ≤ (((0 : ℚ), (1 : ℚ)).2 : ℝ) := by
  constructor
  · simpa using (Real.exp_pos (-x)).le
  · simpa using h0

/-- **`expNegEncl` encloses `exp(−x)`** for every real `x` between the rational bounds, whatever
the parameters -/
theorem expNegEncl_sound (P n k : ℕ) (xlo xhi : ℚ) (x : ℝ) (h0 : 0 ≤ x) (hlo : (xlo : ℝ) ≤ x)
    (hhi : x ≤ (xhi : ℝ)) :
    ((expNegEncl P n k xlo xhi).1 : ℝ) ≤ Real.exp (-x) ∧
    Real.exp (-x) ≤ ((expNegEncl P n k xlo xhi).2 : ℝ) := by
  unfold expNegEncl
  dsimp only
  split_ifs with c1 c2 c3 c4
  · exact trivial_encl x h0
  · constructor
    · simpa using (Real.exp_pos (-x)).le
    · have hx : (800 : ℝ) ≤ x := by
        have : ((800 : ℚ) : ℝ) ≤ (xlo : ℝ) := by exact_mod_cast c2
        have h800 : ((800 : ℚ) : ℝ) = 800 := by norm_num
        linarith
      have := exp_neg_le_tail x hx
      simp only [Rat.cast_div, Rat.cast_one, Nat.cast_pow, Nat.cast_ofNat, Rat.cast_pow,
        Rat.cast_ofNat]
      exact this
  · exact trivial_encl x h0
  · exact trivial_encl x h0
  · simp only [Bool.or_eq_true, decide_eq_true_eq, not_or, not_lt, beq_iff_eq] at c1 c3
    obtain ⟨⟨hxlo0, _⟩, hn0⟩ := c1
    obtain ⟨hylo0, hyhi1⟩ := c3
    have hn : 0 < n := Nat.pos_of_ne_zero hn0
    have hD : (0 : ℚ) < ((2 ^ k : ℕ) : ℚ) := twoPow_pos k
    have hDr : (((2 ^ k : ℕ) : ℚ) : ℝ) = (2 : ℝ) ^ k := by push_cast; rfl
    have hDr0 : (0 : ℝ) < (2 : ℝ) ^ k := by positivity
    set ylo := rdown P (xlo / ((2 ^ k : ℕ) : ℚ)) with hylo
    set yhi := rup P (xhi / ((2 ^ k : ℕ) : ℚ)) with hyhi
    set lo := sqDown P k (rdown P (expEncl01 ylo n).1) with hlo_def
    set hi := sqUp P k (rup P (expEncl01 yhi n).2) with hhi_def
    -- scaled arguments
    have hylo_le : (2 : ℝ) ^ k * (ylo : ℝ) ≤ x := by
      have h1 : ylo ≤ xlo / ((2 ^ k : ℕ) : ℚ) := rdown_le P _
      rw [le_div_iff₀ hD] at h1
      have h2 : ((ylo * ((2 ^ k : ℕ) : ℚ) : ℚ) : ℝ) ≤ (xlo : ℝ) := by exact_mod_cast h1
      rw [Rat.cast_mul, hDr] at h2
      linarith
    have hyhi_ge : x ≤ (2 : ℝ) ^ k * (yhi : ℝ) := by
      have h1 : xhi / ((2 ^ k : ℕ) : ℚ) ≤ yhi := le_rup P _
      rw [div_le_iff₀ hD] at h1
      have h2 : (xhi : ℝ) ≤ ((yhi * ((2 ^ k : ℕ) : ℚ) : ℚ) : ℝ) := by exact_mod_cast h1
      rw [Rat.cast_mul, hDr] at h2
      linarith
    have hylo_yhi : ylo ≤ yhi := by
      have h : (2 : ℝ) ^ k * (ylo : ℝ) ≤ (2 : ℝ) ^ k * (yhi : ℝ) := hylo_le.trans hyhi_ge
      have := le_of_mul_le_mul_left h hDr0
      exact_mod_cast this
    have hylo1 : ylo ≤ 1 := hylo_yhi.trans hyhi1
    have hyhi0 : 0 ≤ yhi := hylo0.trans hylo_yhi
    -- Taylor enclosures
    have tlo := (expEncl01_sound ylo hylo0 hylo1 n hn).1
    have thi := (expEncl01_sound yhi hyhi0 hyhi1 n hn).2
    have hT0 : 0 ≤ (expEncl01 ylo n).1 := taylor_nonneg ylo hylo0 n
    have hlo_exp : (lo : ℝ) ≤ Real.exp x := by
      have := sqDown_sound P k (rdown P (expEncl01 ylo n).1) (ylo : ℝ) (rdown_nonneg P _ hT0)
        ((rdown_le_real P _).trans tlo)
      exact this.trans (Real.exp_le_exp.2 hylo_le)
    have hhi_exp : Real.exp x ≤ (hi : ℝ) := by
      have := sqUp_sound P k (rup P (expEncl01 yhi n).2) (yhi : ℝ)
        (thi.trans (le_rup_real P _))
      exact (Real.exp_le_exp.2 hyhi_ge).trans this
    have hlo_pos : (0 : ℝ) < (lo : ℝ) := by exact_mod_cast (not_le.1 c4)
    have hpos := Real.exp_pos x
    dsimp only
    constructor
    · calc ((rdown P (1 / hi) : ℚ) : ℝ) ≤ ((1 / hi : ℚ) : ℝ) := rdown_le_real P _
        _ = ((hi : ℝ))⁻¹ := by push_cast; rw [one_div]
        _ ≤ (Real.exp x)⁻¹ := inv_anti₀ hpos hhi_exp
        _ = Real.exp (-x) := (Real.exp_neg x).symm
    · calc Real.exp (-x) = (Real.exp x)⁻¹ := Real.exp_neg x
        _ ≤ ((lo : ℝ))⁻¹ := inv_anti₀ hlo_pos hlo_exp
        _ = ((1 / lo : ℚ) : ℝ) := by push_cast; rw [one_div]
        _ ≤ ((rup P (1 / lo) : ℚ) : ℝ) := le_rup_real P _

/-- **`ln2Encl` encloses ln 2** whenever it returns bounds (the certificate `exp a ≤ 2 ≤ exp b`
is checked by the function itself) -/
theorem ln2Encl_sound (P n m : ℕ) (a b : ℚ) (h : ln2Encl P n m = some (a, b)) :
    (a : ℝ) ≤ Real.log 2 ∧ Real.log 2 ≤ (b : ℝ) := by
  unfold ln2Encl at h
  dsimp only at h
  split_ifs at h with hc
  simp only [Bool.and_eq_true, decide_eq_true_eq] at hc
  simp only [Option.some.injEq, Prod.mk.injEq] at h
  obtain ⟨ha, hb⟩ := h
  rw [ha, hb] at hc
  obtain ⟨⟨⟨⟨⟨⟨a0, a1⟩, b0⟩, b1⟩, hn⟩, hA⟩, hB⟩ := hc
  have sa := (expEncl01_sound a a0 a1 m hn).2
  have sb := (expEncl01_sound b b0 b1 m hn).1
  have hA' : ((expEncl01 a m).2 : ℝ) ≤ 2 := by exact_mod_cast hA
  have hB' : (2 : ℝ) ≤ ((expEncl01 b m).1 : ℝ) := by exact_mod_cast hB
  constructor
  · exact (Real.le_log_iff_exp_le (by norm_num)).2 (sa.trans hA')
  · exact (Real.log_le_iff_le_exp (by norm_num)).2 (hB'.trans sb)

/-- interval scaling and addition -/
theorem scaleIv_sound (a : ℚ) (iv : ℚ × ℚ) (x : ℝ) (h : (iv.1 : ℝ) ≤ x ∧ x ≤ (iv.2 : ℝ)) :
    ((scaleIv a iv).1 : ℝ) ≤ (a : ℝ) * x ∧ (a : ℝ) * x ≤ ((scaleIv a iv).2 : ℝ) := by
  unfold scaleIv
  split_ifs with ha
  · have ha' : (0 : ℝ) ≤ (a : ℝ) := by exact_mod_cast ha
    push_cast
    exact ⟨mul_le_mul_of_nonneg_left h.1 ha', mul_le_mul_of_nonneg_left h.2 ha'⟩
  · have ha' : (a : ℝ) ≤ 0 := by exact_mod_cast (not_le.1 ha).le
    push_cast
    exact ⟨mul_le_mul_of_nonpos_left h.2 ha', mul_le_mul_of_nonpos_left h.1 ha'⟩

theorem addIv_sound (u v : ℚ × ℚ) (x y : ℝ) (hx : (u.1 : ℝ) ≤ x ∧ x ≤ (u.2 : ℝ))
    (hy : (v.1 : ℝ) ≤ y ∧ y ≤ (v.2 : ℝ)) :
    ((addIv u v).1 : ℝ) ≤ x + y ∧ x + y ≤ ((addIv u v).2 : ℝ) := by
  unfold addIv
  push_cast
  exact ⟨add_le_add hx.1 hy.1, add_le_add hx.2 hy.2⟩

/-- the enclosure of `exp(−r·ln2·t)` used by the oracle -/
theorem decayFactor_sound (cfg : EvalCfg) (r t : ℚ) (hr : 0 ≤ r) (ht : 0 ≤ t)
    (hln2 : (cfg.ln2.1 : ℝ) ≤ Real.log 2 ∧ Real.log 2 ≤ (cfg.ln2.2 : ℝ)) :
    ((decayFactor cfg r t).1 : ℝ) ≤ Real.exp (-((r : ℝ) * Real.log 2 * (t : ℝ))) ∧
    Real.exp (-((r : ℝ) * Real.log 2 * (t : ℝ))) ≤ ((decayFactor cfg r t).2 : ℝ) := by
  have hr' : (0 : ℝ) ≤ (r : ℝ) := by exact_mod_cast hr
  have ht' : (0 : ℝ) ≤ (t : ℝ) := by exact_mod_cast ht
  have hrt : (0 : ℝ) ≤ (r : ℝ) * (t : ℝ) := mul_nonneg hr' ht'
  have hlog : (0 : ℝ) ≤ Real.log 2 := Real.log_nonneg (by norm_num)
  unfold decayFactor
  dsimp only
  apply expNegEncl_sound
  · exact mul_nonneg (mul_nonneg hr' hlog) ht'
  · push_cast
    calc (r : ℝ) * (t : ℝ) * (cfg.ln2.1 : ℝ) ≤ (r : ℝ) * (t : ℝ) * Real.log 2 :=
          mul_le_mul_of_nonneg_left hln2.1 hrt
      _ = (r : ℝ) * Real.log 2 * (t : ℝ) := by ring
  · push_cast
    calc (r : ℝ) * Real.log 2 * (t : ℝ) = (r : ℝ) * (t : ℝ) * Real.log 2 := by ring
      _ ≤ (r : ℝ) * (t : ℝ) * (cfg.ln2.2 : ℝ) := mul_le_mul_of_nonneg_left hln2.2 hrt

end RdVerif
