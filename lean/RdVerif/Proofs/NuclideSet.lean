/-
Proofs/NuclideSet.lean — the nuclide set of a decayed inventory: the stored non-zero pattern of
row `i` of `C` is exactly `i` together with all its ancestors through the listed parent links,
so the decayed inventory holds exactly the input nuclides and all their direct and indirect
progeny.
-/
import RdVerif.Proofs.Icrp107Error

set_option maxRecDepth 20000

open RdVerif

namespace RdVerif

/-! ### B1: `mergeCols` -/

theorem mergeCols_mem (fuel : ℕ) (a b : List ℕ) (hf : a.length + b.length ≤ fuel) (x : ℕ) :
    x ∈ mergeCols fuel a b ↔ x ∈ a ∨ x ∈ b := by
  induction fuel generalizing a b with
  | zero => simp [mergeCols]
  | succ f ih =>
    cases a with
    | nil => simp [mergeCols]
    | cons u a =>
      cases b with
      | nil => simp [mergeCols]
      | cons w b =>
        simp only [List.length_cons] at hf
        simp only [mergeCols]
        split
        · rw [List.mem_cons, ih a (w :: b) (by simp only [List.length_cons]; omega)]
          simp only [List.mem_cons]
          tauto
        · split
          · rw [List.mem_cons, ih (u :: a) b (by simp only [List.length_cons]; omega)]
            simp only [List.mem_cons]
            tauto
          · rename_i h1 h2
            have huw : u = w := by omega
            subst huw
            rw [List.mem_cons, ih a b (by omega)]
            simp only [List.mem_cons]
            tauto

/-! ### B2: pattern = ancestors -/

/-- `j` is `i` or an ancestor of `i` through the listed parent links -/
inductive AncOrSelf (ds : Dataset) : ℕ → ℕ → Prop
  | self (i : ℕ) : AncOrSelf ds i i
  | step (j p i : ℕ) : (∃ b, (p, b) ∈ get2 ds.parents i []) → AncOrSelf ds j p →
      AncOrSelf ds j i

theorem AncOrSelf.inv {ds : Dataset} {j i : ℕ} (h : AncOrSelf ds j i) :
    j = i ∨ ∃ p, (∃ b, (p, b) ∈ get2 ds.parents i []) ∧ AncOrSelf ds j p := by
  cases h
  · exact Or.inl rfl
  · rename_i p hj hp
    exact Or.inr ⟨p, hp, hj⟩

/-- the union of the parents' patterns as `patternOk` folds it -/
theorem foldl_mergeCols_mem (ds : Dataset) (ps : List (ℕ × ℚ)) (acc : List ℕ) (x : ℕ) :
    x ∈ ps.foldl (fun acc p => mergeCols (acc.length + (getRow ds.cx p.1).length) acc
        (colsOf (getRow ds.cx p.1))) acc
      ↔ x ∈ acc ∨ ∃ p ∈ ps, x ∈ colsOf (getRow ds.cx p.1) := by
  induction ps generalizing acc with
  | nil => simp
  | cons p ps ih =>
    rw [List.foldl_cons, ih, mergeCols_mem _ _ _ (by simp [colsOf])]
    simp only [List.mem_cons, exists_eq_or_imp]
    tauto

theorem patternOk_cols (ds : Dataset) (i : ℕ) (r : Row) (h : patternOk ds i r = true) (x : ℕ) :
    x ∈ colsOf r ↔ x = i ∨ ∃ p ∈ get2 ds.parents i [], x ∈ colsOf (getRow ds.cx p.1) := by
  unfold patternOk at h
  simp only [Bool.and_eq_true, beq_iff_eq] at h
  obtain ⟨⟨⟨⟨⟨⟨h0, _⟩, _⟩, _⟩, _⟩, _⟩, _⟩ := h
  rw [h0, List.mem_append, foldl_mergeCols_mem]
  simp only [List.not_mem_nil, false_or, List.mem_singleton]
  exact or_comm

/-- **the stored pattern of row `i` is `i` and its ancestors** -/
theorem cols_iff_ancOrSelf (ds : Dataset) (n : ℕ)
    (hpat : ∀ i < n, patternOk ds i (getRow ds.cx i) = true)
    (hpar : ∀ i < n, ∀ p ∈ get2 ds.parents i [], p.1 < i) :
    ∀ i < n, ∀ j, j ∈ colsOf (getRow ds.cx i) ↔ AncOrSelf ds j i := by
  intro i
  induction i using Nat.strong_induction_on with
  | _ i ih =>
    intro hi j
    rw [patternOk_cols ds i _ (hpat i hi)]
    constructor
    · rintro (rfl | ⟨p, hp, hj⟩)
      · exact AncOrSelf.self _
      · have hlt := hpar i hi p hp
        exact AncOrSelf.step j p.1 i ⟨p.2, hp⟩ ((ih p.1 hlt (lt_trans hlt hi) j).1 hj)
    · intro h
      rcases h.inv with rfl | ⟨p, ⟨b, hb⟩, hj⟩
      · exact Or.inl rfl
      · have hlt : p < i := hpar i hi (p, b) hb
        exact Or.inr ⟨(p, b), hb, (ih p hlt (lt_trans hlt hi) j).2 hj⟩

/-! ### B3: the shipped dataset -/

namespace Icrp107
open RdVerif.Gen RdVerif.Gen.Icrp107.Obl

theorem rowDiag (i : ℕ) (hi : i < N) :
    checkRowDiag icrp107.cx icrp107.rate icrp107.parents i (getRow icrp107.cx i) = true :=
  rows_checked (checkRowDiag icrp107.cx icrp107.rate icrp107.parents) icrp107.cx N shape_cx
    (fun b hb => w2_all b (lt_nb hb)) i hi

/-- parents are stored first -/
theorem icrp107_parents_lt : ∀ i < N, ∀ p ∈ get2 icrp107.parents i [], p.1 < i :=
  fun i hi => (checkRowDiag_spec (rowDiag i hi)).1

/-- the stored pattern of every row of the shipped `C` is the nuclide and its ancestors -/
theorem icrp107_cols_iff (i : ℕ) (hi : i < N) (j : ℕ) :
    j ∈ colsOf (getRow icrp107.cx i) ↔ AncOrSelf icrp107 j i :=
  cols_iff_ancOrSelf icrp107 N rowPattern icrp107_parents_lt i hi j

/-- **the decayed inventory holds exactly the input nuclides and all their direct and indirect
progeny** -/
theorem icrp107_nuclide_set (inputs : List ℕ) (i : ℕ) :
    i ∈ decayIndices icrp107 inputs ↔ i < N ∧ ∃ j ∈ inputs, AncOrSelf icrp107 j i := by
  unfold decayIndices
  rw [List.mem_filter, List.mem_range]
  refine and_congr_right (fun hi => ?_)
  have hf : fcolsOf (get2 icrp107.cf i []) = colsOf (getRow icrp107.cx i) :=
    (patternOk_spec icrp107 i _ (rowPattern i hi)).2.1
  rw [List.any_eq_true]
  constructor
  · rintro ⟨x, hx, hc⟩
    have hin : x.col ∈ inputs := by simpa using hc
    refine ⟨x.col, hin, (icrp107_cols_iff i hi x.col).1 ?_⟩
    rw [← hf]
    exact List.mem_map.2 ⟨x, hx, rfl⟩
  · rintro ⟨j, hj, ha⟩
    have hm : j ∈ fcolsOf (get2 icrp107.cf i []) := by
      rw [hf]; exact (icrp107_cols_iff i hi j).2 ha
    obtain ⟨x, hx, rfl⟩ := List.mem_map.1 hm
    exact ⟨x, hx, by simpa using hj⟩

end Icrp107

end RdVerif
