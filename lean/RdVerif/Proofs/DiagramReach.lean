/-
Proofs/DiagramReach.lean — the node set of the decay-chain diagram `buildDigraph`
(`Model/Diagram.lean`) is exactly the set reachable from the root through listed links, the
fuel `ds.n + 1` drains the queue, and the row (`gen`) of a member is its distance from the
root — for every dataset satisfying `ReachWF` (conditions on the dataset only; acyclicity is
not needed).

Main results: `nodes_sound`, `gen_is_path_length`, `queue_drained`, `nodes_complete`,
`gen_le_path`, `gen_is_distance`; non-vacuity: `exDs_ReachWF`.
-/
import RdVerif.Proofs.Diagram
import Mathlib.Logic.Relation

namespace RdVerif

/-! ### reachability -/

/-- one decay step between dataset members -/
def Step (ds : Dataset) (i k : Nat) : Prop := ∃ l ∈ get2 ds.links i [], l.idx = some k

/-- reachable from root in any number of steps -/
def Reach (ds : Dataset) (root : Nat) : Nat → Prop := Relation.ReflTransGen (Step ds) root

/-- `PathN ds root k m`: there is a `Step`-path of exactly `m` steps from `root` to `k` -/
inductive PathN (ds : Dataset) (root : Nat) : Nat → Nat → Prop
  | zero : PathN ds root root 0
  | succ {k j m : Nat} : PathN ds root k m → Step ds k j → PathN ds root j (m + 1)

theorem PathN.reach {ds : Dataset} {root k m : Nat} (h : PathN ds root k m) : Reach ds root k := by
  induction h with
  | zero => exact Relation.ReflTransGen.refl
  | succ _ hs ih => exact Relation.ReflTransGen.tail ih hs

theorem reach_iff_path {ds : Dataset} {root k : Nat} : Reach ds root k ↔ ∃ m, PathN ds root k m := by
  constructor
  · intro h
    induction h with
    | refl => exact ⟨0, PathN.zero⟩
    | tail _ hs ih => obtain ⟨m, hm⟩ := ih; exact ⟨m + 1, PathN.succ hm hs⟩
  · rintro ⟨m, hm⟩; exact hm.reach

/-! ### hypotheses -/

/-- conditions on the dataset alone (no reference to the builder) -/
structure ReachWF (ds : Dataset) : Prop where
  wf : DiagramWF ds
  /-- names are injective on members -/
  names_inj : ∀ i j, i < ds.n → j < ds.n → get2 ds.names i [] = get2 ds.names j [] → i = j
  /-- link targets are members -/
  link_member : ∀ p, ∀ l ∈ get2 ds.links p [], ∀ k, l.idx = some k → k < ds.n
  /-- a stable nuclide has no links -/
  stable_nolinks : ∀ i, get2 ds.rate i 0 = 0 → get2 ds.links i [] = []
  /-- the only listed non-member is the pseudo-progeny `SF` (a listed non-member `Q` with another
  name gets a node called `Q`, which is neither a member nor an `X_SF` node, so `nodes_sound`
  would be false without this) -/
  nonmember_sf : ∀ p, ∀ l ∈ get2 ds.links p [], l.idx = none → l.name = S "SF"

theorem PathN.member {ds : Dataset} (h : ReachWF ds) {root k m : Nat} (hr : root < ds.n)
    (hp : PathN ds root k m) : k < ds.n := by
  cases hp with
  | zero => exact hr
  | succ _ hs => obtain ⟨l, hl, hidx⟩ := hs; exact h.link_member _ l hl _ hidx

/-! ### one link of `placeProgeny`, abstractly -/

/-- what processing one link `l` of parent `p` (new row `g`) does to queue / seen / nodes -/
inductive Trans (ds : Dataset) (p g : Nat) (l : Link) (st st' : DState) : Prop
  | old (hseen : l.name ∈ st.seen) (hq : st'.queue = st.queue) (hs : st'.seen = st.seen)
      (hn : st'.nodes = st.nodes)
  | sf (hnew : l.name ∉ st.seen) (hidx : l.idx = none) (x : Nat) (hq : st'.queue = st.queue)
      (hs : st'.seen = sfName (get2 ds.names p []) :: st.seen)
      (hn : st'.nodes = ⟨sfName (get2 ds.names p []), g, x⟩ :: st.nodes)
  | enq (hnew : l.name ∉ st.seen) (k : Nat) (hidx : l.idx = some k) (hk : k < ds.n)
      (hnm : get2 ds.names k [] = l.name) (hrate : get2 ds.rate k 0 ≠ 0) (x : Nat)
      (hq : st'.queue = st.queue ++ [(k, g, x)])
      (hs : st'.seen = l.name :: st.seen) (hn : st'.nodes = ⟨l.name, g, x⟩ :: st.nodes)
  | stable (hnew : l.name ∉ st.seen) (k : Nat) (hidx : l.idx = some k) (hk : k < ds.n)
      (hnm : get2 ds.names k [] = l.name) (hrate : get2 ds.rate k 0 = 0) (x : Nat)
      (hq : st'.queue = st.queue)
      (hs : st'.seen = l.name :: st.seen) (hn : st'.nodes = ⟨l.name, g, x⟩ :: st.nodes)

theorem placeProgeny_cons (ds : Dataset) (h : ReachWF ds) (p g xpos : Nat) (l : Link)
    (hl : l ∈ get2 ds.links p []) (ls : List Link) (xc : Nat) (st : DState) :
    ∃ xc' st', placeProgeny ds (get2 ds.names p []) g xpos (l :: ls) xc st =
        placeProgeny ds (get2 ds.names p []) g xpos ls xc' st' ∧ Trans ds p g l st st' := by
  rw [placeProgeny]
  split
  · rename_i hnew
    have hnew : l.name ∉ st.seen := by simpa using hnew
    by_cases hname : l.name = S "SF"
    · have hidx : l.idx = none := h.wf.sf_nonmember p l hl hname
      simp only [hidx, hname, beq_self_eq_true, if_true, Bool.false_eq_true, if_false]
      exact ⟨_, _, rfl, Trans.sf hnew hidx (xpos + xc) rfl rfl rfl⟩
    · have hname' : (l.name == S "SF") = false := by simpa using hname
      simp only [hname', Bool.false_eq_true, if_false]
      cases hidx : l.idx with
      | none => exact absurd (h.nonmember_sf p l hl hidx) hname
      | some k =>
        have hk := h.link_member p l hl k hidx
        have hnm := h.wf.link_name p l hl k hidx
        by_cases hr : get2 ds.rate k 0 = 0
        · refine ⟨_, _, rfl, Trans.stable hnew k hidx hk hnm hr (xpos + xc) ?_ rfl rfl⟩
          simp [hr]
        · refine ⟨_, _, rfl, Trans.enq hnew k hidx hk hnm hr (xpos + xc) ?_ rfl rfl⟩
          simp [hr]
  · rename_i hold
    have hold : l.name ∈ st.seen := by simpa using hold
    exact ⟨_, _, rfl, Trans.old hold rfl rfl rfl⟩

/-- induction principle: an invariant `I` (which may mention the links still to be processed)
that survives every abstract transition survives `placeProgeny` -/
theorem placeProgeny_ind (ds : Dataset) (h : ReachWF ds) (p g xpos : Nat)
    (I : List Link → DState → Prop)
    (hstep : ∀ l ls st st', l ∈ get2 ds.links p [] → I (l :: ls) st → Trans ds p g l st st' → I ls st') :
    ∀ (ls : List Link) (xc : Nat) (st : DState), (∀ l ∈ ls, l ∈ get2 ds.links p []) → I ls st →
      I [] (placeProgeny ds (get2 ds.names p []) g xpos ls xc st) := by
  intro ls
  induction ls with
  | nil => intro xc st _ hI; simpa [placeProgeny] using hI
  | cons l ls ih =>
    intro xc st hls hI
    have hl : l ∈ get2 ds.links p [] := hls l (by simp)
    obtain ⟨xc', st', heq, htr⟩ := placeProgeny_cons ds h p g xpos l hl ls xc st
    rw [heq]
    exact ih xc' st' (fun a ha => hls a (by simp [ha])) (hstep l ls st st' hl hI htr)

/-! ### 1. soundness: nodes are reachable, rows are path lengths -/

/-- a node is the node of a member at the end of a path of `gen` steps, or the `SF` node one row
below such a member -/
def NodeOk (ds : Dataset) (root : Nat) (nd : DNode) : Prop :=
  (∃ k, PathN ds root k nd.gen ∧ nd.name = get2 ds.names k []) ∨
  (∃ p g, PathN ds root p g ∧ nd.gen = g + 1 ∧ (∃ l ∈ get2 ds.links p [], l.idx = none) ∧
    nd.name = sfName (get2 ds.names p []))

structure SInv (ds : Dataset) (root : Nat) (st : DState) : Prop where
  root_node : (⟨get2 ds.names root [], 0, 0⟩ : DNode) ∈ st.nodes
  nodes : ∀ nd ∈ st.nodes, NodeOk ds root nd
  queue : ∀ e ∈ st.queue, PathN ds root e.1 e.2.1

theorem placeProgeny_SInv (ds : Dataset) (h : ReachWF ds) (root p g0 xpos : Nat)
    (hp : PathN ds root p g0) (xc : Nat) (st : DState) (hI : SInv ds root st) :
    SInv ds root (placeProgeny ds (get2 ds.names p []) (g0 + 1) xpos (get2 ds.links p []) xc st) := by
  refine placeProgeny_ind ds h p (g0 + 1) xpos (fun _ st => SInv ds root st) ?_ _ xc st
    (fun l hl => hl) hI
  intro l ls st st' hl hI htr
  cases htr with
  | old _ hq _ hn => exact ⟨hn ▸ hI.root_node, hn ▸ hI.nodes, hq ▸ hI.queue⟩
  | sf _ hidx x hq _ hn =>
    refine ⟨by rw [hn]; exact List.mem_cons_of_mem _ hI.root_node, ?_, hq ▸ hI.queue⟩
    intro nd hnd
    rw [hn, List.mem_cons] at hnd
    rcases hnd with rfl | hnd
    · exact Or.inr ⟨p, g0, hp, rfl, ⟨l, hl, hidx⟩, rfl⟩
    · exact hI.nodes nd hnd
  | enq _ k hidx _ hnm _ x hq _ hn =>
    have hk : PathN ds root k (g0 + 1) := PathN.succ hp ⟨l, hl, hidx⟩
    refine ⟨by rw [hn]; exact List.mem_cons_of_mem _ hI.root_node, ?_, ?_⟩
    · intro nd hnd
      rw [hn, List.mem_cons] at hnd
      rcases hnd with rfl | hnd
      · exact Or.inl ⟨k, hk, hnm.symm⟩
      · exact hI.nodes nd hnd
    · intro e he
      rw [hq, List.mem_append, List.mem_singleton] at he
      rcases he with he | rfl
      · exact hI.queue e he
      · exact hk
  | stable _ k hidx _ hnm _ x hq _ hn =>
    have hk : PathN ds root k (g0 + 1) := PathN.succ hp ⟨l, hl, hidx⟩
    refine ⟨by rw [hn]; exact List.mem_cons_of_mem _ hI.root_node, ?_, hq ▸ hI.queue⟩
    intro nd hnd
    rw [hn, List.mem_cons] at hnd
    rcases hnd with rfl | hnd
    · exact Or.inl ⟨k, hk, hnm.symm⟩
    · exact hI.nodes nd hnd

theorem bfsLoop_SInv (ds : Dataset) (h : ReachWF ds) (root : Nat) : ∀ (fuel : Nat) (st : DState),
    SInv ds root st → SInv ds root (bfsLoop ds fuel st) := by
  intro fuel
  induction fuel with
  | zero => intro st hI; simpa [bfsLoop] using hI
  | succ fuel ih =>
    intro st hI
    rw [bfsLoop]
    split
    · exact hI
    · rename_i p g x rest hq
      apply ih
      apply placeProgeny_SInv ds h root p g _ (hI.queue (p, g, x) (by simp [hq]))
      exact ⟨hI.root_node, hI.nodes, fun e he => hI.queue e (by simp [hq, he])⟩

/-- the initial state of `buildDigraph` -/
def initState (ds : Dataset) (root : Nat) : DState :=
  { queue := [(root, 0, 0)], seen := [get2 ds.names root []], gmx := [(0, 0)],
    nodes := [⟨get2 ds.names root [], 0, 0⟩], edges := [] }

theorem buildDigraph_nodes (ds : Dataset) (root : Nat) :
    (buildDigraph ds root).nodes = (bfsLoop ds (ds.n + 1) (initState ds root)).nodes.reverse := rfl

theorem init_SInv (ds : Dataset) (root : Nat) : SInv ds root (initState ds root) := by
  refine ⟨by simp [initState], ?_, ?_⟩
  · intro nd hnd
    simp only [initState, List.mem_singleton] at hnd
    subst hnd
    exact Or.inl ⟨root, PathN.zero, rfl⟩
  · intro e he
    simp only [initState, List.mem_singleton] at he
    subst he
    exact PathN.zero

/-- rows are path lengths (existence half): the node of a member sits on a row `gen` for which
a path of exactly `gen` steps from the root exists; an `SF` node sits one row below such a member -/
theorem gen_is_path_length (ds : Dataset) (h : ReachWF ds) (root : Nat) :
    ∀ nd ∈ (buildDigraph ds root).nodes,
      (∃ k, PathN ds root k nd.gen ∧ nd.name = get2 ds.names k []) ∨
      (∃ p g, PathN ds root p g ∧ nd.gen = g + 1 ∧ (∃ l ∈ get2 ds.links p [], l.idx = none) ∧
        nd.name = sfName (get2 ds.names p [])) := by
  intro nd hnd
  rw [buildDigraph_nodes, List.mem_reverse] at hnd
  exact (bfsLoop_SInv ds h root _ _ (init_SInv ds root)).nodes nd hnd

/-- soundness: every node is the root, a reachable member, or the SF node of a reachable member -/
theorem nodes_sound (ds : Dataset) (h : ReachWF ds) (root : Nat) (_hr : root < ds.n) :
    ∀ nd ∈ (buildDigraph ds root).nodes,
      (∃ k, Reach ds root k ∧ nd.name = get2 ds.names k []) ∨
      (∃ p, Reach ds root p ∧ (∃ l ∈ get2 ds.links p [], l.idx = none) ∧
        nd.name = sfName (get2 ds.names p [])) := by
  intro nd hnd
  rcases gen_is_path_length ds h root nd hnd with ⟨k, hk, hn⟩ | ⟨p, g, hp, _, hl, hn⟩
  · exact Or.inl ⟨k, hk.reach, hn⟩
  · exact Or.inr ⟨p, hp.reach, hl, hn⟩

/-! ### 2. the fuel suffices: the queue is drained -/

theorem countP_lt_of {α} (p q : α → Bool) (l : List α) (hpq : ∀ x, p x = true → q x = true) (a : α)
    (ha : a ∈ l) (hqa : q a = true) (hpa : p a = false) : l.countP p < l.countP q := by
  induction l with
  | nil => cases ha
  | cons b t ih =>
    have hmono : t.countP p ≤ t.countP q := List.countP_mono_left (fun x _ hx => hpq x hx)
    rw [List.mem_cons] at ha
    rcases ha with rfl | ha
    · rw [List.countP_cons, List.countP_cons]
      simp only [hqa, hpa, if_true, Bool.false_eq_true, if_false]
      omega
    · have := ih ha
      rw [List.countP_cons, List.countP_cons]
      cases hb : p b
      · simp only [Bool.false_eq_true, if_false]; split <;> omega
      · simp only [hpq b hb, if_true]; omega

/-- number of members whose name is not in `seen` -/
def unseen (ds : Dataset) (seen : List (List Nat)) : Nat :=
  (List.range ds.n).countP (fun i => !seen.contains (get2 ds.names i []))

theorem unseen_cons_le (ds : Dataset) (a : List Nat) (seen : List (List Nat)) :
    unseen ds (a :: seen) ≤ unseen ds seen := by
  unfold unseen
  apply List.countP_mono_left
  intro i _ hi
  simp only [List.contains_cons, Bool.not_or, Bool.and_eq_true] at hi
  exact hi.2

theorem unseen_cons_lt (ds : Dataset) (k : Nat) (hk : k < ds.n) (seen : List (List Nat))
    (hnew : get2 ds.names k [] ∉ seen) :
    unseen ds (get2 ds.names k [] :: seen) + 1 ≤ unseen ds seen := by
  unfold unseen
  apply countP_lt_of _ _ _ _ k (List.mem_range.2 hk)
  · simpa using hnew
  · simp
  · intro i hi
    simp only [List.contains_cons, Bool.not_or, Bool.and_eq_true] at hi
    exact hi.2

theorem placeProgeny_fuel (ds : Dataset) (h : ReachWF ds) (p g xpos B : Nat) (xc : Nat) (st : DState)
    (hI : unseen ds st.seen + st.queue.length ≤ B) :
    unseen ds (placeProgeny ds (get2 ds.names p []) g xpos (get2 ds.links p []) xc st).seen +
      (placeProgeny ds (get2 ds.names p []) g xpos (get2 ds.links p []) xc st).queue.length ≤ B := by
  refine placeProgeny_ind ds h p g xpos (fun _ st => unseen ds st.seen + st.queue.length ≤ B) ?_ _ xc st
    (fun l hl => hl) hI
  intro l ls st st' hl hI htr
  cases htr with
  | old _ hq hs _ => rw [hq, hs]; exact hI
  | sf _ _ x hq hs _ =>
    rw [hq, hs]
    have := unseen_cons_le ds (sfName (get2 ds.names p [])) st.seen
    omega
  | enq hnew k _ hk hnm _ x hq hs _ =>
    rw [hq, hs, ← hnm, List.length_append]
    have := unseen_cons_lt ds k hk st.seen (hnm ▸ hnew)
    simp only [List.length_singleton]
    omega
  | stable _ k _ _ _ _ x hq hs _ =>
    rw [hq, hs]
    have := unseen_cons_le ds l.name st.seen
    omega

theorem bfsLoop_drained (ds : Dataset) (h : ReachWF ds) : ∀ (fuel : Nat) (st : DState),
    unseen ds st.seen + st.queue.length ≤ fuel → (bfsLoop ds fuel st).queue = [] := by
  intro fuel
  induction fuel with
  | zero =>
    intro st hI
    simp only [bfsLoop]
    exact List.eq_nil_of_length_eq_zero (by omega)
  | succ fuel ih =>
    intro st hI
    rw [bfsLoop]
    split
    · assumption
    · rename_i p g x rest hq
      apply ih
      apply placeProgeny_fuel ds h
      rw [hq, List.length_cons] at hI
      show unseen ds st.seen + rest.length ≤ fuel
      omega

/-- the loop ends with an empty queue: the fuel `ds.n + 1` suffices -/
theorem queue_drained (ds : Dataset) (h : ReachWF ds) (root : Nat) (_hr : root < ds.n) :
    (bfsLoop ds (ds.n + 1)
      { queue := [(root, 0, 0)], seen := [get2 ds.names root []], gmx := [(0, 0)],
        nodes := [⟨get2 ds.names root [], 0, 0⟩], edges := [] }).queue = [] := by
  apply bfsLoop_drained ds h
  have : unseen ds [get2 ds.names root []] ≤ (List.range ds.n).length := List.countP_le_length
  simp only [List.length_range] at this
  simp only [List.length_singleton]
  omega

/-! ### 3. closure: every link of a processed member leads to a node at most one row below -/

/-- member `k` has a node on a row `≤ b` -/
def HasNode (ds : Dataset) (nodes : List DNode) (k b : Nat) : Prop :=
  ∃ nd ∈ nodes, nd.name = get2 ds.names k [] ∧ nd.gen ≤ b

/-- every member progeny of `i` (itself on row `gi`) has a node on a row `≤ gi + 1` -/
def ChildrenOk (ds : Dataset) (nodes : List DNode) (i gi : Nat) : Prop :=
  ∀ l ∈ get2 ds.links i [], ∀ k, l.idx = some k → HasNode ds nodes k (gi + 1)

theorem HasNode.mono {ds : Dataset} {N N' : List DNode} {k b : Nat} (h : HasNode ds N k b)
    (hN : N ⊆ N') : HasNode ds N' k b := by
  obtain ⟨nd, hnd, h1, h2⟩ := h
  exact ⟨nd, hN hnd, h1, h2⟩

/-- state of member `i` (node on row `gi`) while the links `ls` of parent `p` (row `g0`) are still
to be processed: queued, or closed, or it is `p` and its processed links are closed -/
def ClosedAt (ds : Dataset) (p g0 : Nat) (ls : List Link) (Q : List (Nat × Nat × Nat))
    (N : List DNode) (i gi : Nat) : Prop :=
  (∃ e ∈ Q, e.1 = i) ∨ ChildrenOk ds N i gi ∨
  (i = p ∧ gi = g0 ∧ ∀ l ∈ get2 ds.links p [], l ∈ ls ∨ ∀ k, l.idx = some k → HasNode ds N k (g0 + 1))

theorem ClosedAt.step {ds : Dataset} {p g0 : Nat} {l : Link} {ls : List Link}
    {Q Q' : List (Nat × Nat × Nat)} {N N' : List DNode} {i gi : Nat}
    (hc : ClosedAt ds p g0 (l :: ls) Q N i gi) (hQ : Q ⊆ Q') (hN : N ⊆ N')
    (hl : ∀ k, l.idx = some k → HasNode ds N' k (g0 + 1)) : ClosedAt ds p g0 ls Q' N' i gi := by
  rcases hc with ⟨e, he, hei⟩ | hc | ⟨hip, hg, hc⟩
  · exact Or.inl ⟨e, hQ he, hei⟩
  · exact Or.inr (Or.inl (fun a ha k hk => (hc a ha k hk).mono hN))
  · refine Or.inr (Or.inr ⟨hip, hg, ?_⟩)
    intro a ha
    rcases hc a ha with hm | hm
    · rw [List.mem_cons] at hm
      rcases hm with rfl | hm
      · exact Or.inr hl
      · exact Or.inl hm
    · exact Or.inr (fun k hk => (hm k hk).mono hN)

/-- invariant inside `placeProgeny` for parent `p` dequeued with row `g0` -/
structure PLInv (ds : Dataset) (p g0 : Nat) (ls : List Link) (st : DState) : Prop where
  seen_eq : st.seen = st.nodes.map (·.name)
  q_seen : ∀ e ∈ st.queue, get2 ds.names e.1 [] ∈ st.seen
  q_gen : ∀ e ∈ st.queue, ∀ nd ∈ st.nodes, nd.name = get2 ds.names e.1 [] → nd.gen = e.2.1
  q_sorted : st.queue.Pairwise (fun a b => a.2.1 ≤ b.2.1)
  q_range : ∀ e ∈ st.queue, g0 ≤ e.2.1 ∧ e.2.1 ≤ g0 + 1
  n_bound : ∀ nd ∈ st.nodes, nd.gen ≤ g0 + 1
  closed : ∀ i, i < ds.n → ∀ ndi ∈ st.nodes, ndi.name = get2 ds.names i [] →
    ClosedAt ds p g0 ls st.queue st.nodes i ndi.gen

/-- invariant of the loop -/
structure LInv (ds : Dataset) (st : DState) : Prop where
  seen_eq : st.seen = st.nodes.map (·.name)
  q_seen : ∀ e ∈ st.queue, get2 ds.names e.1 [] ∈ st.seen
  q_gen : ∀ e ∈ st.queue, ∀ nd ∈ st.nodes, nd.name = get2 ds.names e.1 [] → nd.gen = e.2.1
  q_sorted : st.queue.Pairwise (fun a b => a.2.1 ≤ b.2.1)
  q_span : ∀ a ∈ st.queue, ∀ b ∈ st.queue, b.2.1 ≤ a.2.1 + 1
  n_bound : ∀ nd ∈ st.nodes, ∀ e ∈ st.queue, nd.gen ≤ e.2.1 + 1
  closed : ∀ i, i < ds.n → ∀ ndi ∈ st.nodes, ndi.name = get2 ds.names i [] →
    (∃ e ∈ st.queue, e.1 = i) ∨ ChildrenOk ds st.nodes i ndi.gen

theorem mem_seen_node {st : DState} (hs : st.seen = st.nodes.map (·.name)) {nm : List Nat}
    (h : nm ∈ st.seen) : ∃ nd ∈ st.nodes, nd.name = nm := by
  rw [hs, List.mem_map] at h
  exact h

theorem node_mem_seen {st : DState} (hs : st.seen = st.nodes.map (·.name)) {nd : DNode}
    (h : nd ∈ st.nodes) : nd.name ∈ st.seen := by
  rw [hs, List.mem_map]
  exact ⟨nd, h, rfl⟩

/-- common part of the three transitions that add a node `⟨nm, g0 + 1, x⟩` -/
theorem PLInv_add (ds : Dataset) (p g0 : Nat) (l : Link) (ls : List Link) (st st' : DState)
    (hI : PLInv ds p g0 (l :: ls) st) (nm : List Nat) (x : Nat)
    (hs : st'.seen = nm :: st.seen) (hn : st'.nodes = ⟨nm, g0 + 1, x⟩ :: st.nodes)
    (hqold : ∀ e ∈ st.queue, get2 ds.names e.1 [] ≠ nm)
    (hQ : st'.queue = st.queue ∨
      ∃ k, st'.queue = st.queue ++ [(k, g0 + 1, x)] ∧ get2 ds.names k [] = nm ∧ nm ∉ st.seen)
    (hl : ∀ k, l.idx = some k → get2 ds.names k [] = nm)
    (hnew : ∀ i, i < ds.n → nm = get2 ds.names i [] →
      (∃ e ∈ st'.queue, e.1 = i) ∨ get2 ds.links i [] = []) :
    PLInv ds p g0 ls st' := by
  have hQsub : st.queue ⊆ st'.queue := by
    rcases hQ with hQ | ⟨k, hQ, _⟩ <;> rw [hQ]
    · exact List.Subset.refl _
    · exact List.subset_append_left _ _
  have hNsub : st.nodes ⊆ st'.nodes := by rw [hn]; exact List.subset_cons_self _ _
  have hqcases : ∀ e ∈ st'.queue, e ∈ st.queue ∨
      (e.2.1 = g0 + 1 ∧ get2 ds.names e.1 [] = nm ∧ nm ∉ st.seen) := by
    intro e he
    rcases hQ with hQ | ⟨k, hQ, hk, hns⟩ <;> rw [hQ] at he
    · exact Or.inl he
    · rw [List.mem_append, List.mem_singleton] at he
      rcases he with he | rfl
      · exact Or.inl he
      · exact Or.inr ⟨rfl, hk, hns⟩
  constructor
  · rw [hs, hn, hI.seen_eq]; rfl
  · intro e he
    rw [hs]
    rcases hqcases e he with he | ⟨_, hk, _⟩
    · exact List.mem_cons_of_mem _ (hI.q_seen e he)
    · rw [hk]; exact List.mem_cons_self
  · intro e he nd hnd hname
    rw [hn, List.mem_cons] at hnd
    rcases hqcases e he with he | ⟨hg, hk, hns⟩
    · rcases hnd with rfl | hnd
      · exact absurd hname.symm (hqold e he)
      · exact hI.q_gen e he nd hnd hname
    · rcases hnd with rfl | hnd
      · exact hg.symm
      · exfalso
        apply hns
        rw [← hk, ← hname]
        exact node_mem_seen hI.seen_eq hnd
  · rcases hQ with hQ | ⟨k, hQ, _⟩ <;> rw [hQ]
    · exact hI.q_sorted
    · rw [List.pairwise_append]
      refine ⟨hI.q_sorted, List.pairwise_singleton _ _, ?_⟩
      intro a ha b hb
      rw [List.mem_singleton] at hb
      subst hb
      exact (hI.q_range a ha).2
  · intro e he
    rcases hqcases e he with he | ⟨hg, _, _⟩
    · exact hI.q_range e he
    · omega
  · intro nd hnd
    rw [hn, List.mem_cons] at hnd
    rcases hnd with rfl | hnd
    · exact Nat.le_refl _
    · exact hI.n_bound nd hnd
  · intro i hi ndi hndi hname
    have hl' : ∀ k, l.idx = some k → HasNode ds st'.nodes k (g0 + 1) := by
      intro k hk
      refine ⟨⟨nm, g0 + 1, x⟩, by rw [hn]; exact List.mem_cons_self, (hl k hk).symm, Nat.le_refl _⟩
    rw [hn, List.mem_cons] at hndi
    rcases hndi with rfl | hndi
    · rcases hnew i hi hname with hq | hnil
      · exact Or.inl hq
      · refine Or.inr (Or.inl ?_)
        intro a ha
        rw [hnil] at ha
        cases ha
    · exact (hI.closed i hi ndi hndi hname).step hQsub hNsub hl'

theorem PLInv_step (ds : Dataset) (h : ReachWF ds) (p g0 : Nat) (l : Link) (ls : List Link)
    (st st' : DState) (hl : l ∈ get2 ds.links p []) (hI : PLInv ds p g0 (l :: ls) st)
    (htr : Trans ds p (g0 + 1) l st st') : PLInv ds p g0 ls st' := by
  cases htr with
  | old hseen hq hs hn =>
    have hl' : ∀ k, l.idx = some k → HasNode ds st.nodes k (g0 + 1) := by
      intro k hk
      obtain ⟨nd, hnd, hname⟩ := mem_seen_node hI.seen_eq hseen
      exact ⟨nd, hnd, by rw [hname, h.wf.link_name p l hl k hk], hI.n_bound nd hnd⟩
    refine ⟨hs ▸ hn ▸ hI.seen_eq, hq ▸ hs ▸ hI.q_seen, hq ▸ hn ▸ hI.q_gen, hq ▸ hI.q_sorted,
      hq ▸ hI.q_range, hn ▸ hI.n_bound, ?_⟩
    intro i hi ndi hndi hname
    rw [hn] at hndi
    rw [hq, hn]
    exact (hI.closed i hi ndi hndi hname).step (List.Subset.refl _) (List.Subset.refl _) hl'
  | sf _ hidx x hq hs hn =>
    apply PLInv_add ds p g0 l ls st st' hI _ x hs hn
    · intro e _; exact h.wf.names_noSF _ _
    · exact Or.inl hq
    · intro k hk; rw [hidx] at hk; cases hk
    · intro i _ hname; exact absurd hname.symm (h.wf.names_noSF _ _)
  | enq hnew k hidx hk hnm hrate x hq hs hn =>
    apply PLInv_add ds p g0 l ls st st' hI _ x hs hn
    · intro e he hname; exact hnew (hname ▸ hI.q_seen e he)
    · exact Or.inr ⟨k, hq, hnm, hnew⟩
    · intro k' hk'; rw [hidx] at hk'; cases hk'; exact hnm
    · intro i hi hname
      have : i = k := h.names_inj i k hi hk (by rw [hnm, hname])
      subst this
      exact Or.inl ⟨(i, g0 + 1, x), by rw [hq]; simp, rfl⟩
  | stable hnew k hidx hk hnm hrate x hq hs hn =>
    apply PLInv_add ds p g0 l ls st st' hI _ x hs hn
    · intro e he hname; exact hnew (hname ▸ hI.q_seen e he)
    · exact Or.inl hq
    · intro k' hk'; rw [hidx] at hk'; cases hk'; exact hnm
    · intro i hi hname
      have : i = k := h.names_inj i k hi hk (by rw [hnm, hname])
      subst this
      exact Or.inr (h.stable_nolinks i hrate)

theorem placeProgeny_PLInv (ds : Dataset) (h : ReachWF ds) (p g0 xpos xc : Nat) (st : DState)
    (hI : PLInv ds p g0 (get2 ds.links p []) st) :
    PLInv ds p g0 [] (placeProgeny ds (get2 ds.names p []) (g0 + 1) xpos (get2 ds.links p []) xc st) :=
  placeProgeny_ind ds h p (g0 + 1) xpos (fun ls st => PLInv ds p g0 ls st)
    (fun l ls st st' hl hI htr => PLInv_step ds h p g0 l ls st st' hl hI htr) _ xc st
    (fun _ hl => hl) hI

theorem bfsLoop_LInv (ds : Dataset) (h : ReachWF ds) : ∀ (fuel : Nat) (st : DState),
    LInv ds st → LInv ds (bfsLoop ds fuel st) := by
  intro fuel
  induction fuel with
  | zero => intro st hI; simpa [bfsLoop] using hI
  | succ fuel ih =>
    intro st hI
    rw [bfsLoop]
    split
    · exact hI
    · rename_i p g x rest hq
      apply ih
      have hfront : (p, g, x) ∈ st.queue := by rw [hq]; exact List.mem_cons_self
      have hrest : ∀ e ∈ rest, e ∈ st.queue := fun e he => by rw [hq]; exact List.mem_cons_of_mem _ he
      have hsorted := hI.q_sorted
      rw [hq, List.pairwise_cons] at hsorted
      have hP := placeProgeny_PLInv ds h p g
        ((max (x : Int) ((gmxGet (if (gmxGet st.gmx (g + 1)).isNone then gmxSet st.gmx (g + 1) (-1)
          else st.gmx) (g + 1)).getD (-1) + 1)).toNat) 0
        { st with queue := rest, gmx := if (gmxGet st.gmx (g + 1)).isNone then
            gmxSet st.gmx (g + 1) (-1) else st.gmx } ?_
      · refine ⟨hP.seen_eq, hP.q_seen, hP.q_gen, hP.q_sorted, ?_, ?_, ?_⟩
        · intro a ha b hb
          have := hP.q_range a ha
          have := hP.q_range b hb
          omega
        · intro nd hnd e he
          have := hP.n_bound nd hnd
          have := hP.q_range e he
          omega
        · intro i hi ndi hndi hname
          rcases hP.closed i hi ndi hndi hname with hc | hc | ⟨hip, hg, hc⟩
          · exact Or.inl hc
          · exact Or.inr hc
          · right
            subst hip
            rw [hg]
            intro a ha k hk
            rcases hc a ha with hm | hm
            · cases hm
            · exact hm k hk
      · refine ⟨hI.seen_eq, fun e he => hI.q_seen e (hrest e he),
          fun e he => hI.q_gen e (hrest e he), hsorted.2, ?_, ?_, ?_⟩
        · intro e he
          exact ⟨hsorted.1 e he, hI.q_span _ hfront e (hrest e he)⟩
        · intro nd hnd
          exact hI.n_bound nd hnd _ hfront
        · intro i hi ndi hndi hname
          rcases hI.closed i hi ndi hndi hname with ⟨e, he, hei⟩ | hc
          · rw [hq, List.mem_cons] at he
            rcases he with rfl | he
            · refine Or.inr (Or.inr ⟨hei.symm, ?_, fun a ha => Or.inl ha⟩)
              exact hI.q_gen _ hfront ndi hndi (by rw [hname, ← hei])
            · exact Or.inl ⟨e, he, hei⟩
          · exact Or.inr (Or.inl hc)

theorem init_LInv (ds : Dataset) (h : ReachWF ds) (root : Nat) (hr : root < ds.n) :
    LInv ds (initState ds root) := by
  refine ⟨by simp [initState], ?_, ?_, by simp [initState], ?_, ?_, ?_⟩
  · intro e he
    simp only [initState, List.mem_singleton] at he
    subst he
    simp [initState]
  · intro e he nd hnd _
    simp only [initState, List.mem_singleton] at he hnd
    subst he hnd
    rfl
  · intro a ha b hb
    simp only [initState, List.mem_singleton] at ha hb
    subst ha hb
    simp
  · intro nd hnd e he
    simp only [initState, List.mem_singleton] at he hnd
    subst he hnd
    simp
  · intro i hi ndi hndi hname
    simp only [initState, List.mem_singleton] at hndi
    subst hndi
    have : i = root := h.names_inj i root hi hr hname.symm
    exact Or.inl ⟨(root, 0, 0), by simp [initState], this.symm⟩

/-- the final state of the loop -/
def finalState (ds : Dataset) (root : Nat) : DState := bfsLoop ds (ds.n + 1) (initState ds root)

theorem final_closed (ds : Dataset) (h : ReachWF ds) (root : Nat) (hr : root < ds.n) :
    ∀ i, i < ds.n → ∀ ndi ∈ (finalState ds root).nodes, ndi.name = get2 ds.names i [] →
      ChildrenOk ds (finalState ds root).nodes i ndi.gen := by
  intro i hi ndi hndi hname
  have hL := bfsLoop_LInv ds h (ds.n + 1) _ (init_LInv ds h root hr)
  rcases hL.closed i hi ndi hndi hname with ⟨e, he, _⟩ | hc
  · have hq : (bfsLoop ds (ds.n + 1) (initState ds root)).queue = [] := queue_drained ds h root hr
    rw [hq] at he
    cases he
  · exact hc

/-- every member at the end of a path of `m` steps has a node on a row `≤ m` -/
theorem path_has_node (ds : Dataset) (h : ReachWF ds) (root : Nat) (hr : root < ds.n) :
    ∀ k m, PathN ds root k m → HasNode ds (finalState ds root).nodes k m := by
  intro k m hp
  induction hp with
  | zero =>
    exact ⟨⟨get2 ds.names root [], 0, 0⟩,
      (bfsLoop_SInv ds h root _ _ (init_SInv ds root)).root_node, rfl, Nat.le_refl _⟩
  | succ hp hs ih =>
    obtain ⟨ndk, hndk, hname, hgen⟩ := ih
    obtain ⟨l, hl, hidx⟩ := hs
    obtain ⟨ndj, hndj, hnamej, hgenj⟩ :=
      final_closed ds h root hr _ (hp.member h hr) ndk hndk hname l hl _ hidx
    exact ⟨ndj, hndj, hnamej, by omega⟩

/-- completeness: every reachable member has a node -/
theorem nodes_complete (ds : Dataset) (h : ReachWF ds) (root : Nat) (hr : root < ds.n) :
    ∀ k, Reach ds root k → get2 ds.names k [] ∈ (buildDigraph ds root).nodes.map (·.name) := by
  intro k hk
  obtain ⟨m, hm⟩ := reach_iff_path.1 hk
  obtain ⟨nd, hnd, hname, _⟩ := path_has_node ds h root hr k m hm
  rw [buildDigraph_nodes, List.mem_map]
  exact ⟨nd, List.mem_reverse.2 hnd, hname⟩

/-! ### 4. rows are distances -/

theorem eq_of_nodup_map {α β} (f : α → β) : ∀ (l : List α), (l.map f).Nodup → ∀ a ∈ l, ∀ b ∈ l,
    f a = f b → a = b := by
  intro l
  induction l with
  | nil => intro _ a ha; cases ha
  | cons c t ih =>
    intro hnd a ha b hb hab
    rw [List.map_cons, List.nodup_cons] at hnd
    rw [List.mem_cons] at ha hb
    rcases ha with rfl | ha <;> rcases hb with rfl | hb
    · rfl
    · exact absurd (List.mem_map.2 ⟨b, hb, hab.symm⟩) hnd.1
    · exact absurd (List.mem_map.2 ⟨a, ha, hab⟩) hnd.1
    · exact ih hnd.2 a ha b hb hab

/-- rows are distances (minimality half): the row of the node of member `k` is at most the length
of every path from the root to `k` -/
theorem gen_le_path (ds : Dataset) (h : ReachWF ds) (root : Nat) (hr : root < ds.n) :
    ∀ nd ∈ (buildDigraph ds root).nodes, ∀ k m, PathN ds root k m →
      nd.name = get2 ds.names k [] → nd.gen ≤ m := by
  intro nd hnd k m hp hname
  obtain ⟨nd', hnd', hname', hgen⟩ := path_has_node ds h root hr k m hp
  have hnd'' : nd' ∈ (buildDigraph ds root).nodes := by
    rw [buildDigraph_nodes]; exact List.mem_reverse.2 hnd'
  have : nd = nd' := eq_of_nodup_map (·.name) _ (node_names_nodup ds h.wf root) nd hnd nd' hnd''
    (by rw [hname, hname'])
  rw [this]; exact hgen

/-- rows are distances: the node of a member `k` sits on the row whose number is the length of a
shortest path from the root to `k` -/
theorem gen_is_distance (ds : Dataset) (h : ReachWF ds) (root : Nat) (hr : root < ds.n) :
    ∀ nd ∈ (buildDigraph ds root).nodes, ∀ k, k < ds.n → nd.name = get2 ds.names k [] →
      PathN ds root k nd.gen ∧ ∀ m, PathN ds root k m → nd.gen ≤ m := by
  intro nd hnd k hk hname
  refine ⟨?_, fun m hp => gen_le_path ds h root hr nd hnd k m hp hname⟩
  rcases gen_is_path_length ds h root nd hnd with ⟨k', hp, hn⟩ | ⟨p, g, _, _, _, hn⟩
  · have : k = k' := h.names_inj k k' hk (hp.member h hr) (by rw [← hname, hn])
    rw [this]; exact hp
  · exact absurd (hname.symm.trans hn) (h.wf.names_noSF k _)

/-! ### non-vacuity: a three-nuclide dataset `A → B → C`, `A → SF`, satisfying `ReachWF` -/

theorem get2_three {α} (a b c d : α) (i : Nat) :
    get2 [[a, b, c]] i d = match i with | 0 => a | 1 => b | 2 => c | _ => d := by
  match i with
  | 0 => rfl
  | 1 => rfl
  | 2 => rfl
  | n + 3 =>
    show ([[a, b, c]].getD ((n + 3) / blockSize) []).getD ((n + 3) % blockSize) d = d
    by_cases hlt : n + 3 < blockSize
    · rw [Nat.div_eq_of_lt hlt, Nat.mod_eq_of_lt hlt]
      simp
    · have h1 : 1 ≤ (n + 3) / blockSize := by
        unfold blockSize at hlt ⊢; omega
      obtain ⟨m, hm⟩ : ∃ m, (n + 3) / blockSize = m + 1 := ⟨(n + 3) / blockSize - 1, by omega⟩
      rw [hm]
      simp

/-- `A → B` (1/2), `A → SF` (1/2), `B → C`, `C` stable -/
def exDs : Dataset :=
  cexDs [[65], [66], [67]]
    [[⟨some 1, [66], 1 / 2, 0, "α"⟩, ⟨none, S "SF", 1 / 2, 0, "SF"⟩], [⟨some 2, [67], 1, 0, "β-"⟩], []]
    [1, 1, 0]

theorem exDs_names (i : Nat) :
    get2 exDs.names i [] = match i with | 0 => [65] | 1 => [66] | 2 => [67] | _ => [] :=
  get2_three _ _ _ _ i

theorem exDs_links (i : Nat) :
    get2 exDs.links i [] = match i with
      | 0 => [⟨some 1, [66], 1 / 2, 0, "α"⟩, ⟨none, S "SF", 1 / 2, 0, "SF"⟩]
      | 1 => [⟨some 2, [67], 1, 0, "β-"⟩] | 2 => [] | _ => [] :=
  get2_three _ _ _ _ i

theorem exDs_rate (i : Nat) :
    get2 exDs.rate i 0 = match i with | 0 => 1 | 1 => 1 | 2 => 0 | _ => 0 :=
  get2_three _ _ _ _ i

theorem sfName_length (q : List Nat) : 3 ≤ (sfName q).length := by
  have : (S "_SF").length = 3 := by decide
  simp only [sfName, List.length_append]; omega

theorem S_SF : S "SF" = [83, 70] := by decide

theorem exDs_ReachWF : ReachWF exDs := by
  have hnames : ∀ i, (get2 exDs.names i []).length ≤ 1 := by
    intro i; rw [exDs_names]; split <;> simp
  have hlinks : ∀ p, ∀ l ∈ get2 exDs.links p [],
      (p = 0 ∧ l.idx = some 1 ∧ l.name = [66]) ∨ (p = 0 ∧ l.idx = none ∧ l.name = S "SF") ∨
      (p = 1 ∧ l.idx = some 2 ∧ l.name = [67]) := by
    intro p l hl
    rw [exDs_links] at hl
    split at hl
    · simp only [List.mem_cons, List.not_mem_nil, or_false] at hl
      rcases hl with rfl | rfl <;> simp
    · simp only [List.mem_cons, List.not_mem_nil, or_false] at hl
      subst hl; simp
    · cases hl
    · cases hl
  refine ⟨⟨?_, ?_, ?_, ?_, ?_⟩, ?_, ?_, ?_, ?_⟩
  · intro i q e
    have := hnames i
    have := sfName_length q
    rw [e] at *; omega
  · intro p l hl q e
    have := sfName_length q
    rw [← e] at this
    rcases hlinks p l hl with ⟨_, _, hn⟩ | ⟨_, _, hn⟩ | ⟨_, _, hn⟩ <;> rw [hn] at this <;>
      simp [S_SF] at this
  · intro p l hl k hk
    rcases hlinks p l hl with ⟨_, hi, hn⟩ | ⟨_, hi, hn⟩ | ⟨_, hi, hn⟩ <;> rw [hi] at hk <;>
      cases hk <;> rw [hn, exDs_names] <;> rfl
  · intro p l hl hn
    rcases hlinks p l hl with ⟨_, _, hn'⟩ | ⟨_, hi, _⟩ | ⟨_, _, hn'⟩
    · rw [hn', S_SF] at hn; cases hn
    · exact hi
    · rw [hn', S_SF] at hn; cases hn
  · intro p
    rw [exDs_links]
    split <;> decide
  · intro i j hi hj e
    have hn : exDs.n = 3 := rfl
    rw [hn] at hi hj
    rw [exDs_names, exDs_names] at e
    match i, j, hi, hj with
    | 0, 0, _, _ => rfl
    | 1, 1, _, _ => rfl
    | 2, 2, _, _ => rfl
    | 0, 1, _, _ => cases e
    | 0, 2, _, _ => cases e
    | 1, 0, _, _ => cases e
    | 1, 2, _, _ => cases e
    | 2, 0, _, _ => cases e
    | 2, 1, _, _ => cases e
  · intro p l hl k hk
    show k < 3
    rcases hlinks p l hl with ⟨_, hi, _⟩ | ⟨_, hi, _⟩ | ⟨_, hi, _⟩ <;> rw [hi] at hk <;>
      cases hk <;> omega
  · intro i hi
    rw [exDs_rate] at hi
    rw [exDs_links]
    split at hi <;> first | rfl | (exact absurd hi (by decide))
  · intro p l hl hi
    rcases hlinks p l hl with ⟨_, hi', _⟩ | ⟨_, _, hn⟩ | ⟨_, hi', _⟩
    · rw [hi'] at hi; cases hi
    · exact hn
    · rw [hi'] at hi; cases hi

/-- the diagram of `A`: nodes `A` (row 0), `B`, `A_SF` (row 1), `C` (row 2) -/
example : (buildDigraph exDs 0).nodes.map (fun nd => (nd.name, nd.gen)) =
    [([65], 0), ([66], 1), (sfName [65], 1), ([67], 2)] := by decide

theorem exDs_reach : Reach exDs 0 2 :=
  Relation.ReflTransGen.tail (Relation.ReflTransGen.single
    ⟨_, by rw [exDs_links]; exact List.mem_cons_self, rfl⟩)
    ⟨_, by rw [exDs_links]; exact List.mem_cons_self, rfl⟩

example : [67] ∈ (buildDigraph exDs 0).nodes.map (·.name) := by
  have := nodes_complete exDs exDs_ReachWF 0 (by decide) 2 exDs_reach
  rwa [exDs_names] at this

end RdVerif
