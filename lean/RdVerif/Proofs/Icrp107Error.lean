/-
Proofs/Icrp107Error.lean — dataset-level statements for the shipped dataset `Gen.icrp107`:
the interval oracle encloses the exact ODE solution, and the data error of the double-precision
matrices and decay constants contributes at most 5e-12 of the initial atoms to any decay result.
-/
import RdVerif.Proofs.Oracle
import RdVerif.Proofs.ErrorBound
import RdVerif.Proofs.DatasetMeaning
import RdVerif.Proofs.Icrp107
import RdVerif.Props.C01

set_option maxRecDepth 20000

namespace RdVerif.Icrp107
open RdVerif RdVerif.Gen RdVerif.Gen.Icrp107.Obl

/-! ### generic preliminaries -/

/-- what `patternOk` says about the stored column patterns -/
theorem patternOk_spec (ds : Dataset) (i : ℕ) (r : Row) (h : patternOk ds i r = true) :
    colsOf (getRow ds.cix i) = colsOf r ∧ fcolsOf (get2 ds.cf i []) = colsOf r ∧
      fcolsOf (get2 ds.cif i []) = colsOf r ∧ Row.sorted r = true := by
  unfold patternOk at h
  simp only [Bool.and_eq_true, beq_iff_eq] at h
  obtain ⟨⟨⟨⟨⟨⟨_, h1⟩, h2⟩, h3⟩, _⟩, _⟩, h4⟩ := h
  exact ⟨h1, h2, h3, h4⟩

/-- the number of blocks is determined by the number of items -/
theorem blocksShapeOk_length {α} (M : List (List α)) (n : ℕ) (h : blocksShapeOk M n = true) :
    M.length = (n + 39) / 40 := by
  rcases List.eq_nil_or_concat M with rfl | ⟨init, l, rfl⟩
  · simp [blocksShapeOk] at h; subst h; rfl
  · rw [List.concat_eq_append] at h ⊢
    simp only [blocksShapeOk, List.dropLast_concat, List.getLast?_concat, Bool.and_eq_true,
      List.all_eq_true, beq_iff_eq, decide_eq_true_eq, List.length_append, List.length_cons,
      List.length_nil, blockSize] at h ⊢
    obtain ⟨_, ⟨hl0, hl1⟩, hn⟩ := h
    have hl1 := of_decide_eq_true hl1
    omega

theorem blocks_length_eq {α β} (M : List (List α)) (M' : List (List β)) (n : ℕ)
    (h : blocksShapeOk M n = true) (h' : blocksShapeOk M' n = true) : M.length = M'.length := by
  rw [blocksShapeOk_length M n h, blocksShapeOk_length M' n h']

/-! ### kernel facts, row by row -/

theorem lt_nb {b : ℕ} (hb : b < icrp107.cx.length) : b < 38 := Nat.lt_of_lt_of_eq hb nblocks

theorem rowInv (i : ℕ) (hi : i < N) : checkRowInv icrp107.cix i (getRow icrp107.cx i) = true :=
  rows_checked (checkRowInv icrp107.cix) icrp107.cx N shape_cx
    (fun b hb => w1_all b (lt_nb hb)) i hi

theorem rowPattern (i : ℕ) (hi : i < N) : patternOk icrp107 i (getRow icrp107.cx i) = true :=
  items_checked (patternOk icrp107) icrp107.cx N [] shape_cx
    (fun b hb => w5_all b (lt_nb hb)) i hi

theorem rowAgg (i : ℕ) (hi : i < N) :
    aggRowOk icrp107 aggErrBound aggCondBound i (getRow icrp107.cx i) = true :=
  items_checked (aggRowOk icrp107 aggErrBound aggCondBound) icrp107.cx N [] shape_cx
    (fun b hb => w9agg_all b (lt_nb hb)) i hi

theorem rowLam (i : ℕ) (hi : i < N) :
    lamOk ln2Lo ln2Hi lamRel (get2 icrp107.rate i 0) (get2 icrp107.lamF i 0) = true :=
  items_checked (fun i lam => lamOk ln2Lo ln2Hi lamRel (get2 icrp107.rate i 0) lam)
    icrp107.lamF N 0 shape_lamF
    (fun b hb => w9lam_all b (lt_nb (by
      rw [blocks_length_eq icrp107.cx icrp107.lamF N shape_cx shape_lamF]; exact hb))) i hi

/-! ### 1. columns -/

theorem icrp107_cols_lt : ∀ i < N, (∀ e ∈ getRow icrp107.cx i, e.col < N) ∧
    (∀ e ∈ getRow icrp107.cix i, e.col < N) := by
  intro i hi
  have hcx : ∀ e ∈ getRow icrp107.cx i, e.col < N := fun e he =>
    lt_of_le_of_lt ((checkRowInv_spec (rowInv i hi)).1 e he) hi
  refine ⟨hcx, ?_⟩
  intro e he
  obtain ⟨hc, _⟩ := patternOk_spec icrp107 i _ (rowPattern i hi)
  have hm : e.col ∈ colsOf (getRow icrp107.cx i) := by
    rw [← hc]; exact List.mem_map.2 ⟨e, he, rfl⟩
  obtain ⟨e', he', hcol⟩ := List.mem_map.1 hm
  rw [← hcol]; exact hcx e' he'

/-! ### 2. rates -/

theorem icrp107_rates_nonneg : ∀ i < N, 0 ≤ get2 icrp107.rate i 0 := by
  intro i hi
  have h := rowLam i hi
  unfold lamOk at h
  split at h
  · rename_i h0
    rw [beq_iff_eq] at h0
    rw [h0]
  · simp only [Bool.and_eq_true, decide_eq_true_eq] at h
    exact h.1.1.le

/-! ### 3. the oracle encloses the exact solution -/

theorem Nt_eq_solReal (v : N0) (t : ℝ) (i : ℕ) (hi : i < N) :
    RdVerif.C01.Nt (N0vec N v) t ⟨i, hi⟩ = solReal icrp107 v t i := by
  rw [RdVerif.C01.C01_closed_form,
    solReal_eq_closed_form icrp107 v t N (fun i hi => (icrp107_cols_lt i hi).1)
      (fun i hi => (icrp107_cols_lt i hi).2) i hi]
  refine Finset.sum_congr rfl (fun k _ => ?_)
  have e : -lam k * t = -(rateVec N icrp107.rate k * Real.log 2) * t := by
    unfold lam; ring
  rw [e]
  rfl

theorem icrp107_oracle_sound (cfg : EvalCfg) (v : N0) (t : ℚ) (i : ℕ) (hi : i < N) (ht : 0 ≤ t)
    (hln2 : (cfg.ln2.1 : ℝ) ≤ Real.log 2 ∧ Real.log 2 ≤ (cfg.ln2.2 : ℝ)) :
    ((solEncl icrp107 cfg v t i).1 : ℝ) ≤ RdVerif.C01.Nt (N0vec N v) (t : ℝ) ⟨i, hi⟩ ∧
    RdVerif.C01.Nt (N0vec N v) (t : ℝ) ⟨i, hi⟩ ≤ ((solEncl icrp107 cfg v t i).2 : ℝ) := by
  rw [Nt_eq_solReal]
  apply solEncl_sound icrp107 cfg v t i ht _ hln2
  intro p hp
  unfold coeffs at hp
  obtain ⟨e, he, rfl⟩ := List.mem_map.1 hp
  exact icrp107_rates_nonneg e.col ((icrp107_cols_lt i hi).1 e he)

/-! ### 4. the data error -/

/-- certificate for the 40-digit enclosure of ln 2: Taylor bounds of `exp` at both ends -/
theorem ln2_cert : (expEncl01 ln2Lo 45).2 ≤ 2 ∧ 2 ≤ (expEncl01 ln2Hi 45).1 := by
  decide +kernel

theorem ln2_bounds : ((ln2Lo : ℚ) : ℝ) ≤ Real.log 2 ∧ Real.log 2 ≤ ((ln2Hi : ℚ) : ℝ) := by
  have hlo0 : (0 : ℚ) ≤ ln2Lo := by unfold ln2Lo; norm_num
  have hlo1 : ln2Lo ≤ 1 := by unfold ln2Lo; norm_num
  have hhi0 : (0 : ℚ) ≤ ln2Hi := by unfold ln2Hi; norm_num
  have hhi1 : ln2Hi ≤ 1 := by unfold ln2Hi; norm_num
  have sa := (expEncl01_sound ln2Lo hlo0 hlo1 45 (by norm_num)).2
  have sb := (expEncl01_sound ln2Hi hhi0 hhi1 45 (by norm_num)).1
  have hA : ((expEncl01 ln2Lo 45).2 : ℝ) ≤ 2 := by exact_mod_cast ln2_cert.1
  have hB : (2 : ℝ) ≤ ((expEncl01 ln2Hi 45).1 : ℝ) := by exact_mod_cast ln2_cert.2
  constructor
  · exact (Real.le_log_iff_exp_le (by norm_num)).2 (sa.trans hA)
  · exact (Real.log_le_iff_le_exp (by norm_num)).2 (hB.trans sb)


/-! #### sums over the entries of one column -/

/-- sum of `a` over the entries of `l` in column `k` -/
noncomputable def selSum {α} (l : List α) (col : α → ℕ) (a : α → ℝ) (k : ℕ) : ℝ :=
  ((l.filter (fun p => col p = k)).map a).sum

theorem selSum_nil {α} (col : α → ℕ) (a : α → ℝ) (k : ℕ) : selSum [] col a k = 0 := by
  simp [selSum]

theorem selSum_cons {α} (p : α) (l : List α) (col : α → ℕ) (a : α → ℝ) (k : ℕ) :
    selSum (p :: l) col a k = (if col p = k then a p else 0) + selSum l col a k := by
  unfold selSum
  by_cases h : col p = k
  · simp [h]
  · simp [h]

theorem selSum_eq_zero {α} (l : List α) (col : α → ℕ) (a : α → ℝ) (k : ℕ)
    (h : ∀ p ∈ l, col p ≠ k) : selSum l col a k = 0 := by
  induction l with
  | nil => exact selSum_nil col a k
  | cons p l ih =>
    rw [selSum_cons, if_neg (h p (by simp)), zero_add]
    exact ih (fun q hq => h q (by simp [hq]))

theorem selSum_congr {α} (l : List α) (col : α → ℕ) (a a' : α → ℝ) (k : ℕ)
    (h : ∀ p ∈ l, col p = k → a p = a' p) : selSum l col a k = selSum l col a' k := by
  induction l with
  | nil => rw [selSum_nil, selSum_nil]
  | cons p l ih =>
    rw [selSum_cons, selSum_cons, ih (fun q hq => h q (by simp [hq]))]
    by_cases hc : col p = k
    · rw [if_pos hc, if_pos hc, h p (by simp) hc]
    · rw [if_neg hc, if_neg hc]

/-- with strictly increasing columns a column holds at most one entry, so any `G` with
`G 0 0 = 0` commutes with the selection -/
theorem selSum_single {α} (l : List α) (col : α → ℕ) (a b : α → ℝ) (G : ℝ → ℝ → ℝ)
    (hG : G 0 0 = 0) (hs : l.Pairwise (fun p q => col p < col q)) (j : ℕ) :
    G (selSum l col a j) (selSum l col b j) = selSum l col (fun p => G (a p) (b p)) j := by
  induction l with
  | nil => simp only [selSum_nil, hG]
  | cons p l ih =>
    obtain ⟨h1, h2⟩ := List.pairwise_cons.1 hs
    rw [selSum_cons, selSum_cons, selSum_cons]
    by_cases hc : col p = j
    · have hne : ∀ q ∈ l, col q ≠ j := fun q hq => by
        have := h1 q hq; omega
      rw [if_pos hc, if_pos hc, if_pos hc, selSum_eq_zero l col a j hne,
        selSum_eq_zero l col b j hne, selSum_eq_zero l col _ j hne]
      simp
    · rw [if_neg hc, if_neg hc, if_neg hc, zero_add, zero_add, zero_add]
      exact ih h2

theorem sum_fin_selSum {α} (n : ℕ) (l : List α) (col : α → ℕ) (c : α → ℝ)
    (hlt : ∀ p ∈ l, col p < n) : (∑ k : Fin n, selSum l col c k.val) = (l.map c).sum := by
  induction l with
  | nil => simp [selSum_nil]
  | cons p l ih =>
    simp only [selSum_cons, Finset.sum_add_distrib, List.map_cons, List.sum_cons]
    rw [sum_fin_ite n (col p) (hlt p (by simp)) (fun _ => c p),
      ih (fun q hq => hlt q (by simp [hq]))]

/-- sum over all columns of a function of the two column entries = sum over the stored entries -/
theorem sum_fin_F {α} (n : ℕ) (l : List α) (col : α → ℕ) (a b : α → ℝ) (F : ℕ → ℝ → ℝ → ℝ)
    (hF : ∀ k, F k 0 0 = 0) (hs : l.Pairwise (fun p q => col p < col q))
    (hlt : ∀ p ∈ l, col p < n) :
    (∑ k : Fin n, F k.val (selSum l col a k.val) (selSum l col b k.val))
      = (l.map (fun p => F (col p) (a p) (b p))).sum := by
  rw [← sum_fin_selSum n l col _ hlt]
  refine Finset.sum_congr rfl (fun k _ => ?_)
  rw [selSum_single l col a b (F k.val) (hF k.val) hs k.val]
  apply selSum_congr
  intro p _ hc
  rw [hc]

/-! #### aligned rows -/

theorem selSum_zip {α β} (xs : List α) (ys : List β) (cx : α → ℕ) (cy : β → ℕ)
    (h : xs.map cx = ys.map cy) (a : α → ℝ) (b : β → ℝ) (k : ℕ) :
    selSum xs cx a k = selSum (xs.zip ys) (fun p => cy p.2) (fun p => a p.1) k ∧
    selSum ys cy b k = selSum (xs.zip ys) (fun p => cy p.2) (fun p => b p.2) k := by
  induction xs generalizing ys with
  | nil =>
    cases ys with
    | nil => simp [selSum_nil]
    | cons y ys => simp at h
  | cons x xs ih =>
    cases ys with
    | nil => simp at h
    | cons y ys =>
      simp only [List.map_cons, List.cons.injEq] at h
      obtain ⟨h1, h2⟩ := ih ys h.2
      rw [List.zip_cons_cons, selSum_cons, selSum_cons, selSum_cons, selSum_cons, ← h1, ← h2, h.1]
      exact ⟨rfl, rfl⟩

theorem pairwise_zip {α β} (xs : List α) (ys : List β) (cy : β → ℕ)
    (hs : ys.Pairwise (fun p q => cy p < cy q)) :
    (xs.zip ys).Pairwise (fun p q => cy p.2 < cy q.2) := by
  induction xs generalizing ys with
  | nil => simp
  | cons x xs ih =>
    cases ys with
    | nil => simp
    | cons y ys =>
      obtain ⟨h1, h2⟩ := List.pairwise_cons.1 hs
      rw [List.zip_cons_cons]
      refine List.pairwise_cons.2 ⟨?_, ih ys h2⟩
      intro q hq
      exact h1 q.2 (List.of_mem_zip hq).2

theorem den_eq_selSum (r : Row) (k : ℕ) :
    ((r.den k : ℚ) : ℝ) = selSum r E.col (fun e => ((e.val : ℚ) : ℝ)) k := by
  induction r with
  | nil => simp [Row.den, selSum_nil]
  | cons e r ih =>
    rw [selSum_cons, ← ih]
    simp only [Row.den]
    split <;> simp

/-! #### float matrices -/

/-- float matrices as the exact reals their doubles are -/
noncomputable def toMatF (n : ℕ) (M : List (List FRow)) : Matrix (Fin n) (Fin n) ℝ :=
  fun i j => (((get2 M i.val []).filter (fun x => x.col = j.val)).map
    (fun x => ((x.val : ℚ) : ℝ))).sum

/-- the double-precision decay constants -/
noncomputable def lamHat : Fin N → ℝ := fun k => ((get2 icrp107.lamF k.val 0 : ℚ) : ℝ)

theorem toMatF_eq_selSum (n : ℕ) (M : List (List FRow)) (i j : Fin n) :
    toMatF n M i j = selSum (get2 M i.val []) FE.col (fun x => ((x.val : ℚ) : ℝ)) j.val := rfl

/-! #### the aggregated sums as sums over matrix entries (generic dataset) -/

theorem errSum_cast (ds : Dataset) (i j : ℕ) :
    ((errSum ds i j : ℚ) : ℝ) = (((get2 ds.cf i []).zip (getRow ds.cx i)).map (fun p =>
      selSum ((get2 ds.cif p.2.col []).zip (getRow ds.cix p.2.col)) (fun q => q.2.col)
        (fun q => |((p.1.val : ℚ) : ℝ) * ((q.1.val : ℚ) : ℝ)
          - ((p.2.val : ℚ) : ℝ) * ((q.2.val : ℚ) : ℝ)|) j)).sum := by
  unfold errSum errSumRow selSum
  rw [cast_sum_map]
  apply map_sum_congr
  intro p _
  rw [cast_sum_map]
  simp only [Rat.cast_abs, Rat.cast_sub, Rat.cast_mul]

theorem condSum_cast (ds : Dataset) (i j : ℕ) :
    ((condSum ds i j : ℚ) : ℝ) = ((getRow ds.cx i).map (fun e =>
      selSum (getRow ds.cix e.col) E.col
        (fun f => |((e.val : ℚ) : ℝ) * ((f.val : ℚ) : ℝ)|) j)).sum := by
  unfold condSum condSumRow selSum
  rw [cast_sum_map]
  apply map_sum_congr
  intro e _
  rw [cast_sum_map]
  simp only [Rat.cast_abs, Rat.cast_mul]

/-- hypotheses about the patterns of a dataset that `patternOk`/`checkRowInv` provide -/
structure PatternFacts (ds : Dataset) (n : ℕ) : Prop where
  cx_lt : ∀ i < n, ∀ e ∈ getRow ds.cx i, e.col < n
  cx_sorted : ∀ i < n, Row.sorted (getRow ds.cx i) = true
  cix_cols : ∀ i < n, colsOf (getRow ds.cix i) = colsOf (getRow ds.cx i)
  cf_cols : ∀ i < n, fcolsOf (get2 ds.cf i []) = colsOf (getRow ds.cx i)
  cif_cols : ∀ i < n, fcolsOf (get2 ds.cif i []) = colsOf (getRow ds.cx i)

theorem PatternFacts.cix_sorted {ds : Dataset} {n : ℕ} (pf : PatternFacts ds n) (i : ℕ)
    (hi : i < n) : Row.sorted (getRow ds.cix i) = true :=
  Row.sorted_of_colsOf_eq _ _ (pf.cix_cols i hi) (pf.cx_sorted i hi)

/-- `Σ_k |Ĉ_ik Ĉ⁻¹_kj − C_ik C⁻¹_kj|` over matrix entries is the list sum `errSum` -/
theorem sum_err_eq (ds : Dataset) (n : ℕ) (pf : PatternFacts ds n) (i j : Fin n) :
    (∑ k : Fin n, |toMatF n ds.cf i k * toMatF n ds.cif k j
        - toMat n ds.cx i k * toMat n ds.cix k j|) = ((errSum ds i.val j.val : ℚ) : ℝ) := by
  -- row `i` of `Ĉ` and `C` through the aligned list
  have hal : ∀ k : ℕ,
      selSum (get2 ds.cf i.val []) FE.col (fun x => ((x.val : ℚ) : ℝ)) k
        = selSum ((get2 ds.cf i.val []).zip (getRow ds.cx i.val)) (fun p => p.2.col)
            (fun p => ((p.1.val : ℚ) : ℝ)) k ∧
      selSum (getRow ds.cx i.val) E.col (fun e => ((e.val : ℚ) : ℝ)) k
        = selSum ((get2 ds.cf i.val []).zip (getRow ds.cx i.val)) (fun p => p.2.col)
            (fun p => ((p.2.val : ℚ) : ℝ)) k := fun k =>
    selSum_zip _ _ FE.col E.col (pf.cf_cols i.val i.isLt) _ _ k
  have hrow : ∀ k : Fin n, |toMatF n ds.cf i k * toMatF n ds.cif k j
        - toMat n ds.cx i k * toMat n ds.cix k j|
      = |selSum ((get2 ds.cf i.val []).zip (getRow ds.cx i.val)) (fun p => p.2.col)
            (fun p => ((p.1.val : ℚ) : ℝ)) k.val
          * selSum (get2 ds.cif k.val []) FE.col (fun x => ((x.val : ℚ) : ℝ)) j.val
          - selSum ((get2 ds.cf i.val []).zip (getRow ds.cx i.val)) (fun p => p.2.col)
            (fun p => ((p.2.val : ℚ) : ℝ)) k.val
          * (((getRow ds.cix k.val).den j.val : ℚ) : ℝ)| := by
    intro k
    rw [← (hal k.val).1, ← (hal k.val).2, ← den_eq_selSum]
    rfl
  refine (Finset.sum_congr rfl (fun k _ => hrow k)).trans ?_
  refine (sum_fin_F n ((get2 ds.cf i.val []).zip (getRow ds.cx i.val)) (fun p => p.2.col)
    (fun p => ((p.1.val : ℚ) : ℝ)) (fun p => ((p.2.val : ℚ) : ℝ))
    (fun (k : ℕ) (u w : ℝ) =>
      |u * selSum (get2 ds.cif k []) FE.col (fun x => ((x.val : ℚ) : ℝ)) j.val
        - w * (((getRow ds.cix k).den j.val : ℚ) : ℝ)|) (fun k => by simp)
    (pairwise_zip _ _ E.col (Row.sorted_pairwise _ (pf.cx_sorted i.val i.isLt)))
    (fun p hp => pf.cx_lt i.val i.isLt p.2 (List.of_mem_zip hp).2)).trans ?_
  rw [errSum_cast]
  apply map_sum_congr
  intro p hp
  have hc : p.2.col < n := pf.cx_lt i.val i.isLt p.2 (List.of_mem_zip hp).2
  have hcols : fcolsOf (get2 ds.cif p.2.col []) = colsOf (getRow ds.cix p.2.col) := by
    rw [pf.cif_cols _ hc, pf.cix_cols _ hc]
  obtain ⟨z1, z2⟩ := selSum_zip _ _ FE.col E.col hcols (fun x => ((x.val : ℚ) : ℝ))
    (fun e => ((e.val : ℚ) : ℝ)) j.val
  show |((p.1.val : ℚ) : ℝ) * selSum (get2 ds.cif p.2.col []) FE.col _ j.val
      - ((p.2.val : ℚ) : ℝ) * (((getRow ds.cix p.2.col).den j.val : ℚ) : ℝ)| = _
  rw [den_eq_selSum, z1, z2]
  exact selSum_single ((get2 ds.cif p.2.col []).zip (getRow ds.cix p.2.col))
    (fun q => q.2.col) (fun q => ((q.1.val : ℚ) : ℝ)) (fun q => ((q.2.val : ℚ) : ℝ))
    (fun u w => |((p.1.val : ℚ) : ℝ) * u - ((p.2.val : ℚ) : ℝ) * w|) (by simp)
    (pairwise_zip _ _ E.col (Row.sorted_pairwise _ (pf.cix_sorted _ hc))) j.val

/-- `Σ_k |C_ik C⁻¹_kj|` over matrix entries is the list sum `condSum` -/
theorem sum_cond_eq (ds : Dataset) (n : ℕ) (pf : PatternFacts ds n) (i j : Fin n) :
    (∑ k : Fin n, |toMat n ds.cx i k * toMat n ds.cix k j|)
      = ((condSum ds i.val j.val : ℚ) : ℝ) := by
  have hrow : ∀ k : Fin n, |toMat n ds.cx i k * toMat n ds.cix k j|
      = |selSum (getRow ds.cx i.val) E.col (fun e => ((e.val : ℚ) : ℝ)) k.val
          * (((getRow ds.cix k.val).den j.val : ℚ) : ℝ)| := by
    intro k
    rw [← den_eq_selSum]
    rfl
  refine (Finset.sum_congr rfl (fun k _ => hrow k)).trans ?_
  refine (sum_fin_F n (getRow ds.cx i.val) E.col (fun e => ((e.val : ℚ) : ℝ))
    (fun e => ((e.val : ℚ) : ℝ))
    (fun (k : ℕ) (u _w : ℝ) => |u * (((getRow ds.cix k).den j.val : ℚ) : ℝ)|)
    (fun k => by simp) (Row.sorted_pairwise _ (pf.cx_sorted i.val i.isLt))
    (pf.cx_lt i.val i.isLt)).trans ?_
  rw [condSum_cast]
  apply map_sum_congr
  intro e he
  have hc : e.col < n := pf.cx_lt i.val i.isLt e he
  show |((e.val : ℚ) : ℝ) * (((getRow ds.cix e.col).den j.val : ℚ) : ℝ)| = _
  rw [den_eq_selSum]
  exact selSum_single (getRow ds.cix e.col) E.col (fun f => ((f.val : ℚ) : ℝ))
    (fun f => ((f.val : ℚ) : ℝ)) (fun u _ => |((e.val : ℚ) : ℝ) * u|) (by simp)
    (Row.sorted_pairwise _ (pf.cix_sorted _ hc)) j.val


/-! #### the shipped dataset -/

theorem icrp107_patternFacts : PatternFacts icrp107 N where
  cx_lt := fun i hi => (icrp107_cols_lt i hi).1
  cx_sorted := fun i hi => (patternOk_spec icrp107 i _ (rowPattern i hi)).2.2.2
  cix_cols := fun i hi => (patternOk_spec icrp107 i _ (rowPattern i hi)).1
  cf_cols := fun i hi => (patternOk_spec icrp107 i _ (rowPattern i hi)).2.1
  cif_cols := fun i hi => (patternOk_spec icrp107 i _ (rowPattern i hi)).2.2.1

theorem icrp107_agg (i j : Fin N) :
    errSum icrp107 i.val j.val ≤ aggErrBound ∧ condSum icrp107 i.val j.val ≤ aggCondBound :=
  aggRowOk_meaning icrp107 aggErrBound aggCondBound i.val (by unfold aggErrBound; norm_num)
    (by unfold aggCondBound; norm_num)
    (fun e he => icrp107_patternFacts.cix_sorted e.col
      (icrp107_patternFacts.cx_lt i.val i.isLt e he))
    (rowAgg i.val i.isLt) j.val

/-- **aggregated data error of the shipped matrices**, over matrix entries -/
theorem icrp107_B (i j : Fin N) :
    (∑ k : Fin N, |toMatF N icrp107.cf i k * toMatF N icrp107.cif k j - C i k * Ci k j|)
      ≤ ((aggErrBound : ℚ) : ℝ) := by
  unfold C Ci
  rw [sum_err_eq icrp107 N icrp107_patternFacts i j]
  exact_mod_cast (icrp107_agg i j).1

theorem icrp107_K (i j : Fin N) :
    (∑ k : Fin N, |C i k * Ci k j|) ≤ ((aggCondBound : ℚ) : ℝ) := by
  unfold C Ci
  rw [sum_cond_eq icrp107 N icrp107_patternFacts i j]
  exact_mod_cast (icrp107_agg i j).2

theorem lam_nonneg (k : Fin N) : 0 ≤ lam k := by
  unfold lam rateVec
  have h1 : (0 : ℝ) ≤ ((get2 icrp107.rate k.val 0 : ℚ) : ℝ) := by
    exact_mod_cast icrp107_rates_nonneg k.val k.isLt
  exact mul_nonneg (Real.log_nonneg (by norm_num)) h1

/-- `lamOk` gives a relative distance of `1.1e-15` to `r·ln 2` (it compares with the two ends
of the 40-digit enclosure of ln 2, which costs 1e-40 on top of `lamRel = 1e-15`) -/
theorem lamOk_close (rq lq : ℚ) (h : lamOk ln2Lo ln2Hi lamRel rq lq = true) :
    |((lq : ℚ) : ℝ) - Real.log 2 * ((rq : ℚ) : ℝ)|
      ≤ (11 / 10 ^ 16 : ℝ) * (Real.log 2 * ((rq : ℚ) : ℝ)) := by
  unfold lamOk at h
  split at h
  · rename_i h0
    rw [beq_iff_eq] at h0 h
    rw [h0, h]
    simp
  · simp only [Bool.and_eq_true, decide_eq_true_eq] at h
    obtain ⟨⟨hr, hlo⟩, hhi⟩ := h
    obtain ⟨ha, hb⟩ := ln2_bounds
    have q1 : ln2Hi * (1 - 11 / 10 ^ 16) ≤ ln2Lo * (1 - lamRel) := by
      unfold ln2Hi ln2Lo lamRel; norm_num
    have q2 : ln2Hi * (1 + lamRel) ≤ ln2Lo * (1 + 11 / 10 ^ 16) := by
      unfold ln2Hi ln2Lo lamRel; norm_num
    have q1' : ((ln2Hi : ℚ) : ℝ) * (1 - 11 / 10 ^ 16)
        ≤ ((ln2Lo : ℚ) : ℝ) * (1 - ((lamRel : ℚ) : ℝ)) := by
      have h := (Rat.cast_le (K := ℝ)).2 q1
      push_cast at h
      exact h
    have q2' : ((ln2Hi : ℚ) : ℝ) * (1 + ((lamRel : ℚ) : ℝ))
        ≤ ((ln2Lo : ℚ) : ℝ) * (1 + 11 / 10 ^ 16) := by
      have h := (Rat.cast_le (K := ℝ)).2 q2
      push_cast at h
      exact h
    have hlo' : ((rq : ℚ) : ℝ) * ((ln2Lo : ℚ) : ℝ) * (1 - ((lamRel : ℚ) : ℝ))
        ≤ ((lq : ℚ) : ℝ) := by exact_mod_cast hlo
    have hhi' : ((lq : ℚ) : ℝ)
        ≤ ((rq : ℚ) : ℝ) * ((ln2Hi : ℚ) : ℝ) * (1 + ((lamRel : ℚ) : ℝ)) := by
      exact_mod_cast hhi
    have hr' : (0 : ℝ) < ((rq : ℚ) : ℝ) := by exact_mod_cast hr
    generalize ((rq : ℚ) : ℝ) = r at *
    generalize ((lq : ℚ) : ℝ) = lf at *
    generalize ((ln2Lo : ℚ) : ℝ) = a at *
    generalize ((ln2Hi : ℚ) : ℝ) = b at *
    generalize ((lamRel : ℚ) : ℝ) = rel at *
    generalize Real.log 2 = L at *
    have e1 : (0 : ℝ) ≤ 1 - 11 / 10 ^ 16 := by norm_num
    have e2 : (0 : ℝ) ≤ 1 + 11 / 10 ^ 16 := by norm_num
    -- lower: r L (1-ρ) ≤ r b (1-ρ) ≤ r a (1-rel) ≤ lf
    have lower : r * (L * (1 - 11 / 10 ^ 16)) ≤ lf := by
      have s1 : L * (1 - 11 / 10 ^ 16) ≤ b * (1 - 11 / 10 ^ 16) :=
        mul_le_mul_of_nonneg_right hb e1
      have s2 : r * (L * (1 - 11 / 10 ^ 16)) ≤ r * (a * (1 - rel)) :=
        mul_le_mul_of_nonneg_left (s1.trans q1') hr'.le
      calc r * (L * (1 - 11 / 10 ^ 16)) ≤ r * (a * (1 - rel)) := s2
        _ = r * a * (1 - rel) := by ring
        _ ≤ lf := hlo'
    have upper : lf ≤ r * (L * (1 + 11 / 10 ^ 16)) := by
      have s1 : a * (1 + 11 / 10 ^ 16) ≤ L * (1 + 11 / 10 ^ 16) :=
        mul_le_mul_of_nonneg_right ha e2
      have s2 : r * (b * (1 + rel)) ≤ r * (L * (1 + 11 / 10 ^ 16)) :=
        mul_le_mul_of_nonneg_left (q2'.trans s1) hr'.le
      calc lf ≤ r * b * (1 + rel) := hhi'
        _ = r * (b * (1 + rel)) := by ring
        _ ≤ r * (L * (1 + 11 / 10 ^ 16)) := s2
    rw [abs_le]
    constructor <;> linarith

theorem lamHat_close (k : Fin N) : |lamHat k - lam k| ≤ (11 / 10 ^ 16 : ℝ) * lam k :=
  lamOk_close _ _ (rowLam k.val k.isLt)

/-- **the data error of the shipped double-precision dataset** contributes at most `5e-12` of
the initial atoms to any decay result: the closed form evaluated exactly on the stored doubles
(matrices `Ĉ`, `Ĉ⁻¹` and decay constants `λ̂`) differs from the exact solution of the decay
equations by at most `5e-12 · Σ N0` -/
theorem icrp107_data_contribution (t : ℝ) (ht : 0 ≤ t) (N0 : Fin N → ℝ) (hN0 : ∀ j, 0 ≤ N0 j)
    (i : Fin N) :
    |∑ j, (∑ k, toMatF N icrp107.cf i k * Real.exp (-(lamHat k * t)) * toMatF N icrp107.cif k j)
        * N0 j - RdVerif.C01.Nt N0 t i| ≤ 5 / 10 ^ 12 * ∑ j, N0 j := by
  have key := data_contribution_bound_sharp C Ci (toMatF N icrp107.cf) (toMatF N icrp107.cif)
    lam lamHat (11 / 10 ^ 16) ((aggErrBound : ℚ) : ℝ) ((aggCondBound : ℚ) : ℝ) (by norm_num)
    (by norm_num) lam_nonneg lamHat_close icrp107_B icrp107_K t ht N0 hN0 i
  have hNt : RdVerif.C01.Nt N0 t i
      = ∑ j, (∑ k, C i k * Real.exp (-(lam k * t)) * Ci k j) * N0 j := by
    rw [RdVerif.C01.C01_closed_form]
    simp only [Finset.mul_sum, Finset.sum_mul]
    rw [Finset.sum_comm]
    refine Finset.sum_congr rfl (fun j _ => Finset.sum_congr rfl (fun k _ => ?_))
    rw [neg_mul]; ring
  rw [hNt]
  refine key.trans (mul_le_mul_of_nonneg_right ?_ (Finset.sum_nonneg (fun j _ => hN0 j)))
  simp only [aggErrBound, aggCondBound]
  norm_num

end RdVerif.Icrp107
