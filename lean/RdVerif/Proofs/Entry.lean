/-
Proofs/Entry.lean — case analyses of the entry-point decision model.
-/
import RdVerif.Model.Entry
import RdVerif.Props.C10

set_option maxRecDepth 100000

namespace RdVerif

theorem checkValues_ok_iff (l : List AmountKind) : checkValues l = .ok () ↔ ∀ a ∈ l, a = .nonneg := by
  induction l with
  | nil => simp [checkValues]
  | cons a r ih =>
    cases a <;> simp [checkValues, checkValue, bind, Except.bind, ih]

theorem checkValues_err (l : List AmountKind) : checkValues l = .ok () ∨ checkValues l = .error .value := by
  induction l with
  | nil => left; rfl
  | cons a r ih =>
    cases a <;> simp [checkValues, checkValue, bind, Except.bind, ih]

theorem convertCheck_cases (u : UnitKind) (stable : List Ch → Bool) (ns : List (List Ch)) :
    convertCheck u stable ns = .ok () ∨ convertCheck u stable ns = .error .value := by
  cases u
  case activity =>
    simp only [convertCheck]
    split
    · exact .inr rfl
    · exact .inl rfl
  all_goals simp [convertCheck]

/-- outcome classes of `parseKeys` -/
theorem parseKeys_spec (names : List (List Ch)) (ks : List Key) (seen : List (List Ch)) :
    (∃ ns, parseKeys names ks seen = .ok ns ∧ (∀ n ∈ ns, n ∈ names ∧ n ∉ seen) ∧ ns.Nodup ∧
        ns.length = ks.length) ∨
    (∃ e, parseKeys names ks seen = .error e ∧ e.isValueError = true) ∨
    (parseKeys names ks seen = .error .type ∧ Key.other ∈ ks) := by
  induction ks generalizing seen with
  | nil => left; exact ⟨[], rfl, by simp, List.nodup_nil, rfl⟩
  | cons k r ih =>
    simp only [parseKeys, bind, Except.bind]
    rcases C10.parseNuclide_total k names with ⟨n, hn, hmem⟩ | ⟨e, he, hv⟩ | ⟨he, hk⟩
    · rw [hn]
      simp only [throw, throwThe, MonadExceptOf.throw]
      split
      · exact .inr (.inl ⟨_, rfl, rfl⟩)
      · rename_i hc
        have hc' : n ∉ seen := by simpa using hc
        rcases ih (n :: seen) with ⟨ns, h1, h2, h3, h4⟩ | ⟨e, h1, h2⟩ | ⟨h1, h2⟩
        · left
          rw [h1]
          refine ⟨n :: ns, rfl, ?_, ?_, by simp [h4]⟩
          · intro m hm
            simp only [List.mem_cons] at hm
            rcases hm with rfl | hm
            · exact ⟨hmem, hc'⟩
            · exact ⟨(h2 m hm).1, fun hs => (h2 m hm).2 (List.mem_cons_of_mem _ hs)⟩
          · exact List.nodup_cons.mpr ⟨fun hm => (h2 n hm).2 (by simp), h3⟩
        · rw [h1]; exact .inr (.inl ⟨e, rfl, h2⟩)
        · rw [h1]; exact .inr (.inr ⟨rfl, List.mem_cons_of_mem _ h2⟩)
    · rw [he]; exact .inr (.inl ⟨e, rfl, hv⟩)
    · rw [he]; exact .inr (.inr ⟨rfl, by rw [hk]; simp⟩)

theorem ctorCore_cases (names : List (List Ch)) (stable : List Ch → Bool)
    (entries : List (Key × AmountKind)) (unit : UnitKind) :
    (∃ ns, ctorCore names stable entries unit = .ok ns ∧
      (∀ a ∈ entries.map Prod.snd, a = AmountKind.nonneg) ∧ unit ≠ .unknown ∧
      (unit = .activity → ns.any stable = false) ∧ (∀ n ∈ ns, n ∈ names) ∧ ns.Nodup ∧
      ns.length = entries.length) ∨
    (∃ e, ctorCore names stable entries unit = .error e ∧ e.isValueError = true) ∨
    (ctorCore names stable entries unit = .error .type ∧ Key.other ∈ entries.map Prod.fst) := by
  unfold ctorCore
  simp only [bind, Except.bind, pure, Except.pure]
  rcases parseKeys_spec names (entries.map Prod.fst) [] with ⟨v, h1, h2, h3, h4⟩ | ⟨e, h1, hv⟩ | ⟨h1, hk⟩
  · rw [h1]; simp only
    rcases checkValues_err (entries.map Prod.snd) with hc | hc
    · rw [hc]; simp only
      rcases convertCheck_cases unit stable v with hu | hu
      · rw [hu]; simp only
        left
        refine ⟨v, rfl, (checkValues_ok_iff _).mp hc, ?_, ?_, fun n hn => (h2 n hn).1, h3, by simpa using h4⟩
        · intro hunk; rw [hunk] at hu; simp [convertCheck] at hu
        · intro hact; rw [hact] at hu
          simp only [convertCheck] at hu
          split at hu
          · simp at hu
          · rename_i hs; simpa using hs
      · rw [hu]; exact .inr (.inl ⟨_, rfl, rfl⟩)
    · rw [hc]; exact .inr (.inl ⟨_, rfl, rfl⟩)
  · rw [h1]; exact .inr (.inl ⟨e, rfl, hv⟩)
  · rw [h1]; exact .inr (.inr ⟨rfl, hk⟩)

theorem removeOne_cases (names contents : List (List Ch)) (k : Key) :
    (∃ c, removeOne names contents k = .ok c) ∨
    (∃ e, removeOne names contents k = .error e ∧ e.isValueError = true) ∨
    (removeOne names contents k = .error .type ∧ k = .other) := by
  unfold removeOne
  simp only [bind, Except.bind, pure, Except.pure, throw, throwThe, MonadExceptOf.throw]
  rcases C10.parseNuclide_total k names with ⟨n, hn, _⟩ | ⟨e, he, hv⟩ | ⟨he, hk⟩
  · rw [hn]; simp only
    split
    · exact .inr (.inl ⟨_, rfl, rfl⟩)
    · exact .inl ⟨_, rfl⟩
  · rw [he]; exact .inr (.inl ⟨e, rfl, hv⟩)
  · rw [he]; exact .inr (.inr ⟨rfl, hk⟩)

theorem mapM_parse_cases (names : List (List Ch)) (ks : List Key) :
    (∃ ns, ks.mapM (fun k => parseNuclide k names) = .ok ns) ∨
    (∃ e, ks.mapM (fun k => parseNuclide k names) = .error e ∧ e.isValueError = true) ∨
    (ks.mapM (fun k => parseNuclide k names) = .error .type ∧ Key.other ∈ ks) := by
  induction ks with
  | nil => left; exact ⟨[], rfl⟩
  | cons k r ih =>
    simp only [List.mapM_cons, bind, Except.bind, pure, Except.pure]
    rcases C10.parseNuclide_total k names with ⟨n, hn, _⟩ | ⟨e, he, hv⟩ | ⟨he, hk⟩
    · rw [hn]; simp only
      rcases ih with ⟨ns, h1⟩ | ⟨e, h1, h2⟩ | ⟨h1, h2⟩
      · rw [h1]; exact .inl ⟨_, rfl⟩
      · rw [h1]; exact .inr (.inl ⟨e, rfl, h2⟩)
      · rw [h1]; exact .inr (.inr ⟨rfl, List.mem_cons_of_mem _ h2⟩)
    · rw [he]; exact .inr (.inl ⟨e, rfl, hv⟩)
    · rw [he]; exact .inr (.inr ⟨rfl, by rw [hk]; simp⟩)

theorem foldlM_remove_cases (ns : List (List Ch)) (c : List (List Ch)) :
    (∃ c', ns.foldlM (fun c n => if !c.contains n then (throw .value : Py _) else pure (c.erase n)) c = .ok c') ∨
    ns.foldlM (fun c n => if !c.contains n then (throw .value : Py _) else pure (c.erase n)) c = .error .value := by
  induction ns generalizing c with
  | nil => left; exact ⟨c, rfl⟩
  | cons n r ih =>
    simp only [List.foldlM_cons, bind, Except.bind]
    split
    · rename_i e he
      split at he
      · simp only [throw, throwThe, MonadExceptOf.throw] at he
        cases he; exact .inr rfl
      · simp [pure, Except.pure] at he
    · rename_i v hv
      exact ih v

end RdVerif
