/-
Proofs/FpModel.lean — the one analytic fact of the standard floating-point model that every
rounding statement here rests on (Higham, Lemma 3.1): a product of m factors (1 + δ), |δ| ≤ u,
m·u < 1, is 1 + θ with |θ| ≤ m·u/(1 − m·u).  Free of any dataset import, so that properties which
do not depend on the shipped data (C05, C06) can use it.  (Same statements as in
`Proofs/Rounding.lean`, in namespace `RdVerif.Fp`.)
-/
import Mathlib.Algebra.BigOperators.Fin
import Mathlib.Algebra.Order.BigOperators.Ring.Finset
import Mathlib.Analysis.SpecialFunctions.Exp
import Mathlib.Tactic.Ring
import Mathlib.Tactic.Linarith
import Mathlib.Tactic.Positivity
import Mathlib.Tactic.FieldSimp

namespace RdVerif.Fp

/-- a product of `m` factors `(1 + δ)`, `|δ| ≤ u`, is within `(1 + u)^m − 1` of 1 -/
theorem prod_one_add_le_pow (m : ℕ) (u : ℝ) (hu : 0 ≤ u) (δ : Fin m → ℝ) (hδ : ∀ l, |δ l| ≤ u) :
    |∏ l, (1 + δ l) - 1| ≤ (1 + u) ^ m - 1 := by
  induction m with
  | zero => simp
  | succ m ih =>
    rw [Fin.prod_univ_succ, pow_succ]
    have hE := ih (fun l => δ l.succ) (fun l => hδ l.succ)
    set P := ∏ l : Fin m, (1 + δ l.succ) with hP
    have hE0 : 0 ≤ (1 + u) ^ m - 1 := (abs_nonneg _).trans hE
    have hsplit : (1 + δ 0) * P - 1 = δ 0 + (P - 1) + δ 0 * (P - 1) := by ring
    rw [hsplit]
    have h3 : |δ 0 * (P - 1)| ≤ u * ((1 + u) ^ m - 1) := by
      rw [abs_mul]
      exact mul_le_mul (hδ 0) hE (abs_nonneg _) hu
    refine (abs_add_le _ _).trans ?_
    have h12 := (abs_add_le (δ 0) (P - 1)).trans (add_le_add (hδ 0) hE)
    calc |δ 0 + (P - 1)| + |δ 0 * (P - 1)|
        ≤ (u + ((1 + u) ^ m - 1)) + u * ((1 + u) ^ m - 1) := add_le_add h12 h3
      _ = (1 + u) ^ m * (1 + u) - 1 := by ring

/-- `(1 + u)^m (1 − m u) ≤ 1` -/
theorem one_add_pow_mul_le (m : ℕ) (u : ℝ) (hu : 0 ≤ u) : (1 + u) ^ m * (1 - (m : ℝ) * u) ≤ 1 := by
  induction m with
  | zero => simp
  | succ m ih =>
    have hp : 0 ≤ (1 + u) ^ m := pow_nonneg (by linarith) m
    have hb : (1 + u) * (1 - ((m + 1 : ℕ) : ℝ) * u) ≤ 1 - (m : ℝ) * u := by
      push_cast
      have : 0 ≤ ((m : ℝ) + 1) * (u * u) :=
        mul_nonneg (by positivity) (mul_nonneg hu hu)
      nlinarith
    calc (1 + u) ^ (m + 1) * (1 - ((m + 1 : ℕ) : ℝ) * u)
        = (1 + u) ^ m * ((1 + u) * (1 - ((m + 1 : ℕ) : ℝ) * u)) := by rw [pow_succ]; ring
      _ ≤ (1 + u) ^ m * (1 - (m : ℝ) * u) := mul_le_mul_of_nonneg_left hb hp
      _ ≤ 1 := ih

theorem one_add_pow_sub_one_le (m : ℕ) (u : ℝ) (hu : 0 ≤ u) (hmu : (m : ℝ) * u < 1) :
    (1 + u) ^ m - 1 ≤ (m : ℝ) * u / (1 - (m : ℝ) * u) := by
  have hpos : 0 < 1 - (m : ℝ) * u := by linarith
  rw [le_div_iff₀ hpos]
  have := one_add_pow_mul_le m u hu
  linarith

/-- the standard model gives the per-term factor: a product of at most m factors (1+δ), |δ| ≤ u,
m·u < 1, is 1+θ with |θ| ≤ m·u/(1 − m·u) -/
theorem prod_one_add_le (m : ℕ) (u : ℝ) (hu : 0 ≤ u) (hmu : (m : ℝ) * u < 1) (δ : Fin m → ℝ)
    (hδ : ∀ l, |δ l| ≤ u) :
    |∏ l, (1 + δ l) - 1| ≤ (m : ℝ) * u / (1 - (m : ℝ) * u) :=
  (prod_one_add_le_pow m u hu δ hδ).trans (one_add_pow_sub_one_le m u hu hmu)

end RdVerif.Fp
