/-
Proofs/DatasetMeaning.lean — what the kernel-evaluated Boolean well-formedness checks of
`Model/Dataset.lean` mean as propositions about the dataset.
-/
import RdVerif.Proofs.Sparse
import RdVerif.Model.Dataset

open RdVerif

namespace RdVerif

/-! ### block structure, generic items -/

theorem checkBlockItems_go_spec {α} (f : Nat → α → Bool) (xs : List α) (i : Nat) (d : α)
    (h : checkBlockItems.go f i xs = true) : ∀ k < xs.length, f (i + k) (xs.getD k d) = true := by
  induction xs generalizing i with
  | nil => intro k hk; simp at hk
  | cons x xs ih =>
    simp only [checkBlockItems.go, Bool.and_eq_true] at h
    intro k hk
    cases k with
    | zero => simpa using h.1
    | succ k =>
      have := ih (i + 1) h.2 k (by simpa using hk)
      have e : i + (k + 1) = i + 1 + k := by omega
      rw [e]; simpa using this

/-- generic analogue of `rows_checked`: if the shape is regular and every block check passes,
the per-item check holds at every position below `n` -/
theorem items_checked {α} (f : Nat → α → Bool) (L : List (List α)) (n : Nat) (d : α)
    (hshape : blocksShapeOk L n = true) (h : ∀ b < L.length, checkBlockItems f L b = true) :
    ∀ i < n, f i (get2 L i d) = true := by
  intro i hi
  obtain ⟨hb, hk⟩ := blocksShapeOk_spec L n hshape i hi
  have := checkBlockItems_go_spec f _ _ d (h _ hb) _ hk
  rw [Nat.div_add_mod' i blockSize] at this
  exact this

/-! ### W4/W6/W7: links -/

theorem nonIncr_spec (l : List Rat) (h : bfsOk.nonIncr l = true) :
    l.Pairwise (fun a b => b ≤ a) := by
  sorry

theorem nodupNames_spec (l : List (List Nat)) (h : bfsOk.nodupNames l = true) : l.Nodup := by
  induction l with
  | nil => exact List.nodup_nil
  | cons a r ih =>
    simp only [bfsOk.nodupNames, Bool.and_eq_true, Bool.not_eq_true', List.contains_eq_mem,
      decide_eq_false_iff_not] at h
    exact List.nodup_cons.2 ⟨h.1, ih h.2⟩

theorem linksOk_meaning (ds : Dataset) (i : Nat) (ls : List Link) (h : linksOk ds i ls = true) :
    (∀ l ∈ ls, 0 < l.bf ∧ l.bf ≤ 1) ∧ (ls.map (·.bf)).sum ≤ 1 + 1/1000 ∧
    (ls.map (·.bf)).Pairwise (fun a b => b ≤ a) ∧ (ls.map (·.name)).Nodup ∧
    (∀ l ∈ ls, ∀ k, l.idx = some k → i < k ∧ k < ds.n ∧ get2 ds.names k [] = l.name) ∧
    (get2 ds.rate i 0 = 0 ↔ ls = []) := by
  sorry

/-! ### `parents` is the transpose of `links` -/

theorem parents_meaning (ds : Dataset) (k : Nat) (ps : List (Nat × Rat))
    (h : parentsBwdOk ds k ps = true) :
    ∀ p ∈ ps, ∃ l ∈ get2 ds.links p.1 [], l.idx = some k ∧ l.bf = p.2 := by
  sorry

theorem parents_complete (ds : Dataset) (j : Nat) (ls : List Link)
    (h : parentsFwdOk ds j ls = true) :
    ∀ l ∈ ls, ∀ k, l.idx = some k → (j, l.bf) ∈ get2 ds.parents k [] := by
  sorry

/-! ### W6 on the matrix side -/

theorem stableCols_meaning (rate : Rates) (i : Nat) (r : Row) (h : stableColsOk rate i r = true) :
    ∀ e ∈ r, e.col = i ∨ get2 rate e.col 0 ≠ 0 := by
  sorry

/-! ### W3 -/

theorem rateOk_meaning (yearDays : Rat) (hl : HL) (r : Rat) (h : rateOk yearDays hl r = true) :
    (hl.val = none → r = 0) ∧
    (∀ v, hl.val = some v → ∃ s, unitSeconds yearDays hl.unit = some s ∧ 0 < v ∧ r * (v * s) = 1) := by
  sorry

end RdVerif
