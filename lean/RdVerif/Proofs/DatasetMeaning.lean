/-
Proofs/DatasetMeaning.lean — what the kernel-evaluated Boolean well-formedness checks of
`Model/Dataset.lean` mean as propositions about the dataset.
-/
import RdVerif.Proofs.Sparse
import RdVerif.Model.Dataset

open RdVerif

namespace RdVerif

/-! ### block structure, generic items -/

theorem checkBlockItems_go_spec {α} (f : Nat → α → Bool) (xs : List α) (i : Nat) (d : α)
    (h : checkBlockItems.go f i xs = true) : ∀ k < xs.length, f (i + k) (xs.getD k d) = true := by
  induction xs generalizing i with
  | nil => intro k hk; simp at hk
  | cons x xs ih =>
    simp only [checkBlockItems.go, Bool.and_eq_true] at h
    intro k hk
    cases k with
    | zero => simpa using h.1
    | succ k =>
      have := ih (i + 1) h.2 k (by simpa using hk)
      have e : i + (k + 1) = i + 1 + k := by omega
      rw [e]; simpa using this

/-- generic analogue of `rows_checked`: if the shape is regular and every block check passes,
the per-item check holds at every position below `n` -/
theorem items_checked {α} (f : Nat → α → Bool) (L : List (List α)) (n : Nat) (d : α)
    (hshape : blocksShapeOk L n = true) (h : ∀ b < L.length, checkBlockItems f L b = true) :
    ∀ i < n, f i (get2 L i d) = true := by
  intro i hi
  obtain ⟨hb, hk⟩ := blocksShapeOk_spec L n hshape i hi
  have := checkBlockItems_go_spec f _ _ d (h _ hb) _ hk
  rw [Nat.div_add_mod' i blockSize] at this
  exact this

/-! ### W4/W6/W7: links -/

theorem nonIncr_cons (a : Rat) (l : List Rat) (h : bfsOk.nonIncr (a :: l) = true) :
    (∀ b ∈ l, b ≤ a) ∧ bfsOk.nonIncr l = true := by
  induction l generalizing a with
  | nil => exact ⟨by simp, rfl⟩
  | cons b r ih =>
    simp only [bfsOk.nonIncr, Bool.and_eq_true, decide_eq_true_eq] at h
    obtain ⟨hba, hr⟩ := h
    refine ⟨?_, hr⟩
    intro c hc
    rcases List.mem_cons.1 hc with rfl | hc
    · exact hba
    · exact le_trans ((ih b hr).1 c hc) hba

theorem nonIncr_spec (l : List Rat) (h : bfsOk.nonIncr l = true) :
    l.Pairwise (fun a b => b ≤ a) := by
  induction l with
  | nil => exact List.Pairwise.nil
  | cons a r ih =>
    obtain ⟨h1, h2⟩ := nonIncr_cons a r h
    exact List.pairwise_cons.2 ⟨h1, ih h2⟩

theorem nodupNames_spec (l : List (List Nat)) (h : bfsOk.nodupNames l = true) : l.Nodup := by
  induction l with
  | nil => exact List.nodup_nil
  | cons a r ih =>
    simp only [bfsOk.nodupNames, Bool.and_eq_true, Bool.not_eq_true', List.contains_eq_mem,
      decide_eq_false_iff_not] at h
    exact List.nodup_cons.2 ⟨h.1, ih h.2⟩

theorem linksOk_meaning (ds : Dataset) (i : Nat) (ls : List Link) (h : linksOk ds i ls = true) :
    (∀ l ∈ ls, 0 < l.bf ∧ l.bf ≤ 1) ∧ (ls.map (·.bf)).sum ≤ 1 + 1/1000 ∧
    (ls.map (·.bf)).Pairwise (fun a b => b ≤ a) ∧ (ls.map (·.name)).Nodup ∧
    (∀ l ∈ ls, ∀ k, l.idx = some k → i < k ∧ k < ds.n ∧ get2 ds.names k [] = l.name) ∧
    (get2 ds.rate i 0 = 0 ↔ ls = []) := by
  unfold linksOk bfsOk at h
  simp only [Bool.and_eq_true, List.all_eq_true, decide_eq_true_eq] at h
  obtain ⟨⟨⟨⟨⟨⟨hbf, hsum⟩, hni⟩, hnd⟩, hidx⟩, hst⟩, _⟩ := h
  refine ⟨hbf, hsum, nonIncr_spec _ hni, nodupNames_spec _ hnd, ?_, ?_⟩
  · intro l hl k hk
    have := (hidx l hl).1
    rw [hk] at this
    simpa [Bool.and_eq_true, decide_eq_true_eq, beq_iff_eq, and_assoc] using this
  · by_cases hr : get2 ds.rate i 0 = 0
    · simp only [hr, beq_self_eq_true, if_true, List.isEmpty_iff] at hst
      simp [hr, hst]
    · have hne : (get2 ds.rate i 0 == 0) = false := by simpa using hr
      simp only [hne, Bool.false_eq_true, if_false, Bool.not_eq_true', List.isEmpty_eq_false_iff] at hst
      simp [hr, hst]

/-! ### `parents` is the transpose of `links` -/

theorem parents_meaning (ds : Dataset) (k : Nat) (ps : List (Nat × Rat))
    (h : parentsBwdOk ds k ps = true) :
    ∀ p ∈ ps, ∃ l ∈ get2 ds.links p.1 [], l.idx = some k ∧ l.bf = p.2 := by
  unfold parentsBwdOk at h
  simp only [Bool.and_eq_true, List.all_eq_true, List.any_eq_true, beq_iff_eq] at h
  exact h.1

theorem parents_complete (ds : Dataset) (j : Nat) (ls : List Link)
    (h : parentsFwdOk ds j ls = true) :
    ∀ l ∈ ls, ∀ k, l.idx = some k → (j, l.bf) ∈ get2 ds.parents k [] := by
  unfold parentsFwdOk at h
  simp only [List.all_eq_true] at h
  intro l hl k hk
  have := h l hl
  rw [hk] at this
  simpa using this

/-! ### W6 on the matrix side -/

theorem stableCols_meaning (rate : Rates) (i : Nat) (r : Row) (h : stableColsOk rate i r = true) :
    ∀ e ∈ r, e.col = i ∨ get2 rate e.col 0 ≠ 0 := by
  unfold stableColsOk at h
  simpa only [List.all_eq_true, Bool.or_eq_true, beq_iff_eq, bne_iff_ne] using h

/-! ### W3 -/

theorem rateOk_meaning (yearDays : Rat) (hl : HL) (r : Rat) (h : rateOk yearDays hl r = true) :
    (hl.val = none → r = 0) ∧
    (∀ v, hl.val = some v → ∃ s, unitSeconds yearDays hl.unit = some s ∧ 0 < v ∧ r * (v * s) = 1) := by
  unfold rateOk at h
  split at h
  · rename_i hv
    refine ⟨fun _ => by simpa using h, ?_⟩
    intro v hv'; rw [hv] at hv'; cases hv'
  · rename_i v hv
    refine ⟨fun hn => (by rw [hv] at hn; cases hn), ?_⟩
    intro v' hv'
    rw [hv] at hv'; cases hv'
    split at h
    · cases h
    · rename_i s hs
      simp only [Bool.and_eq_true, decide_eq_true_eq, beq_iff_eq] at h
      exact ⟨s, hs, h.1, h.2⟩

end RdVerif
