/-
Proofs/Sparse.lean — soundness of the sparse row checks: what the kernel-evaluated Boolean
checks of `Model/Sparse.lean` mean for real matrices.
-/
import Mathlib.Data.Matrix.Mul
import Mathlib.Data.Real.Basic
import Mathlib.Algebra.BigOperators.Fin
import RdVerif.Model.Sparse

open RdVerif

namespace RdVerif

/-- the real matrix denoted by blocked sparse rows -/
noncomputable def toMat (n : ℕ) (M : Blocks) : Matrix (Fin n) (Fin n) ℝ :=
  fun i j => (((getRow M i.val).den j.val : ℚ) : ℝ)

/-- rates as a real vector -/
noncomputable def rateVec (n : ℕ) (rate : Rates) : Fin n → ℝ := fun i => ((get2 rate i.val 0 : ℚ) : ℝ)

/-- the rate matrix (in units of ln 2) assembled from rates and parent lists:
`R i j = −r_j [i = j] + Σ_{(p, b) ∈ parents i, p = j} b · r_j` -/
noncomputable def rMat (n : ℕ) (rate : Rates) (parents : Parents) : Matrix (Fin n) (Fin n) ℝ :=
  fun i j => (if i = j then -(rateVec n rate j) else 0) +
    (((get2 parents i.val []).filter (fun p => p.1 = j.val)).map
      (fun p => ((p.2 : ℚ) : ℝ) * rateVec n rate j)).sum

/-! ### accumulator lemmas -/

/-- total value stored under key `j` (all matches, not only the first) -/
def Acc.tot : Acc → Nat → Rat
  | [], _ => 0
  | (c, v) :: r, j => (if c = j then v else 0) + Acc.tot r j

theorem Acc.addAt_spec {a a' : Acc} {j : Nat} {x : Rat} (h : Acc.addAt a j x = some a') :
    a'.map Prod.fst = a.map Prod.fst ∧ (∀ k, a'.get k = a.get k + if j = k then x else 0) ∧
    (∀ k, a'.tot k = a.tot k + if j = k then x else 0) := by
  induction a generalizing a' with
  | nil => simp [Acc.addAt] at h
  | cons p r ih =>
    obtain ⟨c, v⟩ := p
    simp only [Acc.addAt] at h
    split at h
    · rename_i hc
      subst hc
      cases h
      refine ⟨rfl, ?_, ?_⟩
      · intro k; simp only [Acc.get]; split <;> simp
      · intro k; simp only [Acc.tot]; split <;> simp [add_right_comm]
    · rename_i hc
      cases hr : Acc.addAt r j x with
      | none => simp [hr] at h
      | some r' =>
        simp only [hr, Option.map_some, Option.some.injEq] at h
        subst h
        obtain ⟨h1, h2, h3⟩ := ih hr
        refine ⟨by simp [h1], ?_, ?_⟩
        · intro k; simp only [Acc.get]; split
          · rename_i hck; subst hck
            have : ¬ j = c := fun h => hc h.symm
            simp [this]
          · exact h2 k
        · intro k; simp only [Acc.tot, h3 k]; ring

theorem accumRow_spec (c : Rat) (r : Row) {acc : Option Acc} {a' : Acc}
    (h : accumRow c r acc = some a') :
    ∃ a, acc = some a ∧ a'.map Prod.fst = a.map Prod.fst ∧
      (∀ k, a'.get k = a.get k + c * r.den k) ∧ (∀ k, a'.tot k = a.tot k + c * r.den k) := by
  induction r generalizing acc with
  | nil =>
    simp only [accumRow] at h; subst h
    exact ⟨a', rfl, rfl, by simp [Row.den], by simp [Row.den]⟩
  | cons e r ih =>
    simp only [accumRow] at h
    obtain ⟨a1, h1, hk, hg, ht⟩ := ih h
    cases acc with
    | none => simp at h1
    | some a =>
      simp only [Option.bind_some] at h1
      obtain ⟨k1, g1, t1⟩ := Acc.addAt_spec h1
      refine ⟨a, rfl, by rw [hk, k1], ?_, ?_⟩
      · intro k; rw [hg, g1]; simp only [Row.den]; split <;> ring
      · intro k; rw [ht, t1]; simp only [Row.den]; split <;> ring

theorem parentsAcc_spec (C : Blocks) (rate : Rates) (ps : List (Nat × Rat)) {acc : Option Acc}
    {a' : Acc} (h : parentsAcc C rate ps acc = some a') :
    ∃ a, acc = some a ∧
      (∀ k, a'.tot k = a.tot k +
        (ps.map (fun p => p.2 * get2 rate p.1 0 * (getRow C p.1).den k)).sum) := by
  induction ps generalizing acc with
  | nil => simp only [parentsAcc] at h; subst h; exact ⟨a', rfl, by simp⟩
  | cons p ps ih =>
    obtain ⟨p, b⟩ := p
    simp only [parentsAcc] at h
    obtain ⟨a1, h1, ht⟩ := ih h
    obtain ⟨a, h0, _, _, t0⟩ := accumRow_spec _ _ h1
    refine ⟨a, h0, ?_⟩
    intro k; rw [ht, t0]; simp only [List.map_cons, List.sum_cons]; ring

theorem Acc.tot_of_all_zero (a : Acc) (h : ∀ p ∈ a, p.2 = 0) (k : Nat) : a.tot k = 0 := by
  induction a with
  | nil => simp [Acc.tot]
  | cons p r ih =>
    obtain ⟨c, v⟩ := p
    have hv : v = 0 := h (c, v) (by simp)
    simp only [Acc.tot, hv, ih (fun p hp => h p (by simp [hp]))]
    simp

/-! ### what the row checks say -/

theorem tot_map_scaled (c : Rat) (r : Row) (k : Nat) :
    Acc.tot (r.map (fun e => (e.col, c * e.val))) k = c * Row.den r k := by
  induction r with
  | nil => simp [Acc.tot, Row.den]
  | cons e r ih =>
    simp only [List.map_cons, Acc.tot, Row.den, ih]
    split <;> ring

theorem axpy_tot (c : Rat) (fuel : Nat) (r : Row) (acc : Acc)
    (hf : r.length + acc.length ≤ fuel) (k : Nat) :
    (axpy c fuel r acc).tot k = acc.tot k + c * Row.den r k := by
  induction fuel generalizing r acc with
  | zero =>
    have hr : r = [] := List.length_eq_zero_iff.1 (by omega)
    subst hr
    simp [axpy, Row.den]
  | succ f ih =>
    cases r with
    | nil => simp [axpy, Row.den]
    | cons e r =>
      cases acc with
      | nil =>
        simp only [axpy]
        rw [tot_map_scaled]; simp [Acc.tot]
      | cons p acc =>
        obtain ⟨k0, v⟩ := p
        simp only [List.length_cons] at hf
        simp only [axpy]
        split
        · simp only [Acc.tot, Row.den]
          rw [ih r ((k0, v) :: acc) (by simp only [List.length_cons]; omega)]
          simp only [Acc.tot]
          split <;> ring
        · split
          · simp only [Acc.tot, Row.den]
            rw [ih (e :: r) acc (by simp only [List.length_cons]; omega)]
            simp only [Row.den]
            ring
          · rename_i h1 h2
            have hk : e.col = k0 := by omega
            simp only [Acc.tot, Row.den]
            rw [ih r acc (by omega)]
            subst hk
            split <;> ring

theorem prodRow_tot (B : Blocks) (a : Row) (acc : Acc) (k : Nat) :
    (prodRow B a acc).tot k
      = acc.tot k + (a.map (fun e => e.val * (getRow B e.col).den k)).sum := by
  induction a generalizing acc with
  | nil => simp [prodRow]
  | cons e r ih =>
    simp only [prodRow]
    rw [ih, axpy_tot _ _ _ _ (by omega)]
    simp only [List.map_cons, List.sum_cons]
    ring

theorem unitRowOk_spec (i : Nat) (prev : Option Nat) (seen : Bool) (out : Acc)
    (h : unitRowOk i prev seen out = true) :
    (∀ p, prev = some p → ∀ k ∈ out.map Prod.fst, p < k) ∧
    (∀ k, out.tot k = if k ∈ out.map Prod.fst then (if k = i then 1 else 0) else 0) ∧
    (seen = true ∨ i ∈ out.map Prod.fst) := by
  induction out generalizing prev seen with
  | nil =>
    simp only [unitRowOk] at h
    exact ⟨by simp, by simp [Acc.tot], Or.inl h⟩
  | cons q r ih =>
    obtain ⟨k0, v⟩ := q
    simp only [unitRowOk, Bool.and_eq_true, beq_iff_eq] at h
    obtain ⟨⟨hprev, hv⟩, hrest⟩ := h
    obtain ⟨ha, hb, hc⟩ := ih _ _ hrest
    have hgt : ∀ k ∈ r.map Prod.fst, k0 < k := ha k0 rfl
    refine ⟨?_, ?_, ?_⟩
    · intro p hp k hk
      subst hp
      have hpk : p < k0 := by simpa using hprev
      rw [List.map_cons, List.mem_cons] at hk
      rcases hk with rfl | hk
      · exact hpk
      · exact lt_trans hpk (hgt k hk)
    · intro k
      simp only [Acc.tot, List.map_cons, List.mem_cons]
      by_cases hk : k0 = k
      · subst hk
        have hnot : k0 ∉ r.map Prod.fst := fun hm => lt_irrefl _ (hgt k0 hm)
        rw [hb k0, if_neg hnot]
        simp [hv]
      · have hk' : ¬ k = k0 := fun e => hk e.symm
        rw [hb k, if_neg hk, zero_add]
        by_cases hm : k ∈ List.map Prod.fst r
        · rw [if_pos hm, if_pos (Or.inr hm)]
        · rw [if_neg hm, if_neg (fun h => h.elim hk' hm)]
    · rcases hc with hc | hc
      · simp only [Bool.or_eq_true, beq_iff_eq] at hc
        rcases hc with hc | hc
        · exact Or.inl hc
        · right; simp [hc]
      · right; simp only [List.map_cons, List.mem_cons]; exact Or.inr hc

theorem checkRowInv_spec {B : Blocks} {i : Nat} {a : Row} (h : checkRowInv B i a = true) :
    (∀ e ∈ a, e.col ≤ i) ∧
    ∀ k, (a.map (fun e => e.val * (getRow B e.col).den k)).sum = if k = i then 1 else 0 := by
  unfold checkRowInv at h
  simp only [Bool.and_eq_true, List.all_eq_true, decide_eq_true_eq] at h
  obtain ⟨h1, h3⟩ := h
  refine ⟨h1, ?_⟩
  obtain ⟨_, hb, hc⟩ := unitRowOk_spec i none false _ h3
  have hi : i ∈ (prodRow B a []).map Prod.fst := by
    rcases hc with hc | hc
    · exact absurd hc (by decide)
    · exact hc
  intro k
  have ht := prodRow_tot B a [] k
  rw [hb k] at ht
  simp only [Acc.tot, zero_add] at ht
  rw [← ht]
  by_cases hki : k = i
  · subst hki; simp [hi]
  · simp [hki]

theorem tot_init (rate : Rates) (i c : Nat) (a : Row) :
    Acc.tot (a.map (fun e => (e.col, (get2 rate e.col 0 - get2 rate i 0) * e.val))) c
      = (get2 rate c 0 - get2 rate i 0) * a.den c := by
  induction a with
  | nil => simp [Acc.tot, Row.den]
  | cons e r ih =>
    simp only [List.map_cons, Acc.tot, Row.den]
    rw [ih]
    split
    · rename_i hc; subst hc; ring
    · ring

theorem checkRowDiag_spec {C : Blocks} {rate : Rates} {parents : Parents} {i : Nat} {a : Row}
    (h : checkRowDiag C rate parents i a = true) :
    (∀ p ∈ get2 parents i [], p.1 < i) ∧
    ∀ c, (get2 rate c 0 - get2 rate i 0) * a.den c +
      ((get2 parents i []).map (fun p => p.2 * get2 rate p.1 0 * (getRow C p.1).den c)).sum = 0 := by
  unfold checkRowDiag at h
  simp only [Bool.and_eq_true, List.all_eq_true, decide_eq_true_eq] at h
  obtain ⟨h1, h3⟩ := h
  refine ⟨h1, ?_⟩
  cases hp : parentsAcc C rate (get2 parents i [])
      (some (a.map (fun e => (e.col, (get2 rate e.col 0 - get2 rate i 0) * e.val)))) with
  | none => simp [hp] at h3
  | some acc =>
    rw [hp] at h3
    simp only [List.all_eq_true, beq_iff_eq] at h3
    obtain ⟨a0, ha0, ht⟩ := parentsAcc_spec C rate _ hp
    cases ha0
    intro c
    rw [← tot_init rate i c a, ← ht c]
    exact Acc.tot_of_all_zero acc h3 c

/-! ### block structure -/

theorem checkBlockRows_go_spec (f : Nat → Row → Bool) (rs : List Row) (i : Nat)
    (h : checkBlockRows.go f i rs = true) : ∀ k < rs.length, f (i + k) (rs.getD k []) = true := by
  induction rs generalizing i with
  | nil => intro k hk; simp at hk
  | cons r rs ih =>
    simp only [checkBlockRows.go, Bool.and_eq_true] at h
    intro k hk
    cases k with
    | zero => simpa using h.1
    | succ k =>
      have := ih (i + 1) h.2 k (by simpa using hk)
      have e : i + (k + 1) = i + 1 + k := by omega
      rw [e]; simpa using this

theorem blocksShapeOk_spec {α} (M : List (List α)) (n : Nat) (h : blocksShapeOk M n = true) :
    ∀ i < n, i / blockSize < M.length ∧ i % blockSize < (M.getD (i / blockSize) []).length := by
  intro i hi
  rcases List.eq_nil_or_concat M with rfl | ⟨init, l, rfl⟩
  · simp [blocksShapeOk] at h; omega
  · rw [List.concat_eq_append] at h ⊢
    simp only [blocksShapeOk, List.dropLast_concat, List.getLast?_concat, Bool.and_eq_true,
      List.all_eq_true, beq_iff_eq, decide_eq_true_eq, List.length_append, List.length_cons,
      List.length_nil, blockSize] at h ⊢
    obtain ⟨hinit, ⟨hl0, hl1⟩, hn⟩ := h
    have hl1 := of_decide_eq_true hl1
    by_cases hb : i / 40 < init.length
    · refine ⟨by omega, ?_⟩
      have : (init ++ [l]).getD (i / 40) [] = init[i / 40] := by
        simp [List.getD_eq_getElem?_getD, List.getElem?_append_left hb,
          List.getElem?_eq_getElem hb]
      rw [this, hinit _ (List.getElem_mem hb)]
      omega
    · have hb' : i / 40 = init.length := by omega
      refine ⟨by omega, ?_⟩
      have : (init ++ [l]).getD (i / 40) [] = l := by
        simp [List.getD_eq_getElem?_getD, hb']
      rw [this]
      omega

theorem rows_checked (f : Nat → Row → Bool) (M : Blocks) (n : Nat)
    (hshape : blocksShapeOk M n = true) (h : ∀ b < M.length, checkBlockRows f M b = true) :
    ∀ i < n, f i (getRow M i) = true := by
  intro i hi
  obtain ⟨hb, hk⟩ := blocksShapeOk_spec M n hshape i hi
  have := checkBlockRows_go_spec f _ _ (h _ hb) _ hk
  rw [Nat.div_add_mod' i blockSize] at this
  exact this

/-! ### bridge to real matrices -/

theorem sum_fin_ite (n m : ℕ) (hm : m < n) (F : ℕ → ℝ) :
    (∑ k : Fin n, if m = k.val then F k.val else 0) = F m := by
  rw [Fintype.sum_eq_single (⟨m, hm⟩ : Fin n)]
  · simp
  · intro k hk
    rw [if_neg]
    intro h
    exact hk (Fin.ext h.symm)

theorem cast_sum_map {α} (l : List α) (g : α → ℚ) :
    (((l.map g).sum : ℚ) : ℝ) = (l.map (fun x => ((g x : ℚ) : ℝ))).sum := by
  induction l with
  | nil => simp
  | cons x l ih => simp only [List.map_cons, List.sum_cons, Rat.cast_add, ih]

theorem den_sum (n : ℕ) (f : ℕ → ℝ) (r : Row) (hr : ∀ e ∈ r, e.col < n) :
    (∑ k : Fin n, ((r.den k.val : ℚ) : ℝ) * f k.val)
      = (r.map (fun e => ((e.val : ℚ) : ℝ) * f e.col)).sum := by
  induction r with
  | nil => simp [Row.den]
  | cons e r ih =>
    have h1 : ∀ k : Fin n, (((Row.den (e :: r) k.val : ℚ)) : ℝ) * f k.val
        = (if e.col = k.val then ((e.val : ℚ) : ℝ) * f k.val else 0)
          + ((Row.den r k.val : ℚ) : ℝ) * f k.val := by
      intro k
      simp only [Row.den]
      split <;> simp [add_mul]
    simp only [h1, Finset.sum_add_distrib, List.map_cons, List.sum_cons]
    rw [sum_fin_ite n e.col (hr e (by simp)) (fun k => ((e.val : ℚ) : ℝ) * f k),
      ih (fun e' he' => hr e' (by simp [he']))]

theorem parents_sum (n : ℕ) (g h : ℕ → ℝ) (ps : List (Nat × Rat)) (hps : ∀ p ∈ ps, p.1 < n) :
    (∑ k : Fin n, ((ps.filter (fun p => p.1 = k.val)).map
        (fun p => ((p.2 : ℚ) : ℝ) * g k.val)).sum * h k.val)
      = (ps.map (fun p => ((p.2 : ℚ) : ℝ) * g p.1 * h p.1)).sum := by
  induction ps with
  | nil => simp
  | cons p ps ih =>
    have h1 : ∀ k : Fin n, (((p :: ps).filter (fun p => p.1 = k.val)).map
          (fun p => ((p.2 : ℚ) : ℝ) * g k.val)).sum * h k.val
        = (if p.1 = k.val then ((p.2 : ℚ) : ℝ) * g k.val * h k.val else 0)
          + ((ps.filter (fun p => p.1 = k.val)).map
              (fun p => ((p.2 : ℚ) : ℝ) * g k.val)).sum * h k.val := by
      intro k
      by_cases hk : p.1 = k.val
      · simp [hk, add_mul]
      · simp [hk]
    simp only [h1, Finset.sum_add_distrib, List.map_cons, List.sum_cons]
    rw [sum_fin_ite n p.1 (hps p (by simp)) (fun k => ((p.2 : ℚ) : ℝ) * g k * h k),
      ih (fun p' hp' => hps p' (by simp [hp']))]

/-- **W1**: if every block check passes, the denoted matrices are inverse to each other. -/
theorem checkInv_sound (n : ℕ) (A B : Blocks) (hshape : blocksShapeOk A n = true)
    (h : ∀ b < A.length, checkInvBlock A B b = true) : toMat n A * toMat n B = 1 := by
  have hrows := rows_checked (checkRowInv B) A n hshape h
  ext i j
  obtain ⟨hle, hsum⟩ := checkRowInv_spec (hrows i.val i.isLt)
  rw [Matrix.mul_apply]
  simp only [toMat]
  rw [den_sum n (fun k => (((getRow B k).den j.val : ℚ) : ℝ)) (getRow A i.val)
    (fun e he => lt_of_le_of_lt (hle e he) i.isLt)]
  have hc := congrArg (fun q : ℚ => (q : ℝ)) (hsum j.val)
  simp only [cast_sum_map, Rat.cast_mul] at hc
  rw [hc, Matrix.one_apply]
  by_cases hij : i = j
  · subst hij; simp
  · have : ¬ j.val = i.val := fun h => hij (Fin.ext h.symm)
    simp [hij, this]

/-- **W2**: if every block check passes, `R·C = C·diag(−r)`. -/
theorem checkDiag_sound (n : ℕ) (C : Blocks) (rate : Rates) (parents : Parents)
    (hshape : blocksShapeOk C n = true)
    (h : ∀ b < C.length, checkDiagBlock C rate parents b = true) :
    rMat n rate parents * toMat n C = toMat n C * Matrix.diagonal (fun j => -(rateVec n rate j)) := by
  have hrows := rows_checked (checkRowDiag C rate parents) C n hshape h
  ext i j
  obtain ⟨hlt, hsum⟩ := checkRowDiag_spec (hrows i.val i.isLt)
  rw [Matrix.mul_diagonal, Matrix.mul_apply]
  simp only [rMat, toMat, rateVec, add_mul, Finset.sum_add_distrib, ite_mul, zero_mul,
    Finset.sum_ite_eq, Finset.mem_univ, if_true]
  rw [parents_sum n (fun k => ((get2 rate k 0 : ℚ) : ℝ))
    (fun k => (((getRow C k).den j.val : ℚ) : ℝ)) (get2 parents i.val [])
    (fun p hp => lt_trans (hlt p hp) i.isLt)]
  have hc := congrArg (fun q : ℚ => (q : ℝ)) (hsum j.val)
  simp only [cast_sum_map, Rat.cast_mul, Rat.cast_add, Rat.cast_sub, Rat.cast_zero] at hc
  rw [← sub_eq_zero, ← hc]
  ring

end RdVerif
