/-
Proofs/NuclideId.lean — shape of accepted parses, canonical ids (core Lean only).
-/
import RdVerif.Proofs.NuclideForms

set_option maxRecDepth 100000
set_option linter.unusedSimpArgs false

namespace RdVerif

theorem stateCanon_of_checks (m : List Ch) (hl : ¬ m.length > 1)
    (hc : ¬ (!((m.map toLo).isEmpty || (m.map toLo).all states.contains)) = true) :
    StateCanon (m.map toLo) := by
  match m, hl with
  | [], _ => exact .inl rfl
  | [c], _ =>
    right
    refine ⟨toLo c, ?_, rfl⟩
    simpa using hc
  | _ :: _ :: _, hl => simp at hl

theorem massDigits_of_checks (s2 : List Ch)
    (h : ¬ ((s2.filter isDig).isEmpty || decide (digitsVal (s2.filter isDig) > Gen.massCutoff)) = true) :
    MassDigits (s2.filter isDig) := by
  simp only [Bool.or_eq_true, decide_eq_true_eq, not_or, Nat.not_lt] at h
  refine ⟨?_, ?_, h.2⟩
  · intro e; rw [e] at h; simp at h
  · intro d hd; exact (List.mem_filter.mp hd).2

theorem parseCore_ok_shape (s r : List Ch) (h : parseNuclideStr s = .ok r) :
    ∃ el ds st, el ∈ elems ∧ MassDigits ds ∧ StateCanon st ∧ r = canonical el ds st := by
  unfold parseNuclideStr parseCore at h
  generalize normalise s = s2 at h
  simp only [bind, Except.bind, pure, Except.pure, throw, throwThe, MonadExceptOf.throw] at h
  split at h
  · simp at h
  split at h
  · simp at h
  rename_i hA
  have hmd := massDigits_of_checks s2 hA
  split at h
  · simp at h
  split at h
  · -- mass first
    split at h
    · simp at h
    rename_i v hv
    split at h
    · simp at h
    rename_i hel
    split at h
    · simp at h
    rename_i hl
    split at h
    · simp at h
    rename_i hc
    refine ⟨capitalize v.snd, _, _, by simpa using hel, hmd, stateCanon_of_checks _ hl hc, ?_⟩
    simp only [Except.ok.injEq] at h
    rw [← h]; rfl
  · split at h
    · simp at h
    rename_i hel
    split at h
    · simp at h
    rename_i hl
    split at h
    · simp at h
    rename_i hc
    refine ⟨_, _, _, by simpa using hel, hmd, stateCanon_of_checks _ hl hc, ?_⟩
    simp only [Except.ok.injEq] at h
    rw [← h]; rfl

theorem massDigits_table : ∀ A ∈ List.range (Gen.massCutoff + 1),
    (natDigits A ≠ [] ∧ (natDigits A).all isDig = true ∧ digitsVal (natDigits A) = A) := by
  decide +kernel

theorem massDigits_of_le (A : Nat) (hA : A ≤ Gen.massCutoff) : MassDigits (natDigits A) := by
  obtain ⟨h1, h2, h3⟩ := massDigits_table A (List.mem_range.mpr (Nat.lt_succ_of_le hA))
  exact ⟨h1, by simpa [List.all_eq_true] using h2, by rw [h3]; exact hA⟩

theorem zDict_lookup : ∀ p ∈ Gen.zDict, zToElem (p.1 : Int) = some p.2 ∧ elemToZ p.2 = .ok p.1 := by
  decide +kernel

theorem mem_elems_of_mem_zDict {Z : Nat} {el : List Ch} (h : (Z, el) ∈ Gen.zDict) : el ∈ elems :=
  List.mem_map.mpr ⟨(Z, el), h, rfl⟩

def stateCodeOk (c : Ch) : Bool :=
  match states.idxOf? c with
  | some k => decide (k + 1 < 10000) && decide (decodeState ((k : Int) + 1) = .ok [c])
  | none => false

theorem states_code_tbl : ∀ c ∈ states, stateCodeOk c = true := by decide +kernel

theorem states_code (c : Ch) (hc : c ∈ states) : ∃ k, states.idxOf? c = some k ∧ k + 1 < 10000 ∧
    decodeState ((k : Int) + 1) = .ok [c] := by
  have := states_code_tbl c hc
  unfold stateCodeOk at this
  split at this
  · rename_i k hk
    simp only [Bool.and_eq_true, decide_eq_true_eq] at this
    exact ⟨k, hk, this.1, this.2⟩
  · simp at this

theorem consts_ok : Gen.idMulZ = 10000000 ∧ Gen.idMulA = 10000 ∧ Gen.parseIdDivState = 10000 ∧
    Gen.parseIdDivZ = 1000 ∧ Gen.massCutoff < 1000 := by decide


theorem parseId_eq (x : Int) : parseId x =
    (decodeState (x - x.tdiv Gen.parseIdDivState * Gen.parseIdDivState) >>= fun st =>
      buildNuclideString ((x.tdiv Gen.parseIdDivState).tdiv Gen.parseIdDivZ)
        (x.tdiv Gen.parseIdDivState - (x.tdiv Gen.parseIdDivState).tdiv Gen.parseIdDivZ * Gen.parseIdDivZ) st) := rfl

theorem parseId_buildId (Z : Nat) (el : List Ch) (hZ : (Z, el) ∈ Gen.zDict) (A : Nat)
    (hA : A ≤ Gen.massCutoff) (st : List Ch) (hst : StateCanon st) :
    ∃ n, buildId Z A st = .ok n ∧ parseId (n : Int) = .ok (canonical el (natDigits A) st) := by
  obtain ⟨c1, c2, c3, c4, c5⟩ := consts_ok
  have hA' : A < 1000 := Nat.lt_of_le_of_lt hA c5
  have hz := (zDict_lookup (Z, el) hZ).1
  -- the state code
  obtain ⟨k, hb, hk, hd⟩ : ∃ k : Nat, buildId Z A st = .ok (Z * 10000000 + A * 10000 + k) ∧ k < 10000 ∧
      decodeState (k : Int) = .ok st := by
    rcases hst with rfl | ⟨c, hc, rfl⟩
    · exact ⟨0, by simp [buildId, c1, c2], by omega, by simp [decodeState, pure, Except.pure]⟩
    · obtain ⟨k, hk1, hk2, hk3⟩ := states_code c hc
      refine ⟨k + 1, ?_, hk2, by simpa using hk3⟩
      simp [buildId, hk1, c1, c2]
  refine ⟨_, hb, ?_⟩
  have e1 : Int.tdiv ((Z * 10000000 + A * 10000 + k : Nat) : Int) 10000 = (Z * 1000 + A : Nat) := by
    rw [Int.tdiv_eq_ediv_of_nonneg (by omega)]; omega
  have e2 : Int.tdiv ((Z * 1000 + A : Nat) : Int) 1000 = (Z : Int) := by
    rw [Int.tdiv_eq_ediv_of_nonneg (by omega)]; omega
  have e3 : ((Z * 10000000 + A * 10000 + k : Nat) : Int) - ((Z * 1000 + A : Nat) : Int) * 10000 = (k : Int) := by
    omega
  have e4 : ((Z * 1000 + A : Nat) : Int) - (Z : Int) * 1000 = (A : Int) := by omega
  have hlt : ¬ ((A : Int) < 0) := by omega
  rw [parseId_eq, c3, c4, e1, e3, e2, e4, hd]
  show buildNuclideString (Z : Int) (A : Int) st = _
  unfold buildNuclideString
  rw [hz]
  simp only [hlt, if_false, Int.toNat_natCast, canonical]

theorem splitOn_noHy (a : List Ch) (h : ∀ x ∈ a, x ≠ hy) : splitOn hy a = [a] := by
  induction a with
  | nil => rfl
  | cons x a ih =>
    have hx : x ≠ hy := h x (by simp)
    simp [splitOn, ih (fun y hy' => h y (by simp [hy'])), hx]

theorem splitOn_ne_nil (c : Ch) (l : List Ch) : splitOn c l ≠ [] := by
  cases l with
  | nil => simp [splitOn]
  | cons d r =>
    simp only [splitOn]
    split
    · simp
    · split <;> simp

theorem splitOn_app (a b : List Ch) (h : ∀ x ∈ a, x ≠ hy) :
    splitOn hy (a ++ hy :: b) = a :: splitOn hy b := by
  induction a with
  | nil =>
    simp only [List.nil_append, splitOn]
    cases hb : splitOn hy b with
    | nil => exact absurd hb (splitOn_ne_nil hy b)
    | cons h t => simp
  | cons x a ih =>
    have hx : x ≠ hy := h x (by simp)
    simp [splitOn, ih (fun y hy' => h y (by simp [hy'])), hx]

/-- facts about the generated strip sets: digits are never stripped by `A`, every state letter
is; `state` strips exactly the ASCII digits -/
theorem strip_sets_ok :
    (∀ c ∈ Gen.attrAStrip, isDig c = false) ∧ (∀ c ∈ states, Gen.attrAStrip.contains c = true) ∧
    (∀ c ∈ Gen.attrStateStrip, isDig c = true) ∧
    (∀ c ∈ [48,49,50,51,52,53,54,55,56,57], Gen.attrStateStrip.contains c = true) := by decide +kernel

private theorem isDig_mem_aux : ∀ c : Fin 58, 48 ≤ c.val → c.val ∈ [48,49,50,51,52,53,54,55,56,57] := by
  decide

theorem isDig_mem (c : Nat) (h : isDig c = true) : c ∈ [48,49,50,51,52,53,54,55,56,57] := by
  simp [isDig] at h
  exact isDig_mem_aux ⟨c, by omega⟩ h.1

theorem stripChars_suffix (p : Ch → Bool) (a b : List Ch) (ha0 : a ≠ [])
    (ha : ∀ x ∈ a, p x = false) (hb : ∀ x ∈ b, p x = true) : stripChars p (a ++ b) = a := by
  unfold stripChars
  obtain ⟨a0, a', rfl⟩ : ∃ a0 a', a = a0 :: a' := by
    cases a with
    | nil => exact absurd rfl ha0
    | cons x y => exact ⟨x, y, rfl⟩
  have h1 : (a0 :: a' ++ b).dropWhile p = a0 :: a' ++ b := by
    simp [List.dropWhile, ha a0 (by simp)]
  rw [h1, List.reverse_append]
  have h2 := takeWhile_app p b.reverse (a0 :: a').reverse (by
    intro x hx; exact hb x (List.mem_reverse.mp hx)) (by
    intro y hy'
    have : y ∈ (a0 :: a').reverse := by
      cases h : (a0 :: a').reverse with
      | nil => simp at h
      | cons z zs => rw [h] at hy'; simp at hy'; subst hy'; simp
    exact ha y (List.mem_reverse.mp this))
  rw [h2.2, List.reverse_reverse]

theorem stripChars_prefix (p : Ch → Bool) (a b : List Ch)
    (ha : ∀ x ∈ a, p x = true) (hb : ∀ x ∈ b, p x = false) : stripChars p (a ++ b) = b := by
  unfold stripChars
  have h1 := takeWhile_app p a b ha (by
    intro y hy'
    have : y ∈ b := by
      cases h : b with
      | nil => rw [h] at hy'; simp at hy'
      | cons z zs => rw [h] at hy'; simp at hy'; subst hy'; simp
    exact hb y this)
  rw [h1.2]
  have h2 : b.reverse.dropWhile p = b.reverse := by
    cases h : b.reverse with
    | nil => rfl
    | cons z zs =>
      have : z ∈ b := List.mem_reverse.mp (by rw [h]; simp)
      simp [List.dropWhile, hb z this]
  rw [h2, List.reverse_reverse]

theorem attrs_of_canonical (Z : Nat) (el : List Ch) (hZ : (Z, el) ∈ Gen.zDict) (ds st : List Ch)
    (hds : MassDigits ds) (hst : StateCanon st) :
    attrZ (canonical el ds st) = .ok Z ∧ attrA (canonical el ds st) = .ok (digitsVal ds) ∧
    attrState (canonical el ds st) = .ok st ∧
    attrId (canonical el ds st) = buildId Z (digitsVal ds) st := by
  have hel := mem_elems_of_mem_zDict hZ
  obtain ⟨_, _, helal, _, _⟩ := elems_ok _ hel
  have helal' : ∀ x ∈ el, isAl x = true := by simpa [List.all_eq_true] using helal
  have hstal := stateAnyCase_al hst.anyCase
  obtain ⟨s1, s2, s3, s4⟩ := strip_sets_ok
  have hsplit : splitOn hy (canonical el ds st) = [el, ds ++ st] := by
    have := splitOn_app el (ds ++ st) (fun x hx => (al_props x (helal' x hx)).2.2.2)
    rw [splitOn_noHy (ds ++ st) (by
      intro x hx; simp only [List.mem_append] at hx
      rcases hx with hx | hx
      · exact (dig_props x (hds.dig x hx)).2.2.2
      · exact (al_props x (hstal x hx)).2.2.2)] at this
    simpa [canonical, List.append_assoc] using this
  have f0 : nameField (canonical el ds st) 0 = .ok el := by
    simp [nameField, hsplit, pyIndex]
  have f1 : nameField (canonical el ds st) 1 = .ok (ds ++ st) := by
    simp [nameField, hsplit, pyIndex]
  have hz : attrZ (canonical el ds st) = .ok Z := by
    simp only [attrZ, f0, bind, Except.bind]
    exact (zDict_lookup (Z, el) hZ).2
  have hstIn : ∀ x ∈ st, x ∈ states := by
    rcases hst with rfl | ⟨c, hc, rfl⟩
    · simp
    · intro x hx; simp at hx; subst hx; exact hc
  have hA : attrA (canonical el ds st) = .ok (digitsVal ds) := by
    simp only [attrA, f1, bind, Except.bind]
    rw [stripChars_suffix _ ds st hds.ne (by
      intro x hx
      cases h : Gen.attrAStrip.contains x with
      | false => rfl
      | true =>
        have : x ∈ Gen.attrAStrip := by simpa using h
        have := s1 x this
        rw [hds.dig x hx] at this; exact absurd this (by simp)) (fun x hx => s2 x (hstIn x hx))]
    have : ds.all isDig = true := by simpa [List.all_eq_true] using hds.dig
    have hne : ds.isEmpty = false := by cases ds with
      | nil => exact absurd rfl hds.ne
      | cons _ _ => rfl
    simp [pyIntOfDigits, this, hne]
  have hS : attrState (canonical el ds st) = .ok st := by
    simp only [attrState, f1, bind, Except.bind, pure, Except.pure]
    rw [stripChars_prefix _ ds st (fun x hx => s4 x (isDig_mem x (hds.dig x hx))) (by
      intro x hx
      cases h : Gen.attrStateStrip.contains x with
      | false => rfl
      | true =>
        have : x ∈ Gen.attrStateStrip := by simpa using h
        have := s3 x this
        rw [(al_props x (hstal x hx)).2.1] at this; exact absurd this (by simp))]
  refine ⟨hz, hA, hS, ?_⟩
  simp only [attrId, hz, hA, hS, bind, Except.bind]
end RdVerif
