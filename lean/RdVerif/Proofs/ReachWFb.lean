/-
Proofs/ReachWFb.lean — the executable checker `reachWFb` (`Model/ReachWF.lean`) implies the
hypotheses `ReachWF` of the diagram theorems of `Proofs/DiagramReach.lean`.

`ReachWF`/`DiagramWF` quantify over all indices, `reachWFb` inspects the indices `< ds.n` only; the
three `blocksShapeOk` conjuncts close the gap (`get2_default_of_ge`: nothing is stored at
positions `≥ n`).
-/
import RdVerif.Model.ReachWF
import RdVerif.Proofs.DiagramReach

namespace RdVerif

/-- a blocked list of shape `n` stores nothing at positions `≥ n` -/
theorem get2_default_of_ge {α} (L : List (List α)) (n : Nat) (d : α) (h : blocksShapeOk L n = true)
    (i : Nat) (hi : n ≤ i) : get2 L i d = d := by
  rcases List.eq_nil_or_concat L with rfl | ⟨init, l, rfl⟩
  · simp [get2]
  · rw [List.concat_eq_append] at h ⊢
    simp only [blocksShapeOk, List.dropLast_concat, List.getLast?_concat, Bool.and_eq_true,
      List.all_eq_true, beq_iff_eq, decide_eq_true_eq, List.length_append, List.length_cons,
      List.length_nil, blockSize] at h
    obtain ⟨_, ⟨_, hl1⟩, hn⟩ := h
    have hl1 := of_decide_eq_true hl1
    unfold get2
    simp only [blockSize]
    rcases Nat.lt_trichotomy (i / 40) init.length with hb | hb | hb
    · omega
    · have : (init ++ [l]).getD (i / 40) [] = l := by
        simp [List.getD_eq_getElem?_getD, hb]
      rw [this, List.getD_eq_getElem?_getD, List.getElem?_eq_none (by omega)]
      rfl
    · have : (init ++ [l]).getD (i / 40) [] = [] := by
        rw [List.getD_eq_getElem?_getD, List.getElem?_eq_none (by simp; omega)]
        rfl
      rw [this]
      rfl

theorem endsWithSF_sfName (q : List Nat) : endsWithSF (sfName q) = true := by
  unfold endsWithSF sfName
  rw [List.isSuffixOf_iff_suffix]
  exact List.suffix_append q (S "_SF")

theorem ne_sfName_of_not_endsWithSF {nm : List Nat} (h : endsWithSF nm = false) (q : List Nat) :
    nm ≠ sfName q := by
  intro e
  rw [e, endsWithSF_sfName] at h
  cases h

theorem endsWithSF_nil : endsWithSF [] = false := by decide

theorem nodup_of_nodupB {α} [BEq α] [LawfulBEq α] : ∀ (l : List α), nodupB l = true → l.Nodup
  | [], _ => List.nodup_nil
  | a :: r, h => by
    simp only [nodupB, Bool.and_eq_true, Bool.not_eq_true', List.contains_eq_mem,
      decide_eq_false_iff_not] at h
    exact List.nodup_cons.2 ⟨h.1, nodup_of_nodupB r h.2⟩

/-- what `linkWFb` says -/
theorem linkWFb_spec (ds : Dataset) (l : Link) (h : linkWFb ds l = true) :
    endsWithSF l.name = false ∧
    (∀ k, l.idx = some k → k < ds.n ∧ get2 ds.names k [] = l.name ∧ l.name ≠ S "SF") ∧
    (l.idx = none → l.name = S "SF") := by
  unfold linkWFb at h
  rw [Bool.and_eq_true] at h
  obtain ⟨h1, h2⟩ := h
  refine ⟨by simpa using h1, ?_, ?_⟩
  · intro k hk
    rw [hk] at h2
    simp only [Bool.and_eq_true, decide_eq_true_eq, beq_iff_eq, Bool.not_eq_true',
      beq_eq_false_iff_ne, ne_eq] at h2
    exact ⟨h2.1.1, h2.1.2, h2.2⟩
  · intro hk
    rw [hk] at h2
    simpa using h2

/-- the executable checker implies the hypotheses of the diagram theorems -/
theorem reachWF_of_reachWFb (ds : Dataset) (h : reachWFb ds = true) : ReachWF ds := by
  unfold reachWFb at h
  simp only [Bool.and_eq_true] at h
  obtain ⟨⟨⟨⟨⟨hsN, hsL⟩, hsR⟩, hnoSF⟩, hnodup⟩, hper⟩ := h
  -- nothing beyond `ds.n`
  have hN : ∀ i, ds.n ≤ i → get2 ds.names i [] = [] :=
    fun i hi => get2_default_of_ge _ _ _ hsN i hi
  have hL : ∀ i, ds.n ≤ i → get2 ds.links i [] = [] :=
    fun i hi => get2_default_of_ge _ _ _ hsL i hi
  -- names
  have hnames : ∀ i, endsWithSF (get2 ds.names i []) = false := by
    intro i
    by_cases hi : i < ds.n
    · rw [List.all_eq_true] at hnoSF
      have := hnoSF (get2 ds.names i []) (List.mem_map.2 ⟨i, List.mem_range.2 hi, rfl⟩)
      simpa using this
    · rw [hN i (by omega)]; exact endsWithSF_nil
  -- per-parent facts
  have hper' : ∀ p, p < ds.n →
      (∀ l ∈ get2 ds.links p [], linkWFb ds l = true) ∧
      ((get2 ds.links p []).filter (fun l => l.name == S "SF")).length ≤ 1 ∧
      (get2 ds.rate p 0 = 0 → get2 ds.links p [] = []) := by
    intro p hp
    rw [List.all_eq_true] at hper
    have := hper p (List.mem_range.2 hp)
    simp only [Bool.and_eq_true, List.all_eq_true, decide_eq_true_eq] at this
    obtain ⟨⟨h1, h2⟩, h3⟩ := this
    refine ⟨h1, h2, ?_⟩
    intro hr
    rw [hr] at h3
    simpa using h3
  have hlink : ∀ p, ∀ l ∈ get2 ds.links p [], linkWFb ds l = true := by
    intro p l hl
    by_cases hp : p < ds.n
    · exact (hper' p hp).1 l hl
    · rw [hL p (by omega)] at hl; cases hl
  refine ⟨⟨?_, ?_, ?_, ?_, ?_⟩, ?_, ?_, ?_, ?_⟩
  · -- names_noSF
    intro i q
    exact ne_sfName_of_not_endsWithSF (hnames i) q
  · -- link_noSF
    intro p l hl q
    exact ne_sfName_of_not_endsWithSF (linkWFb_spec ds l (hlink p l hl)).1 q
  · -- link_name
    intro p l hl k hk
    exact ((linkWFb_spec ds l (hlink p l hl)).2.1 k hk).2.1
  · -- sf_nonmember
    intro p l hl hname
    cases hidx : l.idx with
    | none => rfl
    | some k => exact absurd hname ((linkWFb_spec ds l (hlink p l hl)).2.1 k hidx).2.2
  · -- sf_once
    intro p
    by_cases hp : p < ds.n
    · exact (hper' p hp).2.1
    · rw [hL p (by omega)]; simp
  · -- names_inj
    intro i j hi hj e
    exact eq_of_nodup_map (fun i => get2 ds.names i []) (List.range ds.n)
      (nodup_of_nodupB _ hnodup) i (List.mem_range.2 hi) j (List.mem_range.2 hj) e
  · -- link_member
    intro p l hl k hk
    exact ((linkWFb_spec ds l (hlink p l hl)).2.1 k hk).1
  · -- stable_nolinks
    intro i hr
    by_cases hi : i < ds.n
    · exact (hper' i hi).2.2 hr
    · exact hL i (by omega)
  · -- nonmember_sf
    intro p l hl hidx
    exact (linkWFb_spec ds l (hlink p l hl)).2.2 hidx


end RdVerif
