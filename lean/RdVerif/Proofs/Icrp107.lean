/-
Proofs/Icrp107.lean — the generic theorems instantiated with the shipped dataset: the kernel-
checked facts W1/W2 about the generated data (`Gen/Icrp107/Obl`) give the matrix identities
the Bateman theorems need.
-/
import RdVerif.Proofs.Sparse
import RdVerif.Proofs.Bateman
import RdVerif.Gen.Icrp107.Obl

open Matrix

set_option maxRecDepth 20000

namespace RdVerif.Icrp107
open RdVerif RdVerif.Gen RdVerif.Gen.Icrp107.Obl

/-- number of nuclides -/
abbrev N : ℕ := icrp107.n

/-- the exact eigenvector matrix, its inverse and the rate matrix of the shipped dataset over ℝ -/
noncomputable def C : Matrix (Fin N) (Fin N) ℝ := toMat N icrp107.cx
noncomputable def Ci : Matrix (Fin N) (Fin N) ℝ := toMat N icrp107.cix
noncomputable def R : Matrix (Fin N) (Fin N) ℝ := rMat N icrp107.rate icrp107.parents
/-- decay constants λ_i = r_i · ln 2 -/
noncomputable def lam : Fin N → ℝ := fun i => Real.log 2 * rateVec N icrp107.rate i
/-- the matrix of the decay ODE system dN/dt = L N -/
noncomputable def L : Matrix (Fin N) (Fin N) ℝ := Real.log 2 • R

/-- **W1 over ℝ**: the shipped exact matrices are mutual inverses -/
theorem C_mul_Ci : C * Ci = 1 :=
  checkInv_sound N icrp107.cx icrp107.cix shape_cx
    (fun b hb => w1_all b (Nat.lt_of_lt_of_eq hb nblocks))

theorem Ci_mul_C : Ci * C = 1 := mul_eq_one_comm.mp C_mul_Ci

/-- **W2 over ℝ**: `C` diagonalises the rate matrix assembled from half-lives, branching
fractions and parent lists -/
theorem R_diag : R * C = C * Matrix.diagonal (fun j => -(rateVec N icrp107.rate j)) :=
  checkDiag_sound N icrp107.cx icrp107.rate icrp107.parents shape_cx
    (fun b hb => w2_all b (Nat.lt_of_lt_of_eq hb nblocks))

theorem L_diag : L * C = C * Matrix.diagonal (fun i => -lam i) := by
  have h := R_diag
  unfold L lam
  rw [Matrix.smul_mul, h]
  ext i j
  simp only [Matrix.smul_apply, Matrix.mul_apply, Matrix.diagonal_apply, smul_eq_mul]
  rw [Finset.mul_sum]
  refine Finset.sum_congr rfl fun k _ => ?_
  split_ifs <;> ring

/-- the matrix of branching fractions: `B i j` = listed fraction of decays of `j` producing `i` -/
noncomputable def Bm : Matrix (Fin N) (Fin N) ℝ := fun i j =>
  (((get2 icrp107.parents i.val []).filter (fun p => p.1 = j.val)).map (fun p => ((p.2 : ℚ) : ℝ))).sum

/-- the ODE matrix is `(B − I)·diag(λ)`: loss at rate λ_j, gain `B i j · λ_j` for each listed link -/
theorem L_apply (i j : Fin N) : L i j = (Bm i j - if i = j then 1 else 0) * lam j := by
  show Real.log 2 * rMat N icrp107.rate icrp107.parents i j = _
  unfold rMat Bm lam
  have hs : (List.map (fun p : ℕ × ℚ => ((p.2 : ℚ) : ℝ) * rateVec N icrp107.rate j)
        (List.filter (fun p => decide (p.1 = j.val)) (get2 icrp107.parents i.val []))).sum =
      (List.map (fun p : ℕ × ℚ => ((p.2 : ℚ) : ℝ))
        (List.filter (fun p => decide (p.1 = j.val)) (get2 icrp107.parents i.val []))).sum *
        rateVec N icrp107.rate j := by
    rw [← List.sum_map_mul_right]
  rw [hs]
  split_ifs <;> ring

end RdVerif.Icrp107

namespace RdVerif.Icrp107
open RdVerif RdVerif.Gen RdVerif.Gen.Icrp107.Obl

theorem den_eq_zero_of_not_mem (r : Row) (k : ℕ) (h : ∀ e ∈ r, e.col ≠ k) : r.den k = 0 := by
  induction r with
  | nil => rfl
  | cons e r ih =>
    have he : e.col ≠ k := h e (by simp)
    simp [Row.den, he, ih (fun f hf => h f (by simp [hf]))]

theorem log_two_ne_zero : Real.log 2 ≠ 0 := by
  have := Real.log_pos (by norm_num : (1 : ℝ) < 2)
  exact ne_of_gt this

theorem lam_eq_zero_iff (k : Fin N) : lam k = 0 ↔ get2 icrp107.rate k.val 0 = 0 := by
  unfold lam rateVec
  constructor
  · intro h
    rcases mul_eq_zero.mp h with h | h
    · exact absurd h log_two_ne_zero
    · exact_mod_cast h
  · intro h
    rw [h]; simp

/-- **W6 over ℝ**: a stable nuclide feeds nothing — column `k` of `C` is zero off the diagonal
when λ_k = 0 -/
theorem stable_feeds_nothing (i k : Fin N) (hk : lam k = 0) (hne : k ≠ i) : C i k = 0 := by
  have hrow := rows_checked (stableColsOk icrp107.rate) icrp107.cx N shape_cx
    (fun b hb => w6_all b (Nat.lt_of_lt_of_eq hb nblocks)) i.val i.isLt
  have hr : get2 icrp107.rate k.val 0 = 0 := (lam_eq_zero_iff k).mp hk
  unfold C toMat
  have : (getRow icrp107.cx i.val).den k.val = 0 := by
    apply den_eq_zero_of_not_mem
    intro e he hcol
    have h1 := (List.all_eq_true.mp hrow) e he
    simp only [Bool.or_eq_true, beq_iff_eq, bne_iff_ne, ne_eq] at h1
    rcases h1 with h1 | h1
    · exact hne (Fin.ext (by rw [← hcol, h1]))
    · rw [hcol] at h1; exact h1 hr
  rw [this]; simp

end RdVerif.Icrp107
