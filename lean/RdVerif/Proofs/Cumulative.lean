/-
Proofs/Cumulative.lean — cumulative decays: the expression the code evaluates,
λ_i · (C · diag((1 − e^{−λ_k t})/λ_k) · C⁻¹ · N(0))_i, is the time integral of the activity, and
together with the decayed amounts it closes the atom balance.  Over abstract real matrices.
-/
import RdVerif.Proofs.Bateman
import Mathlib.MeasureTheory.Integral.IntervalIntegral.FundThmCalculus
import Mathlib.Analysis.SpecialFunctions.Integrals.Basic

open Real Matrix

namespace RdVerif.Bateman

variable {n : ℕ}

/-- the integrated exponential as the code builds it: `(1 − e^{−λ_k t})/λ_k` on the diagonal for
radioactive `k`; the entry of a stable `k` (λ_k = 0) is left at 0 -/
noncomputable def Eint (lam : Fin n → ℝ) (t : ℝ) : Matrix (Fin n) (Fin n) ℝ :=
  Matrix.diagonal (fun k => if lam k = 0 then 0 else (1 - exp (-lam k * t)) / lam k)

/-- cumulative number of decays as the code evaluates it -/
noncomputable def cum (C Ci : Matrix (Fin n) (Fin n) ℝ) (lam : Fin n → ℝ) (N0 : Fin n → ℝ) (t : ℝ) :
    Fin n → ℝ := fun i => lam i * ((C * Eint lam t * Ci).mulVec N0) i

/-- componentwise form of `cum` -/
theorem cum_apply (C Ci : Matrix (Fin n) (Fin n) ℝ) (lam : Fin n → ℝ) (N0 : Fin n → ℝ) (t : ℝ)
    (i : Fin n) :
    cum C Ci lam N0 t i = lam i * ∑ k, C i k *
      (if lam k = 0 then 0 else (1 - exp (-lam k * t)) / lam k) * (∑ j, Ci k j * N0 j) := by
  simp only [cum, Eint, sol_apply]

/-- componentwise form of `sol` -/
theorem sol_apply' (C Ci : Matrix (Fin n) (Fin n) ℝ) (lam : Fin n → ℝ) (N0 : Fin n → ℝ) (t : ℝ)
    (i : Fin n) :
    sol C Ci lam N0 t i = ∑ k, C i k * exp (-lam k * t) * (∑ j, Ci k j * N0 j) := by
  simp only [sol, E, sol_apply]

theorem sol_continuous (C Ci : Matrix (Fin n) (Fin n) ℝ) (lam : Fin n → ℝ) (N0 : Fin n → ℝ)
    (i : Fin n) : Continuous (fun s => sol C Ci lam N0 s i) := by
  simp_rw [sol_apply']
  fun_prop

theorem cum_zero (C Ci : Matrix (Fin n) (Fin n) ℝ) (lam : Fin n → ℝ) (N0 : Fin n → ℝ) :
    cum C Ci lam N0 0 = 0 := by
  funext i
  rw [cum_apply]
  simp

/-- a stable nuclide reports no decays -/
theorem cum_stable (C Ci : Matrix (Fin n) (Fin n) ℝ) (lam : Fin n → ℝ) (N0 : Fin n → ℝ) (t : ℝ)
    (i : Fin n) (hi : lam i = 0) : cum C Ci lam N0 t i = 0 := by
  rw [cum_apply, hi, zero_mul]

/-- the rate of accumulation is the activity.  `hstable`: a stable nuclide feeds nothing
(column `k` of `C` is the unit vector when λ_k = 0), which is what makes the code's shortcut of
leaving stable entries of the integrated exponential at 0 harmless for radioactive `i`. -/
theorem cum_hasDeriv (C Ci : Matrix (Fin n) (Fin n) ℝ) (lam : Fin n → ℝ) (N0 : Fin n → ℝ)
    (hstable : ∀ i k, lam k = 0 → k ≠ i → C i k = 0) (i : Fin n) (hi : lam i ≠ 0) (t : ℝ) :
    HasDerivAt (fun s => cum C Ci lam N0 s i) (lam i * sol C Ci lam N0 t i) t := by
  have hfun : (fun s => cum C Ci lam N0 s i) = fun s => lam i * ∑ k, C i k *
      (if lam k = 0 then 0 else (1 - exp (-lam k * s)) / lam k) * (∑ j, Ci k j * N0 j) :=
    funext fun s => cum_apply C Ci lam N0 s i
  rw [hfun, sol_apply']
  apply HasDerivAt.const_mul
  apply HasDerivAt.fun_sum
  intro k _
  apply HasDerivAt.mul_const
  by_cases hk : lam k = 0
  · have hC : C i k = 0 := hstable i k hk (by rintro rfl; exact hi hk)
    simp only [hC, zero_mul]
    exact hasDerivAt_const t 0
  · simp only [hk, if_false]
    have h1 : HasDerivAt (fun t => exp (-lam k * t)) (exp (-lam k * t) * (-lam k)) t := by
      have := (hasDerivAt_id t).const_mul (-lam k)
      simpa using this.exp
    have := ((h1.const_sub 1).div_const (lam k)).const_mul (C i k)
    convert this using 1
    field_simp

/-- **cumulative decays = ∫₀ᵗ activity** (for every nuclide, stable ones trivially) -/
theorem cum_eq_integral (C Ci : Matrix (Fin n) (Fin n) ℝ) (lam : Fin n → ℝ) (N0 : Fin n → ℝ)
    (hstable : ∀ i k, lam k = 0 → k ≠ i → C i k = 0) (i : Fin n) (t : ℝ) :
    cum C Ci lam N0 t i = ∫ s in (0 : ℝ)..t, lam i * sol C Ci lam N0 s i := by
  by_cases hi : lam i = 0
  · rw [cum_stable C Ci lam N0 t i hi]
    simp [hi]
  · have hcont : Continuous (fun s => lam i * sol C Ci lam N0 s i) :=
      (sol_continuous C Ci lam N0 i).const_mul _
    rw [intervalIntegral.integral_eq_sub_of_hasDerivAt
      (fun s _ => cum_hasDeriv C Ci lam N0 hstable i hi s) (hcont.intervalIntegrable _ _)]
    rw [cum_zero]
    simp

/-- **atom balance**: with `L = (B − I)·diag(λ)` (B the matrix of branching fractions,
`B i j` = fraction of decays of `j` that produce `i`),
`N_i(t) − N_i(0) = −cum_i(t) + Σ_j B_ij · cum_j(t)`. -/
theorem atom_balance (C Ci L Bm : Matrix (Fin n) (Fin n) ℝ) (lam : Fin n → ℝ) (N0 : Fin n → ℝ)
    (hinv : C * Ci = 1) (hdiag : L * C = C * Matrix.diagonal (fun i => -lam i))
    (hL : ∀ i j, L i j = (Bm i j - if i = j then 1 else 0) * lam j)
    (hstable : ∀ i k, lam k = 0 → k ≠ i → C i k = 0) (t : ℝ) (i : Fin n) :
    sol C Ci lam N0 t i - N0 i = - cum C Ci lam N0 t i + ∑ j, Bm i j * cum C Ci lam N0 t j := by
  have hder : ∀ s, HasDerivAt (fun s => sol C Ci lam N0 s i)
      (∑ j, L i j * sol C Ci lam N0 s j) s := by
    intro s
    have := (hasDerivAt_pi.mp (sol_deriv C Ci L lam N0 hdiag s)) i
    simpa [Matrix.mulVec, dotProduct] using this
  have hcont : Continuous (fun s => ∑ j, L i j * sol C Ci lam N0 s j) :=
    continuous_finsetSum _ fun j _ => (sol_continuous C Ci lam N0 j).const_mul _
  have hftc := intervalIntegral.integral_eq_sub_of_hasDerivAt (a := 0) (b := t)
    (fun s _ => hder s) (hcont.intervalIntegrable _ _)
  rw [sol_zero C Ci lam N0 hinv] at hftc
  rw [← hftc, intervalIntegral.integral_finsetSum
    (fun j _ => ((sol_continuous C Ci lam N0 j).const_mul _).intervalIntegrable _ _)]
  have hterm : ∀ j, (∫ s in (0 : ℝ)..t, L i j * sol C Ci lam N0 s j)
      = (Bm i j - if i = j then 1 else 0) * cum C Ci lam N0 t j := by
    intro j
    rw [cum_eq_integral C Ci lam N0 hstable j t, intervalIntegral.integral_const_mul,
      intervalIntegral.integral_const_mul, hL i j, mul_assoc]
  simp_rw [hterm, sub_mul, Finset.sum_sub_distrib]
  simp only [ite_mul, one_mul, zero_mul, Finset.sum_ite_eq, Finset.mem_univ, ↓reduceIte]
  ring

end RdVerif.Bateman
