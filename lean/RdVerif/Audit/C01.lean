import RdVerif.Props.C01
import RdVerif.Props.C04
open RdVerif.C01
#print axioms C01_exact
#print axioms C01_closed_form
#print axioms C01_stable
#print axioms C01_oracle_factor
#print axioms RdVerif.C04.exact_inverses
#print axioms RdVerif.C04.exact_diagonalises
#print axioms RdVerif.C04.pattern_is_ancestors
#print axioms RdVerif.C04.float_aggregate_bound
