import RdVerif.Props.C01
open RdVerif.C01
#print axioms C01_exact
#print axioms C01_closed_form
#print axioms C01_stable
#print axioms C01_oracle_factor
