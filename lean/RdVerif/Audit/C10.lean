import RdVerif.Props.C10
import RdVerif.Props.C10Entry
open RdVerif RdVerif.C10
#print axioms parse_total
#print axioms RdVerif.C10.parseId_total
#print axioms accept_sound
#print axioms parseNuclide_total
#print axioms ctor_errors_documented
#print axioms ctor_accept_sound
#print axioms remove_errors_documented
