import RdVerif.Props.C04
open RdVerif.C04
#print axioms exact_inverses
#print axioms exact_diagonalises
#print axioms rates_from_half_lives
#print axioms graph_and_listed_data_ok
#print axioms parents_is_transpose
#print axioms pattern_is_ancestors
#print axioms float_entries_close
#print axioms float_aggregate_bound
#print axioms float_decay_consts_close
#print axioms float_masses_close
#print axioms pickles_identical
#print axioms RdVerif.C04.year_close
