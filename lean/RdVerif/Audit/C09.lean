import RdVerif.Props.C09
open RdVerif RdVerif.C09
#print axioms all_forms_elemFirst
#print axioms all_forms_massFirst
#print axioms canonical_fixed_point
#print axioms parse_idempotent
#print axioms id_roundtrip
#print axioms attrs_agree
