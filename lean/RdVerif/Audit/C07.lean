import RdVerif.Props.C07
open RdVerif.C07
#print axioms RdVerif.C07.flow_add
#print axioms flow_zero
#print axioms RdVerif.C07.flow_linear
#print axioms flow_split
#print axioms companions
