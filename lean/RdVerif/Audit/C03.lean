import RdVerif.Props.C03
open RdVerif.C03
#print axioms C03_integral
#print axioms C03_stable
#print axioms C03_atom_balance
