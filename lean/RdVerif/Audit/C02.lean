import RdVerif.Props.C02
open RdVerif.C02
#print axioms C02_symbolic
#print axioms C02_single_parent
#print axioms C02_sig_fig_ge
