/-
Model/Py.lean — the fragment of Python semantics the models need (core Lean only).

Python exceptions are values: every partial operation the modelled code performs (`s[0]`,
`lst[i]`, `dict[k]`, `int(s)`) has a counterpart here that fails with the same exception
*class*, so that "never escapes as IndexError" is a statement about the model.
-/
namespace RdVerif

/-- Exception classes that the modelled code can raise.  `nuclideStr` is
`utils.NuclideStrError`, a subclass of `ValueError`. -/
inductive PyErr
  | value | nuclideStr | type | notImplemented | index | key | zeroDiv | other
  deriving DecidableEq, Repr, Inhabited

abbrev Py := Except PyErr

deriving instance DecidableEq for Except

/-- `isinstance(e, ValueError)` for the modelled classes. -/
def PyErr.isValueError : PyErr → Bool
  | .value | .nuclideStr => true
  | _ => false

def PyErr.name : PyErr → String
  | .value => "ValueError"
  | .nuclideStr => "NuclideStrError"
  | .type => "TypeError"
  | .notImplemented => "NotImplementedError"
  | .index => "IndexError"
  | .key => "KeyError"
  | .zeroDiv => "ZeroDivisionError"
  | .other => "Other"

/-- A character is its code point.  The models are exact for ASCII (code < 128); the
correspondence harness only sends ASCII strings to the model. -/
notation "Ch" => Nat

def isDig (c : Ch) : Bool := 48 ≤ c && c ≤ 57
def isUp (c : Ch) : Bool := 65 ≤ c && c ≤ 90
def isLo (c : Ch) : Bool := 97 ≤ c && c ≤ 122
def isAl (c : Ch) : Bool := isUp c || isLo c
def isAlnum (c : Ch) : Bool := isAl c || isDig c
/-- `str.isspace` on ASCII: space, \t \n \v \f \r, and the separators FS GS RS US. -/
def isWs (c : Ch) : Bool := c == 32 || (9 ≤ c && c ≤ 13) || (28 ≤ c && c ≤ 31)
def toUp (c : Ch) : Ch := if isLo c then c - 32 else c
def toLo (c : Ch) : Ch := if isUp c then c + 32 else c
def hy : Ch := 45

/-- string literal → code points -/
def S (s : String) : List Ch := s.toList.map Char.toNat
def unS (l : List Ch) : String := String.ofList (l.map Char.ofNat)

/-- `s.replace(c, "", 1)` for a one-character `c`. -/
def eraseFirst (c : Ch) : List Ch → List Ch
  | [] => []
  | d :: r => if d = c then r else d :: eraseFirst c r

/-- `str.capitalize()` on ASCII. -/
def capitalize : List Ch → List Ch
  | [] => []
  | c :: r => toUp c :: r.map toLo

/-- `int(ds)` for a string of ASCII digits (leading zeros allowed, as in Python). -/
def digitsVal (ds : List Ch) : Nat := ds.foldl (fun a c => 10 * a + (c - 48)) 0

/-- decimal digits of a natural number (`str(n)`), most significant first -/
def natDigits (n : Nat) : List Ch := (Nat.toDigits 10 n).map Char.toNat

/-- `xs[i]` with Python's negative-index convention and `IndexError`. -/
def pyIndex {α} (xs : List α) (i : Int) : Py α :=
  let j : Int := if i < 0 then i + xs.length else i
  if j < 0 then .error .index
  else match xs[j.toNat]? with
    | some x => .ok x
    | none => .error .index

/-- `s.strip(chars)` -/
def stripChars (p : Ch → Bool) (s : List Ch) : List Ch :=
  ((s.dropWhile p).reverse.dropWhile p).reverse

/-- `s.split("-")` -/
def splitOn (c : Ch) : List Ch → List (List Ch)
  | [] => [[]]
  | d :: r =>
    match splitOn c r with
    | [] => [[]]          -- unreachable
    | h :: t => if d = c then [] :: h :: t else (d :: h) :: t

end RdVerif
