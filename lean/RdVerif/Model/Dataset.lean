/-
Model/Dataset.lean — a decay dataset as the library ships and loads it, with every number as an
exact rational: decimal readings of the listed half-lives and branching fractions, the exact
SymPy matrices, and the double-precision side (each double as the exact dyadic rational it is).
The decidable well-formedness checks W3–W9 live here; W1/W2 (matrix identities) are in
`Model/Sparse.lean`.  Core Lean only.
-/
import RdVerif.Model.Sparse
import RdVerif.Model.Nuclide

namespace RdVerif

/-- half-life record of `hldata`: `(value, unit, readable)`; `val` is the decimal reading of the
stored double (`none` for `inf`), `bits` the double itself -/
structure HL where
  val : Option Rat
  bits : UInt64
  unit : String
  readable : String
  deriving Repr

/-- one progeny link of a nuclide -/
structure Link where
  idx : Option Nat      -- position in the dataset; `none` when the progeny is not a dataset member ('SF')
  name : List Nat
  bf : Rat              -- decimal reading of the listed branching fraction
  bfBits : UInt64
  mode : String
  deriving Repr

/-- a double as mantissa·2^exp (exact) -/
structure FE where
  col : Nat
  m : Int
  e : Int
  deriving Repr, DecidableEq

def pow2 (e : Int) : Rat := if e ≥ 0 then ((2 ^ e.toNat : Nat) : Rat) else 1 / ((2 ^ (-e).toNat : Nat) : Rat)
def FE.val (x : FE) : Rat := x.m * pow2 x.e

abbrev FRow := List FE

structure Dataset where
  n : Nat
  names : List (List (List Nat))          -- blocked
  hl : List (List HL)                     -- blocked
  links : List (List (List Link))         -- blocked
  parents : Parents                       -- transpose of `links` (checked by `parentsOk`)
  yearX : Rat                             -- days per year, exact (SymPy) side
  yearF : Rat                             -- days per year, float side (exact value of the double)
  rate : Rates                            -- r_i : decay constant = r_i · ln 2 (exact side; 0 = stable)
  massX : List (List (Rat × Rat))         -- exact atomic mass as an enclosure [lo, hi] (lo = hi when rational)
  cx : Blocks
  cix : Blocks
  lamF : List (List Rat)                  -- float decay constants as loaded (exact value of each double)
  massF : List (List Rat)
  cf : List (List FRow)
  cif : List (List FRow)

/-! ### unit table for half-lives (W3): seconds per unit on the exact side -/

/-- seconds per time unit as the *specification* has it (year-based units take `yearDays`) -/
def unitSeconds (yearDays : Rat) : String → Option Rat
  | "ps" => some (1 / 1000000000000) | "ns" => some (1 / 1000000000)
  | "μs" => some (1 / 1000000) | "us" => some (1 / 1000000) | "ms" => some (1 / 1000)
  | "s" => some 1 | "m" => some 60 | "h" => some 3600 | "d" => some 86400
  | "y" => some (86400 * yearDays) | "ky" => some (86400 * yearDays * 1000)
  | "My" => some (86400 * yearDays * 1000000) | "By" => some (86400 * yearDays * 1000000000)
  | "Gy" => some (86400 * yearDays * 1000000000) | "Ty" => some (86400 * yearDays * 1000000000000)
  | "Py" => some (86400 * yearDays * 1000000000000000)
  | _ => none

/-- W3 for one nuclide: `r = 1 / (half-life in seconds)`; stable ⇔ `r = 0` -/
def rateOk (yearDays : Rat) (h : HL) (r : Rat) : Bool :=
  match h.val with
  | none => r == 0
  | some v =>
    match unitSeconds yearDays h.unit with
    | none => false
    | some s => decide (0 < v) && (r * (v * s) == 1)

/-- all positions `i` of a blocked list within block `b`, with a per-item check -/
def checkBlockItems {α} (f : Nat → α → Bool) (L : List (List α)) (b : Nat) : Bool :=
  go (b * blockSize) (L.getD b [])
where
  go (i : Nat) : List α → Bool
    | [] => true
    | x :: xs => f i x && go (i + 1) xs

def checkRatesBlock (ds : Dataset) (b : Nat) : Bool :=
  checkBlockItems (fun i h => rateOk ds.yearX h (get2 ds.rate i 0)) ds.hl b

/-! ### W4/W6/W7/W8: structure of the decay graph and the listed data -/

def bfsOk (ls : List Link) : Bool :=
  ls.all (fun l => decide (0 < l.bf) && decide (l.bf ≤ 1)) &&
  decide ((ls.map (·.bf)).sum ≤ 1 + 1 / 1000) && nonIncr (ls.map (·.bf)) &&
  nodupNames (ls.map (·.name))
where
  nonIncr : List Rat → Bool
    | [] => true
    | [_] => true
    | a :: b :: r => decide (b ≤ a) && nonIncr (b :: r)
  nodupNames : List (List Nat) → Bool
    | [] => true
    | a :: r => !r.contains a && nodupNames r

/-- element/mass/state of a canonical name, via the verified parser-side functions -/
def nameZAS (name : List Nat) : Option (Nat × Nat × List Nat) :=
  match attrZ name, attrA name, attrState name with
  | .ok z, .ok a, .ok s => some (z, a, s)
  | _, _, _ => none

def stateRank (s : List Nat) : Nat :=
  match s with
  | [] => 0
  | [c] => match states.idxOf? c with | some k => k + 1 | none => 99
  | _ => 99

/-- W8: decay mode ↔ change in proton number, mass number, state -/
def modeOk (parent : List Nat) (l : Link) : Bool :=
  if l.mode == "SF" then l.idx.isNone && l.name == S "SF"
  else
    match nameZAS parent, nameZAS l.name with
    | some (z, a, s), some (z', a', s') =>
      if l.mode == "α" then z' + 2 == z && a' + 4 == a
      else if l.mode == "β-" then z' == z + 1 && a' == a
      else if l.mode == "β+ & EC" || l.mode == "EC" || l.mode == "β+" then z' + 1 == z && a' == a
      else if l.mode == "IT" then z' == z && a' == a && decide (stateRank s' < stateRank s)
      else false
    | _, _ => false

/-- W4 (parents first), W6 (stable ⇒ no progeny), W7, W8 for nuclide `i` -/
def linksOk (ds : Dataset) (i : Nat) (ls : List Link) : Bool :=
  let name := get2 ds.names i []
  bfsOk ls &&
  ls.all (fun l =>
    (match l.idx with
      | some k => decide (i < k) && decide (k < ds.n) && (get2 ds.names k [] == l.name)
      | none => true) && modeOk name l) &&
  (if get2 ds.rate i 0 == 0 then ls.isEmpty else !ls.isEmpty) &&
  -- the name is canonical (a fixed point of the parser)
  (match parseNuclideStr name with | .ok r => r == name | .error _ => false)

def checkLinksBlock (ds : Dataset) (b : Nat) : Bool :=
  checkBlockItems (linksOk ds) ds.links b

/-- `parents` is the transpose of `links`: every link `j → k` with branching fraction `b` appears
as `(j, b)` in `parents[k]`, and `parents[k]` holds nothing else (sizes agree) -/
def parentsFwdOk (ds : Dataset) (j : Nat) (ls : List Link) : Bool :=
  ls.all (fun l => match l.idx with
    | some k => (get2 ds.parents k []).contains (j, l.bf)
    | none => true)

def parentsBwdOk (ds : Dataset) (k : Nat) (ps : List (Nat × Rat)) : Bool :=
  ps.all (fun p => (get2 ds.links p.1 []).any (fun l => l.idx == some k && l.bf == p.2)) &&
  psNodup ps
where
  psNodup : List (Nat × Rat) → Bool
    | [] => true
    | a :: r => !(r.any (fun q => q.1 == a.1)) && psNodup r

def checkParentsBlock (ds : Dataset) (b : Nat) : Bool :=
  checkBlockItems (parentsFwdOk ds) ds.links b && checkBlockItems (parentsBwdOk ds) ds.parents b

def linkCount (L : List (List (List Link))) : Nat :=
  (L.map (fun blk => (blk.map (fun ls => (ls.filter (fun l => l.idx.isSome)).length)).sum)).sum

def parentCount (P : Parents) : Nat := (P.map (fun blk => (blk.map List.length).sum)).sum

/-! ### W5: non-zero pattern = ancestors, identical on the float side -/

def colsOf (r : Row) : List Nat := r.map (·.col)
def fcolsOf (r : FRow) : List Nat := r.map (·.col)

/-- sorted union of sorted duplicate-free lists (fuel = total length) -/
def mergeCols : Nat → List Nat → List Nat → List Nat
  | 0, a, b => a ++ b
  | _, [], b => b
  | _, a, [] => a
  | f + 1, x :: a, y :: b =>
    if x < y then x :: mergeCols f a (y :: b)
    else if y < x then y :: mergeCols f (x :: a) b
    else x :: mergeCols f a b

/-- the pattern of row `i` of `C` is `{i} ∪ ⋃_{p parent of i} pattern(row p)` — the ancestor
set, given that parents come first; the same pattern is stored for `C⁻¹` and for both float
matrices, and no stored exact entry is zero -/
def patternOk (ds : Dataset) (i : Nat) (r : Row) : Bool :=
  let want := (get2 ds.parents i []).foldl
    (fun acc p => mergeCols (acc.length + (getRow ds.cx p.1).length) acc (colsOf (getRow ds.cx p.1))) []
  (colsOf r == want ++ [i]) && (colsOf (getRow ds.cix i) == colsOf r) &&
  (fcolsOf (get2 ds.cf i []) == colsOf r) && (fcolsOf (get2 ds.cif i []) == colsOf r) &&
  r.all (fun e => e.num != 0 && decide (0 < e.den)) &&
  (getRow ds.cix i).all (fun e => e.num != 0 && decide (0 < e.den)) && Row.sorted r

def checkPatternBlock (ds : Dataset) (b : Nat) : Bool :=
  checkBlockItems (patternOk ds) ds.cx b

/-- W6: a stable nuclide feeds nothing — every off-diagonal stored entry of row `i` of `C` sits
in the column of a radioactive nuclide -/
def stableColsOk (rate : Rates) (i : Nat) (r : Row) : Bool :=
  r.all (fun e => e.col == i || get2 rate e.col 0 != 0)

def checkStableBlock (C : Blocks) (rate : Rates) (b : Nat) : Bool :=
  checkBlockRows (stableColsOk rate) C b

/-! ### W9: double-precision side vs exact side -/

def ratAbs (q : Rat) : Rat := if q < 0 then -q else q

/-- a stored double of `C`/`C⁻¹` against the exact entry: relative deviation ≤ `rel`, or — for
the noise entries of the float inverse, whose exact values are as small as 1e-249 — absolute
deviation ≤ `tiny` -/
def fEntryOk (rel tiny : Rat) (x : FE) (e : E) : Bool :=
  x.col == e.col &&
  (decide (ratAbs (x.val - e.val) ≤ rel * ratAbs e.val) || decide (ratAbs (x.val - e.val) ≤ tiny))

def zipAll {α β} (f : α → β → Bool) : List α → List β → Bool
  | [], [] => true
  | a :: as, b :: bs => f a b && zipAll f as bs
  | _, _ => false

def floatRowOk (ds : Dataset) (relC relCi tiny : Rat) (i : Nat) (r : Row) : Bool :=
  zipAll (fEntryOk relC tiny) (get2 ds.cf i []) r &&
  zipAll (fEntryOk relCi tiny) (get2 ds.cif i []) (getRow ds.cix i)

def checkFloatBlock (ds : Dataset) (relC relCi tiny : Rat) (b : Nat) : Bool :=
  checkBlockItems (floatRowOk ds relC relCi tiny) ds.cx b

/-- `acc + terms` as a merge of two column-sorted lists (fuel ≥ |terms| + |acc|) -/
def mergeAdd : Nat → List (Nat × Rat) → Acc → Acc
  | 0, _, acc => acc
  | _, [], acc => acc
  | _, ts, [] => ts
  | f + 1, (c, x) :: ts, (k, v) :: acc =>
    if c < k then (c, x) :: mergeAdd f ts ((k, v) :: acc)
    else if k < c then (k, v) :: mergeAdd f ((c, x) :: ts) acc
    else (k, v + x) :: mergeAdd f ts acc

/-- terms `|ĉ·ĉi_kj − c·ci_kj|` (data error) for one `k`, over the zipped rows `k` of `Ĉ⁻¹`, `C⁻¹` -/
def errTerms (xc : Rat) (c : Rat) : FRow → Row → List (Nat × Rat)
  | x :: xs, e :: es => (e.col, ratAbs (xc * x.val - c * e.val)) :: errTerms xc c xs es
  | _, _ => []

/-- terms `|c·ci_kj|` (condition weight) -/
def absTerms (c : Rat) : Row → List (Nat × Rat)
  | e :: es => (e.col, ratAbs (c * e.val)) :: absTerms c es
  | [] => []

def errAcc (ds : Dataset) : FRow → Row → Acc → Acc
  | x :: xs, e :: es, acc =>
    errAcc ds xs es (mergeAdd (acc.length + (getRow ds.cix e.col).length)
      (errTerms x.val e.val (get2 ds.cif e.col []) (getRow ds.cix e.col)) acc)
  | _, _, acc => acc

def absAcc (ds : Dataset) : Row → Acc → Acc
  | e :: es, acc => absAcc ds es (mergeAdd (acc.length + (getRow ds.cix e.col).length)
      (absTerms e.val (getRow ds.cix e.col)) acc)
  | [], acc => acc

/-- W9 aggregated: for row `i` and every column `j`,
`B_ij = Σ_k |Ĉ_ik Ĉ⁻¹_kj − C_ik C⁻¹_kj| ≤ bErr` and `K_ij = Σ_k |C_ik C⁻¹_kj| ≤ bCond` -/
def aggRowOk (ds : Dataset) (bErr bCond : Rat) (i : Nat) (r : Row) : Bool :=
  (errAcc ds (get2 ds.cf i []) r []).all (fun p => decide (p.2 ≤ bErr)) &&
  (absAcc ds r []).all (fun p => decide (p.2 ≤ bCond))

def checkAggBlock (ds : Dataset) (bErr bCond : Rat) (b : Nat) : Bool :=
  checkBlockItems (aggRowOk ds bErr bCond) ds.cx b

/-- float decay constant vs exact rate: `|λ̂ − r·L| ≤ rel·r·L` for both ends `L` of an
enclosure of ln 2; stable ⇔ λ̂ = 0 exactly -/
def lamOk (ln2Lo ln2Hi rel : Rat) (r lam : Rat) : Bool :=
  if r == 0 then lam == 0
  else decide (0 < r) && decide (r * ln2Lo * (1 - rel) ≤ lam) && decide (lam ≤ r * ln2Hi * (1 + rel))

def checkLamBlock (ds : Dataset) (ln2Lo ln2Hi rel : Rat) (b : Nat) : Bool :=
  checkBlockItems (fun i lam => lamOk ln2Lo ln2Hi rel (get2 ds.rate i 0) lam) ds.lamF b

/-- masses: the double lies within `rel` of the exact enclosure; the enclosure itself is tight -/
def massOk (rel : Rat) (x : Rat × Rat) (f : Rat) : Bool :=
  decide (0 < x.1) && decide (x.1 ≤ x.2) && decide (x.2 - x.1 ≤ rel * x.1) &&
  decide (x.1 * (1 - rel) ≤ f) && decide (f ≤ x.2 * (1 + rel))

def checkMassBlock (ds : Dataset) (rel : Rat) (b : Nat) : Bool :=
  checkBlockItems (fun i x => massOk rel x (get2 ds.massF i 0)) ds.massX b

/-- the enclosure of an algebraic mass is certified by integer powers:
`lo^root ≤ radicand ≤ hi^root`, and the stored enclosure is `[q0 + c·lo, q0 + c·hi]` -/
def massAlgOk (massX : List (List (Rat × Rat))) (a : Nat × Rat × Rat × Nat × Nat × Rat × Rat) : Bool :=
  let (i, q0, c, radicand, root, lo, hi) := a
  decide (0 < c) && decide (0 < lo) && decide (lo ^ root ≤ (radicand : Rat)) && decide ((radicand : Rat) ≤ hi ^ root) &&
  (get2 massX i (0, 0) == (q0 + c * lo, q0 + c * hi))

end RdVerif
