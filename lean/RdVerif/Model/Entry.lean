/-
Model/Entry.lean — decision-level model of the argument checks of the public entry points
(`inventory.py:128-180, 209-276, 569-670`): which exception class comes out for which kind
of nuclide key, amount and unit.  Amounts and units are abstracted to the classes the checks
distinguish.
-/
import RdVerif.Model.Nuclide

namespace RdVerif

/-- what `_check_values` can tell about an amount -/
inductive AmountKind
  | nonneg        -- int / float / NumPy / Fraction / Decimal / SymPy number with `x >= 0` true
  | negative      -- numeric, `x >= 0` false
  | nan           -- float / NumPy / SymPy NaN (`x >= 0` false or refused)
  | nonNumeric    -- str, None, list, symbol, complex, …
  deriving DecidableEq, Repr

/-- the branch of `_convert_to_number` a unit string selects -/
inductive UnitKind | num | activity | moles | mass | unknown
  deriving DecidableEq, Repr

inductive Cls | float | hp
  deriving DecidableEq, Repr

def checkValue : AmountKind → Py Unit
  | .nonneg => .ok ()
  | _ => .error .value

/-- `_check_values`: the first invalid amount raises -/
def checkValues : List AmountKind → Py Unit
  | [] => .ok ()
  | a :: r => do checkValue a; checkValues r

/-- `_parse_nuclides`: keys are parsed in order; a second spelling of an already seen nuclide
is refused -/
def parseKeys (names : List (List Ch)) : List Key → List (List Ch) → Py (List (List Ch))
  | [], _ => .ok []
  | k :: r, seen => do
    let n ← parseNuclide k names
    if seen.contains n then throw .value
    let rest ← parseKeys names r (n :: seen)
    pure (n :: rest)

/-- `_convert_to_number`, as far as refusals go -/
def convertCheck (unit : UnitKind) (stable : List Ch → Bool) (ns : List (List Ch)) : Py Unit :=
  match unit with
  | .num | .moles | .mass => .ok ()
  | .activity => if ns.any stable then .error .value else .ok ()
  | .unknown => .error .value

/-- `AbstractInventory.__init__` with `check=True`: parse keys, check values, convert.  Returns
the accepted nuclides (in input order; the real constructor then sorts them). -/
def ctorCore (names : List (List Ch)) (stable : List Ch → Bool)
    (entries : List (Key × AmountKind)) (unit : UnitKind) : Py (List (List Ch)) := do
  let ns ← parseKeys names (entries.map Prod.fst) []
  checkValues (entries.map Prod.snd)
  convertCheck unit stable ns
  pure ns

/-- `Inventory(...)` / `InventoryHP(...)`: the high-precision class validates the raw amounts
before converting them with `nsimplify`, then runs the common constructor -/
def ctor (cls : Cls) (names : List (List Ch)) (stable : List Ch → Bool)
    (entries : List (Key × AmountKind)) (unit : UnitKind) : Py (List (List Ch)) :=
  match cls with
  | .float => ctorCore names stable entries unit
  | .hp => do checkValues (entries.map Prod.snd); ctorCore names stable entries unit

/-- the argument of `remove`, by dispatch class -/
inductive RemoveArg
  | one (k : Key)              -- str / int / (Nuclide, carried as its name string); `.other` = any other type
  | many (ks : List Key)       -- a list
  deriving Repr

def removeOne (names : List (List Ch)) (contents : List (List Ch)) (k : Key) : Py (List (List Ch)) := do
  let n ← parseNuclide k names
  if !contents.contains n then throw .value
  pure (contents.erase n)

/-- `remove` (`inventory.py:569-670`): the list overload parses every element first, then
removes them one by one from a copy -/
def remove (names : List (List Ch)) (contents : List (List Ch)) : RemoveArg → Py (List (List Ch))
  | .one .other => .error .notImplemented
  | .one k => removeOne names contents k
  | .many ks => do
    let ns ← ks.mapM (fun k => parseNuclide k names)
    ns.foldlM (fun c n => if !c.contains n then throw .value else pure (c.erase n)) contents

end RdVerif
