/-
Model/Driver.lean — request dispatcher of the line protocol (pure: `List String → String`).
-/
import RdVerif.Model.Nuclide

namespace RdVerif.Driver

def decCodes (t : String) : Option (List Ch) :=
  if t == "-" then some [] else (t.splitOn ".").mapM (·.toNat?)

def encCodes (l : List Ch) : String :=
  if l.isEmpty then "-" else ".".intercalate (l.map toString)

def showPy {α} (f : α → String) : Py α → String
  | .ok a => "ok " ++ f a
  | .error e => "err " ++ e.name

def handleNuclide : List String → Option String
  | ["parse_str", s] => (decCodes s).map fun cs => showPy encCodes (parseNuclideStr cs)
  | ["parse_id", n] => n.toInt?.map fun x => showPy encCodes (parseId x)
  | ["build_id", z, a, s] => do
      let z ← z.toNat?; let a ← a.toNat?; let cs ← decCodes s
      pure (showPy toString (buildId z a cs))
  | ["attrs", s] => (decCodes s).map fun cs =>
      showPy toString (attrZ cs) ++ "|" ++ showPy toString (attrA cs) ++ "|" ++
      showPy encCodes (attrState cs) ++ "|" ++ showPy toString (attrId cs)
  | _ => none

def handle (req : List String) : String :=
  match handleNuclide req with
  | some r => r
  | none => "bad-request"

end RdVerif.Driver
