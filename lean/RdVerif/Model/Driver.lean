/-
Model/Driver.lean — request dispatcher of the line protocol (pure: `List String → String`).
-/
import RdVerif.Model.Nuclide
import RdVerif.Model.Entry
import RdVerif.Model.Interval
import RdVerif.Model.Fractions
import RdVerif.Model.Units
import RdVerif.Model.DriverInv
import RdVerif.Model.Queries
import RdVerif.Model.Diagram
import RdVerif.Model.DriverDs
import RdVerif.Model.ReachWF
import RdVerif.Model.ErrorChecked
import RdVerif.Model.Labels
import RdVerif.Gen.Icrp107.Data

namespace RdVerif.Driver

def decCodes (t : String) : Option (List Ch) :=
  if t == "-" then some [] else (t.splitOn ".").mapM (·.toNat?)

def encCodes (l : List Ch) : String :=
  if l.isEmpty then "-" else ".".intercalate (l.map toString)

def showPy {α} (f : α → String) : Py α → String
  | .ok a => "ok " ++ f a
  | .error e => "err " ++ e.name

def handleNuclide : List String → Option String
  | ["parse_str", s] => (decCodes s).map fun cs => showPy encCodes (parseNuclideStr cs)
  | ["parse_id", n] => n.toInt?.map fun x => showPy encCodes (parseId x)
  | ["build_id", z, a, s] => do
      let z ← z.toNat?; let a ← a.toNat?; let cs ← decCodes s
      pure (showPy toString (buildId z a cs))
  | ["attrs", s] => (decCodes s).map fun cs =>
      showPy toString (attrZ cs) ++ "|" ++ showPy toString (attrA cs) ++ "|" ++
      showPy encCodes (attrState cs) ++ "|" ++ showPy toString (attrId cs)
  | _ => none

/-- driver state: the nuclide list of the dataset in use (`set_names`) -/
structure State where
  names : List (List Ch) := []
  stable : List (List Ch) := []
  wF : World Float := DriverInv.emptyWorld
  wQ : World Rat := DriverInv.emptyWorld
  /-- datasets loaded at run time (`ds_new … ds_done <name>`) -/
  dss : List (String × Dataset) := []
  bld : DriverDs.Build := {}

def decAmount : String → Option AmountKind
  | "nonneg" => some .nonneg | "negative" => some .negative | "nan" => some .nan
  | "nonnumeric" => some .nonNumeric | _ => none

def decUnitKind : String → Option UnitKind
  | "num" => some .num | "activity" => some .activity | "moles" => some .moles | "mass" => some .mass
  | "unknown" => some .unknown | _ => none

/-- key encodings inside one field: `s:<codes>`, `i:<int>`, `o` -/
def decKey1 (t : String) : Option Key :=
  if t == "o" then some .other
  else if t.startsWith "s:" then (decCodes (t.drop 2).toString).map Key.str
  else if t.startsWith "i:" then (t.drop 2).toString.toInt?.map Key.int
  else none

def decEntries : List String → Option (List (Key × AmountKind))
  | [] => some []
  | k :: a :: r => do
    let k ← decKey1 k; let a ← decAmount a; let rest ← decEntries r
    pure ((k, a) :: rest)
  | _ => none

def decRat (t : String) : Option Rat :=
  match t.splitOn "/" with
  | [p] => p.toInt?.map (fun n => (n : Rat))
  | [p, q] => do let n ← p.toInt?; let d ← q.toNat?; if d == 0 then none else pure (mkRat n d)
  | _ => none

def encRat (q : Rat) : String := s!"{q.num}/{q.den}"

/-- `idx:amount,idx:amount,…` -/
def decN0 (t : String) : Option N0 :=
  if t == "-" then some [] else
  (t.splitOn ",").mapM (fun item => match item.splitOn ":" with
    | [i, a] => do let i ← i.toNat?; let a ← decRat a; pure (i, a)
    | _ => none)

def dsLookup (dss : List (String × Dataset)) (name : String) : Option Dataset :=
  if name == "icrp107" then some Gen.icrp107 else (dss.find? (fun p => p.1 == name)).map (·.2)

def decStr (t : String) : Option String := (decCodes t).map unS

def showNames (l : List (List Ch)) : String := " ".intercalate ((l.map encCodes))

def decKey : List String → Option Key
  | ["str", s] => (decCodes s).map Key.str
  | ["int", n] => n.toInt?.map Key.int
  | ["other"] => some Key.other
  | _ => none

def handleMain (st : State) (req : List String) : State × String :=
  let dsByName := dsLookup st.dss
  match req with
  | ["ds_done", name] =>
    let ds := DriverDs.finish st.bld
    ({ st with dss := (name, ds) :: st.dss.filter (fun p => p.1 != name), bld := {} }, s!"ok {ds.n}")
  | ["ds_wf", name] =>
    match dsByName name with
    | some ds => (st, s!"ok {wellFormedB ds} " ++ DriverDs.showVerdicts ds)
    | none => (st, "bad-request")
  | ["ds_drop", name] => ({ st with dss := st.dss.filter (fun p => p.1 != name) }, "ok")
  | "fracs" :: xs =>
    match xs.mapM decRat with
    | some l => (st, "ok " ++ " ".intercalate ((fracs l).map encRat))
    | none => (st, "bad-request")
  | "cfracs" :: kind :: av :: xs =>
    -- fractions of one kind from the stored contents: triples N lam mass
    let rec triples : List Rat → Option (List Nuc)
      | a :: b :: c :: rest => (triples rest).map (fun l => ⟨a, b, c⟩ :: l)
      | [] => some []
      | _ => none
    match decRat av, xs.mapM decRat with
    | some av, some l =>
      match triples l with
      | some ns =>
        let r := if kind == "activity" then some (activityFractions ns)
                 else if kind == "mass" then some (massFractions av ns)
                 else if kind == "mole" then some (moleFractions av ns) else none
        match r with
        | some r => (st, "ok " ++ " ".intercalate (r.map encRat))
        | none => (st, "bad-request")
      | none => (st, "bad-request")
    | _, _ => (st, "bad-request")
  | ["tonum", cls, u, x, lam, mass] =>
    match decStr u, decRat x, decRat lam, decRat mass with
    | some u, some x, some lam, some mass =>
      let (T, av) := if cls == "S" then (tablesS, Gen.avogadroSympy) else (tablesF, Gen.avogadroFloatCls)
      (st, showPy encRat (toNumber T av u x lam mass))
    | _, _, _, _ => (st, "bad-request")
  | ["read", cls, kind, u, n, lam, mass] =>
    match decStr u, decRat n, decRat lam, decRat mass with
    | some u, some n, some lam, some mass =>
      let (T, av) := if cls == "S" then (tablesS, Gen.avogadroSympy) else (tablesF, Gen.avogadroFloatCls)
      let r := if kind == "activity" then readActivity T u n lam
               else if kind == "mass" then readMass T av u n mass
               else readMoles T av u n
      (st, showPy encRat r)
    | _, _, _, _ => (st, "bad-request")
  | ["timeconv", cls, x, ufrom, uto, year] =>
    match decRat x, decStr ufrom, decStr uto, decRat year with
    | some x, some a, some b, some y =>
      (st, showPy encRat (timeConv (if cls == "S" then tablesS else tablesF) x a b y))
    | _, _, _, _ => (st, "bad-request")
  | ["kind", cls, u] =>
    match decStr u with
    | some u => (st, "ok " ++ (match kindOf (if cls == "S" then tablesS else tablesF) u with
        | .num => "num" | .activity => "activity" | .moles => "moles" | .mass => "mass" | .unknown => "unknown"))
    | none => (st, "bad-request")
  | "w" :: "F" :: rest => let r := DriverInv.handle DriverInv.floatCodec st.wF rest; ({ st with wF := r.1 }, r.2)
  | "w" :: "Q" :: rest => let r := DriverInv.handle DriverInv.ratCodec st.wQ rest; ({ st with wQ := r.1 }, r.2)
  | ["hl", dsn, i, u] =>
    match dsByName dsn, i.toNat?, decStr u with
    | some ds, some i, some u =>
      (st, match halfLifeIn ds.yearX (get2 ds.hl i ⟨none, 0, "", ""⟩) u with
        | some none => "ok inf"
        | some (some q) => "ok " ++ encRat q
        | none => "err ValueError")
    | _, _, _ => (st, "bad-request")
  | ["bfq", dsn, i, nm] =>
    match dsByName dsn, i.toNat?, decCodes nm with
    | some ds, some i, some nm =>
      let ls := get2 ds.links i []
      (st, s!"ok {encRat (bfQuery ls nm)} {encCodes ((modeQuery ls nm).toList.map Char.toNat)}")
    | _, _, _ => (st, "bad-request")
  | ["linksof", dsn, i] =>
    match dsByName dsn, i.toNat? with
    | some ds, some i =>
      (st, "ok " ++ " ".intercalate ((get2 ds.links i []).map (fun l =>
        s!"{encCodes l.name}:{encRat l.bf}:{encCodes (l.mode.toList.map Char.toNat)}")))
    | _, _ => (st, "bad-request")
  | ["ds_err", dsn, lamRel] =>
    -- smallest tolerances that pass, the verdict of `errorCheckedB` with them, and the implied forward-error bound
    match dsByName dsn, decRat lamRel with
    | some ds, some lr =>
      let (bE, bC, bR) := errorConstants ds
      (st, s!"ok {errorCheckedB ds bE bC lr bR} {encRat bE} {encRat bC} {encRat bR} {encRat (errorBoundQ bE bC lr bR)}")
    | _, _ => (st, "bad-request")
  | ["label", name] =>
    match decCodes name with
    | some nm => (st, match nuclideLabel nm with | some l => "ok " ++ encCodes l | none => "err")
    | none => (st, "bad-request")
  | ["modelabel", mode] =>
    match decCodes mode with
    | some m => (st, "ok " ++ encCodes (modeLabel m))
    | none => (st, "bad-request")
  | ["reach_wf", dsn] =>
    match dsByName dsn with
    | some ds => (st, s!"ok {reachWFb ds}")
    | none => (st, "bad-request")
  | ["diagram_ok", dsn, root] =>
    match dsByName dsn, root.toNat? with
    | some ds, some root => (st, s!"ok {diagramOk ds root}")
    | _, _ => (st, "bad-request")
  | ["diagram", dsn, root] =>
    match dsByName dsn, root.toNat? with
    | some ds, some root =>
      let g := buildDigraph ds root
      (st, "ok " ++ " ".intercalate (g.nodes.map (fun n => s!"{encCodes n.name}:{n.gen}:{n.xpos}")) ++ " | " ++
        " ".intercalate (g.edges.map (fun e =>
          s!"{encCodes e.src}:{encCodes e.dst}:{encCodes (e.mode.toList.map Char.toNat)}:{encRat e.bf}")))
    | _, _ => (st, "bad-request")
  | "set_names" :: ns =>
    match ns.mapM decCodes with
    | some l => ({ st with names := l }, s!"ok {l.length}")
    | none => (st, "bad-request")
  | "set_stable" :: ns =>
    match ns.mapM decCodes with
    | some l => ({ st with stable := l }, s!"ok {l.length}")
    | none => (st, "bad-request")
  | "ctor" :: cls :: unit :: es =>
    match (if cls == "hp" then some Cls.hp else if cls == "float" then some Cls.float else none),
          decUnitKind unit, decEntries es with
    | some c, some u, some e =>
      (st, showPy showNames (ctor c st.names (fun n => st.stable.contains n) e u))
    | _, _, _ => (st, "bad-request")
  | "remove_one" :: k :: contents =>
    match decKey1 k, contents.mapM decCodes with
    | some key, some c => (st, showPy showNames (remove st.names c (.one key)))
    | _, _ => (st, "bad-request")
  | "remove_many" :: n :: rest =>
    match n.toNat? with
    | some n =>
      match (rest.take n).mapM decKey1, (rest.drop n).mapM decCodes with
      | some ks, some c => (st, showPy showNames (remove st.names c (.many ks)))
      | _, _ => (st, "bad-request")
    | none => (st, "bad-request")
  | ["ln2", P, n, m] =>
    match P.toNat?, n.toNat?, m.toNat? with
    | some P, some n, some m => (st, match ln2Encl P n m with
        | some (a, b) => s!"ok {encRat a} {encRat b}"
        | none => "none")
    | _, _, _ => (st, "bad-request")
  | ["expneg", P, n, k, xlo, xhi] =>
    match P.toNat?, n.toNat?, k.toNat?, decRat xlo, decRat xhi with
    | some P, some n, some k, some a, some b =>
      let r := expNegEncl P n k a b
      (st, s!"ok {encRat r.1} {encRat r.2}")
    | _, _, _, _, _ => (st, "bad-request")
  | ["indices", dsn, v] =>
    match dsByName dsn, decN0 v with
    | some ds, some v => (st, "ok " ++ " ".intercalate ((decayIndices ds (v.map (·.1))).map toString))
    | _, _ => (st, "bad-request")
  | ["coeffs", dsn, v, i] =>
    match dsByName dsn, decN0 v, i.toNat? with
    | some ds, some v, some i =>
      (st, "ok " ++ " ".intercalate ((coeffs ds v i).map (fun p => s!"{p.1}:{encRat p.2}")))
    | _, _, _ => (st, "bad-request")
  | [cmd, dsn, P, n, extra, l2lo, l2hi, t, v] =>
    if cmd == "decay" || cmd == "cum" then
      match dsByName dsn, P.toNat?, n.toNat?, extra.toNat?, decRat l2lo, decRat l2hi, decRat t, decN0 v with
      | some ds, some P, some n, some extra, some a, some b, some t, some v =>
        let cfg : EvalCfg := { P := P, n := n, extra := extra, ln2 := (a, b) }
        let idx := decayIndices ds (v.map (·.1))
        let idx := if cmd == "cum" then idx.filter (fun i => get2 ds.rate i 0 != 0) else idx
        let ks := (idx.flatMap (fun i => (getRow ds.cx i).map (·.col))).eraseDups
        let tbl := factorTable ds cfg t ks
        let f := if cmd == "cum" then cumEnclT ds tbl v else solEnclT ds tbl v
        (st, "ok " ++ " ".intercalate (idx.map (fun i => let r := f i; s!"{i}:{encRat r.1}:{encRat r.2}")))
      | _, _, _, _, _, _, _, _ => (st, "bad-request")
    else (st, "bad-request")
  | "parse_nuc" :: k =>
    match decKey k with
    | some key => (st, showPy encCodes (parseNuclide key st.names))
    | none => (st, "bad-request")
  | _ =>
    match handleNuclide req with
    | some r => (st, r)
    | none => (st, "bad-request")

/-- dataset-builder lines (`ds_new`, `ds_nuc`, `ds_link`, `ds_par`, `ds_cx`, `ds_cix`, `ds_cf`, `ds_cif`) go to the
builder; everything else to `handleMain` -/
def handle (st : State) (req : List String) : State × String :=
  let c := req.headD ""
  if c.startsWith "ds_" && c != "ds_done" && c != "ds_wf" && c != "ds_drop" && c != "ds_err" then
    match DriverDs.step st.bld req with
    | some b => ({ st with bld := b }, "ok")
    | none => (st, "bad-request")
  else handleMain st req

end RdVerif.Driver
