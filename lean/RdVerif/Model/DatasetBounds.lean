/-
Model/DatasetBounds.lean — the tolerances of W9 (how far a stored double may be from the exact
entry).  Measured on the shipped data: float `C` within 1.7e-14, float `C⁻¹` within 1e-10
relative, except ~500 noise entries of the float inverse (absolute deviation ≤ 3.8e-20, exact values down to
1e-249).  The meaningful statement is the aggregated bound `aggErrBound` below.
-/
namespace RdVerif
def floatRelC : Rat := 1 / 10000000000000          -- 1e-13
def floatRelCi : Rat := 1 / 1000000000             -- 1e-9
def floatTiny : Rat := 1 / 10000000000000000000   -- 1e-19
def aggErrBound : Rat := 4 / 1000000000000         -- 4e-12  (B_ij, data part of the 5e-12 claim)
def aggCondBound : Rat := 1000                     -- K_ij = Σ_k |C_ik C⁻¹_kj|
def lamRel : Rat := 1 / 1000000000000000           -- 1e-15
def massRel : Rat := 1 / 1000000000000000          -- 1e-15
/-- 40-digit enclosure of ln 2 (certified in `Proofs/Ln2.lean`) -/
def ln2Lo : Rat := 6931471805599453094172321214581765680755 / 10000000000000000000000000000000000000000
def ln2Hi : Rat := 6931471805599453094172321214581765680756 / 10000000000000000000000000000000000000000
end RdVerif
