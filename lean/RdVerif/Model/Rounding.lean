/-
Model/Rounding.lean — the Boolean check behind the rounding part of C01's forward-error bound.

The float evaluation is `((Ĉ @ Ê) @ Ĉ⁻¹) @ N0` (SciPy CSR products, left to right).  Under the
standard model of floating-point arithmetic (every operation commits a relative error of at most
`u = 2⁻⁵³`, whatever the order of the additions) the contribution of the term `(k, j)` to output
`i` passes through one multiplication by `ê_k`, at most `len_i` operations in the product with
`Ĉ⁻¹` (one multiplication, at most `len_i − 1` additions: the products are accumulated over the
`len_i` stored entries of row `i` of `Ĉ`) and at most `len_i` operations in the final
matrix–vector product (row `i` of the product has the pattern of row `i` of `Ĉ`).  So the term is
multiplied by at most `2·len_i + 1` factors `(1 + δ)`, `|δ| ≤ u`; we allow `2·len_i + 3`.  The
exponentials themselves are allowed an absolute error `η = 3u` (one rounding of `t·λ̂`, one of
`exp`, see `Proofs/Rounding.lean`).

`roundRowOk` decides, for row `i` and every column `j`, that
`(γ(2·len_i + 3)·(1 + η) + η) · (K_ij + B) ≤ bound`, where `K_ij = Σ_k |C_ik C⁻¹_kj|` is computed
exactly (`absAcc`) and `B = aggErrBound` bounds the difference to the same sum over the stored
doubles (`aggRowOk`).
-/
import RdVerif.Model.Dataset
import RdVerif.Model.DatasetBounds

namespace RdVerif

/-- unit round-off of IEEE-754 binary64 -/
def uRound : Rat := 1 / 2 ^ 53

/-- `γ_m = m·u / (1 − m·u)` -/
def gammaU (m : Nat) : Rat := (m : Rat) * uRound / (1 - (m : Rat) * uRound)

/-- allowed absolute error of a computed exponential `exp(−λ̂ t) ∈ [0, 1]` -/
def etaExp : Rat := 3 / 2 ^ 53

/-- the factor multiplying `Σ_k |Ĉ_ik Ĉ⁻¹_kj|·|N0_j|` in the rounding bound of a row with `len`
stored entries -/
def roundCoef (len : Nat) : Rat := gammaU (2 * len + 3) * (1 + etaExp) + etaExp

/-- the rounding part of the forward-error bound: `4e-12` of the ancestors' atoms -/
def roundBound : Rat := 4 / 1000000000000

def roundRowOk (ds : Dataset) (bound : Rat) (_i : Nat) (r : Row) : Bool :=
  (absAcc ds r []).all (fun p => decide (roundCoef r.length * (p.2 + aggErrBound) ≤ bound))

def checkRoundBlock (ds : Dataset) (bound : Rat) (b : Nat) : Bool :=
  checkBlockItems (roundRowOk ds bound) ds.cx b

end RdVerif
