/-
Model/Csv.lean — CSV import/export logic (`fileio.py:36-161`, `inventory.py:1214-1234`): row
shape, "all-digit name = canonical id", unit precedence `row_unit or units`, skipping, first row
constructs / later rows add, and the rows `to_csv` writes.  Quantities are carried as opaque
strings (their float formatting is CPython's); core Lean only.
-/
import RdVerif.Model.Units

namespace RdVerif

/-- Python's `a or b` on optional strings (`None` and `""` are falsy) -/
def pyOr (a b : Option String) : Option String :=
  match a with
  | some s => if s != "" then some s else b
  | none => b

/-- `_parse_row`: `(nuclide cell, quantity cell, unit)`; `ValueError` unless 2 or 3 cells -/
def parseRow (row : List String) (defaultUnit : Option String) : Py (String × String × Option String) :=
  match row with
  | [n, q] => .ok (n, q, defaultUnit)
  | [n, q, u] => .ok (n, q, some u)
  | _ => .error .value

/-- the `units` keyword handed to the constructor / `add`: `none` = keyword absent (the callee's
default, 'Bq'); `some none` = `units=None` (refused by the callee); `some (some u)` = `u` -/
def unitsKw (rowUnit units : Option String) : Option (Option String) :=
  if rowUnit.isSome || units.isSome then some (pyOr rowUnit units) else none

/-- the unit string that finally applies to a row (`none` = the call is refused) -/
def effectiveUnit (row : List String) (units : Option String) : Py (Option String) := do
  let (_, _, ru) ← parseRow row units
  match unitsKw ru units with
  | none => pure (some "Bq")
  | some none => pure none
  | some (some u) => pure (some u)

/-- `nuc.isnumeric()` decides "canonical id" (ASCII digits here) -/
def cellIsId (cell : String) : Bool := !cell.isEmpty && cell.toList.all (fun c => c.isDigit)

/-- rows that remain after `skip_rows`; `ValueError` when none is left -/
def skipRows (lines : List (List String)) (skip : Nat) : Py (List (List String)) :=
  if (lines.drop skip).isEmpty then .error .value else .ok (lines.drop skip)

/-- the rows `to_csv` writes: optional header, then `[nuclide, str(quantity), units?]` -/
def toCsvRows (header : Option (List String)) (writeUnits : Bool) (units : String)
    (contents : List (String × String)) : List (List String) :=
  (match header with | some h => if h.isEmpty then [] else [h] | none => []) ++
  contents.map (fun p => if writeUnits then [p.1, p.2, units] else [p.1, p.2])

/-- which read-out `to_csv` uses for a unit string (note the order: activity, mass, moles, num) -/
def csvKind (T : UnitTables) (u : String) : UnitKind :=
  if (lookupU T.activity u).isSome then .activity
  else if (lookupU T.mass u).isSome then .mass
  else if (lookupU T.moles u).isSome then .moles
  else if u == "num" then .num
  else .unknown

end RdVerif
