/-
Model/DriverDs.lean — loading a dataset into the driver at run time (synthetic datasets the
harness builds through the library's public constructors), so that the executable
well-formedness checker, the interval oracle, the queries and the diagram builder run on it.
Nuclides arrive in index order; per nuclide one `ds_nuc` line followed by its link / parent / row
lines.  Core Lean only.
-/
import RdVerif.Model.WellFormed

namespace RdVerif.DriverDs

structure Build where
  n : Nat := 0
  yearX : Rat := 0
  yearF : Rat := 0
  names : Array (List Nat) := #[]
  hl : Array HL := #[]
  links : Array (List Link) := #[]
  parents : Array (List (Nat × Rat)) := #[]
  rate : Array Rat := #[]
  massX : Array (Rat × Rat) := #[]
  cx : Array Row := #[]
  cix : Array Row := #[]
  lamF : Array Rat := #[]
  massF : Array Rat := #[]
  cf : Array FRow := #[]
  cif : Array FRow := #[]

def decCodes (t : String) : Option (List Nat) :=
  if t == "-" then some [] else (t.splitOn ".").mapM (·.toNat?)

def decStr (t : String) : Option String := (decCodes t).map (fun l => String.ofList (l.map Char.ofNat))

def decRat (t : String) : Option Rat :=
  match t.splitOn "/" with
  | [p] => p.toInt?.map (fun n => (n : Rat))
  | [p, q] => do let n ← p.toInt?; let d ← q.toNat?; if d == 0 then none else pure (mkRat n d)
  | _ => none

/-- `col:num:den` -/
def decE (t : String) : Option E :=
  match t.splitOn ":" with
  | [c, n, d] => do let c ← c.toNat?; let n ← n.toInt?; let d ← d.toNat?; pure ⟨c, n, d⟩
  | _ => none

/-- `col:mantissa:exponent` -/
def decFE (t : String) : Option FE :=
  match t.splitOn ":" with
  | [c, m, e] => do let c ← c.toNat?; let m ← m.toInt?; let e ← e.toInt?; pure ⟨c, m, e⟩
  | _ => none

/-- `parent:bf` -/
def decPar (t : String) : Option (Nat × Rat) :=
  match t.splitOn ":" with
  | [p, b] => do let p ← p.toNat?; let b ← decRat b; pure (p, b)
  | _ => none

def setLast {α} (a : Array α) (x : α) : Array α := if a.size == 0 then a else a.set! (a.size - 1) x
def modLast {α} (a : Array α) (f : α → α) : Array α :=
  if h : 0 < a.size then a.set! (a.size - 1) (f a[a.size - 1]) else a

/-- one builder command; `none` = malformed request -/
def step (b : Build) : List String → Option Build
  | ["ds_new", n, yx, yf] => do
      let n ← n.toNat?; let yx ← decRat yx; let yf ← decRat yf
      pure { n := n, yearX := yx, yearF := yf }
  | ["ds_nuc", name, hlval, hlbits, unit, readable, rate, mlo, mhi, lamF, massF] => do
      let name ← decCodes name
      let v ← if hlval == "inf" then some none else (decRat hlval).map some
      let bits ← hlbits.toNat?; let unit ← decStr unit; let readable ← decStr readable
      let rate ← decRat rate; let mlo ← decRat mlo; let mhi ← decRat mhi
      let lamF ← decRat lamF; let massF ← decRat massF
      pure { b with names := b.names.push name, hl := b.hl.push ⟨v, UInt64.ofNat bits, unit, readable⟩,
                    links := b.links.push [], parents := b.parents.push [], rate := b.rate.push rate,
                    massX := b.massX.push (mlo, mhi), cx := b.cx.push [], cix := b.cix.push [],
                    lamF := b.lamF.push lamF, massF := b.massF.push massF, cf := b.cf.push [], cif := b.cif.push [] }
  | ["ds_link", idx, name, bf, bfbits, mode] => do
      let idx ← if idx == "-" then some none else idx.toNat?.map some
      let name ← decCodes name; let bf ← decRat bf; let bits ← bfbits.toNat?; let mode ← decStr mode
      pure { b with links := modLast b.links (fun l => l ++ [⟨idx, name, bf, UInt64.ofNat bits, mode⟩]) }
  | "ds_par" :: ps => do
      let ps ← ps.mapM decPar
      pure { b with parents := setLast b.parents ps }
  | "ds_cx" :: es => do let es ← es.mapM decE; pure { b with cx := setLast b.cx es }
  | "ds_cix" :: es => do let es ← es.mapM decE; pure { b with cix := setLast b.cix es }
  | "ds_cf" :: es => do let es ← es.mapM decFE; pure { b with cf := setLast b.cf es }
  | "ds_cif" :: es => do let es ← es.mapM decFE; pure { b with cif := setLast b.cif es }
  | _ => none

def finish (b : Build) : Dataset :=
  { n := b.n, names := toBlocks b.names.toList, hl := toBlocks b.hl.toList, links := toBlocks b.links.toList,
    parents := toBlocks b.parents.toList, yearX := b.yearX, yearF := b.yearF, rate := toBlocks b.rate.toList,
    massX := toBlocks b.massX.toList, cx := toBlocks b.cx.toList, cix := toBlocks b.cix.toList,
    lamF := toBlocks b.lamF.toList, massF := toBlocks b.massF.toList, cf := toBlocks b.cf.toList,
    cif := toBlocks b.cif.toList }

def showVerdicts (ds : Dataset) : String :=
  " ".intercalate ((wfVerdicts ds).map (fun p => s!"{p.1}={p.2}"))

end RdVerif.DriverDs
