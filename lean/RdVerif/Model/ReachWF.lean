/-
Model/ReachWF.lean — executable form of the hypotheses under which the diagram theorems of
`Proofs/DiagramReach.lean` hold (`ReachWF`): plain conditions on names and links.  The driver
evaluates it on every run-time dataset; `Proofs/ReachWFb.lean` proves `reachWFb ds = true → ReachWF ds`.
Core Lean only.
-/
import RdVerif.Model.Diagram

namespace RdVerif

/-- the name has the form `X_SF` -/
def endsWithSF (nm : List Nat) : Bool := (S "_SF").isSuffixOf nm

def linkWFb (ds : Dataset) (l : Link) : Bool :=
  !endsWithSF l.name &&
  (match l.idx with
   | some k => decide (k < ds.n) && (get2 ds.names k [] == l.name) && !(l.name == S "SF")
   | none => l.name == S "SF")

def reachWFb (ds : Dataset) : Bool :=
  let names := (List.range ds.n).map (fun i => get2 ds.names i [])
  blocksShapeOk ds.names ds.n && blocksShapeOk ds.links ds.n && blocksShapeOk ds.rate ds.n &&
  names.all (fun nm => !endsWithSF nm) && nodupB names &&
  (List.range ds.n).all (fun p =>
    let ls := get2 ds.links p []
    ls.all (linkWFb ds) && decide ((ls.filter (fun l => l.name == S "SF")).length ≤ 1) &&
    (if get2 ds.rate p 0 == 0 then ls.isEmpty else true))

end RdVerif
