/-
Model/ErrorChecked.lean — executable check of the double-precision side of ANY dataset, with the
tolerances as parameters: aggregated closeness of the stored doubles (`bErr`, `bCond`), decay
constants (`lamRel`, against the 40-digit ln 2 enclosure of DatasetBounds), and the rounding
coefficient.  `Proofs/GenericError.lean` turns `errorCheckedB ds bErr bCond lamRel bRound = true`
(together with `wellFormedB ds = true`) into a forward-error bound
`(bErr + (bCond + bErr)·ρ/(2(1−ρ)) + bRound)·ΣN0`, ρ = lamRel·(1+small) — the driver evaluates the check
with the smallest constants that pass (`errorConstants`).  Core Lean only.
-/
import RdVerif.Model.WellFormed
import RdVerif.Model.Rounding

namespace RdVerif

/-- rounding check with the data tolerance as a parameter (cf. `roundRowOk`, which fixes `aggErrBound`) -/
def roundRowOkP (ds : Dataset) (bErr bound : Rat) (_i : Nat) (r : Row) : Bool :=
  (absAcc ds r []).all (fun p => decide (roundCoef r.length * (p.2 + bErr) ≤ bound)) &&
  decide (roundCoef r.length * bErr ≤ bound)

def checkRoundBlockP (ds : Dataset) (bErr bound : Rat) (b : Nat) : Bool :=
  checkBlockItems (roundRowOkP ds bErr bound) ds.cx b

/-- the float side is within the given tolerances -/
def errorCheckedB (ds : Dataset) (bErr bCond lamRel bRound : Rat) : Bool :=
  blocksShapeOk ds.lamF ds.n &&
  decide (0 ≤ bErr) && decide (0 ≤ bCond) && decide (0 ≤ lamRel) && decide (lamRel < 1 / 1000) && decide (0 ≤ bRound) &&
  allBlocks ds.cx (checkAggBlock ds bErr bCond) &&
  allBlocks ds.lamF (checkLamBlock ds ln2Lo ln2Hi lamRel) &&
  allBlocks ds.cx (checkRoundBlockP ds bErr bRound)

/-- the smallest `bErr`, `bCond` and rounding bound that pass: maxima over all rows and columns
(reported by the driver so that the harness can use the theorem's bound as its tolerance) -/
def errorConstants (ds : Dataset) : Rat × Rat × Rat :=
  let rows := (List.range ds.n).map (fun i => (i, getRow ds.cx i))
  let bErr := rows.foldl (fun m p => (errAcc ds (get2 ds.cf p.1 []) p.2 []).foldl (fun m q => if m < q.2 then q.2 else m) m) 0
  let bCond := rows.foldl (fun m p => (absAcc ds p.2 []).foldl (fun m q => if m < q.2 then q.2 else m) m) 0
  let bRound := rows.foldl (fun m p =>
    let c := roundCoef p.2.length
    let m := if m < c * bErr then c * bErr else m
    (absAcc ds p.2 []).foldl (fun m q => if m < c * (q.2 + bErr) then c * (q.2 + bErr) else m) m) 0
  (bErr, bCond, bRound)

/-- relative bound on `|λ̂ − λ|` implied by `lamOk ln2Lo ln2Hi lamRel` (the ln 2 enclosure is 1e-40 wide) -/
def rhoQ (lamRel : Rat) : Rat := lamRel + 2 / 1000000000000000000000000000000000000000

/-- the forward-error bound (per unit of initial atoms) implied by the tolerances -/
def errorBoundQ (bErr bCond lamRel bRound : Rat) : Rat :=
  bErr + (bCond + bErr) * (rhoQ lamRel / (2 * (1 - rhoQ lamRel))) + bRound

end RdVerif
