/-
Model/Series.lean — time series and plot data (`inventory.py:834-1170`): which read-out a
`decay_units` / `yunits` string selects, the time grid, and the y-axis limits.  Core Lean only.
-/
import RdVerif.Model.Units

namespace RdVerif

/-- read-out kinds of the series / plot dispatch chains -/
inductive ReadOut | activity | moles | mass | num | activityFrac | massFrac | molFrac | unknown
  deriving DecidableEq, Repr

/-- the `if/elif` chain of `decay_time_series_pandas` (`inventory.py:901-930`) -/
def seriesDispatch (T : UnitTables) (u : String) : ReadOut :=
  if (lookupU T.activity u).isSome then .activity
  else if (lookupU T.moles u).isSome then .moles
  else if (lookupU T.mass u).isSome then .mass
  else if u == "num" then .num
  else if u == "activity_frac" then .activityFrac
  else if u == "mass_frac" then .massFrac
  else if u == "mol_frac" then .molFrac
  else .unknown

/-- the chain of `plot` (`inventory.py:1108-1149`) — written out a second time in the source -/
def plotDispatch (T : UnitTables) (u : String) : ReadOut :=
  if (lookupU T.activity u).isSome then .activity
  else if (lookupU T.moles u).isSome then .moles
  else if (lookupU T.mass u).isSome then .mass
  else if u == "num" then .num
  else if u == "activity_frac" then .activityFrac
  else if u == "mass_frac" then .massFrac
  else if u == "mol_frac" then .molFrac
  else .unknown

/-- what the specification says a unit string means -/
def specReadOut (u : String) : ReadOut :=
  if (lookupSpec specActivity u).isSome then .activity
  else if (lookupSpec specMoles u).isSome then .moles
  else if (lookupSpec specMass u).isSome then .mass
  else if u == "num" then .num
  else if u == "activity_frac" then .activityFrac
  else if u == "mass_frac" then .massFrac
  else if u == "mol_frac" then .molFrac
  else .unknown

/-- `numpy.linspace(a, b, n)` in exact arithmetic -/
def linGrid (a b : Rat) (n : Nat) : List Rat :=
  if n = 0 then [] else if n = 1 then [a]
  else (List.range n).map (fun (k : Nat) => a + ((k : Nat) : Rat) * (b - a) / ((n - 1 : Nat) : Rat))

/-- lower end of the time axis: series use 0 (linear) or `tmin` (log); `plot` replaces
`xmin = 0` by `tmin` on a log axis -/
def seriesTmin (linear : Bool) (tminLog : Rat) : Rat := if linear then 0 else tminLog
def plotXmin (linear : Bool) (xmin tminLog : Rat) : Rat := if linear then xmin else if xmin == 0 then tminLog else xmin

/-- y-axis limits (`inventory.py:1151-1153`): `ymax` given and non-zero ⇒ `[ymin', ymax]`, else
`[ymin', 1.05·max]`; `ymin' = 0.95·min` when the y-axis is logarithmic and `ymin = 0` -/
def yLimits (logY : Bool) (ymin : Rat) (ymax : Option Rat) (dmin dmax lo hi : Rat) : Rat × Rat :=
  let ymin' := if logY && ymin == 0 then lo * dmin else ymin
  match ymax with
  | some m => if m != 0 then (ymin', m) else (ymin', hi * dmax)
  | none => (ymin', hi * dmax)

end RdVerif
