/-
Model/Sparse.lean — exact sparse rational matrices as the dataset stores them (row lists of
(column, numerator, denominator)), two-level row lookup, and the row-by-row product checks
that the kernel evaluates on the generated data (core Lean only).

Every intermediate value is consumed exactly once (accumulator passing), because the kernel's
evaluator does not share `let`-bound work.
-/
namespace RdVerif

/-- one stored entry: column and the exact value `num/den` -/
structure E where
  col : Nat
  num : Int
  den : Nat
  deriving Repr, DecidableEq

def E.val (e : E) : Rat := mkRat e.num e.den

abbrev Row := List E

/-- rows are stored in blocks of `blockSize` rows, so that a row lookup costs two short walks -/
def blockSize : Nat := 40

abbrev Blocks := List (List Row)

/-- two-level lookup in a blocked list -/
def get2 {α} (L : List (List α)) (k : Nat) (d : α) : α :=
  (L.getD (k / blockSize) []).getD (k % blockSize) d

def getRow (M : Blocks) (k : Nat) : Row := get2 M k []

/-- denotation of a sparse row at column `j` (duplicates, if any, add up) -/
def Row.den : Row → Nat → Rat
  | [], _ => 0
  | e :: r, j => (if e.col = j then e.val else 0) + Row.den r j

/-- accumulator: association list column ↦ value, looked up by first match -/
abbrev Acc := List (Nat × Rat)

def Acc.get : Acc → Nat → Rat
  | [], _ => 0
  | (c, v) :: r, j => if c = j then v else Acc.get r j

/-- add `x` at key `j`; `none` if `j` is not a key -/
def Acc.addAt : Acc → Nat → Rat → Option Acc
  | [], _, _ => none
  | (c, v) :: r, j, x => if c = j then some ((c, v + x) :: r) else (Acc.addAt r j x).map ((c, v) :: ·)

/-- `acc += c • r` -/
def accumRow (c : Rat) : Row → Option Acc → Option Acc
  | [], acc => acc
  | e :: r, acc => accumRow c r (acc.bind (fun a => Acc.addAt a e.col (c * e.val)))

/-- `init + Σ_{e ∈ a} e.val • B[e.col]` -/
def prodAcc (B : Blocks) : Row → Option Acc → Option Acc
  | [], acc => acc
  | e :: r, acc => prodAcc B r (accumRow e.val (getRow B e.col) acc)

def zeroAcc (a : Row) : Acc := a.map (fun e => (e.col, 0))

/-- `acc + c • r` as a merge of two column-sorted lists (fuel ≥ |r| + |acc|).  Whatever the
order of the inputs, every input entry is emitted exactly once, alone or added to an entry of
the same column. -/
def axpy (c : Rat) : Nat → Row → Acc → Acc
  | 0, _, acc => acc
  | _, [], acc => acc
  | _, r, [] => r.map (fun e => (e.col, c * e.val))
  | f + 1, e :: r, (k, v) :: acc =>
    if e.col < k then (e.col, c * e.val) :: axpy c f r ((k, v) :: acc)
    else if k < e.col then (k, v) :: axpy c f (e :: r) acc
    else (k, v + c * e.val) :: axpy c f r acc

/-- `acc + Σ_{e ∈ a} e.val • B[e.col]` by successive merges -/
def prodRow (B : Blocks) : Row → Acc → Acc
  | [], acc => acc
  | e :: r, acc => prodRow B r (axpy e.val (acc.length + (getRow B e.col).length) (getRow B e.col) acc)

/-- one pass over a product row: keys strictly increasing, every value is that of the unit
row `e_i`, and key `i` occurs (`prev` = previous key, `seen` = key `i` met so far) -/
def unitRowOk (i : Nat) : Option Nat → Bool → Acc → Bool
  | _, seen, [] => seen
  | prev, seen, (k, v) :: r =>
    (match prev with | none => true | some p => decide (p < k)) &&
    (v == (if k = i then 1 else 0)) && unitRowOk i (some k) (seen || k == i) r

/-- row `i` of `A·B` equals row `i` of the identity; also: row `i` of `A` is lower triangular -/
def checkRowInv (B : Blocks) (i : Nat) (a : Row) : Bool :=
  a.all (fun e => decide (e.col ≤ i)) && unitRowOk i none false (prodRow B a [])

/-- all rows of block `b` -/
def checkBlockRows (f : Nat → Row → Bool) (M : Blocks) (b : Nat) : Bool :=
  go (b * blockSize) (M.getD b [])
where
  go (i : Nat) : List Row → Bool
    | [] => true
    | r :: rs => f i r && go (i + 1) rs

/-- the block structure is regular: every block but the last holds exactly `blockSize` rows,
and the total is `n` -/
def blocksShapeOk {α} (M : List (List α)) (n : Nat) : Bool :=
  (M.dropLast.all (fun b => b.length == blockSize)) &&
  (match M.getLast? with
    | none => n == 0
    | some l => decide (0 < l.length) && decide (l.length ≤ blockSize) &&
        ((M.length - 1) * blockSize + l.length == n))

def checkInvBlock (A B : Blocks) (b : Nat) : Bool := checkBlockRows (checkRowInv B) A b

/-! ### diagonalisation check `R·C = C·diag(−r)` with `R` given by rates and parent lists -/

/-- `parents[i]` = list of (parent index, branching fraction of parent → i), blocked -/
abbrev Parents := List (List (List (Nat × Rat)))
/-- rates `r_i` (decay constant = `r_i · ln 2`), blocked -/
abbrev Rates := List (List Rat)

/-- Σ over parents `(p, b)` of `b·r_p • C[p]` -/
def parentsAcc (C : Blocks) (rate : Rates) : List (Nat × Rat) → Option Acc → Option Acc
  | [], acc => acc
  | (p, b) :: ps, acc => parentsAcc C rate ps (accumRow (b * get2 rate p 0) (getRow C p) acc)

/-- row `i` of `R·C − C·diag(−r)` is zero:
`−r_i C[i] + Σ_parents b r_p C[p] + C[i]⊙r = 0`, i.e. for every column `c`:
`(−r_i + r_c)·C[i][c] + Σ_p b r_p C[p][c] = 0` -/
def checkRowDiag (C : Blocks) (rate : Rates) (parents : Parents) (i : Nat) (a : Row) : Bool :=
  (get2 parents i []).all (fun p => decide (p.1 < i)) &&
  let init : Acc := a.map (fun e => (e.col, (get2 rate e.col 0 - get2 rate i 0) * e.val))
  match parentsAcc C rate (get2 parents i []) (some init) with
  | none => false
  | some acc => acc.all (fun p => p.2 == 0)

def checkDiagBlock (C : Blocks) (rate : Rates) (parents : Parents) (b : Nat) : Bool :=
  checkBlockRows (checkRowDiag C rate parents) C b

/-- strictly increasing columns (so keys of `zeroAcc` are distinct and `den` has no duplicates) -/
def Row.sorted : Row → Bool
  | [] => true
  | [_] => true
  | e :: f :: r => decide (e.col < f.col) && Row.sorted (f :: r)

end RdVerif
