/-
Model/Fractions.lean — `activity_fractions`, `mass_fractions`, `mole_fractions`
(`inventory.py:392-442`): each read-out divided by the total of that read-out.  Exact model over
the rationals (every double read-out is a rational); the float code's result is compared with it
to a few ulp.
-/
namespace RdVerif

/-- `{nuc: x / sum(readouts) for nuc, x in readouts}` -/
def fracs (xs : List Rat) : List Rat := xs.map (fun x => x / xs.sum)

end RdVerif
