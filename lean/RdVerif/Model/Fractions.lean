/-
Model/Fractions.lean — `activity_fractions`, `mass_fractions`, `mole_fractions`
(`inventory.py:392-442`): each read-out divided by the total of that read-out.  Exact model over
the rationals (every double read-out is a rational); the float code's result is compared with it
to a few ulp.
-/
namespace RdVerif

/-- `{nuc: x / sum(readouts) for nuc, x in readouts}` -/
def fracs (xs : List Rat) : List Rat := xs.map (fun x => x / xs.sum)

/-- what the three read-outs see of one nuclide of the inventory: its stored number of atoms, its
decay constant and its atomic mass (`inventory.py:296-390`, `converters.py:60-140`) -/
structure Nuc where
  N : Rat
  lam : Rat
  mass : Rat

/-- `activities()` in Bq: `number_to_activity(N) = N * lambda` -/
def activityReadouts (ns : List Nuc) : List Rat := ns.map (fun n => n.N * n.lam)
/-- `masses()` in g: `number_to_mass(N) = N / avogadro * atomic_mass` -/
def massReadouts (av : Rat) (ns : List Nuc) : List Rat := ns.map (fun n => n.N / av * n.mass)
/-- `moles()` in mol: `number_to_moles(N) = N / avogadro` -/
def moleReadouts (av : Rat) (ns : List Nuc) : List Rat := ns.map (fun n => n.N / av)

/-- `activity_fractions()`, `mass_fractions()`, `mole_fractions()` from the stored contents -/
def activityFractions (ns : List Nuc) : List Rat := fracs (activityReadouts ns)
def massFractions (av : Rat) (ns : List Nuc) : List Rat := fracs (massReadouts av ns)
def moleFractions (av : Rat) (ns : List Nuc) : List Rat := fracs (moleReadouts av ns)

/-- the constructor's conversion of an amount given as a mass in g, an amount of substance in mol
or an activity in Bq to a number of atoms (`converters.py`: `mass_to_number`, `moles_to_number`,
`activity_to_number`) -/
def fromMass (av : Rat) (g lam mass : Rat) : Nuc := ⟨g / mass * av, lam, mass⟩
def fromMoles (av : Rat) (mol lam mass : Rat) : Nuc := ⟨mol * av, lam, mass⟩
def fromActivity (bq lam mass : Rat) : Nuc := ⟨bq / lam, lam, mass⟩

end RdVerif
