/-
Model/WellFormed.lean — the executable well-formedness checker of a decay dataset (exact side):
the conjunction, over every block, of the Boolean checks that the generated kernel obligations
establish one by one for the shipped dataset.  `Proofs/Generic.lean` proves that EVERY dataset
for which `wellFormedB` evaluates to `true` has the properties C01/C03/C04/C07 state (closed form
= unique solution of the decay equations defined by the listed half-lives / branching fractions,
sound oracle, nuclide set = closure under progeny).  The correspondence harness evaluates
`wellFormedB` (compiled, through the driver) on each synthetic dataset it builds through the
library's public constructors, so those theorems apply to it.  Core Lean only.
-/
import RdVerif.Model.Dataset

namespace RdVerif

/-- every block index satisfies `f` -/
def allBlocks {α} (L : List (List α)) (f : Nat → Bool) : Bool := (List.range L.length).all f

/-- rates are non-negative -/
def ratesNonneg (rate : Rates) : Bool := rate.all (fun blk => blk.all (fun r => decide (0 ≤ r)))

/-- individual verdicts, in the order the driver reports them -/
def wfVerdicts (ds : Dataset) : List (String × Bool) :=
  [ ("shape", blocksShapeOk ds.cx ds.n && blocksShapeOk ds.cix ds.n && blocksShapeOk ds.names ds.n &&
      blocksShapeOk ds.hl ds.n && blocksShapeOk ds.links ds.n && blocksShapeOk ds.parents ds.n &&
      blocksShapeOk ds.rate ds.n && blocksShapeOk ds.cf ds.n && blocksShapeOk ds.cif ds.n),
    ("w1", allBlocks ds.cx (checkInvBlock ds.cx ds.cix)),
    ("w2", allBlocks ds.cx (checkDiagBlock ds.cx ds.rate ds.parents)),
    ("w3", allBlocks ds.hl (checkRatesBlock ds)),
    ("w6", allBlocks ds.cx (checkStableBlock ds.cx ds.rate)),
    ("w47", allBlocks ds.links (checkLinksBlock ds)),
    ("wpar", allBlocks ds.links (checkParentsBlock ds) && allBlocks ds.parents (checkParentsBlock ds)),
    ("w5", allBlocks ds.cx (checkPatternBlock ds)),
    ("rates", ratesNonneg ds.rate) ]

/-- **the executable well-formedness predicate** -/
def wellFormedB (ds : Dataset) : Bool := (wfVerdicts ds).all (·.2)

/-- split a flat list into blocks of `blockSize` (the layout `Dataset` uses) -/
def toBlocks {α} (l : List α) : List (List α) :=
  go l.length l
where
  go : Nat → List α → List (List α)
    | 0, _ => []
    | _, [] => []
    | f + 1, l => l.take blockSize :: go f (l.drop blockSize)

end RdVerif
