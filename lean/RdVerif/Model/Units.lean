/-
Model/Units.lean — unit and quantity conversion (`converters.py`, `inventory.py:209-276,
292-390`) as exact rational functions over the *generated* unit tables, and the specification
tables written from the property statement (SI prefixes, 1 Ci = 3.7e10 Bq, 1 dpm = 1/60 Bq,
t = ton = Mg, u = micro, time spellings).  Core Lean only.
-/
import RdVerif.Model.Entry
import RdVerif.Gen.Units

namespace RdVerif
open Gen

/-! ### specification tables -/

def siPrefixes : List (String × Rat) :=
  [("p", 1 / 1000000000000), ("n", 1 / 1000000000), ("μ", 1 / 1000000), ("u", 1 / 1000000),
   ("m", 1 / 1000), ("", 1), ("k", 1000), ("M", 1000000), ("G", 1000000000),
   ("T", 1000000000000), ("P", 1000000000000000), ("E", 1000000000000000000)]

def withBase (base : String) (scale : Rat) (ps : List (String × Rat)) : List (String × Rat) :=
  ps.map (fun p => (p.1 ++ base, p.2 * scale))

def specActivity : List (String × Rat) :=
  withBase "Bq" 1 siPrefixes ++ withBase "Ci" 37000000000 siPrefixes ++ [("dpm", 1 / 60)]

def specMass : List (String × Rat) :=
  withBase "g" 1 (siPrefixes.take 8) ++ [("t", 1000000), ("ton", 1000000)]

def specMoles : List (String × Rat) := withBase "mol" 1 (siPrefixes.take 8)

/-- seconds per unit, with year-based units counted in *days·86400* (the year length is applied
separately, as the code does) -/
def specTime : List (String × Rat) :=
  [("ps", 1 / 1000000000000), ("ns", 1 / 1000000000), ("μs", 1 / 1000000), ("us", 1 / 1000000),
   ("ms", 1 / 1000), ("s", 1), ("sec", 1), ("second", 1), ("seconds", 1), ("m", 60),
   ("h", 3600), ("hr", 3600), ("hour", 3600), ("hours", 3600), ("d", 86400), ("day", 86400),
   ("days", 86400), ("y", 86400), ("yr", 86400), ("year", 86400), ("years", 86400),
   ("ky", 86400 * 1000), ("My", 86400 * 1000000), ("By", 86400 * 1000000000),
   ("Gy", 86400 * 1000000000), ("Ty", 86400 * 1000000000000), ("Py", 86400 * 1000000000000000)]

def specYearUnits : List String := ["y", "yr", "year", "years", "ky", "My", "By", "Gy", "Ty", "Py"]

/-! ### table lookups -/

def lookupU (tbl : List UEntry) (u : String) : Option Rat := (tbl.find? (fun e => e.name == u)).map (·.val)
def lookupSpec (tbl : List (String × Rat)) (u : String) : Option Rat := (tbl.find? (fun e => e.1 == u)).map (·.2)

/-- the two variants of the converter classes -/
structure UnitTables where
  time : List UEntry
  activity : List UEntry
  mass : List UEntry
  moles : List UEntry
  yearUnits : List String

def tablesF : UnitTables := ⟨timeUnitsF, activityUnitsF, massUnitsF, molesUnitsF, yearUnitsF⟩
def tablesS : UnitTables := ⟨timeUnitsS, activityUnitsS, massUnitsS, molesUnitsS, yearUnitsS⟩

/-- `value * factor_from / factor_to` with the `ValueError`s of `converters.py:109-212` -/
def unitConv (tbl : List UEntry) (x : Rat) (ufrom uto : String) : Py Rat :=
  match lookupU tbl ufrom with
  | none => .error .value
  | some f =>
    match lookupU tbl uto with
    | none => .error .value
    | some t => .ok (x * f / t)

/-- `time_unit_conv` (`converters.py:62-107`) -/
def timeConv (T : UnitTables) (x : Rat) (ufrom uto : String) (year : Rat) : Py Rat :=
  match lookupU T.time ufrom with
  | none => .error .value
  | some f =>
    match lookupU T.time uto with
    | none => .error .value
    | some t =>
      let f' := if T.yearUnits.contains ufrom then f * year else f
      let t' := if T.yearUnits.contains uto then t * year else t
      .ok (x * f' / t')

/-- the branch of `_convert_to_number` a unit string selects (in the order of the `elif`s) -/
def kindOf (T : UnitTables) (u : String) : UnitKind :=
  if u == "num" then .num
  else if (lookupU T.activity u).isSome then .activity
  else if (lookupU T.moles u).isSome then .moles
  else if (lookupU T.mass u).isSome then .mass
  else .unknown

/-- constructor conversion of one amount to atoms -/
def toNumber (T : UnitTables) (avogadro : Rat) (u : String) (x lam mass : Rat) : Py Rat :=
  match kindOf T u with
  | .num => .ok x
  | .activity => if lam == 0 then .error .value else do
      let a ← unitConv T.activity x u "Bq"; pure (a / lam)
  | .moles => do let m ← unitConv T.moles x u "mol"; pure (m * avogadro)
  | .mass => do let g ← unitConv T.mass x u "g"; pure (g / mass * avogadro)
  | .unknown => .error .value

/-- read-outs `activities(u)`, `masses(u)`, `moles(u)` of one amount of atoms -/
def readActivity (T : UnitTables) (u : String) (N lam : Rat) : Py Rat := unitConv T.activity (N * lam) "Bq" u
def readMass (T : UnitTables) (avogadro : Rat) (u : String) (N mass : Rat) : Py Rat :=
  unitConv T.mass (N / avogadro * mass) "g" u
def readMoles (T : UnitTables) (avogadro : Rat) (u : String) (N : Rat) : Py Rat :=
  unitConv T.moles (N / avogadro) "mol" u

/-! ### decidable facts about the generated tables -/

/-- the generated table has exactly the entries of the specification (same names, values within
`rel` of the specified value; `rel = 0` for the exact SymPy tables) -/
def tableMatches (rel : Rat) (gen : List UEntry) (spec : List (String × Rat)) : Bool :=
  gen.length == spec.length &&
  gen.all (fun e => match lookupSpec spec e.name with
    | some v => decide (ratAbsU (e.val - v) ≤ rel * v)
    | none => false) &&
  spec.all (fun s => (lookupU gen s.1).isSome)
where
  ratAbsU (q : Rat) : Rat := if q < 0 then -q else q

def namesOf (t : List UEntry) : List String := t.map (·.name)

def disjointNames (a b : List String) : Bool := a.all (fun x => !b.contains x)

def sameSet (a b : List String) : Bool := a.all b.contains && b.all a.contains

end RdVerif
