/-
Model/World.lean — the process state the library's public operations act on (C11), and
equality / hashing of nuclides, inventories and datasets (C17).

`World` = the shared dataset's pre-allocated templates (`vector_n0`, `matrix_e` diagonal) plus a
heap of live inventories.  Calculations copy the templates and build new objects; mutators
compute a new contents list and assign it only when every step succeeded.  Core Lean only.
-/
import RdVerif.Model.Inventory

namespace RdVerif

/-- every public operation that only reads (its numerical result is other properties' business) -/
inductive ReadKind
  | numbers | activities | masses | moles | fractions | halfLives | progeny | decay | cumulativeDecays
  | timeSeries | plotData | toCsv | len | nuclides | repr
  deriving DecidableEq, Repr

inductive Op (α : Type)
  | new (h : Nat) (cls : Cls) (ds : Nat) (contents : Contents α)    -- constructor, argument already validated
  | add (h : Nat) (arg : Contents α)
  | sub (h : Nat) (arg : Contents α)
  | remove (h : Nat) (ns : List Name)
  | plus (dst a b : Nat)
  | minus (dst a b : Nat)
  | mul (dst a : Nat) (c : α)
  | div (dst a : Nat) (c : α)
  | read (h : Nat) (k : ReadKind)
  | failArg (h : Nat)                 -- a mutator whose argument is rejected while being parsed/validated

structure World (α : Type) where
  tmplN0 : List α          -- DecayMatrices.vector_n0 (all zeros)
  tmplE : List α           -- diagonal of DecayMatrices.matrix_e (all zeros)
  heap : List (Nat × Inv α)

inductive Out (α : Type)
  | done
  | value (c : Contents α)      -- what a reader saw
  | err (e : PyErr)

def World.get {α} (w : World α) (h : Nat) : Option (Inv α) := (w.heap.find? (fun p => p.1 == h)).map (·.2)

def World.set {α} (w : World α) (h : Nat) (i : Inv α) : World α :=
  { w with heap := (h, i) :: w.heap.filter (fun p => !(p.1 == h)) }

/-- a calculation: copies of the templates are written, the templates are not (`.copy()` at
`inventory.py:690, 698`); returns what the calculation read -/
def calcRead {α} (w : World α) (i : Inv α) : Contents α :=
  let _n0copy := w.tmplN0        -- vector_n0.copy(), then written
  let _ecopy := w.tmplE          -- matrix_e.copy(), then written
  i.contents

def step {α} [Add α] [Neg α] [Mul α] [Div α] (w : World α) : Op α → World α × Out α
  | .new h cls ds c => (w.set h { cls := cls, ds := ds, contents := sortContents c }, .done)
  | .add h arg =>
    match w.get h with
    | none => (w, .err .other)
    | some i => match i.addContents arg with
      | .ok i' => (w.set h i', .done)
      | .error e => (w, .err e)
  | .sub h arg =>
    match w.get h with
    | none => (w, .err .other)
    | some i => match i.subContents arg with
      | .ok i' => (w.set h i', .done)
      | .error e => (w, .err e)
  | .remove h ns =>
    match w.get h with
    | none => (w, .err .other)
    | some i => match i.remove ns with
      | .ok i' => (w.set h i', .done)
      | .error e => (w, .err e)
  | .plus dst a b =>
    match w.get a, w.get b with
    | some x, some y => match x.plus y with
      | .ok z => (w.set dst z, .done)
      | .error e => (w, .err e)
    | _, _ => (w, .err .other)
  | .minus dst a b =>
    match w.get a, w.get b with
    | some x, some y => match x.minus y with
      | .ok z => (w.set dst z, .done)
      | .error e => (w, .err e)
    | _, _ => (w, .err .other)
  | .mul dst a c =>
    match w.get a with
    | some x => (w.set dst (x.smul c), .done)
    | none => (w, .err .other)
  | .div dst a c =>
    match w.get a with
    | some x => (w.set dst (x.sdiv c), .done)
    | none => (w, .err .other)
  | .read h _ =>
    match w.get h with
    | some i => (w, .value (calcRead w i))
    | none => (w, .err .other)
  | .failArg _ => (w, .err .value)

def run {α} [Add α] [Neg α] [Mul α] [Div α] (w : World α) : List (Op α) → World α
  | [] => w
  | op :: ops => run (step w op).1 ops

/-- handles an operation may write -/
def Op.target {α} : Op α → Option Nat
  | .new h .. => some h | .add h _ => some h | .sub h _ => some h | .remove h _ => some h
  | .plus d .. => some d | .minus d .. => some d | .mul d .. => some d | .div d .. => some d
  | .read .. => none | .failArg _ => none

/-! ### equality and hashing (C17) -/

/-- the things `==` may be asked to compare -/
inductive Obj (α : Type)
  | nuclide (name : Name) (ds : Nat) (dsName : Nat)
  | inventory (i : Inv α)
  | dataset (ds : Nat)
  | foreign (tag : Nat)          -- any unrelated Python object (int, str, None, …), by identity

/-- `a == b` as Python evaluates it: the class's `__eq__`, or — when both sides answer
`NotImplemented` — identity (`tag`) -/
def Obj.eq {α} [BEq α] : Obj α → Obj α → Bool
  | .nuclide n d _, .nuclide n' d' _ => n == n' && d == d'
  | .inventory i, .inventory j => i.eq j
  | .dataset d, .dataset d' => d == d'
  | .foreign t, .foreign t' => t == t'
  | _, _ => false

/-- `a != b` -/
def Obj.ne {α} [BEq α] (a b : Obj α) : Bool := !(a.eq b)

/-- `hash(nuclide)` = hash of `(name, dataset_name)`; the model keeps the pair itself -/
def nuclideHashKey {α} : Obj α → Option (Name × Nat)
  | .nuclide n _ dn => some (n, dn)
  | _ => none

end RdVerif
