/-
Model/Queries.lean — decay-data queries (`decaydata.py:465-582`): half-life in a unit,
branching fraction / decay mode of a parent–progeny pair by linear search of the progeny list,
and the meaning of the human-readable half-life string.  Core Lean only.
-/
import RdVerif.Model.Dataset
import RdVerif.Model.Units

namespace RdVerif

/-- the first listed link to `n` (what the `for … if prog == progeny: return` loops find) -/
def linkOf (ls : List Link) (n : List Nat) : Option Link := ls.find? (fun l => l.name == n)

/-- `DecayData.branching_fraction` for already parsed names: the listed value, else 0.0 -/
def bfQuery (ls : List Link) (n : List Nat) : Rat := match linkOf ls n with | some l => l.bf | none => 0

/-- `DecayData.decay_mode`: the listed label, else "" -/
def modeQuery (ls : List Link) (n : List Nat) : String := match linkOf ls n with | some l => l.mode | none => ""

/-- seconds per time unit, every documented spelling (specification table of `Model/Units.lean`) -/
def unitSecondsFull (yearDays : Rat) (u : String) : Option Rat :=
  (lookupSpec specTime u).map (fun f => if specYearUnits.contains u then f * yearDays else f)

/-- exact half-life in `unit`: stored value × (seconds per stored unit) / (seconds per unit);
`none` = infinite (stable) -/
def halfLifeIn (yearDays : Rat) (h : HL) (unit : String) : Option (Option Rat) :=
  match h.val with
  | none => some none
  | some v =>
    match unitSecondsFull yearDays h.unit, unitSecondsFull yearDays unit with
    | some a, some b => some (some (v * a / b))
    | _, _ => none

/-- decimal literal `digits[.digits]` -/
def parseDecimal (s : List Nat) : Option Rat :=
  let ip := s.takeWhile isDig
  let rest := s.dropWhile isDig
  if ip.isEmpty then none
  else match rest with
    | [] => some (digitsVal ip : Rat)
    | 46 :: fp =>
      if fp.isEmpty || !fp.all isDig then none
      else some ((digitsVal ip : Rat) + (digitsVal fp : Rat) / ((10 ^ fp.length : Nat) : Rat))
    | _ => none

/-- the readable string denotes the stored duration: `'<decimal> <unit>'` with
decimal × seconds(unit) = stored value × seconds(stored unit); `'stable'` iff stable -/
def readableOk (yearDays : Rat) (h : HL) : Bool :=
  match h.val with
  | none => h.readable == "stable"
  | some v =>
    let cs := h.readable.toList.map Char.toNat
    let num := cs.takeWhile (fun c => c != 32)
    let unit := unS ((cs.dropWhile (fun c => c != 32)).drop 1)
    match parseDecimal num, unitSeconds yearDays unit, unitSeconds yearDays h.unit with
    | some d, some su, some sv => d * su == v * sv
    | _, _, _ => false

def checkReadableBlock (ds : Dataset) (b : Nat) : Bool :=
  checkBlockItems (fun _ h => readableOk ds.yearX h) ds.hl b

end RdVerif
