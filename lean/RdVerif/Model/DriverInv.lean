/-
Model/DriverInv.lean — line-protocol front end of the inventory state machine
(`Model/World.lean`), instantiated with IEEE doubles (bit patterns on the wire) and with exact
rationals.
-/
import RdVerif.Model.World

namespace RdVerif.DriverInv

structure Codec (α : Type) where
  dec : String → Option α
  enc : α → String

def floatCodec : Codec Float :=
  { dec := fun s => s.toNat?.map (fun n => Float.ofBits n.toUInt64),
    enc := fun x => toString x.toBits.toNat }

def ratCodec : Codec Rat :=
  { dec := fun t => match t.splitOn "/" with
      | [p] => p.toInt?.map (fun n => (n : Rat))
      | [p, q] => do let n ← p.toInt?; let d ← q.toNat?; if d == 0 then none else pure (mkRat n d)
      | _ => none,
    enc := fun q => s!"{q.num}/{q.den}" }

def decName (t : String) : Option Name := if t == "-" then some [] else (t.splitOn ".").mapM (·.toNat?)
def encName (l : Name) : String := if l.isEmpty then "-" else ".".intercalate (l.map toString)

/-- `name:val;name:val` ("-" = empty) -/
def decContents {α} (c : Codec α) (t : String) : Option (Contents α) :=
  if t == "-" then some [] else
  (t.splitOn ";").mapM (fun item => match item.splitOn ":" with
    | [n, v] => do let n ← decName n; let v ← c.dec v; pure (n, v)
    | _ => none)

def encContents {α} (c : Codec α) (l : Contents α) : String :=
  if l.isEmpty then "-" else ";".intercalate (l.map (fun p => encName p.1 ++ ":" ++ c.enc p.2))

def encOut {α} (c : Codec α) : Out α → String
  | .done => "done"
  | .value v => "value " ++ encContents c v
  | .err e => "err " ++ e.name

def decCls : String → Option Cls
  | "float" => some .float | "hp" => some .hp | _ => none

def decOp {α} (c : Codec α) : List String → Option (Op α)
  | ["new", h, cls, ds, cont] => do
      let h ← h.toNat?; let cls ← decCls cls; let ds ← ds.toNat?; let cont ← decContents c cont
      pure (.new h cls ds cont)
  | ["add", h, cont] => do let h ← h.toNat?; let cont ← decContents c cont; pure (.add h cont)
  | ["sub", h, cont] => do let h ← h.toNat?; let cont ← decContents c cont; pure (.sub h cont)
  | "remove" :: h :: ns => do let h ← h.toNat?; let ns ← ns.mapM decName; pure (.remove h ns)
  | ["plus", d, a, b] => do let d ← d.toNat?; let a ← a.toNat?; let b ← b.toNat?; pure (.plus d a b)
  | ["minus", d, a, b] => do let d ← d.toNat?; let a ← a.toNat?; let b ← b.toNat?; pure (.minus d a b)
  | ["mul", d, a, k] => do let d ← d.toNat?; let a ← a.toNat?; let k ← c.dec k; pure (.mul d a k)
  | ["div", d, a, k] => do let d ← d.toNat?; let a ← a.toNat?; let k ← c.dec k; pure (.div d a k)
  | ["read", h] => do let h ← h.toNat?; pure (.read h .numbers)
  | ["fail", h] => do let h ← h.toNat?; pure (.failArg h)
  | _ => none

def showInv {α} (c : Codec α) (w : World α) (h : Nat) : String :=
  match w.get h with
  | some i => s!"{if i.cls == .hp then "hp" else "float"} {i.ds} {encContents c i.contents}"
  | none => "absent"

def emptyWorld {α} : World α := { tmplN0 := [], tmplE := [], heap := [] }

/-- one request against a world; returns the new world and the response -/
def handle {α} [Add α] [Neg α] [Mul α] [Div α] [BEq α] (c : Codec α) (w : World α) : List String → World α × String
  | ["show", h] => (w, match h.toNat? with | some h => showInv c w h | none => "bad-request")
  | ["eq", a, b] =>
    match a.toNat?, b.toNat? with
    | some a, some b => (w, match w.get a, w.get b with
        | some x, some y => if x.eq y then "true" else "false"
        | _, _ => "absent")
    | _, _ => (w, "bad-request")
  | ["objeq", a, b] =>
    let dec (t : String) : Option (Obj α) := match t.splitOn "," with
      | ["n", name, ds, dn] => do let n ← decName name; let d ← ds.toNat?; let k ← dn.toNat?; pure (.nuclide n d k)
      | ["i", h] => do let h ← h.toNat?; let i ← w.get h; pure (.inventory i)
      | ["d", ds] => ds.toNat?.map Obj.dataset
      | ["f", t] => t.toNat?.map Obj.foreign
      | _ => none
    (w, match dec a, dec b with
      | some x, some y => s!"{x.eq y} {x.ne y} {(nuclideHashKey x == nuclideHashKey y)}"
      | _, _ => "bad-request")
  | ["reset"] => (emptyWorld, "done")
  | req =>
    match decOp c req with
    | some op => let r := step w op; (r.1, encOut c r.2)
    | none => (w, "bad-request")

end RdVerif.DriverInv
