/-
Model/Labels.lean — the texts on the decay-chain diagram (`plots._parse_nuclide_label`,
`plots._parse_decay_mode_label`, and the two-line node / edge labels assembled in
`nuclide._build_decay_digraph`).  Strings are lists of code points; the substitution tables are
read from the source on every run (`Gen/Labels.lean`).  Core Lean only.
-/
import RdVerif.Model.Py
import RdVerif.Gen.Labels

namespace RdVerif

/-- `nuclide_conversion[char]` -/
def supChar (c : Nat) : Option Nat := (Gen.nuclideSup.find? (fun p => p.1 == c)).map (·.2)

/-- `element, isotope = nuclide.split("-")`: exactly one hyphen -/
def splitHyphen (s : List Nat) : Option (List Nat × List Nat) :=
  let el := s.takeWhile (· != 45)
  match s.dropWhile (· != 45) with
  | _ :: rest => if rest.contains 45 then none else some (el, rest)
  | [] => none

/-- `_parse_nuclide_label`: superscripted mass number and state, then the element symbol; `none` where the
Python code raises (no / several hyphens: ValueError; a character without superscript: KeyError) -/
def nuclideLabel (name : List Nat) : Option (List Nat) :=
  if name == Gen.labelSpecialName then some Gen.labelSpecialText
  else match splitHyphen name with
    | some (el, iso) => (iso.mapM supChar).map (· ++ el)
    | none => none

/-- does `pat` start `s`? -/
def startsWith : List Nat → List Nat → Bool
  | _, [] => true
  | [], _ :: _ => false
  | a :: s, b :: p => a == b && startsWith s p

/-- Python `str.replace(old, new)` (left to right, non-overlapping; `old` non-empty) -/
def replaceAll (fuel : Nat) (s old new : List Nat) : List Nat :=
  match fuel, s with
  | 0, _ => s
  | _, [] => []
  | f + 1, c :: rest =>
    if !old.isEmpty && startsWith (c :: rest) old then new ++ replaceAll f ((c :: rest).drop old.length) old new
    else c :: replaceAll f rest old new

/-- `_parse_decay_mode_label`: the substitutions applied one after another, in table order -/
def modeLabel (mode : List Nat) : List Nat :=
  Gen.modeConv.foldl (fun m p => replaceAll (m.length + 1) m p.1 p.2) mode

/-- node label: nuclide label, newline, readable half-life -/
def nodeLabelText (name readable : List Nat) : Option (List Nat) :=
  (nuclideLabel name).map (· ++ [10] ++ readable)

end RdVerif
