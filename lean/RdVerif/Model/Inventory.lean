/-
Model/Inventory.lean — inventory arithmetic (`inventory.py:451-670`, `utils.py:515-579`) over an
abstract amount type: alphabetically sorted association list + class tag + dataset identity.
The driver instantiates the amounts with IEEE doubles (`Float`) for the double-precision class
and with exact rationals for the high-precision class.  Core Lean only.
-/
import RdVerif.Model.Entry

namespace RdVerif

abbrev Name := List Nat

/-- Python `str` ordering: lexicographic by code point -/
def nameLt : Name → Name → Bool
  | [], [] => false
  | [], _ :: _ => true
  | _ :: _, [] => false
  | a :: as, b :: bs => if a < b then true else if b < a then false else nameLt as bs

abbrev Contents (α : Type) := List (Name × α)

/-- `dict.get(name)` -/
def Contents.get? {α} (c : Contents α) (n : Name) : Option α := (c.find? (fun p => p.1 == n)).map (·.2)

/-- abstraction to the multiset-of-atoms specification: amount of `n`, zero if absent -/
def Contents.amount {α} [OfNat α 0] (c : Contents α) (n : Name) : α := (c.get? n).getD 0

def Contents.keys {α} (c : Contents α) : List Name := c.map (·.1)

/-- `utils.add_dictionaries`: copy of `a`; every entry of `b` is added to the entry of the same
name, or appended if there is none -/
def addDictionaries {α} [Add α] (a : Contents α) : Contents α → Contents α
  | [] => a
  | (n, x) :: b =>
    addDictionaries (if a.any (fun p => p.1 == n)
      then a.map (fun p => if p.1 == n then (p.1, p.2 + x) else p)
      else a ++ [(n, x)]) b

/-- insertion into a list sorted by name (stable: after equal names) -/
def insertSorted {α} (p : Name × α) : Contents α → Contents α
  | [] => [p]
  | q :: r => if nameLt p.1 q.1 then p :: q :: r else q :: insertSorted p r

/-- `utils.sort_dictionary_alphabetically` (`sorted` is stable) -/
def sortContents {α} (c : Contents α) : Contents α := c.foldl (fun acc p => insertSorted p acc) []

/-- strictly increasing names -/
def Contents.sorted {α} : Contents α → Bool
  | [] => true
  | [_] => true
  | p :: q :: r => nameLt p.1 q.1 && Contents.sorted (q :: r)

structure Inv (α : Type) where
  cls : Cls
  ds : Nat            -- identity of the dataset the inventory is bound to
  contents : Contents α
  deriving Repr, DecidableEq

/-- `self.__class__(new_contents, "num", False, self.decay_data)`: sorts, no checks -/
def Inv.rebuild {α} (i : Inv α) (c : Contents α) : Inv α := { i with contents := sortContents c }

/-- `__add__` -/
def Inv.plus {α} [Add α] (a b : Inv α) : Py (Inv α) :=
  if a.ds != b.ds then .error .value else .ok (a.rebuild (addDictionaries a.contents b.contents))

/-- `__sub__`: the other's amounts are negated (`-x` for SymPy values, `x * -1.0` for floats —
both are `neg`), then added -/
def Inv.minus {α} [Add α] [Neg α] (a b : Inv α) : Py (Inv α) :=
  if a.ds != b.ds then .error .value
  else .ok (a.rebuild (addDictionaries a.contents (b.contents.map (fun p => (p.1, -p.2)))))

/-- `__mul__` / `__rmul__` -/
def Inv.smul {α} [Mul α] (a : Inv α) (c : α) : Inv α := a.rebuild (a.contents.map (fun p => (p.1, p.2 * c)))

/-- `__truediv__` -/
def Inv.sdiv {α} [Div α] (a : Inv α) (c : α) : Inv α := a.rebuild (a.contents.map (fun p => (p.1, p.2 / c)))

/-- `remove` of already parsed names: each must be present at its turn (a name listed twice
fails the second time); the inventory is replaced only if all succeed -/
def removeNames {α} : Contents α → List Name → Py (Contents α)
  | c, [] => .ok c
  | c, n :: ns => if c.any (fun p => p.1 == n) then removeNames (c.filter (fun p => !(p.1 == n))) ns
                  else .error .value

def Inv.remove {α} (a : Inv α) (ns : List Name) : Py (Inv α) := do
  let c ← removeNames a.contents ns
  pure { a with contents := c }

/-- `add` / `subtract`: a temporary inventory of the same class is built from the (already
parsed and converted) argument — duplicate names refused — then `+` / `−` -/
def nodupNames : List Name → Bool
  | [] => true
  | n :: r => !r.contains n && nodupNames r

def Inv.addContents {α} [Add α] (a : Inv α) (arg : Contents α) : Py (Inv α) :=
  if !nodupNames arg.keys then .error .value
  else a.plus { cls := a.cls, ds := a.ds, contents := sortContents arg }

def Inv.subContents {α} [Add α] [Neg α] (a : Inv α) (arg : Contents α) : Py (Inv α) :=
  if !nodupNames arg.keys then .error .value
  else a.minus { cls := a.cls, ds := a.ds, contents := sortContents arg }

/-- `__eq__` of two inventories: same contents (as dicts: same keys, equal values) and equal
datasets; the class is *not* compared -/
def dictEq {α} [BEq α] (a b : Contents α) : Bool :=
  a.length == b.length && a.all (fun p => match b.get? p.1 with | some y => p.2 == y | none => false)

def Inv.eq {α} [BEq α] (a b : Inv α) : Bool := dictEq a.contents b.contents && a.ds == b.ds

end RdVerif
