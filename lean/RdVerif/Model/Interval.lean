/-
Model/Interval.lean — rational enclosures of `exp(−x)` and of `ln 2` with outward rounding, and
the interval evaluation of the closed-form solution.  Executable, core Lean only; soundness over
ℝ is proved in `Proofs/Interval.lean`.
-/
import RdVerif.Model.Dataset

namespace RdVerif

/-- round down / up to a multiple of `2^-P` -/
def rdown (P : Nat) (q : Rat) : Rat := ((q * ((2 ^ P : Nat) : Rat)).floor : Rat) / ((2 ^ P : Nat) : Rat)
def rup (P : Nat) (q : Rat) : Rat := ((q * ((2 ^ P : Nat) : Rat)).ceil : Rat) / ((2 ^ P : Nat) : Rat)

def factorial : Nat → Nat
  | 0 => 1
  | n + 1 => (n + 1) * factorial n

/-- Taylor partial sum `Σ_{m<n} y^m/m!` -/
def taylor (y : Rat) : Nat → Rat
  | 0 => 0
  | n + 1 => taylor y n + y ^ n / (factorial n : Rat)

/-- enclosure of `exp y` for `0 ≤ y ≤ 1`, `n ≥ 1` terms (`Real.exp_bound'`) -/
def expEncl01 (y : Rat) (n : Nat) : Rat × Rat :=
  (taylor y n, taylor y n + y ^ n * ((n : Rat) + 1) / ((factorial n : Rat) * (n : Rat)))

def sqDown (P : Nat) : Nat → Rat → Rat
  | 0, v => v
  | k + 1, v => sqDown P k (rdown P (v * v))

def sqUp (P : Nat) : Nat → Rat → Rat
  | 0, v => v
  | k + 1, v => sqUp P k (rup P (v * v))

/-- enclosure of `exp(−x)` for every `x ∈ [xlo, xhi]`, `0 ≤ xlo ≤ xhi`: halve `k` times into
[0,1], Taylor with `n` terms, square `k` times with outward rounding to `P` bits, invert.
Falls back to the trivial enclosure `[0, 1]` when a side condition fails, and to
`[0, 2^-1100]` for `x ≥ 800`. -/
def expNegEncl (P n k : Nat) (xlo xhi : Rat) : Rat × Rat :=
  if xlo < 0 || xhi < xlo || n == 0 then (0, 1)
  else if 800 ≤ xlo then (0, 1 / ((2 ^ 1100 : Nat) : Rat))
  else
    let ylo := rdown P (xlo / ((2 ^ k : Nat) : Rat))
    let yhi := rup P (xhi / ((2 ^ k : Nat) : Rat))
    if ylo < 0 || 1 < yhi then (0, 1)
    else
      let lo := sqDown P k (rdown P (expEncl01 ylo n).1)
      let hi := sqUp P k (rup P (expEncl01 yhi n).2)
      if lo ≤ 0 then (0, 1) else (rdown P (1 / hi), rup P (1 / lo))

/-- `Σ_{m=1}^{n} 1/(m 2^m)` (→ ln 2 from below; the tail is below `2^-n`) -/
def ln2Series : Nat → Rat
  | 0 => 0
  | n + 1 => ln2Series n + 1 / (((n + 1 : Nat) : Rat) * ((2 ^ (n + 1) : Nat) : Rat))

/-- candidate bounds for ln 2 from `n` series terms, returned only if the exp-enclosure (Taylor
with `m` terms) certifies them: `exp a ≤ 2 ≤ exp b` -/
def ln2Encl (P n m : Nat) : Option (Rat × Rat) :=
  let a := rdown P (ln2Series n)
  let b := rup P (ln2Series n + 1 / ((2 ^ n : Nat) : Rat))
  if 0 ≤ a && a ≤ 1 && 0 ≤ b && b ≤ 1 && 0 < m &&
     (expEncl01 a m).2 ≤ 2 && 2 ≤ (expEncl01 b m).1 then some (a, b) else none

/-- interval product of a rational with a non-negative interval -/
def scaleIv (a : Rat) (iv : Rat × Rat) : Rat × Rat :=
  if 0 ≤ a then (a * iv.1, a * iv.2) else (a * iv.2, a * iv.1)

def addIv (x y : Rat × Rat) : Rat × Rat := (x.1 + y.1, x.2 + y.2)

/-! ### closed-form solution on a dataset -/

/-- sparse initial vector: (index, atoms) -/
abbrev N0 := List (Nat × Rat)

def n0At (v : N0) (j : Nat) : Rat := (v.filter (fun p => p.1 == j)).foldl (fun s p => s + p.2) 0

/-- `(C⁻¹ N0)_k` -/
def cinvN0 (ds : Dataset) (v : N0) (k : Nat) : Rat :=
  (getRow ds.cix k).foldl (fun s e => s + e.val * n0At v e.col) 0

/-- exact coefficients of nuclide `i`: `[(k, C_ik (C⁻¹N0)_k)]`, so that
`N_i(t) = Σ_k a_ik · exp(−r_k ln2 · t)` -/
def coeffs (ds : Dataset) (v : N0) (i : Nat) : List (Nat × Rat) :=
  (getRow ds.cx i).map (fun e => (e.col, e.val * cinvN0 ds v e.col))

/-- indices the decayed inventory holds: every `i` whose row of the *float* matrix `C` has a
column among the input indices (this is how `_setup_decay_calc` takes the closure) -/
def decayIndices (ds : Dataset) (inputs : List Nat) : List Nat :=
  (List.range ds.n).filter (fun i => (get2 ds.cf i []).any (fun x => inputs.contains x.col))

/-- parameters of the enclosure: bits, Taylor terms, extra halvings, ln 2 enclosure -/
structure EvalCfg where
  P : Nat
  n : Nat
  extra : Nat
  ln2 : Rat × Rat

def log2Ceil (q : Rat) : Nat := if q ≤ 1 then 0 else (q.ceil.toNat).log2 + 1

/-- enclosure of `exp(−r·ln2·t)` -/
def decayFactor (cfg : EvalCfg) (r t : Rat) : Rat × Rat :=
  let xlo := r * t * cfg.ln2.1
  let xhi := r * t * cfg.ln2.2
  expNegEncl cfg.P cfg.n (log2Ceil xhi + cfg.extra) xlo xhi

/-- enclosure of `N_i(t)` -/
def solEncl (ds : Dataset) (cfg : EvalCfg) (v : N0) (t : Rat) (i : Nat) : Rat × Rat :=
  (coeffs ds v i).foldl (fun s p => addIv s (scaleIv p.2 (decayFactor cfg (get2 ds.rate p.1 0) t))) (0, 0)

/-- enclosure of `(1 − exp(−x))` from an enclosure of `exp(−x)` -/
def oneMinus (iv : Rat × Rat) : Rat × Rat := (1 - iv.2, 1 - iv.1)

/-- the same with the exponential factors computed once per distinct `k` (what the driver runs) -/
def factorTable (ds : Dataset) (cfg : EvalCfg) (t : Rat) (ks : List Nat) : List (Nat × (Rat × Rat)) :=
  ks.map (fun k => (k, decayFactor cfg (get2 ds.rate k 0) t))

def lookupFactor (tbl : List (Nat × (Rat × Rat))) (k : Nat) : Rat × Rat :=
  match tbl.find? (fun p => p.1 == k) with
  | some p => p.2
  | none => (0, 1)

def solEnclT (ds : Dataset) (tbl : List (Nat × (Rat × Rat))) (v : N0) (i : Nat) : Rat × Rat :=
  (coeffs ds v i).foldl (fun s p => addIv s (scaleIv p.2 (lookupFactor tbl p.1))) (0, 0)

def cumEnclT (ds : Dataset) (tbl : List (Nat × (Rat × Rat))) (v : N0) (i : Nat) : Rat × Rat :=
  let ri := get2 ds.rate i 0
  (coeffs ds v i).foldl (fun s p =>
    let rk := get2 ds.rate p.1 0
    if rk == 0 then s
    else addIv s (scaleIv (ri / rk * p.2) (oneMinus (lookupFactor tbl p.1)))) (0, 0)


/-- enclosure of the cumulative decays of `i` (radioactive `i`):
`Σ_k (r_i / r_k) · a_ik · (1 − exp(−r_k ln2 t))` over radioactive `k` (ln 2 cancels) -/
def cumEncl (ds : Dataset) (cfg : EvalCfg) (v : N0) (t : Rat) (i : Nat) : Rat × Rat :=
  let ri := get2 ds.rate i 0
  (coeffs ds v i).foldl (fun s p =>
    let rk := get2 ds.rate p.1 0
    if rk == 0 then s
    else addIv s (scaleIv (ri / rk * p.2) (oneMinus (decayFactor cfg rk t)))) (0, 0)

end RdVerif
