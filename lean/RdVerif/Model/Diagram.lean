/-
Model/Diagram.lean — the decay-chain diagram builder `_build_decay_digraph`
(`nuclide.py:419-506`): breadth-first construction with three parallel queues, a `seen` set and
per-generation x-position bookkeeping; plus an independent specification (set-based reachability
and layered distances) against which the builder is checked.  Core Lean only.
-/
import RdVerif.Model.Dataset

namespace RdVerif

structure DNode where
  name : List Nat
  gen : Nat
  xpos : Nat
  deriving Repr, DecidableEq

structure DEdge where
  src : List Nat
  dst : List Nat
  mode : String
  bf : Rat
  deriving Repr, DecidableEq

structure Digraph where
  nodes : List DNode
  edges : List DEdge
  deriving Repr

/-- builder state -/
structure DState where
  queue : List (Nat × Nat × Nat)        -- (nuclide index, generation, xpos) — the three deques
  seen : List (List Nat)
  gmx : List (Nat × Int)                 -- generation_max_xpos
  nodes : List DNode                     -- reversed
  edges : List DEdge                     -- reversed

def gmxGet (g : List (Nat × Int)) (k : Nat) : Option Int := (g.find? (fun p => p.1 == k)).map (·.2)
def gmxSet (g : List (Nat × Int)) (k : Nat) (v : Int) : List (Nat × Int) :=
  (k, v) :: g.filter (fun p => !(p.1 == k))

def sfName (parent : List Nat) : List Nat := parent ++ S "_SF"

/-- the `for idx, prog in enumerate(progeny)` loop for one parent -/
def placeProgeny (ds : Dataset) (parentName : List Nat) (generation : Nat) (xpos : Nat) :
    List Link → Nat → DState → DState
  | [], _, st => st
  | l :: ls, xcounter, st =>
    if !st.seen.contains l.name then
      let inDs := l.idx.isSome
      let enqueue := match l.idx with
        | some k => get2 ds.rate k 0 != 0          -- np.isfinite(half_life(prog))
        | none => false
      let nodeName := if l.name == S "SF" then sfName parentName else l.name
      let x := xpos + xcounter
      let cur := (gmxGet st.gmx generation).getD (-1)
      let st' : DState :=
        { queue := if enqueue then st.queue ++ [((l.idx.getD 0), generation, x)] else st.queue,
          seen := nodeName :: st.seen,
          gmx := if (x : Int) > cur then gmxSet st.gmx generation x else st.gmx,
          nodes := ⟨nodeName, generation, x⟩ :: st.nodes,
          edges := ⟨parentName, nodeName, l.mode, l.bf⟩ :: st.edges }
      let _ := inDs
      placeProgeny ds parentName generation xpos ls (xcounter + 1) st'
    else
      placeProgeny ds parentName generation xpos ls xcounter
        { st with edges := ⟨parentName, l.name, l.mode, l.bf⟩ :: st.edges }

/-- the `while len(dequeue) > 0` loop, with fuel -/
def bfsLoop (ds : Dataset) : Nat → DState → DState
  | 0, st => st
  | fuel + 1, st =>
    match st.queue with
    | [] => st
    | (p, g, x) :: rest =>
      let generation := g + 1
      let gmx := if (gmxGet st.gmx generation).isNone then gmxSet st.gmx generation (-1) else st.gmx
      let cur := (gmxGet gmx generation).getD (-1)
      let xpos := (max (x : Int) (cur + 1)).toNat
      bfsLoop ds fuel (placeProgeny ds (get2 ds.names p []) generation xpos (get2 ds.links p []) 0
        { st with queue := rest, gmx := gmx })

def buildDigraph (ds : Dataset) (root : Nat) : Digraph :=
  let rootName := get2 ds.names root []
  let st := bfsLoop ds (ds.n + 1)
    { queue := [(root, 0, 0)], seen := [rootName], gmx := [(0, 0)], nodes := [⟨rootName, 0, 0⟩], edges := [] }
  { nodes := st.nodes.reverse, edges := st.edges.reverse }

/-! ### independent specification -/

/-- indices reachable from `root` by listed links, layer by layer: `layers[k]` = nuclides whose
minimum number of decays from the root is `k` -/
def childrenIdx (ds : Dataset) (i : Nat) : List Nat := (get2 ds.links i []).filterMap (·.idx)

def nextLayer (ds : Dataset) (seen layer : List Nat) : List Nat :=
  (layer.flatMap (childrenIdx ds)).foldl (fun acc c => if seen.contains c || acc.contains c then acc else acc ++ [c]) []

def layersFrom (ds : Dataset) : Nat → List Nat → List Nat → List (List Nat)
  | 0, _, _ => []
  | fuel + 1, seen, layer =>
    if layer.isEmpty then [] else layer :: layersFrom ds fuel (seen ++ nextLayer ds (seen) layer) (nextLayer ds seen layer)

def specLayers (ds : Dataset) (root : Nat) : List (List Nat) := layersFrom ds (ds.n + 1) [root] [root]

/-- expected nodes: every reachable nuclide on the row of its distance, plus one `X_SF` node per
link of a reachable nuclide to something outside the dataset, one row below its parent -/
def specNodes (ds : Dataset) (root : Nat) : List (List Nat × Nat) :=
  let ls := specLayers ds root
  let idxd := (List.range ls.length).flatMap (fun k => (ls.getD k []).map (fun i => (i, k)))
  idxd.map (fun p => (get2 ds.names p.1 [], p.2)) ++
  idxd.flatMap (fun p => (get2 ds.links p.1 []).filterMap (fun l =>
    if l.idx.isNone then some (sfName (get2 ds.names p.1 []), p.2 + 1) else none))

def specEdges (ds : Dataset) (root : Nat) : List DEdge :=
  (specLayers ds root).flatten.flatMap (fun i =>
    (get2 ds.links i []).map (fun l =>
      ⟨get2 ds.names i [], if l.idx.isNone then sfName (get2 ds.names i []) else l.name, l.mode, l.bf⟩))

def subsetOf {α} [BEq α] (a b : List α) : Bool := a.all b.contains

def nodupB {α} [BEq α] : List α → Bool
  | [] => true
  | a :: r => !r.contains a && nodupB r

/-- the diagram of `root` is exactly the decay subgraph: node set, rows = minimum distance,
edge set with labels, distinct names, no two nodes on one position -/
def diagramOk (ds : Dataset) (root : Nat) : Bool :=
  let g := buildDigraph ds root
  let gn := g.nodes.map (fun n => (n.name, n.gen))
  let sn := specNodes ds root
  let se := specEdges ds root
  gn.length == sn.length && subsetOf gn sn && subsetOf sn gn &&
  nodupB (g.nodes.map (·.name)) && nodupB (g.nodes.map (fun n => (n.gen, n.xpos))) &&
  g.edges.length == se.length && subsetOf g.edges se && subsetOf se g.edges

def checkDiagramBlock (ds : Dataset) (b : Nat) : Bool :=
  checkBlockItems (fun i _ => diagramOk ds i) ds.names b

end RdVerif
