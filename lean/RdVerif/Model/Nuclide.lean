/-
Model/Nuclide.lean — executable model of `radioactivedecay/utils.py` (nuclide strings and
canonical ids) and of the string surgery in `radioactivedecay/nuclide.py` (`Z`, `A`, `state`,
`id`).  Tables and numeric constants come from `Gen/Constants.lean`, which the translator
regenerates from the source on every run.
-/
import RdVerif.Model.Py
import RdVerif.Gen.Constants

namespace RdVerif

/-- `SYM_DICT` keys -/
def elems : List (List Ch) := Gen.zDict.map (·.2)
/-- `METASTABLE_CHARS` -/
def states : List Ch := Gen.metastableChars

/-- `Z_DICT[Z]` (`none` = `Z not in Z_DICT`) -/
def zToElem (z : Int) : Option (List Ch) :=
  if z < 0 then none else (Gen.zDict.find? (fun p => p.1 == z.toNat)).map (·.2)
/-- `SYM_DICT[sym]` -/
def elemToZ (sym : List Ch) : Py Nat :=
  match Gen.zDict.find? (fun p => p.2 == sym) with
  | some p => .ok p.1
  | none => .error .key

/-- `utils._process_metastable_element_str` (`utils.py:320-347`).  The short branch slices
(`s[:1]`, `s[1:]`), so the empty string falls through to "ground state". -/
def processMetaElem (s : List Ch) : Py (List Ch × List Ch) :=
  if s.length > 2 then
    match s with
    | c :: r => .ok ([c], r)
    | [] => .error .index
  else
    match s with
    | [] => .ok ([], [])
    | c :: r => if states.contains c && elems.contains r then .ok ([c], r) else .ok ([], s)

/-- `utils.parse_nuclide_str` (`utils.py:350-419`), step by step.  `nuclide.split(A)` with `A`
= all digits of `nuclide` yields two components iff the digits are contiguous, so the split is
modelled by `takeWhile/dropWhile` on "is a digit" and a second digit run is rejected. -/
def parseCore (s2 : List Ch) : Py (List Ch) := do
  if s2.isEmpty || !s2.all isAlnum then throw .nuclideStr
  let A := s2.filter isDig
  if A.isEmpty || digitsVal A > Gen.massCutoff then throw .nuclideStr
  let pre := s2.takeWhile (fun c => !isDig c)
  let rest := s2.dropWhile (fun c => !isDig c)
  let suf := rest.dropWhile isDig
  if suf.any isDig then throw .nuclideStr
  let (mst, element) ← if pre.isEmpty then processMetaElem suf else pure (suf, pre)
  let element := capitalize element
  if !elems.contains element then throw .nuclideStr
  if mst.length > 1 then throw .nuclideStr
  let mst := mst.map toLo
  if !(mst.isEmpty || (mst.all states.contains)) then throw .nuclideStr
  return element ++ [hy] ++ A ++ mst

/-- whitespace removal and removal of the first hyphen (`utils.py:380-381`) -/
def normalise (s : List Ch) : List Ch := eraseFirst hy (s.filter (fun c => !isWs c))

def parseNuclideStr (s : List Ch) : Py (List Ch) := parseCore (normalise s)

/-- `utils.build_nuclide_string` -/
def buildNuclideString (z : Int) (a : Int) (st : List Ch) : Py (List Ch) :=
  match zToElem z with
  | none => .error .value
  | some el =>
    -- f"{A}" of a Python int (A may be negative only when Z is invalid, which is refused above)
    let astr := if a < 0 then 45 :: natDigits a.natAbs else natDigits a.toNat
    .ok (el ++ [hy] ++ astr ++ st)

/-- the state letter of an id: `ValueError` beyond the known states, else
`get_metastable_chars()[state_digits - 1] if state_digits > 0 else ""` -/
def decodeState (k : Int) : Py (List Ch) :=
  if k > states.length then .error .value
  else if k > 0 then (do let c ← pyIndex states (k - 1); pure [c]) else pure []

/-- `utils.parse_id` (`utils.py:422-453`).  `int(x / 10000)` is float division followed by
truncation toward zero; on |x| < 2^52 that equals `Int.tdiv`. -/
def parseId (x : Int) : Py (List Ch) := do
  let zzzaaa := Int.tdiv x Gen.parseIdDivState
  let stateDigits := x - zzzaaa * Gen.parseIdDivState
  let st ← decodeState stateDigits
  let z := Int.tdiv zzzaaa Gen.parseIdDivZ
  let a := zzzaaa - z * Gen.parseIdDivZ
  buildNuclideString z a st

/-- `utils.build_id` -/
def buildId (z a : Nat) (st : List Ch) : Py Nat :=
  if st ≠ [] then
    match st with
    | [c] =>
      match states.idxOf? c with
      | some k => .ok (z * Gen.idMulZ + a * Gen.idMulA + (k + 1))
      | none => .error .value
    | _ => .error .value
  else .ok (z * Gen.idMulZ + a * Gen.idMulA)

/-- the argument of `parse_nuclide`, abstracted to what the dispatch looks at -/
inductive Key
  | str (s : List Ch)
  | int (x : Int)          -- includes `bool`
  | other                  -- float, numpy integer, None, tuple, …
  deriving Repr

/-- `utils.parse_nuclide` (`utils.py:456-512`) -/
def parseNuclide (k : Key) (names : List (List Ch)) : Py (List Ch) := do
  let name ← match k with
    | .int x => parseId x
    | .str s => pure s
    | .other => throw .type
  let nuc ← parseNuclideStr name
  if !names.contains nuc then throw .value
  return nuc

/-! ### `Nuclide` properties (`nuclide.py:78-164`) -/

/-- `self.nuclide.split("-")[i]` -/
def nameField (name : List Ch) (i : Int) : Py (List Ch) := pyIndex (splitOn hy name) i

/-- `Nuclide.Z` -/
def attrZ (name : List Ch) : Py Nat := do
  let el ← nameField name 0
  elemToZ el

/-- `int(s)` for the strings that reach `Nuclide.A`: ASCII digits only, else `ValueError`. -/
def pyIntOfDigits (s : List Ch) : Py Nat :=
  if s.isEmpty || !s.all isDig then .error .value else .ok (digitsVal s)

/-- `Nuclide.A` : `int(name.split("-")[1].strip(<chars>))` -/
def attrA (name : List Ch) : Py Nat := do
  let f ← nameField name 1
  pyIntOfDigits (stripChars (fun c => Gen.attrAStrip.contains c) f)

/-- `Nuclide.state` -/
def attrState (name : List Ch) : Py (List Ch) := do
  let f ← nameField name 1
  pure (stripChars (fun c => Gen.attrStateStrip.contains c) f)

/-- `Nuclide.id` -/
def attrId (name : List Ch) : Py Nat := do
  let z ← attrZ name
  let a ← attrA name
  let s ← attrState name
  buildId z a s

/-- canonical spelling `El-A[s]` -/
def canonical (el : List Ch) (ds : List Ch) (st : List Ch) : List Ch := el ++ [hy] ++ ds ++ st

end RdVerif
