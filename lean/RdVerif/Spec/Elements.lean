/-
Spec/Elements.lean — the periodic table, written by hand (IUPAC symbols, Z = 1 … 118).  This is a
SPECIFICATION constant, not a translation of the library: `Props/C09.lean` decides that the table
the translator reads out of `radioactivedecay/utils.py` (`Gen.zDict`, `Gen.symDict`) is this one, so
"the proton number a nuclide reports agrees with its name" refers to the real elements.
-/
namespace RdVerif.Spec

def elementSymbols : List String := [
  "H", "He", "Li", "Be", "B", "C", "N", "O", "F", "Ne",
  "Na", "Mg", "Al", "Si", "P", "S", "Cl", "Ar", "K", "Ca",
  "Sc", "Ti", "V", "Cr", "Mn", "Fe", "Co", "Ni", "Cu", "Zn",
  "Ga", "Ge", "As", "Se", "Br", "Kr", "Rb", "Sr", "Y", "Zr",
  "Nb", "Mo", "Tc", "Ru", "Rh", "Pd", "Ag", "Cd", "In", "Sn",
  "Sb", "Te", "I", "Xe", "Cs", "Ba", "La", "Ce", "Pr", "Nd",
  "Pm", "Sm", "Eu", "Gd", "Tb", "Dy", "Ho", "Er", "Tm", "Yb",
  "Lu", "Hf", "Ta", "W", "Re", "Os", "Ir", "Pt", "Au", "Hg",
  "Tl", "Pb", "Bi", "Po", "At", "Rn", "Fr", "Ra", "Ac", "Th",
  "Pa", "U", "Np", "Pu", "Am", "Cm", "Bk", "Cf", "Es", "Fm",
  "Md", "No", "Lr", "Rf", "Db", "Sg", "Bh", "Hs", "Mt", "Ds",
  "Rg", "Cn", "Nh", "Fl", "Mc", "Lv", "Ts", "Og"]

/-- `(Z, symbol as code points)` for Z = 1 … 118 -/
def elementTable : List (Nat × List Nat) :=
  (List.range elementSymbols.length).map
    (fun i => (i + 1, (elementSymbols.getD i "").toList.map Char.toNat))

end RdVerif.Spec
