/-
Props/C01Error.lean — the forward-error clause of C01 for the shipped dataset, as a theorem under
an explicitly stated model of floating-point arithmetic.

The library evaluates `((Ĉ @ Ê) @ Ĉ⁻¹) @ N0` in double precision.  Under the standard model (every
operation commits a relative error ≤ u = 2⁻⁵³, `np.exp` ≤ 2u) the contribution of term (k, j) to
output i is multiplied by a product of at most `2·len_i + 1` factors `(1 + δ)`, hence by `1 + θ`
with `|θ| ≤ γ(2·len_i + 3)` (`C01_fp_product`), and the computed exponential is within `3u` of
`exp(−λ̂_k t)` (`C01_fp_exp`).  Those two facts are the hypotheses `hθ`, `hetil` of the theorem;
they are hypotheses, not axioms: that NumPy/SciPy satisfy the model is an assumption recorded in
the trusted base, observed per input by the comparison with the verified oracle.

Conclusion: the computed value is within `1e-11` of the initial atoms held by the nuclide's
ancestors (and itself) of the exact solution `Nt` of the decay equations (C01_exact) — `5e-12`
from the stored doubles (`float_data_contribution`) plus `4e-12` from rounding (kernel obligation
`wround` over the regenerated data).
-/
import RdVerif.Proofs.Rounding

set_option maxRecDepth 20000

namespace RdVerif.C01
open RdVerif RdVerif.Icrp107 RdVerif.Gen

/-- **C01 forward error** (all t ≥ 0, all N(0) ≥ 0, every nuclide) -/
theorem C01_forward_error (t : ℝ) (ht : 0 ≤ t) (N0 : Fin N → ℝ) (hN0 : ∀ j, 0 ≤ N0 j) (i : Fin N)
    (etil : Fin N → ℝ) (hetil : ∀ k, |etil k - Real.exp (-(lamHat k * t))| ≤ 3 / 2 ^ 53)
    (θ : Fin N → Fin N → ℝ)
    (hθ : ∀ k j, |θ k j| ≤ (((gammaU (2 * (getRow icrp107.cx i.val).length + 3) : ℚ)) : ℝ))
    (comp : ℝ)
    (hcomp : comp = ∑ j, ∑ k,
      toMatF N icrp107.cf i k * etil k * toMatF N icrp107.cif k j * N0 j * (1 + θ k j)) :
    |comp - Nt N0 t i| ≤ 1 / 10 ^ 11 * ∑ j, N0 j :=
  icrp107_forward_error t ht N0 hN0 i etil hetil θ hθ comp hcomp

open Classical in
/-- **… relative to the atoms held by the nuclide's ancestors**, as the property states it -/
theorem C01_forward_error_ancestors (t : ℝ) (ht : 0 ≤ t) (N0 : Fin N → ℝ) (hN0 : ∀ j, 0 ≤ N0 j)
    (i : Fin N)
    (etil : Fin N → ℝ) (hetil : ∀ k, |etil k - Real.exp (-(lamHat k * t))| ≤ 3 / 2 ^ 53)
    (θ : Fin N → Fin N → ℝ)
    (hθ : ∀ k j, |θ k j| ≤ (((gammaU (2 * (getRow icrp107.cx i.val).length + 3) : ℚ)) : ℝ))
    (comp : ℝ)
    (hcomp : comp = ∑ j, ∑ k,
      toMatF N icrp107.cf i k * etil k * toMatF N icrp107.cif k j * N0 j * (1 + θ k j)) :
    |comp - Nt N0 t i|
      ≤ 1 / 10 ^ 11 * ∑ j, (if AncOrSelf icrp107 j.val i.val then N0 j else 0) :=
  icrp107_forward_error_ancestors t ht N0 hN0 i etil hetil θ hθ comp hcomp

/-- the standard model gives the exponential's hypothesis: one rounding of `t·λ̂`, `exp` within 2u -/
theorem C01_fp_exp (x δ₁ δ₂ : ℝ) (hx : 0 ≤ x) (h1 : |δ₁| ≤ 1 / 2 ^ 53) (h2 : |δ₂| ≤ 1 / 2 ^ 52) :
    |Real.exp (-(x * (1 + δ₁))) * (1 + δ₂) - Real.exp (-x)| ≤ 3 / 2 ^ 53 :=
  exp_model x δ₁ δ₂ hx h1 h2

/-- … and the per-term factor: a product of m factors `(1 + δ)`, `|δ| ≤ u`, is `1 + θ` with
`|θ| ≤ m·u / (1 − m·u)` whatever the order of the operations -/
theorem C01_fp_product (m : ℕ) (u : ℝ) (hu : 0 ≤ u) (hmu : (m : ℝ) * u < 1) (δ : Fin m → ℝ)
    (hδ : ∀ l, |δ l| ≤ u) :
    |∏ l, (1 + δ l) - 1| ≤ (m : ℝ) * u / (1 - (m : ℝ) * u) :=
  prod_one_add_le m u hu hmu δ hδ

end RdVerif.C01
