/-
Props/C01Set.lean — the nuclide-set clause of C01 for the shipped dataset: the index set the
decay calculation writes out (`decayIndices`, the model of `_setup_decay_calc`'s column slicing of
the stored pattern of `C`) is exactly "the input nuclides and all their direct and indirect
progeny", where progeny is the reflexive–transitive closure of the dataset's own progeny lists
(`AncOrSelf` over the parent lists, which `parents_meaning/complete` tie to the links).
-/
import RdVerif.Proofs.NuclideSet

namespace RdVerif.C01
open RdVerif RdVerif.Icrp107 RdVerif.Gen

/-- **the decayed inventory holds exactly the inputs and their closure under decay** -/
theorem C01_nuclide_set (inputs : List ℕ) (i : ℕ) :
    i ∈ decayIndices icrp107 inputs ↔ i < N ∧ ∃ j ∈ inputs, AncOrSelf icrp107 j i :=
  icrp107_nuclide_set inputs i

/-- non-vacuity: index 0 (Fm-257) alone decays into a set with more than itself -/
example : 1 < (decayIndices icrp107 [0]).length := by decide +kernel

end RdVerif.C01
