/-
Props/C11.lean — property C11: calculations are pure and independent of process history; a
failing mutator leaves its inventory exactly as it was.  Statements about the state machine
`step` of `Model/World.lean`, for every world, operation and history.
-/
import RdVerif.Model.World

namespace RdVerif.C11
open RdVerif

variable {α : Type} [Add α] [Neg α] [Mul α] [Div α]

/-! ### helper lemmas -/

/-- looking a key up is insensitive to filtering out a different key -/
theorem find?_filter_ne {β : Type} (l : List (Nat × β)) (h h' : Nat) (hne : h' ≠ h) :
    (l.filter (fun p => !(p.1 == h))).find? (fun p => p.1 == h') = l.find? (fun p => p.1 == h') := by
  induction l with
  | nil => rfl
  | cons p l ih =>
    by_cases hp : p.1 = h
    · have b1 : (p.1 == h) = true := by simp [hp]
      have b2 : (p.1 == h') = false := by
        simp only [beq_eq_false_iff_ne, ne_eq]; intro e; exact hne (e ▸ hp)
      simp only [List.filter_cons, List.find?_cons, b1, b2, Bool.not_true, Bool.false_eq_true, if_false, ih]
    · have b1 : (p.1 == h) = false := by simp [hp]
      by_cases hp' : p.1 = h'
      · have b2 : (p.1 == h') = true := by simp [hp']
        simp only [List.filter_cons, List.find?_cons, b1, b2, Bool.not_false, if_true]
      · have b2 : (p.1 == h') = false := by simp [hp']
        simp only [List.filter_cons, List.find?_cons, b1, b2, Bool.not_false, if_true, ih]

omit [Add α] [Neg α] [Mul α] [Div α] in
/-- `get` after `set` -/
theorem get_set (w : World α) (h h' : Nat) (i : Inv α) :
    (w.set h i).get h' = if h' = h then some i else w.get h' := by
  by_cases e : h' = h
  · subst e
    simp [World.get, World.set]
  · have e' : ¬ h = h' := fun x => e x.symm
    have b : (h == h') = false := by simp [e']
    simp only [World.get, World.set, List.find?_cons, if_neg e, b]
    rw [find?_filter_ne _ _ _ e]

omit [Add α] [Neg α] [Mul α] [Div α] in
theorem set_tmpl (w : World α) (h : Nat) (i : Inv α) :
    (w.set h i).tmplN0 = w.tmplN0 ∧ (w.set h i).tmplE = w.tmplE := ⟨rfl, rfl⟩

/-- one step either leaves the world untouched or assigns one inventory to the operation's target -/
theorem step_shape (w : World α) (op : Op α) :
    (step w op).1 = w ∨ ∃ t i, op.target = some t ∧ (step w op).1 = w.set t i := by
  cases op <;> simp only [step, Op.target] <;> (repeat' split) <;>
    first | exact Or.inl rfl | exact Or.inl trivial | exact Or.inr ⟨_, _, rfl, rfl⟩

theorem step_tmpl (w : World α) (op : Op α) :
    (step w op).1.tmplN0 = w.tmplN0 ∧ (step w op).1.tmplE = w.tmplE := by
  rcases step_shape w op with h | ⟨t, i, _, h⟩
  · rw [h]; exact ⟨rfl, rfl⟩
  · rw [h]; exact ⟨rfl, rfl⟩

/-! ### theorems -/

/-- **templates are never written**: after any history the dataset's pre-allocated vector and
matrix are what they were -/
theorem templates_invariant (w : World α) (ops : List (Op α)) :
    (run w ops).tmplN0 = w.tmplN0 ∧ (run w ops).tmplE = w.tmplE := by
  induction ops generalizing w with
  | nil => exact ⟨rfl, rfl⟩
  | cons op ops ih =>
    have h1 := ih (step w op).1
    have h2 := step_tmpl w op
    simp only [run]
    exact ⟨h1.1.trans h2.1, h1.2.trans h2.2⟩

/-- **readers change nothing**: decay, cumulative decays, read-outs, fractions, data queries,
time series, plot data, CSV writing leave every live inventory and the dataset unchanged -/
theorem readers_frame (w : World α) (h : Nat) (k : ReadKind) : (step w (.read h k)).1 = w := by
  simp only [step]; split <;> rfl

/-- **operators and mutators touch only their target**: every other live inventory is unchanged
(in particular the operands of `+ − * /`) -/
theorem mutators_frame (w : World α) (op : Op α) (h : Nat) (hne : op.target ≠ some h) :
    (step w op).1.get h = w.get h := by
  rcases step_shape w op with e | ⟨t, i, ht, e⟩
  · rw [e]
  · rw [e, get_set, if_neg]
    intro x; apply hne; rw [ht, x]

/-- **failure is atomic**: an operation that raises leaves the whole world as it was -/
theorem failure_atomic (w : World α) (op : Op α) (e : PyErr) (h : (step w op).2 = .err e) :
    (step w op).1 = w := by
  revert h
  cases op <;> simp only [step] <;> (repeat' split) <;> simp

/-- **history independence**: what an operation returns and writes depends only on the current
contents of the inventories it names, not on the rest of the world or on how it was reached -/
theorem history_independent (w w' : World α) (op : Op α)
    (hsame : ∀ h, w.get h = w'.get h) :
    (step w op).2 = (step w' op).2 ∧ ∀ h, (step w op).1.get h = (step w' op).1.get h := by
  cases op <;> simp only [step, ← hsame] <;> (repeat' split) <;>
    simp_all [get_set, calcRead]

end RdVerif.C11
