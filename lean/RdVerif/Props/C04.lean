/-
Props/C04.lean — property C04: the shipped dataset is exactly self-consistent.  Every theorem
here is about `Gen.icrp107`, the Lean rendering of the data files that the translator regenerates
from /repo on every run; the Boolean checks are defined in `Model/Sparse.lean` and
`Model/Dataset.lean` and evaluated by the kernel (`decide +kernel`), block by block.
-/
import RdVerif.Proofs.Icrp107

set_option maxRecDepth 20000

namespace RdVerif.C04
open RdVerif RdVerif.Gen RdVerif.Gen.Icrp107.Obl RdVerif.Icrp107 Matrix

private theorem lt_nb {b : ℕ} (hb : b < icrp107.cx.length) : b < 38 := Nat.lt_of_lt_of_eq hb nblocks

/-- **The exact eigenvector matrix and its inverse are exact mutual inverses** (over ℝ, from the
kernel-checked sparse products). -/
theorem exact_inverses : C * Ci = 1 ∧ Ci * C = 1 := ⟨C_mul_Ci, Ci_mul_C⟩

/-- **They exactly diagonalise the decay-rate matrix assembled from the listed half-lives,
branching fractions and progeny**: `L = (B − I)·diag(λ)` with `λ_i = r_i·ln 2`, and
`L·C = C·diag(−λ)`. -/
theorem exact_diagonalises :
    L * C = C * Matrix.diagonal (fun i => -lam i) ∧
    ∀ i j, L i j = (Bm i j - if i = j then 1 else 0) * lam j := ⟨L_diag, L_apply⟩

/-- the rates are the listed half-lives: `r_i · (half-life in seconds) = 1`, stable ⇔ `r_i = 0`
(half-life read as the decimal the file lists, year = the file's days-per-year) -/
theorem rates_from_half_lives (b : ℕ) (hb : b < icrp107.cx.length) :
    checkRatesBlock icrp107 b = true := w3_all b (lt_nb hb)

/-- **the decay graph and the listed data**: every progeny index is larger than its parent's
(acyclic, parents stored first) and names the listed nuclide; branching fractions lie in (0,1],
are non-increasing, sum to at most 1.001, progeny lists are duplicate-free; every decay mode
matches the change in proton number, mass number and state; stable ⇔ no progeny; every name is a
fixed point of the parser -/
theorem graph_and_listed_data_ok (b : ℕ) (hb : b < icrp107.cx.length) :
    checkLinksBlock icrp107 b = true := w47_all b (lt_nb hb)

/-- the parent lists used to assemble the rate matrix are exactly the transpose of the progeny
lists (every link appears, nothing else does) -/
theorem parents_is_transpose :
    (∀ b, b < icrp107.cx.length → checkParentsBlock icrp107 b = true) ∧
    linkCount icrp107.links = parentCount icrp107.parents :=
  ⟨fun b hb => wpar_all b (lt_nb hb), link_count⟩

/-- the non-zero pattern of every row of `C` is the ancestor set of that nuclide, and `C⁻¹`
and both double-precision matrices store exactly the same pattern; no stored exact entry is 0 -/
theorem pattern_is_ancestors (b : ℕ) (hb : b < icrp107.cx.length) :
    checkPatternBlock icrp107 b = true := w5_all b (lt_nb hb)

/-- every stored double of `C` is within 1e-13 (relative) of the exact entry; of `C⁻¹` within
1e-9 relative or 1e-19 absolute -/
theorem float_entries_close (b : ℕ) (hb : b < icrp107.cx.length) :
    checkFloatBlock icrp107 floatRelC floatRelCi floatTiny b = true := w9_all b (lt_nb hb)

/-- **aggregated data error**: for all `i, j`:
`Σ_k |Ĉ_ik Ĉ⁻¹_kj − C_ik C⁻¹_kj| ≤ 4e-12` and `Σ_k |C_ik C⁻¹_kj| ≤ 1000` -/
theorem float_aggregate_bound (b : ℕ) (hb : b < icrp107.cx.length) :
    checkAggBlock icrp107 aggErrBound aggCondBound b = true := w9agg_all b (lt_nb hb)

/-- the double-precision decay constants built at load time are within 1e-15 (relative) of
`r_i·ln 2`, and exactly 0 for stable nuclides -/
theorem float_decay_consts_close (b : ℕ) (hb : b < icrp107.cx.length) :
    checkLamBlock icrp107 ln2Lo ln2Hi lamRel b = true := w9lam_all b (lt_nb hb)

/-- double-precision atomic masses within 1e-15 of the exact ones; the three irrational
(algebraic) exact masses are enclosed by certified integer-power bounds -/
theorem float_masses_close :
    (∀ b, b < icrp107.cx.length → checkMassBlock icrp107 massRel b = true) ∧
    Icrp107.massAlg.all (massAlgOk icrp107.massX) = true ∧
    Icrp107.massF = Icrp107.massFileF :=
  ⟨fun b hb => w9mass_all b (lt_nb hb), mass_alg, mass_loaded_eq_file⟩

/-- **both pickle generations hold identical data** -/
theorem pickles_identical :
    Icrp107.cx18 = Icrp107.cx ∧ Icrp107.cix18 = Icrp107.cix ∧ Icrp107.rate18 = Icrp107.rate ∧
    Icrp107.massX18 = Icrp107.massX ∧ Icrp107.yearX18 = Icrp107.yearX :=
  ⟨pickles_cx, pickles_cix, pickles_rate, pickles_mass, pickles_year⟩

/-- days per year: the double is within 1e-16 (relative) of the exact value -/
theorem year_close :
    ratAbs (icrp107.yearF - icrp107.yearX) ≤ icrp107.yearX / 10000000000000000 :=
  Icrp107.Obl.year_close

end RdVerif.C04
