/-
Props/C10Entry.lean — property C10 at the entry points: which exception class each kind of
invalid nuclide key / amount / unit produces, and that acceptance implies validity.
-/
import RdVerif.Proofs.Entry

set_option maxRecDepth 100000

namespace RdVerif.C10
open RdVerif
/-- **Constructor refusals are the documented ones**: the outcome is an accepted nuclide list,
a `ValueError`, or — only when some key is neither `str` nor `int` nor nuclide — `TypeError`. -/
theorem ctor_errors_documented (cls : Cls) (names : List (List Ch)) (stable : List Ch → Bool)
    (entries : List (Key × AmountKind)) (unit : UnitKind) :
    (∃ ns, ctor cls names stable entries unit = .ok ns) ∨
    (∃ e, ctor cls names stable entries unit = .error e ∧ e.isValueError = true) ∨
    (ctor cls names stable entries unit = .error .type ∧ Key.other ∈ entries.map Prod.fst) := by
  have core := ctorCore_cases names stable entries unit
  cases cls with
  | float =>
    rcases core with ⟨ns, h, _⟩ | h | h
    · exact .inl ⟨ns, h⟩
    · exact .inr (.inl h)
    · exact .inr (.inr h)
  | hp =>
    simp only [ctor, bind, Except.bind]
    rcases checkValues_err (entries.map Prod.snd) with hc | hc
    · rw [hc]; simp only
      rcases core with ⟨ns, h, _⟩ | h | h
      · exact .inl ⟨ns, h⟩
      · exact .inr (.inl h)
      · exact .inr (.inr h)
    · rw [hc]; exact .inr (.inl ⟨_, rfl, rfl⟩)

/-- **Nothing invalid is accepted**: if the constructor accepts, every amount was a
non-negative number, the unit is supported, no stable nuclide was given an activity, every
accepted nuclide is in the dataset, and no two keys named the same nuclide (nothing dropped). -/
theorem ctor_accept_sound (cls : Cls) (names : List (List Ch)) (stable : List Ch → Bool)
    (entries : List (Key × AmountKind)) (unit : UnitKind) (ns : List (List Ch))
    (h : ctor cls names stable entries unit = .ok ns) :
    (∀ a ∈ entries.map Prod.snd, a = AmountKind.nonneg) ∧ unit ≠ .unknown ∧
    (unit = .activity → ns.any stable = false) ∧ (∀ n ∈ ns, n ∈ names) ∧ ns.Nodup ∧
    ns.length = entries.length := by
  have core := ctorCore_cases names stable entries unit
  have fromCore : ctorCore names stable entries unit = .ok ns →
      ((∀ a ∈ entries.map Prod.snd, a = AmountKind.nonneg) ∧ unit ≠ .unknown ∧
      (unit = .activity → ns.any stable = false) ∧ (∀ n ∈ ns, n ∈ names) ∧ ns.Nodup ∧
      ns.length = entries.length) := fun hc => by
    rcases core with ⟨ns', h1, h2⟩ | ⟨e, h1, _⟩ | ⟨h1, _⟩
    · rw [h1] at hc; simp only [Except.ok.injEq] at hc; subst hc; exact h2
    · rw [h1] at hc; cases hc
    · rw [h1] at hc; cases hc
  cases cls with
  | float => exact fromCore h
  | hp =>
    simp only [ctor, bind, Except.bind] at h
    rcases checkValues_err (entries.map Prod.snd) with hc | hc
    · rw [hc] at h; exact fromCore h
    · rw [hc] at h; cases h

/-- **`remove` refusals are the documented ones**: success, `ValueError` (malformed / unknown /
absent nuclide), `NotImplementedError` only for an argument that is neither string, integer,
nuclide nor list, `TypeError` only for a list holding such an element. -/
theorem remove_errors_documented (names contents : List (List Ch)) (arg : RemoveArg) :
    (∃ c, remove names contents arg = .ok c) ∨
    (∃ e, remove names contents arg = .error e ∧ e.isValueError = true) ∨
    (remove names contents arg = .error .notImplemented ∧ arg matches .one .other) ∨
    (remove names contents arg = .error .type ∧ ∃ ks, arg = .many ks ∧ Key.other ∈ ks) := by
  cases arg with
  | one k =>
    cases k with
    | other => exact .inr (.inr (.inl ⟨rfl, rfl⟩))
    | str s =>
      rcases removeOne_cases names contents (.str s) with h | h | ⟨_, h⟩
      · exact .inl h
      · exact .inr (.inl h)
      · cases h
    | int x =>
      rcases removeOne_cases names contents (.int x) with h | h | ⟨_, h⟩
      · exact .inl h
      · exact .inr (.inl h)
      · cases h
  | many ks =>
    simp only [remove, bind, Except.bind]
    rcases mapM_parse_cases names ks with ⟨ns, h1⟩ | ⟨e, h1, h2⟩ | ⟨h1, h2⟩
    · rw [h1]; simp only
      rcases foldlM_remove_cases ns contents with h | h
      · exact .inl h
      · exact .inr (.inl ⟨_, h, rfl⟩)
    · rw [h1]; exact .inr (.inl ⟨e, rfl, h2⟩)
    · rw [h1]; exact .inr (.inr (.inr ⟨rfl, ks, rfl, h2⟩))


/-! ### non-vacuity -/

example : ctor .hp [S "H-3"] (fun _ => false) [(.str (S "3H"), .nan)] .num = .error .value := by
  decide +kernel
example : ctor .float [S "H-3"] (fun _ => false) [(.other, .nonneg)] .num = .error .type := by
  decide +kernel
example : ctor .float [S "H-3"] (fun _ => false) [(.str (S "3H"), .nonneg), (.int 10030000, .nonneg)] .num
    = .error .value := by decide +kernel
example : ctor .float [S "H-3"] (fun _ => false) [(.str (S "3H"), .nonneg)] .mass = .ok [S "H-3"] := by
  decide +kernel
example : remove [S "H-3"] [S "H-3"] (.one .other) = .error .notImplemented := rfl

end RdVerif.C10
