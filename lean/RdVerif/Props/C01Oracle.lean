/-
Props/C01Oracle.lean — the verified oracle: for the shipped dataset, every initial inventory
(sparse rational vector), every rational time t ≥ 0 and every nuclide, the interval that
`Model/Interval.lean` computes (`solEncl`, the function the correspondence harness runs through
the driver) encloses the exact solution `Nt` of the decay ODE system of C01_exact.  This is
what makes the per-input comparisons of C01/C02/C03/C07 comparisons with the *true* solution.
-/
import RdVerif.Proofs.Icrp107Error

set_option maxRecDepth 20000

namespace RdVerif.C01
open RdVerif RdVerif.Icrp107 RdVerif.Gen

/-- **oracle soundness** (∀ v, t ≥ 0, i, and every evaluation configuration whose ln 2 bounds are
correct — the driver obtains them from `ln2Encl`, sound by `ln2Encl_sound`) -/
theorem C01_oracle_sound (cfg : EvalCfg) (v : N0) (t : ℚ) (i : ℕ) (hi : i < N) (ht : 0 ≤ t)
    (hln2 : (cfg.ln2.1 : ℝ) ≤ Real.log 2 ∧ Real.log 2 ≤ (cfg.ln2.2 : ℝ)) :
    ((solEncl icrp107 cfg v t i).1 : ℝ) ≤ Nt (N0vec N v) (t : ℝ) ⟨i, hi⟩ ∧
    Nt (N0vec N v) (t : ℝ) ⟨i, hi⟩ ≤ ((solEncl icrp107 cfg v t i).2 : ℝ) :=
  icrp107_oracle_sound cfg v t i hi ht hln2

/-- the cached evaluation the driver actually runs returns the same intervals -/
theorem C01_oracle_cached (cfg : EvalCfg) (v : N0) (t : ℚ) (i : ℕ) (ks : List ℕ)
    (hks : ∀ p ∈ coeffs icrp107 v i, p.1 ∈ ks) :
    solEnclT icrp107 (factorTable icrp107 cfg t ks) v i = solEncl icrp107 cfg v t i :=
  solEnclT_eq icrp107 cfg v t i ks hks

/-- the ln 2 bounds handed to the oracle are certified by the model itself -/
theorem C01_ln2_certified (P n m : ℕ) (a b : ℚ) (h : ln2Encl P n m = some (a, b)) :
    (a : ℝ) ≤ Real.log 2 ∧ Real.log 2 ≤ (b : ℝ) := ln2Encl_sound P n m a b h

end RdVerif.C01
