/-
Props/C05.lean — property C05: amounts convert consistently between every unit and quantity
kind.  Table facts are decided on the *generated* unit tables; the conversion laws are proved
for every amount, decay constant, atomic mass and unit.
-/
import Mathlib.Tactic.FieldSimp
import Mathlib.Tactic.Ring
import Mathlib.Algebra.Order.Field.Rat
import RdVerif.Model.Units

set_option maxRecDepth 100000

namespace RdVerif.C05
open RdVerif RdVerif.Gen

/-- the exact (SymPy) tables are the specification: SI prefixes, 1 Ci = 3.7e10 Bq,
1 dpm = 1/60 Bq, t = ton = Mg, u = μ -/
theorem sympy_tables_eq_spec :
    tableMatches 0 activityUnitsS specActivity = true ∧ tableMatches 0 massUnitsS specMass = true ∧
    tableMatches 0 molesUnitsS specMoles = true := by decide +kernel

/-- every double-precision table entry is within 2⁻⁵² (relative) of the specified value -/
theorem float_tables_close_to_spec :
    tableMatches (1 / 4503599627370496) activityUnitsF specActivity = true ∧
    tableMatches (1 / 4503599627370496) massUnitsF specMass = true ∧
    tableMatches (1 / 4503599627370496) molesUnitsF specMoles = true := by decide +kernel

/-- both inventory classes use identical unit definitions (same unit strings) -/
theorem float_sympy_same_units :
    namesOf activityUnitsF = namesOf activityUnitsS ∧ namesOf massUnitsF = namesOf massUnitsS ∧
    namesOf molesUnitsF = namesOf molesUnitsS := by decide +kernel

/-- no unit string belongs to two kinds, and none is `num` — so the order of the `elif` chain
cannot matter -/
theorem kinds_disjoint :
    disjointNames (namesOf activityUnitsF) (namesOf massUnitsF) = true ∧
    disjointNames (namesOf activityUnitsF) (namesOf molesUnitsF) = true ∧
    disjointNames (namesOf massUnitsF) (namesOf molesUnitsF) = true ∧
    !(namesOf activityUnitsF ++ namesOf massUnitsF ++ namesOf molesUnitsF).contains "num" = true := by
  decide +kernel

/-- Avogadro's constant: the float is the double nearest to 6.02214076e23 and the exact class
uses exactly 6.02214076e23 -/
theorem avogadro_ok :
    avogadroSympy = 602214076000000000000000 ∧ avogadroFloatCls = avogadroF ∧
    (avogadroF - avogadroSympy) * 4503599627370496 ≤ avogadroSympy ∧
    (avogadroSympy - avogadroF) * 4503599627370496 ≤ avogadroSympy := by decide +kernel

/-! ### conversion laws (every amount, every unit, every nuclide) -/

theorem unitConv_ok {tbl : List UEntry} {x : ℚ} {u v : String} {f t : ℚ}
    (hf : lookupU tbl u = some f) (ht : lookupU tbl v = some t) : unitConv tbl x u v = .ok (x * f / t) := by
  simp [unitConv, hf, ht]

/-- **round trip within one kind**: converting `u → v → u` returns the amount -/
theorem roundtrip_unit (tbl : List UEntry) (x : ℚ) (u v : String) (f t : ℚ)
    (hf : lookupU tbl u = some f) (ht : lookupU tbl v = some t) (hf0 : f ≠ 0) (ht0 : t ≠ 0) :
    (unitConv tbl x u v >>= fun y => unitConv tbl y v u) = .ok x := by
  rw [unitConv_ok hf ht]
  show unitConv tbl (x * f / t) v u = _
  rw [unitConv_ok ht hf]
  congr 1
  field_simp

/-- **ratio law**: readings of one amount in two units differ by the ratio of the units -/
theorem ratio_law (tbl : List UEntry) (x : ℚ) (b u v : String) (fb fu fv : ℚ)
    (hb : lookupU tbl b = some fb) (hu : lookupU tbl u = some fu) (hv : lookupU tbl v = some fv)
    (hu0 : fu ≠ 0) (hv0 : fv ≠ 0) :
    ∃ ru rv, unitConv tbl x b u = .ok ru ∧ unitConv tbl x b v = .ok rv ∧ ru * fu = rv * fv := by
  refine ⟨_, _, unitConv_ok hb hu, unitConv_ok hb hv, ?_⟩
  field_simp

/-- **activity read back**: an inventory created from an activity `x` in unit `u` reads back `x`
in `u` (exact arithmetic; λ ≠ 0, i.e. radioactive) -/
theorem roundtrip_activity (T : UnitTables) (av : ℚ) (u : String) (x lam mass f one : ℚ)
    (hk : kindOf T u = .activity) (hf : lookupU T.activity u = some f) (h1 : lookupU T.activity "Bq" = some one)
    (hone : one = 1) (hf0 : f ≠ 0) (hl : lam ≠ 0) :
    (toNumber T av u x lam mass >>= fun N => readActivity T u N lam) = .ok x := by
  have hl' : (lam == 0) = false := by simpa using hl
  simp only [toNumber, hk, hl', bind, Except.bind, unitConv_ok hf h1, pure, Except.pure]
  simp only [Bool.false_eq_true, if_false, readActivity, unitConv_ok h1 hf]
  congr 1
  subst hone
  field_simp

/-- **mass read back** -/
theorem roundtrip_mass (T : UnitTables) (av : ℚ) (u : String) (x lam mass f one : ℚ)
    (hk : kindOf T u = .mass) (hf : lookupU T.mass u = some f) (h1 : lookupU T.mass "g" = some one)
    (hone : one = 1) (hf0 : f ≠ 0) (hm : mass ≠ 0) (ha : av ≠ 0) :
    (toNumber T av u x lam mass >>= fun N => readMass T av u N mass) = .ok x := by
  simp only [toNumber, hk, bind, Except.bind, unitConv_ok hf h1, pure, Except.pure, readMass,
    unitConv_ok h1 hf]
  congr 1
  subst hone
  field_simp

/-- **moles read back** -/
theorem roundtrip_moles (T : UnitTables) (av : ℚ) (u : String) (x lam mass f one : ℚ)
    (hk : kindOf T u = .moles) (hf : lookupU T.moles u = some f) (h1 : lookupU T.moles "mol" = some one)
    (hone : one = 1) (hf0 : f ≠ 0) (ha : av ≠ 0) :
    (toNumber T av u x lam mass >>= fun N => readMoles T av u N) = .ok x := by
  simp only [toNumber, hk, bind, Except.bind, unitConv_ok hf h1, pure, Except.pure, readMoles,
    unitConv_ok h1 hf]
  congr 1
  subst hone
  field_simp

/-- **the kinds are tied together**: for `N` atoms, activity (Bq) = λ·N, moles = N / N_A,
mass (g) = moles × atomic mass -/
theorem kinds_tied (T : UnitTables) (av N lam mass one : ℚ)
    (hBq : lookupU T.activity "Bq" = some one) (hg : lookupU T.mass "g" = some one)
    (hmol : lookupU T.moles "mol" = some one) (hone : one = 1) :
    readActivity T "Bq" N lam = .ok (lam * N) ∧ readMoles T av "mol" N = .ok (N / av) ∧
    readMass T av "g" N mass = .ok (N / av * mass) := by
  subst hone
  refine ⟨?_, ?_, ?_⟩
  · simp only [readActivity, unitConv_ok hBq hBq]; congr 1; ring
  · simp only [readMoles, unitConv_ok hmol hmol]; congr 1; ring
  · simp only [readMass, unitConv_ok hg hg]; congr 1; ring

/-- an unsupported unit is refused; an activity for a stable nuclide is refused -/
theorem refusals (T : UnitTables) (av x lam mass : ℚ) (u : String) :
    (kindOf T u = .unknown → toNumber T av u x lam mass = .error .value) ∧
    (kindOf T u = .activity → lam = 0 → toNumber T av u x lam mass = .error .value) := by
  constructor
  · intro h; simp [toNumber, h]
  · intro h hl; simp [toNumber, h, hl]

/-! non-vacuity on the generated tables -/
example : lookupU activityUnitsS "Ci" = some 37000000000 ∧ kindOf tablesF "kBq" = .activity ∧
    kindOf tablesS "ton" = .mass ∧ kindOf tablesF "num" = .num ∧ kindOf tablesF "s" = .unknown := by
  decide +kernel

end RdVerif.C05
