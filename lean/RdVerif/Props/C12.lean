/-
Props/C12.lean — property C12: CSV export and import follow the documented precedence and are
inverse at the level of rows.
-/
import RdVerif.Model.Csv

set_option maxRecDepth 100000

namespace RdVerif.C12
open RdVerif

/-- **a unit on the row overrides the `units` argument** (∀ rows with a non-empty third cell) -/
theorem precedence_row (n q u : String) (units : Option String) (hu : u ≠ "") :
    effectiveUnit [n, q, u] units = .ok (some u) := by
  simp [effectiveUnit, parseRow, unitsKw, pyOr, hu, bind, Except.bind, pure, Except.pure]

/-- **the `units` argument overrides the default** (rows without unit cell) -/
theorem precedence_arg (n q u : String) (hu : u ≠ "") : effectiveUnit [n, q] (some u) = .ok (some u) := by
  simp [effectiveUnit, parseRow, unitsKw, pyOr, hu, bind, Except.bind, pure, Except.pure]

/-- **the default is 'Bq'** when neither is given -/
theorem precedence_default (n q : String) : effectiveUnit [n, q] none = .ok (some "Bq") := by
  simp [effectiveUnit, parseRow, unitsKw, bind, Except.bind, pure, Except.pure]

/-- an empty unit cell falls back to the argument -/
theorem precedence_empty_cell (n q : String) (units : Option String) :
    effectiveUnit [n, q, ""] units = .ok (pyOr (some "") units) := by
  cases units <;> simp [effectiveUnit, parseRow, unitsKw, pyOr, bind, Except.bind, pure, Except.pure]

/-- rows with fewer than 2 or more than 3 cells are refused (`ValueError`) -/
theorem bad_row_refused (row : List String) (d : Option String) (h : row.length ≠ 2 ∧ row.length ≠ 3) :
    parseRow row d = .error .value := by
  match row, h with
  | [], _ => rfl
  | [_], _ => rfl
  | [_, _], h => exact absurd rfl h.1
  | [_, _, _], h => exact absurd rfl h.2
  | _ :: _ :: _ :: _ :: _, _ => rfl

/-- **exactly the first `skip_rows` rows are skipped**; skipping everything is refused -/
theorem skip_exact (lines : List (List String)) (k : Nat) :
    (k < lines.length → skipRows lines k = .ok (lines.drop k)) ∧
    (lines.length ≤ k → skipRows lines k = .error .value) := by
  constructor
  · intro h
    have : (lines.drop k).isEmpty = false := by
      cases hd : lines.drop k with
      | nil => simp [List.drop_eq_nil_iff] at hd; omega
      | cons _ _ => rfl
    simp [skipRows, this]
  · intro h
    have : lines.drop k = [] := List.drop_eq_nil_iff.mpr h
    simp [skipRows, this]

/-- **export then import gives back the rows**: every written data row parses to its nuclide,
quantity string, and (if written) its unit; the header is what `skip_rows = 1` removes -/
theorem roundtrip_rows (hdr : List String) (hne : hdr ≠ []) (wu : Bool) (units : String)
    (contents : List (String × String)) :
    skipRows (toCsvRows (some hdr) wu units contents) 1 =
      (if contents.isEmpty then .error .value else .ok (toCsvRows none wu units contents)) ∧
    ∀ p ∈ contents, parseRow (if wu then [p.1, p.2, units] else [p.1, p.2]) none =
      .ok (p.1, p.2, if wu then some units else none) := by
  constructor
  · have hh : hdr.isEmpty = false := by cases hdr <;> simp_all
    cases contents with
    | nil => simp [toCsvRows, skipRows, hh]
    | cons c cs => simp [toCsvRows, skipRows, hh]
  · intro p _
    cases wu <;> simp [parseRow]

/-- `UnitKind` comparison as a Bool -/
def sameKind (a b : UnitKind) : Bool := decide (a = b)

/-- which read-out `to_csv` uses: for every unit string of the generated tables and for `num`
the export chain (activity, mass, moles, num) selects the same kind as the constructor chain
(num, activity, moles, mass) — so what is written can be read back with the same unit -/
theorem csvKind_eq_kindOf_listed :
    ((namesOf Gen.activityUnitsF ++ namesOf Gen.massUnitsF ++ namesOf Gen.molesUnitsF ++ ["num"]).all
      (fun u => sameKind (csvKind tablesF u) (kindOf tablesF u) && sameKind (csvKind tablesS u) (kindOf tablesS u))) = true := by
  decide +kernel

/-- any other string is refused by both chains -/
theorem csvKind_unknown (T : UnitTables) (u : String) (h1 : lookupU T.activity u = none)
    (h2 : lookupU T.mass u = none) (h3 : lookupU T.moles u = none) (h4 : u ≠ "num") :
    csvKind T u = .unknown ∧ kindOf T u = .unknown := by
  have : (u == "num") = false := by simpa using h4
  simp [csvKind, kindOf, h1, h2, h3, this]

/-! non-vacuity -/
example : effectiveUnit ["H-3", "1.0", "kBq"] (some "Ci") = .ok (some "kBq") := by decide
example : cellIsId "10030000" = true ∧ cellIsId "H-3" = false := by decide

end RdVerif.C12
