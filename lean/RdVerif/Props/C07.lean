/-
Props/C07.lean — property C07: decay is a linear, time-additive flow (exact statement for the
shipped dataset; the float / 320-digit deviations are checked per input against the oracle).
-/
import RdVerif.Props.C01

set_option maxRecDepth 20000

namespace RdVerif.C07
open RdVerif RdVerif.Icrp107 RdVerif.Bateman RdVerif.C01 Matrix

/-- decaying for `t₁` and then `t₂` = decaying once for `t₁ + t₂` -/
theorem flow_add (N0 : Fin N → ℝ) (t₁ t₂ : ℝ) : Nt (Nt N0 t₁) t₂ = Nt N0 (t₁ + t₂) :=
  Bateman.flow_add C Ci lam N0 C_mul_Ci t₁ t₂

/-- decaying for zero time changes nothing -/
theorem flow_zero (N0 : Fin N → ℝ) : Nt N0 0 = N0 := sol_zero C Ci lam N0 C_mul_Ci

/-- decay of a scaled sum = scaled sum of the decays -/
theorem flow_linear (X Y : Fin N → ℝ) (a t : ℝ) : Nt (a • X + Y) t = a • Nt X t + Nt Y t :=
  Bateman.flow_linear C Ci lam X Y a t

/-- splitting a decay time into any number of pieces does not matter -/
theorem flow_split (N0 : Fin N → ℝ) (ts : List ℝ) :
    ts.foldl (fun v t => Nt v t) N0 = Nt N0 ts.sum := by
  induction ts generalizing N0 with
  | nil => simp [flow_zero]
  | cons t ts ih => simp only [List.foldl_cons, List.sum_cons]; rw [ih, flow_add]

/-- an amount never depends on unrelated companions: nuclide `i` of a mixture `X + Y` equals its
value from `X` alone whenever `Y` contributes nothing to `i` -/
theorem companions (X Y : Fin N → ℝ) (t : ℝ) (i : Fin N) (h : Nt Y t i = 0) :
    Nt (X + Y) t i = Nt X t i := by
  have := congrFun (flow_linear X Y 1 t) i
  simp only [one_smul, Pi.add_apply] at this
  rw [this, h, add_zero]

end RdVerif.C07
