/-
Props/C07.lean — property C07: decay is a linear, time-additive flow (exact statement for the
shipped dataset; the float / 320-digit deviations are checked per input against the oracle).
-/
import RdVerif.Props.C01

set_option maxRecDepth 20000

namespace RdVerif.C07
open RdVerif RdVerif.Icrp107 RdVerif.Bateman RdVerif.C01 Matrix

/-- decaying for `t₁` and then `t₂` = decaying once for `t₁ + t₂` -/
theorem flow_add (N0 : Fin N → ℝ) (t₁ t₂ : ℝ) : Nt (Nt N0 t₁) t₂ = Nt N0 (t₁ + t₂) :=
  Bateman.flow_add C Ci lam N0 C_mul_Ci t₁ t₂

/-- decaying for zero time changes nothing -/
theorem flow_zero (N0 : Fin N → ℝ) : Nt N0 0 = N0 := sol_zero C Ci lam N0 C_mul_Ci

/-- decay of a scaled sum = scaled sum of the decays -/
theorem flow_linear (X Y : Fin N → ℝ) (a t : ℝ) : Nt (a • X + Y) t = a • Nt X t + Nt Y t :=
  Bateman.flow_linear C Ci lam X Y a t

/-- splitting a decay time into any number of pieces does not matter -/
theorem flow_split (N0 : Fin N → ℝ) (ts : List ℝ) :
    ts.foldl (fun v t => Nt v t) N0 = Nt N0 ts.sum := by
  induction ts generalizing N0 with
  | nil => simp [flow_zero]
  | cons t ts ih => simp only [List.foldl_cons, List.sum_cons]; rw [ih, flow_add]

/-- an amount never depends on unrelated companions: nuclide `i` of a mixture `X + Y` equals its
value from `X` alone whenever `Y` contributes nothing to `i` -/
theorem companions (X Y : Fin N → ℝ) (t : ℝ) (i : Fin N) (h : Nt Y t i = 0) :
    Nt (X + Y) t i = Nt X t i := by
  have := congrFun (flow_linear X Y 1 t) i
  simp only [one_smul, Pi.add_apply] at this
  rw [this, h, add_zero]

/-- the order of the pieces does not matter either -/
theorem flow_split_perm (N0 : Fin N → ℝ) (ts us : List ℝ) (h : ts.Perm us) :
    ts.foldl (fun v t => Nt v t) N0 = us.foldl (fun v t => Nt v t) N0 := by
  rw [flow_split, flow_split, h.sum_eq]

/-- scalar multiples: `(a * X).decay(t) = a * X.decay(t)` -/
theorem flow_smul (X : Fin N → ℝ) (a t : ℝ) : Nt (a • X) t = a • Nt X t := by
  have h := flow_linear X 0 a t
  have h0 : Nt (0 : Fin N → ℝ) t = 0 := by
    have := flow_linear (0 : Fin N → ℝ) 0 1 t
    simpa using this
  simpa [h0] using h

/-- the empty inventory stays empty -/
theorem flow_of_zero (t : ℝ) : Nt (0 : Fin N → ℝ) t = 0 := by
  simpa using flow_smul (0 : Fin N → ℝ) 0 t

/-- differences: `(X - Y).decay(t) = X.decay(t) - Y.decay(t)` -/
theorem flow_sub (X Y : Fin N → ℝ) (t : ℝ) : Nt (X - Y) t = Nt X t - Nt Y t := by
  have h := flow_linear Y X (-1) t
  have e : (-1 : ℝ) • Y + X = X - Y := by ext i; simp [sub_eq_add_neg, add_comm]
  rw [e] at h
  rw [h]; ext i; simp [sub_eq_add_neg, add_comm]

/-- any finite combination of inventories: the decay of `Σ aₖ Xₖ` is `Σ aₖ · decay(Xₖ)` -/
theorem flow_combination (ps : List (ℝ × (Fin N → ℝ))) (t : ℝ) :
    Nt (ps.map (fun p => p.1 • p.2)).sum t = (ps.map (fun p => p.1 • Nt p.2 t)).sum := by
  induction ps with
  | nil => simpa using flow_of_zero t
  | cons p ps ih =>
    simp only [List.map_cons, List.sum_cons]
    rw [flow_linear, ih]

/-- splitting the time and the inventory at once: every piece of a combination may be decayed
along its own splitting of the same total time -/
theorem flow_split_combination (ps : List (ℝ × (Fin N → ℝ))) (ts : List ℝ) :
    ts.foldl (fun v t => Nt v t) (ps.map (fun p => p.1 • p.2)).sum
      = (ps.map (fun p => p.1 • ts.foldl (fun v t => Nt v t) p.2)).sum := by
  rw [flow_split, flow_combination]
  congr 1
  apply List.map_congr_left
  intro p _
  rw [flow_split]

end RdVerif.C07
