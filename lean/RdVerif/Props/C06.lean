/-
Props/C06.lean — property C06: a decay time means the same duration however it is expressed.
-/
import Mathlib.Tactic.FieldSimp
import Mathlib.Tactic.Ring
import Mathlib.Algebra.Order.Field.Rat
import Mathlib.Analysis.SpecialFunctions.Log.Basic
import Mathlib.Analysis.SpecialFunctions.Pow.Real
import RdVerif.Model.Units

set_option maxRecDepth 100000

namespace RdVerif.C06
open RdVerif RdVerif.Gen

/-- the 27 time-unit strings and their values: exact table = specification, float table within
2⁻⁵², identical strings in both modes; synonyms (us/μs, s/sec/second/seconds, h/hr/hour/hours,
d/day/days, y/yr/year/years, By/Gy) therefore have equal factors -/
theorem time_table_eq_spec :
    tableMatches 0 timeUnitsS specTime = true ∧
    tableMatches (1 / 4503599627370496) timeUnitsF specTime = true ∧
    namesOf timeUnitsF = namesOf timeUnitsS := by decide +kernel

/-- the year-based units are exactly y, yr, year, years, ky, My, By, Gy, Ty, Py in both modes,
and each of them is a time unit -/
theorem year_units_eq_spec :
    sameSet yearUnitsF specYearUnits = true ∧ sameSet yearUnitsS specYearUnits = true ∧
    specYearUnits.all (fun u => (lookupU timeUnitsF u).isSome) = true := by decide +kernel

/-- **an unknown unit is refused** — for every string outside the table, in either position -/
theorem unknown_unit_refused (T : UnitTables) (x year : ℚ) (u v : String)
    (h : lookupU T.time u = none ∨ lookupU T.time v = none) : timeConv T x u v year = .error .value := by
  unfold timeConv
  rcases h with h | h
  · simp [h]
  · cases hu : lookupU T.time u with
    | none => simp
    | some f => simp [h]

/-- the number of seconds a `(t, unit)` pair denotes -/
def seconds (T : UnitTables) (year : ℚ) (u : String) (f : ℚ) : ℚ :=
  if T.yearUnits.contains u then f * year else f

theorem timeConv_ok (T : UnitTables) (x year : ℚ) (u v : String) (f t : ℚ)
    (hf : lookupU T.time u = some f) (ht : lookupU T.time v = some t) :
    timeConv T x u v year = .ok (x * seconds T year u f / seconds T year v t) := by
  simp [timeConv, hf, ht, seconds]

/-- **same duration**: `t` units converted to seconds is `t × (seconds per unit)`, where "s" has
factor 1 and is not a year unit — the value handed to the decay calculation -/
theorem to_seconds (T : UnitTables) (x year : ℚ) (u : String) (f : ℚ)
    (hf : lookupU T.time u = some f) (hs : lookupU T.time "s" = some 1)
    (hny : T.yearUnits.contains "s" = false) :
    timeConv T x u "s" year = .ok (x * seconds T year u f) := by
  rw [timeConv_ok T x year u "s" f 1 hf hs]
  have hny' : ¬ ("s" ∈ T.yearUnits) := by simpa using hny
  simp [seconds, hny']

/-- conversions compose: `u → v → w` equals `u → w` -/
theorem conv_compose (T : UnitTables) (x year : ℚ) (u v w : String) (fu fv fw : ℚ)
    (hu : lookupU T.time u = some fu) (hv : lookupU T.time v = some fv) (hw : lookupU T.time w = some fw)
    (hv0 : seconds T year v fv ≠ 0) :
    (timeConv T x u v year >>= fun y => timeConv T y v w year) = timeConv T x u w year := by
  rw [timeConv_ok T x year u v fu fv hu hv, timeConv_ok T x year u w fu fw hu hw]
  show timeConv T _ v w year = _
  rw [timeConv_ok T _ year v w fv fw hv hw]
  congr 1
  field_simp

/-- **halving**: decaying a lone radionuclide for its half-life `1/r` seconds leaves exactly
half: `exp(−(r·ln 2)·(1/r)) = 1/2` -/
theorem halving_exact (r : ℝ) (hr : r ≠ 0) : Real.exp (-(r * Real.log 2) * (1 / r)) = 1 / 2 := by
  have : -(r * Real.log 2) * (1 / r) = -Real.log 2 := by field_simp
  rw [this, Real.exp_neg, Real.exp_log (by norm_num)]
  norm_num

/-! non-vacuity -/
example : timeConv tablesS 2 "ky" "s" (1826211 / 5000) = .ok (2 * (86400 * 1000 * (1826211 / 5000))) := by
  decide +kernel
example : timeConv tablesF 1 "fortnight" "s" 365 = .error .value := by decide +kernel

end RdVerif.C06
