/-
Props/C14.lean — property C14: activity, mass and mole fractions are true shares of the total.
-/
import Mathlib.Algebra.Order.Field.Basic
import Mathlib.Algebra.Order.Field.Rat
import Mathlib.Data.Rat.Defs
import Mathlib.Algebra.BigOperators.Group.List.Basic
import Mathlib.Algebra.Order.BigOperators.Group.List
import Mathlib.Tactic.FieldSimp
import Mathlib.Tactic.Ring
import RdVerif.Model.Fractions

namespace RdVerif.C14
open RdVerif

/-- each fraction is the read-out divided by the total -/
theorem frac_def (xs : List ℚ) (i : ℕ) (h : i < xs.length) :
    (fracs xs)[i]'(by simpa [fracs] using h) = xs[i] / xs.sum := by
  simp [fracs]

theorem sum_map_div (xs : List ℚ) (s : ℚ) : (xs.map (fun x => x / s)).sum = xs.sum / s := by
  induction xs with
  | nil => simp
  | cons x xs ih => simp [ih, add_div]

/-- **fractions sum to one** whenever the total is non-zero -/
theorem frac_sum_one (xs : List ℚ) (h : xs.sum ≠ 0) : (fracs xs).sum = 1 := by
  unfold fracs
  rw [sum_map_div, div_self h]

/-- **fractions lie in [0, 1]** for non-negative contents and a positive total -/
theorem frac_in_unit_interval (xs : List ℚ) (hnn : ∀ x ∈ xs, 0 ≤ x) (hpos : 0 < xs.sum) :
    ∀ f ∈ fracs xs, 0 ≤ f ∧ f ≤ 1 := by
  intro f hf
  simp only [fracs, List.mem_map] at hf
  obtain ⟨x, hx, rfl⟩ := hf
  refine ⟨div_nonneg (hnn x hx) hpos.le, ?_⟩
  rw [div_le_one hpos]
  exact List.single_le_sum hnn x hx

/-- **invariance under scaling the inventory** (and hence under the unit used to create it or
to read it out: a unit change multiplies every read-out by the same non-zero factor) -/
theorem frac_scale_invariant (xs : List ℚ) (c : ℚ) (hc : c ≠ 0) :
    fracs (xs.map (fun x => c * x)) = fracs xs := by
  unfold fracs
  have hs : (xs.map (fun x => c * x)).sum = c * xs.sum := by
    induction xs with
    | nil => simp
    | cons x xs ih => simp [ih, mul_add]
  rw [hs, List.map_map]
  apply List.map_congr_left
  intro x _
  simp only [Function.comp]
  by_cases h0 : xs.sum = 0
  · simp [h0]
  · field_simp

/-! non-vacuity -/
example : fracs [1, 3] = [1/4, 3/4] := by decide +kernel
example : (fracs [1, 3, 4]).sum = 1 := frac_sum_one _ (by decide +kernel)

end RdVerif.C14
