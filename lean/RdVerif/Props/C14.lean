/-
Props/C14.lean — property C14: activity, mass and mole fractions are true shares of the total.
-/
import Mathlib.Algebra.Order.Field.Basic
import Mathlib.Algebra.Order.Field.Rat
import Mathlib.Data.Rat.Defs
import Mathlib.Algebra.BigOperators.Group.List.Basic
import Mathlib.Algebra.Order.BigOperators.Group.List
import Mathlib.Tactic.FieldSimp
import Mathlib.Tactic.Ring
import RdVerif.Model.Fractions

namespace RdVerif.C14
open RdVerif

/-- each fraction is the read-out divided by the total -/
theorem frac_def (xs : List ℚ) (i : ℕ) (h : i < xs.length) :
    (fracs xs)[i]'(by simpa [fracs] using h) = xs[i] / xs.sum := by
  simp [fracs]

theorem sum_map_div (xs : List ℚ) (s : ℚ) : (xs.map (fun x => x / s)).sum = xs.sum / s := by
  induction xs with
  | nil => simp
  | cons x xs ih => simp [ih, add_div]

/-- **fractions sum to one** whenever the total is non-zero -/
theorem frac_sum_one (xs : List ℚ) (h : xs.sum ≠ 0) : (fracs xs).sum = 1 := by
  unfold fracs
  rw [sum_map_div, div_self h]

/-- **fractions lie in [0, 1]** for non-negative contents and a positive total -/
theorem frac_in_unit_interval (xs : List ℚ) (hnn : ∀ x ∈ xs, 0 ≤ x) (hpos : 0 < xs.sum) :
    ∀ f ∈ fracs xs, 0 ≤ f ∧ f ≤ 1 := by
  intro f hf
  simp only [fracs, List.mem_map] at hf
  obtain ⟨x, hx, rfl⟩ := hf
  refine ⟨div_nonneg (hnn x hx) hpos.le, ?_⟩
  rw [div_le_one hpos]
  exact List.single_le_sum hnn x hx

/-- **invariance under scaling the inventory** (and hence under the unit used to create it or
to read it out: a unit change multiplies every read-out by the same non-zero factor) -/
theorem frac_scale_invariant (xs : List ℚ) (c : ℚ) (hc : c ≠ 0) :
    fracs (xs.map (fun x => c * x)) = fracs xs := by
  unfold fracs
  have hs : (xs.map (fun x => c * x)).sum = c * xs.sum := by
    induction xs with
    | nil => simp
    | cons x xs ih => simp [ih, mul_add]
  rw [hs, List.map_map]
  apply List.map_congr_left
  intro x _
  simp only [Function.comp]
  by_cases h0 : xs.sum = 0
  · simp [h0]
  · field_simp

/-! ### the three fraction kinds, from the stored contents -/

theorem sum_map_mul_left (xs : List ℚ) (c : ℚ) : (xs.map (fun x => c * x)).sum = c * xs.sum := by
  induction xs with
  | nil => simp
  | cons x xs ih => simp [ih, mul_add]

/-- **mole fractions are atom-number fractions**: Avogadro's constant cancels, so the mole fractions
are the shares of the stored atom counts whatever (non-zero) value the constant has -/
theorem mole_fractions_eq_number_shares (av : ℚ) (hav : av ≠ 0) (ns : List Nuc) :
    moleFractions av ns = fracs (ns.map (·.N)) := by
  have h : moleReadouts av ns = (ns.map (·.N)).map (fun x => av⁻¹ * x) := by
    simp [moleReadouts, List.map_map, Function.comp_def, div_eq_inv_mul]
  rw [moleFractions, h, frac_scale_invariant _ _ (inv_ne_zero hav)]

/-- **mass fractions do not depend on Avogadro's constant** either -/
theorem mass_fractions_eq_weighted_shares (av : ℚ) (hav : av ≠ 0) (ns : List Nuc) :
    massFractions av ns = fracs (ns.map (fun n => n.N * n.mass)) := by
  have h : massReadouts av ns = (ns.map (fun n => n.N * n.mass)).map (fun x => av⁻¹ * x) := by
    simp only [massReadouts, List.map_map, Function.comp_def]
    apply List.map_congr_left
    intro n _
    rw [div_eq_mul_inv]; ring
  rw [massFractions, h, frac_scale_invariant _ _ (inv_ne_zero hav)]

/-- scaling the inventory (`inv * c`, `c * inv`, `inv / c⁻¹`) leaves all three fraction kinds unchanged -/
def scaleNuc (c : ℚ) (n : Nuc) : Nuc := ⟨c * n.N, n.lam, n.mass⟩

theorem activity_fractions_scale (c : ℚ) (hc : c ≠ 0) (ns : List Nuc) :
    activityFractions (ns.map (scaleNuc c)) = activityFractions ns := by
  have h : activityReadouts (ns.map (scaleNuc c)) = (activityReadouts ns).map (fun x => c * x) := by
    simp [activityReadouts, scaleNuc, List.map_map, Function.comp_def, mul_assoc]
  rw [activityFractions, h, frac_scale_invariant _ _ hc, activityFractions]

theorem mass_fractions_scale (av c : ℚ) (hc : c ≠ 0) (ns : List Nuc) :
    massFractions av (ns.map (scaleNuc c)) = massFractions av ns := by
  have h : massReadouts av (ns.map (scaleNuc c)) = (massReadouts av ns).map (fun x => c * x) := by
    simp only [massReadouts, scaleNuc, List.map_map, Function.comp_def]
    apply List.map_congr_left
    intro n _
    ring
  rw [massFractions, h, frac_scale_invariant _ _ hc, massFractions]

theorem mole_fractions_scale (av c : ℚ) (hc : c ≠ 0) (ns : List Nuc) :
    moleFractions av (ns.map (scaleNuc c)) = moleFractions av ns := by
  have h : moleReadouts av (ns.map (scaleNuc c)) = (moleReadouts av ns).map (fun x => c * x) := by
    simp only [moleReadouts, scaleNuc, List.map_map, Function.comp_def]
    apply List.map_congr_left
    intro n _
    ring
  rw [moleFractions, h, frac_scale_invariant _ _ hc, moleFractions]

/-- **invariance under the creation unit**: an inventory created from masses `g` (in grams) has
exactly those masses as its mass read-outs, hence mass fractions equal to the shares of the input;
likewise for amounts of substance and activities.  The hypotheses are the ones under which the
constructor accepts the input (non-zero atomic mass / Avogadro constant / decay constant). -/
theorem mass_readout_of_fromMass (av : ℚ) (hav : av ≠ 0) (xs : List (ℚ × ℚ × ℚ))
    (hm : ∀ x ∈ xs, x.2.2 ≠ 0) :
    massReadouts av (xs.map (fun x => fromMass av x.1 x.2.1 x.2.2)) = xs.map (·.1) := by
  simp only [massReadouts, fromMass, List.map_map, Function.comp_def]
  apply List.map_congr_left
  intro x hx
  have := hm x hx
  field_simp

theorem mass_fractions_created_from_mass (av : ℚ) (hav : av ≠ 0) (xs : List (ℚ × ℚ × ℚ))
    (hm : ∀ x ∈ xs, x.2.2 ≠ 0) :
    massFractions av (xs.map (fun x => fromMass av x.1 x.2.1 x.2.2)) = fracs (xs.map (·.1)) := by
  rw [massFractions, mass_readout_of_fromMass av hav xs hm]

theorem mole_fractions_created_from_moles (av : ℚ) (hav : av ≠ 0) (xs : List (ℚ × ℚ × ℚ)) :
    moleFractions av (xs.map (fun x => fromMoles av x.1 x.2.1 x.2.2)) = fracs (xs.map (·.1)) := by
  have h : moleReadouts av (xs.map (fun x => fromMoles av x.1 x.2.1 x.2.2)) = xs.map (·.1) := by
    simp only [moleReadouts, fromMoles, List.map_map, Function.comp_def]
    apply List.map_congr_left
    intro x _
    field_simp
  rw [moleFractions, h]

theorem activity_fractions_created_from_activity (xs : List (ℚ × ℚ × ℚ))
    (hl : ∀ x ∈ xs, x.2.1 ≠ 0) :
    activityFractions (xs.map (fun x => fromActivity x.1 x.2.1 x.2.2)) = fracs (xs.map (·.1)) := by
  have h : activityReadouts (xs.map (fun x => fromActivity x.1 x.2.1 x.2.2)) = xs.map (·.1) := by
    simp only [activityReadouts, fromActivity, List.map_map, Function.comp_def]
    apply List.map_congr_left
    intro x hx
    have := hl x hx
    field_simp
  rw [activityFractions, h]

/-- a stable nuclide (decay constant 0) has activity fraction 0 -/
theorem activity_fraction_stable (ns : List Nuc) (i : ℕ) (h : i < ns.length) (hs : ns[i].lam = 0) :
    (activityFractions ns)[i]'(by simpa [activityFractions, fracs, activityReadouts] using h) = 0 := by
  simp [activityFractions, fracs, activityReadouts, hs]

/-- **shares are additive**: the fractions of any leading group of nuclides add up to the group's
read-out divided by the total (with `frac_perm` below: of any group) -/
theorem frac_group_additive (xs : List ℚ) (k : ℕ) :
    ((fracs xs).take k).sum = (xs.take k).sum / xs.sum := by
  unfold fracs
  rw [← List.map_take, sum_map_div]

/-- **the order of the nuclides does not matter**: permuting the read-outs permutes the fractions -/
theorem frac_perm (xs ys : List ℚ) (h : xs.Perm ys) : (fracs xs).Perm (fracs ys) := by
  unfold fracs
  rw [h.sum_eq]
  exact h.map _

/-! non-vacuity -/
example : moleFractions 7 [⟨1, 2, 3⟩, ⟨3, 5, 7⟩] = [1/4, 3/4] := by decide +kernel
example : massFractions 7 [fromMass 7 2 1 3, fromMass 7 6 1 5] = [1/4, 3/4] := by decide +kernel
example : activityFractions [fromActivity 2 3 1, fromActivity 6 5 1] = [1/4, 3/4] := by decide +kernel
example : fracs [1, 3] = [1/4, 3/4] := by decide +kernel
example : (fracs [1, 3, 4]).sum = 1 := frac_sum_one _ (by decide +kernel)

end RdVerif.C14
