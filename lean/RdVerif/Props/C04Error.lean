/-
Props/C04Error.lean — property C04, the error clause: the double-precision matrices and decay
constants of the shipped dataset agree with the exact ones closely enough that their
contribution to ANY decay result — every t ≥ 0, every non-negative initial inventory, every
nuclide — is below 5e-12 of the initial atoms.  (Exact arithmetic on the stored doubles: this is
the data part of the forward error; the rounding of the evaluation itself is not included.)
-/
import RdVerif.Proofs.Icrp107Error

set_option maxRecDepth 20000

namespace RdVerif.C04
open RdVerif RdVerif.Icrp107 RdVerif.Gen

/-- `Ĉ`, `Ĉ⁻¹`, `λ̂` are the stored doubles read as the exact reals they are -/
theorem float_data_contribution (t : ℝ) (ht : 0 ≤ t) (N0 : Fin N → ℝ) (hN0 : ∀ j, 0 ≤ N0 j) (i : Fin N) :
    |∑ j, (∑ k, toMatF N icrp107.cf i k * Real.exp (-(lamHat k * t)) * toMatF N icrp107.cif k j) * N0 j
      - RdVerif.C01.Nt N0 t i| ≤ 5 / 10 ^ 12 * ∑ j, N0 j :=
  icrp107_data_contribution t ht N0 hN0 i

/-- the 40-digit enclosure of ln 2 used by the decay-constant check is certified -/
theorem ln2_constants_certified : (ln2Lo : ℝ) ≤ Real.log 2 ∧ Real.log 2 ≤ (ln2Hi : ℝ) := ln2_bounds

end RdVerif.C04
