/-
Props/C08.lean — property C08: inventory arithmetic is exact multiset arithmetic on atoms.
Refinement of the concrete sorted-association-list model (`Model/Inventory.lean`) to the
abstract specification "finitely supported map nuclide ↦ amount" (`Contents.amount`), for every
amount type with the stated algebraic structure (ℚ for the high-precision class; the IEEE
instance is exercised bit-for-bit by the correspondence run).
-/
import Mathlib.Algebra.Group.Basic
import Mathlib.Algebra.GroupWithZero.Basic
import Mathlib.Algebra.Field.Basic
import Mathlib.Data.List.Perm.Basic
import RdVerif.Model.Inventory
import RdVerif.Proofs.Inventory

namespace RdVerif.C08
open RdVerif

/-- the names of an inventory are pairwise distinct -/
def NodupKeys {α} (c : Contents α) : Prop := c.keys.Nodup

/-- sorting keeps every entry -/
theorem sort_perm {α} (c : Contents α) : (sortContents c).Perm c :=
  sortContents_perm c

/-- sorting distinct names yields strictly increasing names (alphabetical order) -/
theorem sort_sorted {α} (c : Contents α) (h : NodupKeys c) : (sortContents c).sorted = true :=
  sortContents_sorted c h

theorem sort_amount {α} [Zero α] (c : Contents α) (h : NodupKeys c) (n : Name) :
    (sortContents c).amount n = c.amount n :=
  sortContents_amount c h n

/-- `add_dictionaries` is pointwise addition on the union of the names -/
theorem addDictionaries_spec {α} [AddZeroClass α] (a b : Contents α) (ha : NodupKeys a) (hb : NodupKeys b) :
    NodupKeys (addDictionaries a b) ∧
    (∀ n, n ∈ (addDictionaries a b).keys ↔ n ∈ a.keys ∨ n ∈ b.keys) ∧
    (∀ n, (addDictionaries a b).amount n = a.amount n + b.amount n) :=
  addDictionaries_spec' b a ha hb

/-- **`+`**: nuclide-wise sum, names = union, alphabetical order, same class, same dataset -/
theorem abs_add {α} [AddZeroClass α] (a b c : Inv α) (ha : NodupKeys a.contents) (hb : NodupKeys b.contents)
    (h : a.plus b = .ok c) :
    (∀ n, c.contents.amount n = a.contents.amount n + b.contents.amount n) ∧
    (∀ n, n ∈ c.contents.keys ↔ n ∈ a.contents.keys ∨ n ∈ b.contents.keys) ∧
    c.contents.sorted = true ∧ c.cls = a.cls ∧ c.ds = a.ds := by
  unfold Inv.plus at h
  split at h
  · cases h
  · cases h
    obtain ⟨h1, h2, h3⟩ := addDictionaries_spec a.contents b.contents ha hb
    refine ⟨fun n => ?_, fun n => ?_, sortContents_sorted _ h1, rfl, rfl⟩
    · exact (sortContents_amount _ h1 n).trans (h3 n)
    · exact (mem_keys_sortContents _ n).trans (h2 n)

/-- **`−`**: nuclide-wise difference `a + (−b)` -/
theorem abs_sub {α} [AddGroup α] (a b c : Inv α) (ha : NodupKeys a.contents) (hb : NodupKeys b.contents)
    (h : a.minus b = .ok c) :
    (∀ n, c.contents.amount n = a.contents.amount n + -(b.contents.amount n)) ∧
    (∀ n, n ∈ c.contents.keys ↔ n ∈ a.contents.keys ∨ n ∈ b.contents.keys) ∧
    c.contents.sorted = true ∧ c.cls = a.cls ∧ c.ds = a.ds := by
  unfold Inv.minus at h
  split at h
  · cases h
  · cases h
    have hb' : NodupKeys (b.contents.map (fun p => (p.1, -p.2))) := by
      unfold NodupKeys; rw [keys_map_neg]; exact hb
    obtain ⟨h1, h2, h3⟩ := addDictionaries_spec a.contents _ ha hb'
    refine ⟨fun n => ?_, fun n => ?_, sortContents_sorted _ h1, rfl, rfl⟩
    · refine (sortContents_amount _ h1 n).trans ((h3 n).trans ?_)
      rw [amount_map_neg]
    · refine (mem_keys_sortContents _ n).trans ((h2 n).trans ?_)
      rw [keys_map_neg]

/-- **`*`**: nuclide-wise multiple -/
theorem abs_mul {α} [MulZeroClass α] (a : Inv α) (k : α) (ha : NodupKeys a.contents) :
    (∀ n, (a.smul k).contents.amount n = a.contents.amount n * k) ∧
    (∀ n, n ∈ (a.smul k).contents.keys ↔ n ∈ a.contents.keys) ∧
    (a.smul k).contents.sorted = true ∧ (a.smul k).cls = a.cls ∧ (a.smul k).ds = a.ds := by
  have h1 : NodupKeys (a.contents.map (fun p => (p.1, p.2 * k))) := by
    unfold NodupKeys; rw [keys_map_mul]; exact ha
  refine ⟨fun n => ?_, fun n => ?_, sortContents_sorted _ h1, rfl, rfl⟩
  · exact (sortContents_amount _ h1 n).trans (amount_map_mul _ k n)
  · refine (mem_keys_sortContents _ n).trans ?_
    rw [keys_map_mul]

/-- **`/`**: nuclide-wise quotient -/
theorem abs_div {α} [DivisionRing α] (a : Inv α) (k : α) (ha : NodupKeys a.contents) :
    (∀ n, (a.sdiv k).contents.amount n = a.contents.amount n / k) ∧
    (∀ n, n ∈ (a.sdiv k).contents.keys ↔ n ∈ a.contents.keys) ∧
    (a.sdiv k).contents.sorted = true ∧ (a.sdiv k).cls = a.cls ∧ (a.sdiv k).ds = a.ds := by
  have h1 : NodupKeys (a.contents.map (fun p => (p.1, p.2 / k))) := by
    unfold NodupKeys; rw [keys_map_div]; exact ha
  refine ⟨fun n => ?_, fun n => ?_, sortContents_sorted _ h1, rfl, rfl⟩
  · exact (sortContents_amount _ h1 n).trans (amount_map_div _ k n)
  · refine (mem_keys_sortContents _ n).trans ?_
    rw [keys_map_div]

/-- **`remove`**: restriction to the other names; order, class and dataset kept -/
theorem abs_remove {α} [Zero α] (a c : Inv α) (ns : List Name) (ha : NodupKeys a.contents)
    (h : a.remove ns = .ok c) :
    (∀ n, c.contents.amount n = if n ∈ ns then 0 else a.contents.amount n) ∧
    (∀ n, n ∈ c.contents.keys ↔ n ∈ a.contents.keys ∧ n ∉ ns) ∧
    (a.contents.sorted = true → c.contents.sorted = true) ∧ c.cls = a.cls ∧ c.ds = a.ds ∧
    (∀ n ∈ ns, n ∈ a.contents.keys) := by
  have _ := ha  -- not needed: `remove` is a restriction whatever the multiplicity of the names
  unfold Inv.remove at h
  cases hr : removeNames a.contents ns with
  | error e => rw [hr] at h; cases h
  | ok c' =>
    rw [hr] at h
    cases h
    obtain ⟨h1, h2⟩ := removeNames_ok ns _ _ hr
    subst h1
    refine ⟨fun n => ?_, fun n => ?_, fun hs => sorted_filter _ hs, rfl, rfl, h2⟩
    · show Contents.amount (a.contents.filter _) n = _
      simp only [Contents.amount, get?_filter (fun k => !ns.contains k)]
      by_cases hn : n ∈ ns <;> simp [hn]
    · show n ∈ Contents.keys (a.contents.filter _) ↔ _
      rw [mem_keys_filter (fun k => !ns.contains k)]
      simp

/-- **refusals**: different datasets are refused by `+` and `−`; removing an absent nuclide is
refused -/
theorem refusals {α} [AddGroup α] (a b : Inv α) (hds : a.ds ≠ b.ds) :
    a.plus b = .error .value ∧ a.minus b = .error .value := by
  have hne : (a.ds != b.ds) = true := by simpa using hds
  exact ⟨by unfold Inv.plus; rw [if_pos hne], by unfold Inv.minus; rw [if_pos hne]⟩

theorem remove_absent_refused {α} (a : Inv α) (n : Name) (h : n ∉ a.contents.keys) :
    a.remove [n] = .error .value := by
  have hany : ¬ (a.contents.any (fun p => p.1 == n) = true) := fun h' => h ((any_key_iff _ n).1 h')
  unfold Inv.remove removeNames
  rw [if_neg hany]
  rfl

/-- **no supplied amount is silently discarded**: `add` either refuses the argument (two
entries naming the same nuclide) or every supplied amount is added to its nuclide -/
theorem no_amount_discarded {α} [AddZeroClass α] (a : Inv α) (arg : Contents α) (ha : NodupKeys a.contents) :
    (¬ NodupKeys arg → a.addContents arg = .error .value) ∧
    (NodupKeys arg → ∃ c, a.addContents arg = .ok c ∧
      (∀ n, c.contents.amount n = a.contents.amount n + arg.amount n) ∧ c.cls = a.cls ∧ c.ds = a.ds ∧
      c.contents.sorted = true) := by
  constructor
  · intro hn
    have : (!nodupNames arg.keys) = true := by
      rw [Bool.not_eq_true']
      cases hb : nodupNames arg.keys
      · rfl
      · exact absurd ((nodupNames_iff _).1 hb) hn
    unfold Inv.addContents
    rw [if_pos this]
  · intro hn
    have hnb : ¬ ((!nodupNames arg.keys) = true) := by
      rw [Bool.not_eq_true', (nodupNames_iff _).2 hn]; simp
    have hplus : a.addContents arg =
        .ok (a.rebuild (addDictionaries a.contents (sortContents arg))) := by
      unfold Inv.addContents
      rw [if_neg hnb]
      unfold Inv.plus
      simp
    refine ⟨_, hplus, ?_⟩
    have hb : NodupKeys (sortContents arg) := sortContents_keys_nodup arg hn
    have hp : a.plus ⟨a.cls, a.ds, sortContents arg⟩ =
        .ok (a.rebuild (addDictionaries a.contents (sortContents arg))) := by
      unfold Inv.plus; simp
    obtain ⟨h1, _, h3, h4, h5⟩ := abs_add a ⟨a.cls, a.ds, sortContents arg⟩ _ ha hb hp
    refine ⟨fun n => ?_, h4, h5, h3⟩
    rw [h1 n]
    show _ + (sortContents arg).amount n = _
    rw [sortContents_amount arg hn n]

/-! non-vacuity -/
example : (Inv.plus (α := ℚ) ⟨.hp, 0, [(S "H-3", 1)]⟩ ⟨.hp, 0, [(S "C-14", 2), (S "H-3", 1/3)]⟩) =
    .ok ⟨.hp, 0, [(S "C-14", 2), (S "H-3", 4/3)]⟩ := by decide +kernel

end RdVerif.C08
