/-
Props/C02.lean — property C02 (high-precision decay): as a function of time the solution the
high-precision class returns — the same closed form with exact rational `C`, `C⁻¹` and decay
constants `r·ln 2` — satisfies the decay differential equations and the initial condition
identically.  The 1e-13 relative accuracy of the 320-digit evaluation is checked per input
against the verified oracle; it is false for extreme inputs (known finding F6).
-/
import RdVerif.Props.C01

set_option maxRecDepth 20000

namespace RdVerif.C02
open RdVerif RdVerif.Icrp107 RdVerif.Bateman RdVerif.C01 Matrix

/-- **C02_symbolic**: ∀ N(0), the returned function of `t` satisfies ODE and initial condition
at every real `t` (not only at sampled times), and is determined by them. -/
theorem C02_symbolic (N0 : Fin N → ℝ) :
    Nt N0 0 = N0 ∧ (∀ t : ℝ, HasDerivAt (Nt N0) (L.mulVec (Nt N0 t)) t) ∧
    (∀ f : ℝ → Fin N → ℝ, f 0 = N0 → (∀ t, HasDerivAt f (L.mulVec (f t)) t) → f = Nt N0) :=
  C01_exact N0

/-- the coefficient of `e^{−λ_k t}` in `N_i(t)` is the rational number `C_ik·(C⁻¹N(0))_k`; for a
single parent `j` with one atom it is `C_ik·C⁻¹_kj` -/
theorem C02_single_parent (j i : Fin N) (t : ℝ) :
    Nt (fun m => if m = j then 1 else 0) t i = ∑ k, C i k * Real.exp (-lam k * t) * Ci k j := by
  rw [C01_closed_form]
  refine Finset.sum_congr rfl fun k _ => ?_
  congr 1
  simp [Finset.sum_ite_eq']

/-- the number of significant digits used by the high-precision class, as translated from the
source; the accuracy side-conditions of the oracle comparison assume at least 300 -/
theorem C02_sig_fig_ge : 300 ≤ Gen.sigFig := by decide

end RdVerif.C02
