/-
Props/AllDatasets.lean — C01 / C03 / C07 (and the oracle behind C02) for EVERY dataset accepted by
the executable well-formedness checker `wellFormedB` (Model/WellFormed.lean), not only the shipped
one.  The correspondence harness builds synthetic datasets through the library's public route
(data files + `load_dataset(name, dir_path)`), renders the loaded object for the driver, and the
driver evaluates `wellFormedB` on it; when that is `true` these theorems are statements about
exactly the data the library holds, and real calculations on it are compared with `solEncl` /
`cumEncl` run on it.  `Generic.tiny_wellFormed` (H-3 → He-3) shows the hypothesis is satisfiable.
-/
import RdVerif.Proofs.Generic
import RdVerif.Proofs.GenericError

set_option maxRecDepth 20000

namespace RdVerif.AllDatasets
open RdVerif RdVerif.Generic

/-- C01: the closed form is the unique solution of the decay equations assembled from the listed
half-lives, branching fractions and progeny -/
theorem exact_solution (ds : Dataset) (h : wellFormedB ds = true) (N0 : Fin ds.n → ℝ) :
    Nt ds N0 0 = N0 ∧ (∀ t, HasDerivAt (Nt ds N0) ((L ds).mulVec (Nt ds N0 t)) t) ∧
    (∀ f : ℝ → Fin ds.n → ℝ, f 0 = N0 → (∀ t, HasDerivAt f ((L ds).mulVec (f t)) t) →
      f = Nt ds N0) :=
  Generic.exact_solution ds h N0

/-- the ODE matrix is `(B − I)·diag(λ)` with `B` the listed branching fractions -/
theorem ode_matrix (ds : Dataset) (i j : Fin ds.n) :
    L ds i j = (Bm ds i j - if i = j then 1 else 0) * lam ds j := Generic.L_apply ds i j

/-- C01: the decayed inventory holds exactly the inputs and their closure under the progeny lists -/
theorem nuclide_set (ds : Dataset) (h : wellFormedB ds = true) (inputs : List ℕ) (i : ℕ) :
    i ∈ decayIndices ds inputs ↔ i < ds.n ∧ ∃ j ∈ inputs, AncOrSelf ds j i :=
  Generic.nuclide_set ds h inputs i

/-- a stable nuclide has decay constant 0 and feeds nothing -/
theorem stable (ds : Dataset) (h : wellFormedB ds = true) (k : Fin ds.n)
    (hk : get2 ds.rate k.val 0 = 0) : lam ds k = 0 ∧ ∀ i, i ≠ k → C ds i k = 0 :=
  Generic.stable ds h k hk

/-- C01/C02: the interval oracle encloses the exact solution -/
theorem oracle_sound (ds : Dataset) (h : wellFormedB ds = true) (cfg : EvalCfg) (v : N0) (t : ℚ)
    (i : ℕ) (hi : i < ds.n) (ht : 0 ≤ t)
    (hln2 : (cfg.ln2.1 : ℝ) ≤ Real.log 2 ∧ Real.log 2 ≤ (cfg.ln2.2 : ℝ)) :
    ((solEncl ds cfg v t i).1 : ℝ) ≤ Nt ds (N0vec ds.n v) (t : ℝ) ⟨i, hi⟩ ∧
    Nt ds (N0vec ds.n v) (t : ℝ) ⟨i, hi⟩ ≤ ((solEncl ds cfg v t i).2 : ℝ) :=
  Generic.oracle_sound ds h cfg v t i hi ht hln2

/-- C03: cumulative decays = ∫ activity; atom balance; oracle -/
theorem cum_integral (ds : Dataset) (h : wellFormedB ds = true) (N0 : Fin ds.n → ℝ) (i : Fin ds.n)
    (t : ℝ) : Dt ds N0 t i = ∫ s in (0 : ℝ)..t, lam ds i * Nt ds N0 s i :=
  Generic.cum_integral ds h N0 i t

theorem atom_balance (ds : Dataset) (h : wellFormedB ds = true) (N0 : Fin ds.n → ℝ) (t : ℝ)
    (i : Fin ds.n) : Nt ds N0 t i - N0 i = - Dt ds N0 t i + ∑ j, Bm ds i j * Dt ds N0 t j :=
  Generic.atom_balance ds h N0 t i

theorem cum_oracle_sound (ds : Dataset) (h : wellFormedB ds = true) (cfg : EvalCfg) (v : N0)
    (t : ℚ) (i : ℕ) (hi : i < ds.n) (ht : 0 ≤ t)
    (hln2 : (cfg.ln2.1 : ℝ) ≤ Real.log 2 ∧ Real.log 2 ≤ (cfg.ln2.2 : ℝ)) :
    ((cumEncl ds cfg v t i).1 : ℝ) ≤ Dt ds (N0vec ds.n v) (t : ℝ) ⟨i, hi⟩ ∧
    Dt ds (N0vec ds.n v) (t : ℝ) ⟨i, hi⟩ ≤ ((cumEncl ds cfg v t i).2 : ℝ) :=
  Generic.cum_oracle_sound ds h cfg v t i hi ht hln2

/-- C07: the flow laws -/
theorem flow_add (ds : Dataset) (h : wellFormedB ds = true) (N0 : Fin ds.n → ℝ) (t₁ t₂ : ℝ) :
    Nt ds (Nt ds N0 t₁) t₂ = Nt ds N0 (t₁ + t₂) := Generic.flow_add ds h N0 t₁ t₂

theorem flow_zero (ds : Dataset) (h : wellFormedB ds = true) (N0 : Fin ds.n → ℝ) :
    Nt ds N0 0 = N0 := Generic.flow_zero ds h N0

theorem flow_linear (ds : Dataset) (X Y : Fin ds.n → ℝ) (a t : ℝ) :
    Nt ds (a • X + Y) t = a • Nt ds X t + Nt ds Y t := Generic.flow_linear ds X Y a t

theorem flow_split (ds : Dataset) (h : wellFormedB ds = true) (N0 : Fin ds.n → ℝ) (ts : List ℝ) :
    ts.foldl (fun v t => Nt ds v t) N0 = Nt ds N0 ts.sum := Generic.flow_split ds h N0 ts

/-- **C01 forward error for every checked dataset**: if the exact side passes `wellFormedB` and the
double-precision side passes `errorCheckedB` with tolerances `bErr, bCond, lamRel, bRound` (Model/
ErrorChecked.lean; the driver finds the smallest passing ones with `errorConstants` and reports
`errorBoundQ`), then under the standard floating-point model (hypotheses `hetil`, `hθ`, cf.
`C01_fp_exp`, `C01_fp_product`) the computed amount is within `errorBoundQ · ΣN(0)` of the exact
solution — the harness uses exactly this bound as its tolerance on synthetic datasets -/
theorem forward_error (ds : Dataset) (hwf : wellFormedB ds = true) (bErr bCond lamRel bRound : ℚ)
    (herr : errorCheckedB ds bErr bCond lamRel bRound = true)
    (t : ℝ) (ht : 0 ≤ t) (N0 : Fin ds.n → ℝ) (hN0 : ∀ j, 0 ≤ N0 j) (i : Fin ds.n)
    (etil : Fin ds.n → ℝ) (hetil : ∀ k, |etil k - Real.exp (-(lamHat ds k * t))| ≤ 3 / 2 ^ 53)
    (θ : Fin ds.n → Fin ds.n → ℝ)
    (hθ : ∀ k j, |θ k j| ≤ (((gammaU (2 * (getRow ds.cx i.val).length + 3) : ℚ)) : ℝ))
    (comp : ℝ)
    (hcomp : comp = ∑ j, ∑ k, Icrp107.toMatF ds.n ds.cf i k * etil k
      * Icrp107.toMatF ds.n ds.cif k j * N0 j * (1 + θ k j)) :
    |comp - Nt ds N0 t i| ≤ (((errorBoundQ bErr bCond lamRel bRound : ℚ)) : ℝ) * ∑ j, N0 j :=
  Generic.forward_error ds hwf bErr bCond lamRel bRound herr t ht N0 hN0 i etil hetil θ hθ comp hcomp

/-- the shipped dataset is an instance: the kernel-checked obligations imply `wellFormedB icrp107` -/
theorem shipped_is_instance : wellFormedB Gen.icrp107 = true := Generic.icrp107_wellFormed

/-- non-vacuity: a two-nuclide dataset passes the checker -/
example : wellFormedB Generic.tiny = true := Generic.tiny_wellFormed

end RdVerif.AllDatasets
