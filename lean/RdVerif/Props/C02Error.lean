/-
Props/C02Error.lean — the quantitative clause of C02 ("relative error ≤ 1e-13 however many orders
of magnitude separate the half-lives"), as far as it is true, for the shipped dataset.

The high-precision class evaluates `C · Ê · C⁻¹ · N0` with the EXACT rational matrices; the
exponentials and every operation are carried out at `sig_fig = 320` significant digits.  Model of
that arithmetic (hypotheses of the theorem, not axioms): each term carries a relative perturbation
`|θ| ≤ Θ`, each exponential an absolute error ≤ η, with `Θ(1+η)+η ≤ 1e-306` (at 320 digits and at
most ~130 operations per term, Θ ≈ 1.3e-318; η ≈ λt·1e-320 for the exponent rounding).  Then:

* `C02_hp_abs_error`: the result is within `(Θ(1+η)+η)·1000·ΣN(0)` of the exact solution (1000 is
  the kernel-checked bound on the condition sums Σ_k|C_ik C⁻¹_kj|);
* `C02_hp_rel_error`: its relative error is ≤ 1e-13 for EVERY value that is at least `1e-290·ΣN(0)`.

Below that magnitude the guarantee ends — cancellation uses up the 320 digits — which is exactly
the class of inputs of the open known finding F6 (the property's "however small" is false there,
see `known_findings.json`); the correspondence check treats a deviation as F6 only inside that
class and as a violation outside it.
-/
import RdVerif.Proofs.HpError

set_option maxRecDepth 20000

namespace RdVerif.C02
open RdVerif RdVerif.Icrp107 RdVerif.Gen

theorem C02_hp_abs_error (t : ℝ) (ht : 0 ≤ t) (N0 : Fin N → ℝ) (hN0 : ∀ j, 0 ≤ N0 j) (i : Fin N)
    (Θ η : ℝ) (hΘ : 0 ≤ Θ) (hη : 0 ≤ η)
    (etil : Fin N → ℝ) (hetil : ∀ k, |etil k - Real.exp (-(lam k * t))| ≤ η)
    (θ : Fin N → Fin N → ℝ) (hθ : ∀ k j, |θ k j| ≤ Θ)
    (comp : ℝ)
    (hcomp : comp = ∑ j, ∑ k, C i k * etil k * Ci k j * N0 j * (1 + θ k j)) :
    |comp - RdVerif.C01.Nt N0 t i| ≤ (Θ * (1 + η) + η) * (1000 * ∑ j, N0 j) :=
  icrp107_hp_error t ht N0 hN0 i Θ η hΘ hη etil hetil θ hθ comp hcomp

theorem C02_hp_rel_error (t : ℝ) (ht : 0 ≤ t) (N0 : Fin N → ℝ) (hN0 : ∀ j, 0 ≤ N0 j)
    (i : Fin N) (Θ η : ℝ) (hΘ : 0 ≤ Θ) (hη : 0 ≤ η) (hsmall : Θ * (1 + η) + η ≤ 1 / 10 ^ 306)
    (etil : Fin N → ℝ) (hetil : ∀ k, |etil k - Real.exp (-(lam k * t))| ≤ η)
    (θ : Fin N → Fin N → ℝ) (hθ : ∀ k j, |θ k j| ≤ Θ)
    (comp : ℝ)
    (hcomp : comp = ∑ j, ∑ k, C i k * etil k * Ci k j * N0 j * (1 + θ k j))
    (hbig : 1 / 10 ^ 290 * ∑ j, N0 j ≤ |RdVerif.C01.Nt N0 t i|) :
    |comp - RdVerif.C01.Nt N0 t i| ≤ 1 / 10 ^ 13 * |RdVerif.C01.Nt N0 t i| :=
  icrp107_hp_rel_error t ht N0 hN0 i Θ η hΘ hη hsmall etil hetil θ hθ comp hcomp hbig

/-- non-vacuity: exact exponentials and unperturbed terms satisfy the model hypotheses -/
example (t : ℝ) (ht : 0 ≤ t) (N0 : Fin N → ℝ) (hN0 : ∀ j, 0 ≤ N0 j) (i : Fin N) :
    |(∑ j, ∑ k, C i k * Real.exp (-(lam k * t)) * Ci k j * N0 j * (1 + (0 : ℝ)))
        - RdVerif.C01.Nt N0 t i| ≤ (0 * (1 + 0) + 0) * (1000 * ∑ j, N0 j) :=
  C02_hp_abs_error t ht N0 hN0 i 0 0 le_rfl le_rfl _ (fun k => by simp) (fun _ _ => 0)
    (fun _ _ => by simp) _ rfl

end RdVerif.C02
