/-
Props/C05Float.lean — the "reads back to within a few ulp" clause of C05 for the double-precision
class, under the standard model of floating-point arithmetic.

A round trip through one unit is at most six floating-point operations in the library
(activity: `x·f / λ` then `n·λ / f` — four; mass: `x·f / M · N_A` then `n / N_A · M / f` — six;
moles: four), each multiplying by or dividing by the SAME stored double it later divides by or
multiplies by, so in exact arithmetic the round trip is the identity (`roundtrip_*` of
`Props/C05.lean`) and only the roundings remain: the result is `x · Π (1 + δ_l)` with at most six
factors, `|δ_l| ≤ u = 2⁻⁵³`.  Hence it is within `6u/(1−6u) < 7u` (3.5 ulp) of `x`.  The
correspondence harness allows 8 ulp.
-/
import RdVerif.Proofs.FpModel

namespace RdVerif.C05
open RdVerif RdVerif.Fp

/-- a value that went through `m ≤ 6` roundings differs from the exact one by less than 3.5 ulp -/
theorem float_roundtrip_within (x : ℝ) (m : ℕ) (hm : m ≤ 6) (δ : Fin m → ℝ)
    (hδ : ∀ l, |δ l| ≤ 1 / 2 ^ 53) :
    |x * ∏ l, (1 + δ l) - x| ≤ 7 / 2 ^ 53 * |x| := by
  have hu : (0 : ℝ) ≤ 1 / 2 ^ 53 := by norm_num
  have hm' : (m : ℝ) ≤ 6 := by exact_mod_cast hm
  have hmu : (m : ℝ) * (1 / 2 ^ 53) < 1 := by
    have : (m : ℝ) * (1 / 2 ^ 53) ≤ 6 * (1 / 2 ^ 53) := mul_le_mul_of_nonneg_right hm' hu
    have h6 : (6 : ℝ) * (1 / 2 ^ 53) < 1 := by norm_num
    linarith
  have h := prod_one_add_le m (1 / 2 ^ 53) hu hmu δ hδ
  have hb : (m : ℝ) * (1 / 2 ^ 53) / (1 - (m : ℝ) * (1 / 2 ^ 53)) ≤ 7 / 2 ^ 53 := by
    have hpos : 0 < 1 - (m : ℝ) * (1 / 2 ^ 53) := by linarith
    rw [div_le_iff₀ hpos]
    have hm0 : (0 : ℝ) ≤ (m : ℝ) := Nat.cast_nonneg m
    nlinarith [hm', hm0]
  have e : x * ∏ l, (1 + δ l) - x = x * (∏ l, (1 + δ l) - 1) := by ring
  rw [e, abs_mul, mul_comm]
  exact mul_le_mul_of_nonneg_right (h.trans hb) (abs_nonneg x)

end RdVerif.C05
