/-
Props/C09.lean — property C09: every documented nuclide spelling resolves to one canonical
nuclide.  Only property theorems and their non-vacuity examples live here; helper lemmas are in
`Proofs/`.
-/
import RdVerif.Proofs.NuclideForms
import RdVerif.Proofs.NuclideId

set_option maxRecDepth 100000
set_option linter.unusedSimpArgs false

namespace RdVerif.C09
open RdVerif

/-- the four documented arrangements -/
inductive Form | elemHyphen | elemPlain | massPlain | massHyphen
  deriving DecidableEq, Repr

/-- characters of a spelling once whitespace is dropped: `w` = element letters as typed,
`ds` = mass-number digits, `st` = state letter as typed -/
def render : Form → List Ch → List Ch → List Ch → List Ch
  | .elemHyphen, w, ds, st => w ++ [hy] ++ ds ++ st
  | .elemPlain, w, ds, st => w ++ ds ++ st
  | .massPlain, w, ds, st => ds ++ st ++ w
  | .massHyphen, w, ds, st => ds ++ st ++ [hy] ++ w

def Form.elemFirst : Form → Bool
  | .elemHyphen | .elemPlain => true
  | _ => false

private theorem no_hy_al {l : List Ch} (h : ∀ x ∈ l, isAl x = true) : ∀ x ∈ l, x ≠ hy :=
  fun x hx => (al_props x (h x hx)).2.2.2
private theorem no_hy_dig {l : List Ch} (h : ∀ x ∈ l, isDig x = true) : ∀ x ∈ l, x ≠ hy :=
  fun x hx => (dig_props x (h x hx)).2.2.2

/-- **Element-first spellings, any letter case, any whitespace.**  For every element of the
table, every accepted digit string, every state letter in either case, every string `s` whose
non-whitespace characters are `w ++ [-] ++ ds ++ st` with `w` any-case letters of the element. -/
theorem all_forms_elemFirst (el w ds st s : List Ch) (f : Form) (hf : f.elemFirst = true)
    (hel : el ∈ elems) (hw : capitalize w = el) (hds : MassDigits ds) (hst : StateAnyCase st)
    (hs : s.filter (fun c => !isWs c) = render f w ds st) :
    parseNuclideStr s = .ok (canonical el ds (st.map toLo)) := by
  have hcap : capitalize w ∈ elems := hw ▸ hel
  obtain ⟨_, _, helal, _, _⟩ := elems_ok _ hcap
  have hwal : ∀ x ∈ w, isAl x = true := capitalize_all_al w helal
  have key := parseCore_elemFirst w ds st hcap hds hst
  unfold parseNuclideStr normalise
  rw [hs]
  cases f with
  | elemHyphen =>
    have : eraseFirst hy (render .elemHyphen w ds st) = w ++ ds ++ st := by
      have := eraseFirst_append hy w (ds ++ st) (no_hy_al hwal)
      simpa [render, List.append_assoc] using this
    rw [this, key, hw]; rfl
  | elemPlain =>
    have : eraseFirst hy (render .elemPlain w ds st) = w ++ ds ++ st := by
      apply eraseFirst_none
      intro x hx
      simp only [render, List.mem_append] at hx
      rcases hx with (hx | hx) | hx
      · exact no_hy_al hwal x hx
      · exact no_hy_dig hds.dig x hx
      · exact no_hy_al (stateAnyCase_al hst) x hx
    rw [this, key, hw]; rfl
  | massPlain => simp [Form.elemFirst] at hf
  | massHyphen => simp [Form.elemFirst] at hf

/-- **Mass-first spellings, any whitespace** (`A[s]El`, `A[s]-El`; exact letter case, as
documented). -/
theorem all_forms_massFirst (el ds st s : List Ch) (f : Form) (hf : f.elemFirst = false)
    (hel : el ∈ elems) (hds : MassDigits ds) (hst : StateCanon st)
    (hs : s.filter (fun c => !isWs c) = render f el ds st) :
    parseNuclideStr s = .ok (canonical el ds st) := by
  obtain ⟨_, _, helal, _, _⟩ := elems_ok _ hel
  have helal' : ∀ x ∈ el, isAl x = true := by simpa [List.all_eq_true] using helal
  have key := parseCore_massFirst el ds st hel hds hst
  have hstal := stateAnyCase_al hst.anyCase
  unfold parseNuclideStr normalise
  rw [hs]
  cases f with
  | elemHyphen => simp [Form.elemFirst] at hf
  | elemPlain => simp [Form.elemFirst] at hf
  | massPlain =>
    have : eraseFirst hy (render .massPlain el ds st) = ds ++ st ++ el := by
      apply eraseFirst_none
      intro x hx
      simp only [render, List.mem_append] at hx
      rcases hx with (hx | hx) | hx
      · exact no_hy_dig hds.dig x hx
      · exact no_hy_al hstal x hx
      · exact no_hy_al helal' x hx
    rw [this, key]; rfl
  | massHyphen =>
    have : eraseFirst hy (render .massHyphen el ds st) = ds ++ st ++ el := by
      have := eraseFirst_append hy (ds ++ st) el (by
        intro x hx
        simp only [List.mem_append] at hx
        rcases hx with hx | hx
        · exact no_hy_dig hds.dig x hx
        · exact no_hy_al hstal x hx)
      simpa [render, List.append_assoc] using this
    rw [this, key]; rfl

/-- **The canonical name is a fixed point of parsing** — every element, every accepted digit
string (leading zeros included, as the code keeps them), every state. -/
theorem canonical_fixed_point (el ds st : List Ch) (hel : el ∈ elems) (hds : MassDigits ds)
    (hst : StateCanon st) :
    parseNuclideStr (canonical el ds st) = .ok (canonical el ds st) := by
  obtain ⟨_, _, helal, hcap, _⟩ := elems_ok _ hel
  have helal' : ∀ x ∈ el, isAl x = true := by simpa [List.all_eq_true] using helal
  have hstal := stateAnyCase_al hst.anyCase
  have := all_forms_elemFirst el el ds st (canonical el ds st) .elemHyphen rfl hel hcap hds
    hst.anyCase (by
      apply filter_all_true
      intro x hx
      simp only [canonical, List.mem_append, List.mem_singleton] at hx
      rcases hx with ((hx | hx) | hx) | hx
      · simp [(al_props x (helal' x hx)).1]
      · subst hx; decide
      · simp [(dig_props x (hds.dig x hx)).1]
      · simp [(al_props x (hstal x hx)).1])
  rw [this, hst.map_toLo]

/-- **Parsing is idempotent**: whatever `parse_nuclide_str` returns is returned unchanged when
parsed again (∀ input strings). -/
theorem parse_idempotent (s r : List Ch) (h : parseNuclideStr s = .ok r) :
    parseNuclideStr r = .ok r := by
  obtain ⟨el, ds, st, hel, hds, hst, rfl⟩ := parseCore_ok_shape _ _ h
  exact canonical_fixed_point el ds st hel hds hst

/-- mass numbers 1…300 written in decimal are accepted digit strings -/
theorem massDigits_natDigits (A : Nat) (hA : A ≤ Gen.massCutoff) : MassDigits (natDigits A) :=
  massDigits_of_le A hA

/-- **The id round-trips**: for every table entry `(Z, el)`, every `A ≤ 300` and every state,
`parse_id (build_id Z A s)` is the canonical name, and that name parses to itself. -/
theorem id_roundtrip (Z : Nat) (el : List Ch) (hZ : (Z, el) ∈ Gen.zDict) (A : Nat)
    (hA : A ≤ Gen.massCutoff) (st : List Ch) (hst : StateCanon st) :
    ∃ n, buildId Z A st = .ok n ∧ parseId n = .ok (canonical el (natDigits A) st) ∧
      parseNuclideStr (canonical el (natDigits A) st) = .ok (canonical el (natDigits A) st) := by
  obtain ⟨n, h1, h2⟩ := parseId_buildId Z el hZ A hA st hst
  refine ⟨n, h1, h2, ?_⟩
  exact canonical_fixed_point el (natDigits A) st (mem_elems_of_mem_zDict hZ)
    (massDigits_natDigits A hA) hst

/-- **Reported proton number, mass number, state and id agree with the name** — every table
entry, every `A ≤ 300`, every state (ground, m, n, p, q, r, x). -/
theorem attrs_agree (Z : Nat) (el : List Ch) (hZ : (Z, el) ∈ Gen.zDict) (A : Nat)
    (hA : A ≤ Gen.massCutoff) (st : List Ch) (hst : StateCanon st) :
    attrZ (canonical el (natDigits A) st) = .ok Z ∧
    attrA (canonical el (natDigits A) st) = .ok A ∧
    attrState (canonical el (natDigits A) st) = .ok st ∧
    ∃ n, attrId (canonical el (natDigits A) st) = .ok n ∧
      parseId n = .ok (canonical el (natDigits A) st) := by
  have hds := massDigits_natDigits A hA
  obtain ⟨h1, h2, h3, h4⟩ := attrs_of_canonical Z el hZ (natDigits A) st hds hst
  have hv : digitsVal (natDigits A) = A :=
    (massDigits_table A (List.mem_range.mpr (Nat.lt_succ_of_le hA))).2.2
  rw [hv] at h2 h4
  obtain ⟨n, hn1, hn2⟩ := parseId_buildId Z el hZ A hA st hst
  exact ⟨h1, h2, h3, n, by rw [h4, hn1], hn2⟩

/-! ### non-vacuity: the hypotheses are met by real spellings -/

example : attrA (S "Lu-174x") = .ok 174 ∧ attrId (S "Lu-174x") = .ok 711740006 := by
  have hZ : (71, S "Lu") ∈ Gen.zDict := by decide +kernel
  have hst : StateCanon (S "x") := .inr ⟨120, by decide, rfl⟩
  obtain ⟨_, h2, _, n, h4, _⟩ := attrs_agree 71 (S "Lu") hZ 174 (by decide) (S "x") hst
  exact ⟨h2, by decide +kernel⟩


example : parseNuclideStr (S " 99 m Tc") = .ok (S "Tc-99m") := by
  have hel : S "Tc" ∈ elems := by decide +kernel
  have hds : MassDigits (S "99") := ⟨by decide, by decide, by decide⟩
  have hst : StateCanon (S "m") := .inr ⟨109, by decide, rfl⟩
  exact all_forms_massFirst (S "Tc") (S "99") (S "m") (S " 99 m Tc") .massPlain rfl hel hds hst
    (by decide)

example : parseNuclideStr (S "tC-99M") = .ok (S "Tc-99m") := by
  have hel : S "Tc" ∈ elems := by decide +kernel
  have hds : MassDigits (S "99") := ⟨by decide, by decide, by decide⟩
  have hst : StateAnyCase (S "M") := .inr ⟨77, by decide, rfl⟩
  exact all_forms_elemFirst (S "Tc") (S "tC") (S "99") (S "M") (S "tC-99M") .elemHyphen rfl hel
    (by decide) hds hst (by decide)

end RdVerif.C09
