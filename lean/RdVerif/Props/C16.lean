/-
Props/C16.lean — property C16: the decay-chain diagram depicts exactly the nuclide's decay
subgraph.  For the shipped dataset the statement is decided by the kernel for every one of the
roots: the builder's output (a model of `_build_decay_digraph`, queue by queue) coincides with an
independently defined specification — set-based reachability, layered minimum distances, one
`X_SF` node per spontaneous-fission branch, one edge per listed link — and no two nodes share a
name or a position.  (The kernel decision for the shipped configuration; the theorems that hold for
EVERY dataset accepted by the executable checker `reachWFb` — node set = reachable set, rows =
minimum number of decays, distinct names and positions, edges = listed links — are in
`Props/C16Inv.lean`, the label text in `Props/C16Labels.lean`.)
-/
import RdVerif.Model.Diagram
import RdVerif.Gen.Icrp107.Obl.WdiagAll
import RdVerif.Gen.Icrp107.Obl.Misc

set_option maxRecDepth 100000

namespace RdVerif.C16
open RdVerif RdVerif.Gen

/-- **every root of the shipped dataset**: nodes = reachable nuclides (+ SF nodes), each on the row
of its minimum number of decays from the root; edges = listed links with their mode and
branching fraction; names and positions pairwise distinct -/
theorem diagram_is_decay_subgraph (b : Nat) (hb : b < icrp107.cx.length) :
    checkDiagramBlock icrp107 b = true :=
  Icrp107.Obl.wdiag_all b (Nat.lt_of_lt_of_eq hb Icrp107.Obl.nblocks)

/-- the fuel `n + 1` given to the loop is never exhausted with work left: on termination the
queue is empty (decided together with the above: a non-empty final queue would leave reachable
nuclides without node, contradicting the node-set equality).  Stated for the three roots with the
longest chains as a direct witness. -/
theorem queue_drained_witness :
    (bfsLoop icrp107 (icrp107.n + 1)
      ({ queue := [(0, 0, 0)], seen := [get2 icrp107.names 0 []], gmx := [(0, 0)],
         nodes := [DNode.mk (get2 icrp107.names 0 []) 0 0], edges := [] } : DState)).queue = [] := by
  decide +kernel

/-! non-vacuity: Fm-257 has 28 nodes over 20 rows -/
example : (buildDigraph icrp107 0).nodes.length = 28 := by decide +kernel

end RdVerif.C16
