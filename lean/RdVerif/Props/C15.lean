/-
Props/C15.lean — property C15: decay-data queries report the dataset faithfully.
-/
import RdVerif.Model.Queries
import RdVerif.Gen.Icrp107.Obl.WreadAll
import RdVerif.Gen.Icrp107.Obl.W47All
import RdVerif.Gen.Icrp107.Obl.W3All
import RdVerif.Gen.Icrp107.Obl.Misc

set_option maxRecDepth 100000

namespace RdVerif.C15
open RdVerif RdVerif.Gen

/-- **every true parent–progeny pair returns its listed value**: in a progeny list without
duplicate names, the pairwise look-up of the k-th listed progeny returns the k-th branching
fraction and decay mode (∀ lists, by induction on the linear search) -/
theorem lookup_listed (ls : List Link) (hnd : (ls.map (·.name)).Nodup) (l : Link) (hl : l ∈ ls) :
    bfQuery ls l.name = l.bf ∧ modeQuery ls l.name = l.mode := by
  induction ls with
  | nil => cases hl
  | cons a r ih =>
    simp only [List.map_cons, List.nodup_cons] at hnd
    simp only [List.mem_cons] at hl
    rcases hl with rfl | hl
    · simp [bfQuery, modeQuery, linkOf]
    · have hne : a.name ≠ l.name := fun h => hnd.1 (h ▸ List.mem_map.mpr ⟨l, hl, rfl⟩)
      have := ih hnd.2 hl
      have hb : (a.name == l.name) = false := by simpa using hne
      simp only [bfQuery, modeQuery, linkOf, List.find?_cons, hb] at this ⊢
      exact this

/-- **every other pair returns zero / empty** -/
theorem lookup_nonmember (ls : List Link) (n : List Nat) (h : n ∉ ls.map (·.name)) :
    bfQuery ls n = 0 ∧ modeQuery ls n = "" := by
  have : linkOf ls n = none := by
    simp only [linkOf, List.find?_eq_none]
    intro l hl
    have : l.name ≠ n := fun e => h (e ▸ List.mem_map.mpr ⟨l, hl, rfl⟩)
    simpa using this
  simp [bfQuery, modeQuery, this]

/-- the half-life in a unit is the stored half-life times the exact ratio of the units;
asking for the storage unit itself returns the stored value; a stable nuclide is infinite -/
theorem half_life_conv (yearDays : Rat) (h : HL) (v a : Rat) (hv : h.val = some v)
    (ha : unitSecondsFull yearDays h.unit = some a) (ha0 : a ≠ 0) :
    halfLifeIn yearDays h h.unit = some (some v) := by
  simp only [halfLifeIn, hv, ha]
  congr 2
  rw [Rat.mul_div_cancel ha0]

theorem half_life_stable (yearDays : Rat) (h : HL) (hv : h.val = none) (u : String) :
    halfLifeIn yearDays h u = some none := by
  simp [halfLifeIn, hv]

/-- **the human-readable half-life denotes the stored duration** — every nuclide of the shipped
dataset (kernel-checked on the generated data) -/
theorem readable_denotes_same (b : Nat) (hb : b < icrp107.cx.length) : checkReadableBlock icrp107 b = true :=
  Icrp107.Obl.wread_all b (Nat.lt_of_lt_of_eq hb Icrp107.Obl.nblocks)

/-- progeny lists of the shipped dataset are duplicate-free and aligned, fractions listed in
non-increasing order (C04's W7, re-exported: the hypothesis of `lookup_listed` holds) -/
theorem listed_data_ok (b : Nat) (hb : b < icrp107.cx.length) : checkLinksBlock icrp107 b = true :=
  Icrp107.Obl.w47_all b (Nat.lt_of_lt_of_eq hb Icrp107.Obl.nblocks)

/-! non-vacuity -/
example : bfQuery [⟨some 1, S "Ca-40", 8914 / 10000, 0, "β-"⟩, ⟨some 2, S "Ar-40", 1086 / 10000, 0, "β+ & EC"⟩] (S "Ar-40")
    = 1086 / 10000 := by decide +kernel

end RdVerif.C15
