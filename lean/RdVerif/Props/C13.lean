/-
Props/C13.lean — property C13: time series and plotted curves are point-wise decay results on
the grid the arguments define.
-/
import Mathlib.Tactic.FieldSimp
import Mathlib.Tactic.Ring
import Mathlib.Algebra.Order.Field.Rat
import RdVerif.Model.Series

set_option maxRecDepth 100000

namespace RdVerif.C13
open RdVerif RdVerif.Gen

def allReadOutNames : List String :=
  namesOf activityUnitsF ++ namesOf massUnitsF ++ namesOf molesUnitsF ++ ["num", "activity_frac", "mass_frac", "mol_frac"]

def sameRO (a b : ReadOut) : Bool := decide (a = b)

/-- **dispatch table**: for each of the 47 read-out strings (43 units, `num`, three fractions)
the series chain and the plot chain — duplicated in the source — select the same read-out in
both modes, and it is the one the specification gives that string -/
theorem dispatch_table :
    allReadOutNames.length = 47 ∧
    allReadOutNames.all (fun u =>
      sameRO (seriesDispatch tablesF u) (specReadOut u) && sameRO (plotDispatch tablesF u) (specReadOut u) &&
      sameRO (seriesDispatch tablesS u) (specReadOut u) && sameRO (plotDispatch tablesS u) (specReadOut u) &&
      !sameRO (specReadOut u) .unknown) = true := by decide +kernel

/-- anything else is refused (`ValueError`): ∀ strings outside the tables -/
theorem dispatch_unknown (T : UnitTables) (u : String) (h1 : lookupU T.activity u = none)
    (h2 : lookupU T.moles u = none) (h3 : lookupU T.mass u = none)
    (h4 : u ≠ "num" ∧ u ≠ "activity_frac" ∧ u ≠ "mass_frac" ∧ u ≠ "mol_frac") :
    seriesDispatch T u = .unknown ∧ plotDispatch T u = .unknown := by
  obtain ⟨a, b, c, d⟩ := h4
  have a' : (u == "num") = false := by simpa using a
  have b' : (u == "activity_frac") = false := by simpa using b
  have c' : (u == "mass_frac") = false := by simpa using c
  have d' : (u == "mol_frac") = false := by simpa using d
  simp [seriesDispatch, plotDispatch, h1, h2, h3, a', b', c', d']

/-- **linear grid**: `n ≥ 2` points, the first is exactly `a`, the last exactly `b`, and
`t_k = a + k·(b − a)/(n − 1)` -/
theorem grid_linear (a b : ℚ) (n : ℕ) (hn : 2 ≤ n) :
    (linGrid a b n).length = n ∧ (linGrid a b n)[0]? = some a ∧ (linGrid a b n)[n - 1]? = some b ∧
    ∀ k, k < n → (linGrid a b n)[k]? = some (a + (k : ℚ) * (b - a) / ((n - 1 : ℕ) : ℚ)) := by
  have h0 : n ≠ 0 := by omega
  have h1 : n ≠ 1 := by omega
  have hgen : ∀ k, k < n → (linGrid a b n)[k]? = some (a + (k : ℚ) * (b - a) / ((n - 1 : ℕ) : ℚ)) := by
    intro k hk
    simp [linGrid, h0, h1, hk]
  refine ⟨by simp [linGrid, h0, h1], ?_, ?_, hgen⟩
  · rw [hgen 0 (by omega)]; simp
  · rw [hgen (n - 1) (by omega)]
    congr 1
    have : ((n - 1 : ℕ) : ℚ) ≠ 0 := by
      have : 0 < n - 1 := by omega
      exact_mod_cast this.ne'
    field_simp
    ring

/-- the lower end of a logarithmic axis is `tmin` (0.1 in the source), of a linear one 0 / `xmin` -/
theorem grid_start (tmin xmin : ℚ) :
    seriesTmin true tmin = 0 ∧ seriesTmin false tmin = tmin ∧ plotXmin true xmin tmin = xmin ∧
    plotXmin false 0 tmin = tmin ∧ (xmin ≠ 0 → plotXmin false xmin tmin = xmin) := by
  refine ⟨rfl, rfl, rfl, by simp [plotXmin], ?_⟩
  intro h
  have : (xmin == 0) = false := by simpa using h
  simp [plotXmin, this]

/-- **axis limits span the data**: with the defaults the y-range is `[0, 1.05·max]` (linear) or
`[0.95·min, 1.05·max]` (log); the factors are the ones in the source -/
theorem ylimits_default (dmin dmax : ℚ) :
    yLimits false 0 none dmin dmax (19 / 20) (21 / 20) = (0, 21 / 20 * dmax) ∧
    yLimits true 0 none dmin dmax (19 / 20) (21 / 20) = (19 / 20 * dmin, 21 / 20 * dmax) := by
  constructor <;> simp [yLimits]

/-- the translated constants: `tmin = 0.1`, factors 0.95 and 1.05 (the doubles nearest to them) -/
theorem series_constants :
    Gen.seriesFloats = [0, 3602879701896397 / 36028797018963968] ∧
    Gen.plotFloats = [0, 3602879701896397 / 36028797018963968, 4278419646001971 / 4503599627370496,
      4728779608739021 / 4503599627370496] := by decide +kernel

end RdVerif.C13
