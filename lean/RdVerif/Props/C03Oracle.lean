/-
Props/C03Oracle.lean — the verified oracle for cumulative decays: for the shipped dataset, every
initial inventory (sparse rational vector), every rational time t ≥ 0 and every nuclide, the
interval `cumEncl` of `Model/Interval.lean` (the function the C03 correspondence harness runs
through the driver, command `cum`) encloses `Dt`, the exact time-integral of the nuclide's
activity under the exact solution of C03_integral.  This makes the per-input comparison of the
real `cumulative_decays()` output a comparison with the *true* integral.
-/
import RdVerif.Proofs.OracleCum

set_option maxRecDepth 20000

namespace RdVerif.C03
open RdVerif RdVerif.Icrp107 RdVerif.Gen

/-- **cumulative-decays oracle soundness** (∀ v, t ≥ 0, i, and every configuration whose ln 2
bounds are correct — certified by `C01_ln2_certified`) -/
theorem C03_oracle_sound (cfg : EvalCfg) (v : N0) (t : ℚ) (i : ℕ) (hi : i < N) (ht : 0 ≤ t)
    (hln2 : (cfg.ln2.1 : ℝ) ≤ Real.log 2 ∧ Real.log 2 ≤ (cfg.ln2.2 : ℝ)) :
    ((cumEncl icrp107 cfg v t i).1 : ℝ) ≤ Dt (N0vec N v) (t : ℝ) ⟨i, hi⟩ ∧
    Dt (N0vec N v) (t : ℝ) ⟨i, hi⟩ ≤ ((cumEncl icrp107 cfg v t i).2 : ℝ) :=
  icrp107_cum_oracle_sound cfg v t i hi ht hln2

/-- the cached evaluation the driver actually runs returns the same intervals -/
theorem C03_oracle_cached (cfg : EvalCfg) (v : N0) (t : ℚ) (i : ℕ) (ks : List ℕ)
    (hks : ∀ p ∈ coeffs icrp107 v i, p.1 ∈ ks) :
    cumEnclT icrp107 (factorTable icrp107 cfg t ks) v i = cumEncl icrp107 cfg v t i :=
  cumEnclT_eq icrp107 cfg v t i ks hks

end RdVerif.C03
