/-
Props/C16Labels.lean — C16, "each node labelled with its mass number, state, element …": the
label text the library builds (model `nuclideLabel` of `plots._parse_nuclide_label`, substitution
table regenerated from the source on every run, compared with the real function for every nuclide
name by the correspondence run) DENOTES the nuclide — it decodes back to (element, mass number +
state), so different nuclides never share a label — for every element part without superscript
characters (all 118 element symbols qualify) and every isotope part written with digits and the
state letters m, n, p, q, r, x.
-/
import RdVerif.Proofs.Labels

namespace RdVerif.C16
open RdVerif

/-- the label decodes back to the element and the mass number + state it was built from -/
theorem C16_label_decodes (el iso : List Nat)
    (hel : ∀ c ∈ el, unsupChar c = none ∧ c ≠ 45) (hiso : ∀ c ∈ iso, (supChar c).isSome ∧ c ≠ 45) :
    ∃ lbl, nuclideLabel (el ++ [45] ++ iso) = some lbl ∧ decodeLabel lbl = some (el, iso) :=
  label_decodes el iso hel hiso

/-- two canonical names with the same label are the same name -/
theorem C16_label_injective (el iso el' iso' : List Nat)
    (hel : ∀ c ∈ el, unsupChar c = none ∧ c ≠ 45) (hiso : ∀ c ∈ iso, (supChar c).isSome ∧ c ≠ 45)
    (hel' : ∀ c ∈ el', unsupChar c = none ∧ c ≠ 45) (hiso' : ∀ c ∈ iso', (supChar c).isSome ∧ c ≠ 45)
    (h : nuclideLabel (el ++ [45] ++ iso) = nuclideLabel (el' ++ [45] ++ iso')) : el = el' ∧ iso = iso' :=
  label_injective el iso el' iso' hel hiso hel' hiso' h

/-- every element symbol of the periodic table and every digit / state letter satisfies the hypotheses -/
theorem C16_label_hypotheses_hold :
    (∀ s ∈ Spec.elementSymbols, ∀ c ∈ s.toList.map Char.toNat, unsupChar c = none ∧ c ≠ 45) ∧
    (∀ c ∈ S "0123456789mnpqrx", (supChar c).isSome ∧ c ≠ 45) :=
  ⟨element_symbols_ok, isotope_chars_ok⟩

end RdVerif.C16
