/-
Props/C06Float.lean — double-precision time conversion under the standard floating-point model.
`time_unit_conv` computes `t · f_from / f_to`, with one more multiplication and one more division
by days-per-year for year-based units: at most four floating-point operations on the exactly
known factors of `Props/C06.lean` (`time_table_eq_spec`, `year_units_eq_spec`).  So the seconds
the calculation uses are `x · Π (1 + δ_l)` with at most four (we allow six) factors, `|δ_l| ≤ 2⁻⁵³`,
where `x` is the exact conversion proved in `to_seconds` / `conv_compose`: within 3.5 ulp of it.
That is why "(t, unit)" and "the equivalent seconds" give the same decay result up to a relative
perturbation `λ·t·7u` of each exponent (the correspondence compares them at 1e-11 of the atoms).
-/
import RdVerif.Proofs.FpModel

namespace RdVerif.C06
open RdVerif RdVerif.Fp

/-- a converted time that went through `m ≤ 6` roundings is within 3.5 ulp of the exact conversion -/
theorem float_conversion_within (x : ℝ) (m : ℕ) (hm : m ≤ 6) (δ : Fin m → ℝ)
    (hδ : ∀ l, |δ l| ≤ 1 / 2 ^ 53) :
    |x * ∏ l, (1 + δ l) - x| ≤ 7 / 2 ^ 53 * |x| := by
  have hu : (0 : ℝ) ≤ 1 / 2 ^ 53 := by norm_num
  have hm' : (m : ℝ) ≤ 6 := by exact_mod_cast hm
  have hmu : (m : ℝ) * (1 / 2 ^ 53) < 1 := by
    have : (m : ℝ) * (1 / 2 ^ 53) ≤ 6 * (1 / 2 ^ 53) := mul_le_mul_of_nonneg_right hm' hu
    have h6 : (6 : ℝ) * (1 / 2 ^ 53) < 1 := by norm_num
    linarith
  have h := prod_one_add_le m (1 / 2 ^ 53) hu hmu δ hδ
  have hb : (m : ℝ) * (1 / 2 ^ 53) / (1 - (m : ℝ) * (1 / 2 ^ 53)) ≤ 7 / 2 ^ 53 := by
    have hpos : 0 < 1 - (m : ℝ) * (1 / 2 ^ 53) := by linarith
    rw [div_le_iff₀ hpos]
    have hm0 : (0 : ℝ) ≤ (m : ℝ) := Nat.cast_nonneg m
    nlinarith [hm', hm0]
  have e : x * ∏ l, (1 + δ l) - x = x * (∏ l, (1 + δ l) - 1) := by ring
  rw [e, abs_mul, mul_comm]
  exact mul_le_mul_of_nonneg_right (h.trans hb) (abs_nonneg x)

end RdVerif.C06
