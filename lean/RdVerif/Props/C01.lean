/-
Props/C01.lean — property C01 (float decay equals the exact Bateman solution), the part that is
a theorem: the closed form the library evaluates, with the shipped exact data, IS the solution
of the decay ODE system defined by the listed half-lives, branching fractions and progeny — for
every initial inventory and every real time — and it is the only one.  The double-precision
forward-error bound is checked per input against the verified oracle (see DESIGN.md §3.4).
-/
import RdVerif.Proofs.Icrp107
import RdVerif.Proofs.Interval

set_option maxRecDepth 20000

namespace RdVerif.C01
open RdVerif RdVerif.Icrp107 RdVerif.Bateman Matrix

/-- the inventory after time `t` (seconds) as the library's closed form gives it in exact
arithmetic: `C · diag(e^{−λ t}) · C⁻¹ · N(0)` -/
noncomputable def Nt (N0 : Fin N → ℝ) (t : ℝ) : Fin N → ℝ := sol C Ci lam N0 t

/-- **C01_exact**: for every initial inventory the closed form satisfies the initial condition
and the decay differential equations `dN/dt = L·N` at every real time, and every function that
does so coincides with it.  `L i j = (B i j − δ_ij)·λ_j` with `B` the listed branching
fractions and `λ = ln2 / half-life` (C04 `exact_diagonalises`, `rates_from_half_lives`). -/
theorem C01_exact (N0 : Fin N → ℝ) :
    Nt N0 0 = N0 ∧ (∀ t, HasDerivAt (Nt N0) (L.mulVec (Nt N0 t)) t) ∧
    (∀ f : ℝ → Fin N → ℝ, f 0 = N0 → (∀ t, HasDerivAt f (L.mulVec (f t)) t) → f = Nt N0) := by
  refine ⟨sol_zero C Ci lam N0 C_mul_Ci, fun t => sol_deriv C Ci L lam N0 L_diag t, ?_⟩
  intro f h0 hf
  exact sol_unique L f (Nt N0) hf (fun t => sol_deriv C Ci L lam N0 L_diag t)
    (by rw [h0]; exact (sol_zero C Ci lam N0 C_mul_Ci).symm)

/-- componentwise closed form: `N_i(t) = Σ_k C_ik · e^{−λ_k t} · (C⁻¹ N(0))_k` — the expression
whose rational coefficients and verified enclosures the oracle evaluates -/
theorem C01_closed_form (N0 : Fin N → ℝ) (t : ℝ) (i : Fin N) :
    Nt N0 t i = ∑ k, C i k * Real.exp (-lam k * t) * (∑ j, Ci k j * N0 j) := by
  unfold Nt sol Bateman.E
  exact sol_apply C Ci _ N0 i

/-- a stable nuclide has decay constant exactly 0 (so its activity `λ·N` is exactly 0) and
receives nothing back: stable ⇒ it feeds no other nuclide -/
theorem C01_stable (k : Fin N) (hk : get2 Gen.icrp107.rate k.val 0 = 0) :
    lam k = 0 ∧ ∀ i, i ≠ k → C i k = 0 :=
  ⟨(lam_eq_zero_iff k).mpr hk, fun i hi => stable_feeds_nothing i k ((lam_eq_zero_iff k).mpr hk) (Ne.symm hi)⟩

/-- the oracle's exponential factor is a sound enclosure of `e^{−λ_k t}` -/
theorem C01_oracle_factor (cfg : EvalCfg) (k : Fin N) (t : ℚ) (ht : 0 ≤ t)
    (hr : 0 ≤ get2 Gen.icrp107.rate k.val 0)
    (hln2 : (cfg.ln2.1 : ℝ) ≤ Real.log 2 ∧ Real.log 2 ≤ (cfg.ln2.2 : ℝ)) :
    ((decayFactor cfg (get2 Gen.icrp107.rate k.val 0) t).1 : ℝ) ≤ Real.exp (-lam k * (t : ℝ)) ∧
    Real.exp (-lam k * (t : ℝ)) ≤ ((decayFactor cfg (get2 Gen.icrp107.rate k.val 0) t).2 : ℝ) := by
  have h := decayFactor_sound cfg (get2 Gen.icrp107.rate k.val 0) t hr ht hln2
  have e : -lam k * (t : ℝ) = -(((get2 Gen.icrp107.rate k.val 0 : ℚ) : ℝ) * Real.log 2 * (t : ℝ)) := by
    unfold lam rateVec; ring
  rw [e]; exact h

/-! non-vacuity: the ODE matrix is not trivial — Fm-257 (index 0) decays -/
example : get2 Gen.icrp107.rate 0 0 ≠ 0 := by decide +kernel

end RdVerif.C01
