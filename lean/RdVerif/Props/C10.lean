/-
Props/C10.lean — property C10: invalid input is refused with the documented error, never
mis-accepted.  (Parser level; the entry-point decision tables are in `Props/C10Entry.lean`.)
-/
import RdVerif.Proofs.NuclideTotal

set_option maxRecDepth 100000
set_option linter.unusedSimpArgs false

namespace RdVerif.C10
open RdVerif

/-- **`parse_nuclide_str` is total with documented outcomes**: for every string the result is a
name or `NuclideStrError` (a `ValueError`) — never `IndexError`, `KeyError`, … -/
theorem parse_total (s : List Ch) :
    (∃ r, parseNuclideStr s = .ok r) ∨ parseNuclideStr s = .error .nuclideStr :=
  parseCore_total (normalise s)

/-- **`parse_id` is total with documented outcomes**: for every integer the result is a name or
`ValueError`. -/
theorem parseId_total (x : Int) : (∃ r, parseId x = .ok r) ∨ parseId x = .error .value :=
  RdVerif.parseId_total x

/-- **An accepted string literally contains what it is resolved to.**  If `parse_nuclide_str`
accepts `s`, then — after dropping whitespace and the first hyphen — `s` is either
`letters ++ digits ++ state` or `digits ++ state ++ letters`, the result is
`capitalize(letters)-digits+lower(state)`, the element is in the table, the digits denote a mass
number ≤ 300 and the state is empty or a listed state letter. -/
theorem accept_sound (s r : List Ch) (h : parseNuclideStr s = .ok r) :
    ∃ w ds m, (normalise s = w ++ ds ++ m ∨ normalise s = ds ++ m ++ w) ∧
      r = canonical (capitalize w) ds (m.map toLo) ∧
      capitalize w ∈ elems ∧ MassDigits ds ∧ StateCanon (m.map toLo) := by
  unfold parseNuclideStr parseCore at h
  generalize normalise s = s2 at h
  simp only [bind, Except.bind, pure, Except.pure, throw, throwThe, MonadExceptOf.throw] at h
  split at h
  · simp at h
  split at h
  · simp at h
  rename_i hA
  have hmd := massDigits_of_checks s2 hA
  split at h
  · simp at h
  rename_i hany
  have hany' : (List.dropWhile isDig (List.dropWhile (fun c => !isDig c) s2)).any isDig = false := by
    simpa using hany
  obtain ⟨hdecomp, hfil⟩ := digits_contiguous s2 hany'
  split at h
  · -- mass first
    rename_i hpre
    obtain ⟨v, hv, hcat⟩ := processMetaElem_ok (List.dropWhile isDig (List.dropWhile (fun c => !isDig c) s2))
    rw [hv] at h
    simp only at h
    split at h
    · simp at h
    rename_i hel
    split at h
    · simp at h
    rename_i hl
    split at h
    · simp at h
    rename_i hc
    have hpre' : List.takeWhile (fun c => !isDig c) s2 = [] := by simpa using hpre
    refine ⟨v.2, s2.filter isDig, v.1, .inr ?_, ?_, by simpa using hel, hmd, stateCanon_of_checks _ hl hc⟩
    · rw [hfil, List.append_assoc, hcat]
      conv => lhs; rw [hdecomp, hpre']
      simp
    · simp only [Except.ok.injEq] at h
      rw [← h]; rfl
  · split at h
    · simp at h
    rename_i hel
    split at h
    · simp at h
    rename_i hl
    split at h
    · simp at h
    rename_i hc
    refine ⟨_, s2.filter isDig, _, .inl ?_, ?_, by simpa using hel, hmd, stateCanon_of_checks _ hl hc⟩
    · rw [hfil]; exact hdecomp
    · simp only [Except.ok.injEq] at h
      rw [← h]; rfl

/-- outcomes of `parse_nuclide` (str / int / other key): a dataset member, `ValueError`
(incl. `NuclideStrError`) — or `TypeError`, and that only for a key that is neither -/
theorem parseNuclide_total (k : Key) (names : List (List Ch)) :
    (∃ r, parseNuclide k names = .ok r ∧ r ∈ names) ∨
    (∃ e, parseNuclide k names = .error e ∧ e.isValueError = true) ∨
    (parseNuclide k names = .error .type ∧ k = .other) := by
  unfold parseNuclide
  cases k with
  | other => right; right; exact ⟨rfl, rfl⟩
  | str s =>
    simp only [bind, Except.bind, pure, Except.pure]
    rcases parseCore_total (normalise s) with ⟨r, hr⟩ | hr
    · simp only [parseNuclideStr, hr, throw, throwThe, MonadExceptOf.throw]
      split
      · exact .inr (.inl ⟨_, rfl, rfl⟩)
      · rename_i hm
        exact .inl ⟨r, rfl, by simpa using hm⟩
    · simp only [parseNuclideStr, hr]
      exact .inr (.inl ⟨_, rfl, rfl⟩)
  | int x =>
    simp only [bind, Except.bind, pure, Except.pure]
    rcases parseId_total x with ⟨n, hn⟩ | hn
    · rw [hn]
      simp only
      rcases parseCore_total (normalise n) with ⟨r, hr⟩ | hr
      · simp only [parseNuclideStr, hr, throw, throwThe, MonadExceptOf.throw]
        split
        · exact .inr (.inl ⟨_, rfl, rfl⟩)
        · rename_i hm
          exact .inl ⟨r, rfl, by simpa using hm⟩
      · simp only [parseNuclideStr, hr]
        exact .inr (.inl ⟨_, rfl, rfl⟩)
    · rw [hn]
      exact .inr (.inl ⟨_, rfl, rfl⟩)


/-! ### non-vacuity and the former defects as regression witnesses -/

example : parseNuclideStr (S "99") = .error .nuclideStr := by decide +kernel
example : parseId 862220010 = .error .value := by decide +kernel
example : parseId 862220006 = .ok (S "Rn-222x") := by decide +kernel
example : ∃ r, parseNuclideStr (S "192NiR") = .ok r := ⟨S "Ir-192n", by decide +kernel⟩

end RdVerif.C10
