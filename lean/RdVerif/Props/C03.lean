/-
Props/C03.lean — property C03: cumulative decays equal the integrated activity, and the atom
balance closes — for the shipped dataset, every initial inventory and every real time.
-/
import RdVerif.Props.C01
import RdVerif.Proofs.Cumulative

set_option maxRecDepth 20000

namespace RdVerif.C03
open RdVerif RdVerif.Icrp107 RdVerif.Bateman RdVerif.C01 Matrix

/-- cumulative decays as the library evaluates them (exact arithmetic) -/
noncomputable def Dt (N0 : Fin N → ℝ) (t : ℝ) : Fin N → ℝ := cum C Ci lam N0 t

/-- **cumulative decays = ∫₀ᵗ activity** under the exact solution -/
theorem C03_integral (N0 : Fin N → ℝ) (i : Fin N) (t : ℝ) :
    Dt N0 t i = ∫ s in (0 : ℝ)..t, lam i * Nt N0 s i :=
  cum_eq_integral C Ci lam N0 stable_feeds_nothing i t

/-- a stable nuclide has no decays (the library does not list it) -/
theorem C03_stable (N0 : Fin N → ℝ) (i : Fin N) (t : ℝ) (hi : lam i = 0) : Dt N0 t i = 0 :=
  cum_stable C Ci lam N0 t i hi

/-- **atom balance**: `N_i(t) − N_i(0) = −D_i(t) + Σ_j B_ij·D_j(t)` — atoms appear or disappear
only through the listed branching fractions -/
theorem C03_atom_balance (N0 : Fin N → ℝ) (t : ℝ) (i : Fin N) :
    Nt N0 t i - N0 i = - Dt N0 t i + ∑ j, Bm i j * Dt N0 t j :=
  atom_balance C Ci L Bm lam N0 C_mul_Ci L_diag L_apply stable_feeds_nothing t i

end RdVerif.C03
