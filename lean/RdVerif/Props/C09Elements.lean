/-
Props/C09Elements.lean — C09, "the proton number a nuclide reports agrees with its name": the
element tables the translator reads out of `radioactivedecay/utils.py` on every run are the
hand-written periodic table of `Spec/Elements.lean`, and the symbol → Z table is the inverse of
the Z → symbol table.  (`attrs_agree` and `id_roundtrip` of `Props/C09.lean` are stated over
`Gen.zDict`; with this they are statements about the real elements.)
-/
import RdVerif.Spec.Elements
import RdVerif.Gen.Constants

namespace RdVerif.C09
open RdVerif

/-- `Z_DICT` of the library is the periodic table, Z = 1 … 118 -/
theorem element_table_is_periodic_table : Gen.zDict = Spec.elementTable := by decide +kernel

/-- `SYM_DICT` of the library is the inverse table -/
theorem symbol_table_is_inverse : Gen.symDict = Gen.zDict.map (fun p => (p.2, p.1)) := by
  decide +kernel

/-- non-vacuity / reading check: Z = 67 is holmium, Z = 68 erbium, 118 entries -/
example : Spec.elementTable.length = 118 ∧
    (67, "Ho".toList.map Char.toNat) ∈ Spec.elementTable ∧
    (68, "Er".toList.map Char.toNat) ∈ Spec.elementTable := by decide +kernel

end RdVerif.C09
