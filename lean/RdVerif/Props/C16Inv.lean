/-
Props/C16Inv.lean — C16, the part that holds for EVERY dataset (not only the shipped one): the
diagram builder (model of `_build_decay_digraph`) never puts two nodes on one position, every edge
it draws is a listed link of its source nuclide carrying that link's mode and branching fraction,
and — for datasets whose names are well formed in the sense of `DiagramWF` (no name of the form
`X_SF`, links listed under the member's name, `SF` not a member and listed at most once per
nuclide) — no node name occurs twice.  `names_cex1…5` in `Proofs/Diagram.lean` show each
`DiagramWF` hypothesis is needed.
-/
import RdVerif.Proofs.Diagram

namespace RdVerif.C16
open RdVerif

theorem C16_positions_injective (ds : Dataset) (root : Nat) :
    ((buildDigraph ds root).nodes.map (fun n => (n.gen, n.xpos))).Nodup :=
  positions_injective ds root

theorem C16_edges_from_links (ds : Dataset) (root : Nat) :
    ∀ e ∈ (buildDigraph ds root).edges, ∃ p, get2 ds.names p [] = e.src ∧
      ∃ l ∈ get2 ds.links p [], l.mode = e.mode ∧ l.bf = e.bf ∧
        (e.dst = l.name ∨ e.dst = sfName (get2 ds.names p [])) :=
  edges_from_links ds root

theorem C16_node_names_nodup (ds : Dataset) (hwf : DiagramWF ds) (root : Nat) :
    ((buildDigraph ds root).nodes.map (·.name)).Nodup :=
  node_names_nodup ds hwf root

end RdVerif.C16
