/-
Props/C16Inv.lean — C16, the part that holds for EVERY dataset (not only the shipped one): the
diagram builder (model of `_build_decay_digraph`) never puts two nodes on one position, every edge
it draws is a listed link of its source nuclide carrying that link's mode and branching fraction,
and — for datasets whose names are well formed in the sense of `DiagramWF` (no name of the form
`X_SF`, links listed under the member's name, `SF` not a member and listed at most once per
nuclide) — no node name occurs twice.  `names_cex1…5` in `Proofs/Diagram.lean` show each
`DiagramWF` hypothesis is needed.
-/
import RdVerif.Proofs.Diagram
import RdVerif.Proofs.DiagramReach
import RdVerif.Proofs.ReachWFb

namespace RdVerif.C16
open RdVerif

theorem C16_positions_injective (ds : Dataset) (root : Nat) :
    ((buildDigraph ds root).nodes.map (fun n => (n.gen, n.xpos))).Nodup :=
  positions_injective ds root

theorem C16_edges_from_links (ds : Dataset) (root : Nat) :
    ∀ e ∈ (buildDigraph ds root).edges, ∃ p, get2 ds.names p [] = e.src ∧
      ∃ l ∈ get2 ds.links p [], l.mode = e.mode ∧ l.bf = e.bf ∧
        (e.dst = l.name ∨ e.dst = sfName (get2 ds.names p [])) :=
  edges_from_links ds root

theorem C16_node_names_nodup (ds : Dataset) (hwf : DiagramWF ds) (root : Nat) :
    ((buildDigraph ds root).nodes.map (·.name)).Nodup :=
  node_names_nodup ds hwf root

/-! ### node set = reachable set, rows = minimum number of decays — for every dataset satisfying `ReachWF`
(`DiagramWF`, names injective on members, link targets are members, stable nuclides list no progeny, the only
non-member progeny is `SF`): five plain conditions on the dataset, none mentioning the builder. -/

/-- every node is a nuclide reachable through the progeny links, or the `_SF` node of one -/
theorem C16_nodes_sound (ds : Dataset) (h : ReachWF ds) (root : Nat) (hr : root < ds.n) :
    ∀ nd ∈ (buildDigraph ds root).nodes,
      (∃ k, Reach ds root k ∧ nd.name = get2 ds.names k []) ∨
      (∃ p, Reach ds root p ∧ (∃ l ∈ get2 ds.links p [], l.idx = none) ∧
        nd.name = sfName (get2 ds.names p [])) :=
  nodes_sound ds h root hr

/-- every reachable nuclide has a node -/
theorem C16_nodes_complete (ds : Dataset) (h : ReachWF ds) (root : Nat) (hr : root < ds.n) :
    ∀ k, Reach ds root k → get2 ds.names k [] ∈ (buildDigraph ds root).nodes.map (·.name) :=
  nodes_complete ds h root hr

/-- every nuclide's node sits on the row equal to its minimum number of decays from the root -/
theorem C16_rows_are_distances (ds : Dataset) (h : ReachWF ds) (root : Nat) (hr : root < ds.n) :
    ∀ nd ∈ (buildDigraph ds root).nodes, ∀ k, k < ds.n → nd.name = get2 ds.names k [] →
      PathN ds root k nd.gen ∧ ∀ m, PathN ds root k m → nd.gen ≤ m :=
  gen_is_distance ds h root hr

/-- the loop's fuel `n + 1` always suffices: the work queue ends empty -/
theorem C16_queue_drained (ds : Dataset) (h : ReachWF ds) (root : Nat) (hr : root < ds.n) :
    (bfsLoop ds (ds.n + 1)
      ({ queue := [(root, 0, 0)], seen := [get2 ds.names root []], gmx := [(0, 0)],
         nodes := [DNode.mk (get2 ds.names root []) 0 0], edges := [] } : DState)).queue = [] :=
  queue_drained ds h root hr

/-- **the executable checker suffices**: for every dataset on which `reachWFb` (Model/ReachWF.lean, evaluated by the
driver on each run-time dataset) returns `true`, and every root, the diagram's nodes are exactly the reachable nuclides
(+ SF nodes), each on the row of its minimum number of decays, no two on one position, names distinct, and every edge
a listed link -/
theorem C16_checked_dataset (ds : Dataset) (h : reachWFb ds = true) (root : Nat) (hr : root < ds.n) :
    (∀ nd ∈ (buildDigraph ds root).nodes,
      (∃ k, Reach ds root k ∧ nd.name = get2 ds.names k []) ∨
      (∃ p, Reach ds root p ∧ (∃ l ∈ get2 ds.links p [], l.idx = none) ∧
        nd.name = sfName (get2 ds.names p []))) ∧
    (∀ k, Reach ds root k → get2 ds.names k [] ∈ (buildDigraph ds root).nodes.map (·.name)) ∧
    (∀ nd ∈ (buildDigraph ds root).nodes, ∀ k, k < ds.n → nd.name = get2 ds.names k [] →
      PathN ds root k nd.gen ∧ ∀ m, PathN ds root k m → nd.gen ≤ m) ∧
    ((buildDigraph ds root).nodes.map (·.name)).Nodup ∧
    ((buildDigraph ds root).nodes.map (fun n => (n.gen, n.xpos))).Nodup :=
  have w := reachWF_of_reachWFb ds h
  ⟨nodes_sound ds w root hr, nodes_complete ds w root hr, gen_is_distance ds w root hr,
   node_names_nodup ds w.wf root, positions_injective ds root⟩

end RdVerif.C16
