/-
Props/C17.lean — property C17: equality and hashing are consistent with content.
`Obj.eq` mirrors the `__eq__` chain (`nuclide.py:393-416`, `inventory.py:1236-1252`,
`decaydata.py:584-612`) with Python's fall-back to identity for unrelated types.
-/
import Mathlib.Logic.Basic
import Mathlib.Data.List.Perm.Subperm
import RdVerif.Model.World

namespace RdVerif.C17
open RdVerif

variable {α : Type} [BEq α] [LawfulBEq α]

/-- an inventory object is well formed when its names are pairwise distinct (dict keys) -/
def WF : Obj α → Prop
  | .inventory i => i.contents.keys.Nodup
  | _ => True

/-! ### helper lemmas on association lists -/

omit [BEq α] [LawfulBEq α] in
/-- a successful lookup returns an entry of the list -/
theorem mem_of_get? (c : Contents α) (n : Name) (v : α) (h : c.get? n = some v) : (n, v) ∈ c := by
  induction c with
  | nil => simp [Contents.get?] at h
  | cons p c ih =>
    by_cases hp : p.1 = n
    · have b : (p.1 == n) = true := by simp [hp]
      simp only [Contents.get?, List.find?_cons, b, Option.map_some, Option.some.injEq] at h
      have : p = (n, v) := by rw [← hp, ← h]
      rw [this]; exact List.mem_cons_self
    · have b : (p.1 == n) = false := by simp [hp]
      simp only [Contents.get?, List.find?_cons, b] at h
      exact List.mem_cons_of_mem _ (ih h)

omit [BEq α] [LawfulBEq α] in
/-- with distinct keys, every entry is what lookup returns -/
theorem get?_of_mem (c : Contents α) (hc : c.keys.Nodup) (n : Name) (v : α) (h : (n, v) ∈ c) :
    c.get? n = some v := by
  induction c with
  | nil => cases h
  | cons p c ih =>
    simp only [Contents.keys, List.map_cons, List.nodup_cons] at hc
    rcases List.mem_cons.1 h with e | hm
    · subst e
      simp [Contents.get?]
    · have hp : ¬ p.1 = n := by
        intro e; apply hc.1; rw [e]; exact List.mem_map.2 ⟨(n, v), hm, rfl⟩
      have b : (p.1 == n) = false := by simp [hp]
      simp only [Contents.get?, List.find?_cons, b]
      exact ih hc.2 hm

omit [BEq α] [LawfulBEq α] in
theorem get?_eq_none_iff (c : Contents α) (n : Name) : c.get? n = none ↔ n ∉ c.keys := by
  induction c with
  | nil => simp [Contents.get?, Contents.keys]
  | cons p c ih =>
    by_cases hp : p.1 = n
    · have b : (p.1 == n) = true := by simp [hp]
      simp [Contents.get?, Contents.keys, hp]
    · have b : (p.1 == n) = false := by simp [hp]
      have hp' : ¬ n = p.1 := fun e => hp e.symm
      simp only [Contents.get?, List.find?_cons, b, Contents.keys, List.map_cons, List.mem_cons,
        hp', false_or]
      exact ih

omit [BEq α] [LawfulBEq α] in
theorem mem_keys_of_get? (c : Contents α) (n : Name) (v : α) (h : c.get? n = some v) : n ∈ c.keys :=
  List.mem_map.2 ⟨(n, v), mem_of_get? c n v h, rfl⟩

/-- unfolding of the `all` part of `dictEq` -/
theorem dictEq_iff_aux (a b : Contents α) :
    dictEq a b = true ↔ a.length = b.length ∧ ∀ p ∈ a, b.get? p.1 = some p.2 := by
  simp only [dictEq, Bool.and_eq_true, beq_iff_eq, List.all_eq_true]
  constructor
  · rintro ⟨hl, h⟩
    refine ⟨hl, fun p hp => ?_⟩
    have := h p hp
    split at this
    · next y hy => rw [hy, eq_of_beq this]
    · cases this
  · rintro ⟨hl, h⟩
    refine ⟨hl, fun p hp => ?_⟩
    rw [h p hp]
    simp

omit [BEq α] [LawfulBEq α] in
/-- same keys: two duplicate-free lists, one contained in the other, of equal length -/
theorem keys_subset_of_length {k₁ k₂ : List Name} (h₁ : k₁.Nodup) (hs : k₁ ⊆ k₂)
    (hl : k₁.length = k₂.length) : k₂ ⊆ k₁ :=
  ((List.subperm_of_subset h₁ hs).perm_of_length_le (Nat.le_of_eq hl.symm)).symm.subset

/-- **dict equality is extensional equality of lookups** (distinct keys on both sides) -/
theorem dictEq_iff (a b : Contents α) (ha : a.keys.Nodup) (hb : b.keys.Nodup) :
    dictEq a b = true ↔ ∀ n, a.get? n = b.get? n := by
  rw [dictEq_iff_aux]
  constructor
  · rintro ⟨hl, h⟩ n
    have hsub : a.keys ⊆ b.keys := by
      intro m hm
      obtain ⟨p, hp, rfl⟩ := List.mem_map.1 hm
      exact mem_keys_of_get? b p.1 p.2 (h p hp)
    have hsub' : b.keys ⊆ a.keys :=
      keys_subset_of_length ha hsub (by simpa [Contents.keys] using hl)
    cases hn : a.get? n with
    | none =>
      have : n ∉ b.keys := fun hm => (get?_eq_none_iff a n).1 hn (hsub' hm)
      exact ((get?_eq_none_iff b n).2 this).symm
    | some v => exact (h (n, v) (mem_of_get? a n v hn)).symm
  · intro h
    have hab : ∀ p ∈ a, b.get? p.1 = some p.2 := fun p hp => by
      rw [← h]; exact get?_of_mem a ha p.1 p.2 hp
    have hsub : a.keys ⊆ b.keys := by
      intro m hm
      obtain ⟨p, hp, rfl⟩ := List.mem_map.1 hm
      exact mem_keys_of_get? b p.1 p.2 (hab p hp)
    have hsub' : b.keys ⊆ a.keys := by
      intro m hm
      obtain ⟨p, hp, rfl⟩ := List.mem_map.1 hm
      exact mem_keys_of_get? a p.1 p.2 ((h p.1).trans (get?_of_mem b hb p.1 p.2 hp))
    have l1 := (List.subperm_of_subset ha hsub).length_le
    have l2 := (List.subperm_of_subset hb hsub').length_le
    simp only [Contents.keys, List.length_map] at l1 l2
    exact ⟨Nat.le_antisymm l1 l2, hab⟩

/-- `Inv.eq` on well-formed inventories -/
theorem invEq_iff (i j : Inv α) (hi : i.contents.keys.Nodup) (hj : j.contents.keys.Nodup) :
    i.eq j = true ↔ (∀ n, i.contents.get? n = j.contents.get? n) ∧ i.ds = j.ds := by
  simp only [Inv.eq, Bool.and_eq_true, beq_iff_eq, dictEq_iff _ _ hi hj]

/-! ### theorems -/

/-- **reflexive** -/
theorem eq_refl (a : Obj α) (h : WF a) : a.eq a = true := by
  cases a with
  | nuclide n d dn => simp [Obj.eq]
  | inventory i => exact (invEq_iff i i h h).2 ⟨fun _ => rfl, rfl⟩
  | dataset d => simp [Obj.eq]
  | foreign t => simp [Obj.eq]

/-- **symmetric** -/
theorem eq_symm (a b : Obj α) (ha : WF a) (hb : WF b) : a.eq b = b.eq a := by
  cases a <;> cases b <;> try rfl
  case nuclide.nuclide n d dn n' d' dn' =>
    rw [Bool.eq_iff_iff]
    simp only [Obj.eq, Bool.and_eq_true, beq_iff_eq]
    exact ⟨fun h => ⟨h.1.symm, h.2.symm⟩, fun h => ⟨h.1.symm, h.2.symm⟩⟩
  case inventory.inventory i j =>
    rw [Bool.eq_iff_iff]
    simp only [Obj.eq, invEq_iff i j ha hb, invEq_iff j i hb ha]
    exact ⟨fun h => ⟨fun n => (h.1 n).symm, h.2.symm⟩, fun h => ⟨fun n => (h.1 n).symm, h.2.symm⟩⟩
  case dataset.dataset d d' =>
    rw [Bool.eq_iff_iff]
    simp only [Obj.eq, beq_iff_eq]
    exact ⟨Eq.symm, Eq.symm⟩
  case foreign.foreign t t' =>
    rw [Bool.eq_iff_iff]
    simp only [Obj.eq, beq_iff_eq]
    exact ⟨Eq.symm, Eq.symm⟩

/-- **transitive** -/
theorem eq_trans (a b c : Obj α) (ha : WF a) (hb : WF b) (hc : WF c)
    (hab : a.eq b = true) (hbc : b.eq c = true) : a.eq c = true := by
  cases a <;> cases b <;> (try (simp [Obj.eq] at hab; done)) <;> cases c <;>
    (try (simp [Obj.eq] at hbc; done))
  case nuclide.nuclide.nuclide =>
    simp only [Obj.eq, Bool.and_eq_true, beq_iff_eq] at *
    exact ⟨hab.1.trans hbc.1, hab.2.trans hbc.2⟩
  case inventory.inventory.inventory i j k =>
    simp only [Obj.eq] at hab hbc ⊢
    rw [invEq_iff _ _ ha hb] at hab
    rw [invEq_iff _ _ hb hc] at hbc
    rw [invEq_iff _ _ ha hc]
    exact ⟨fun n => (hab.1 n).trans (hbc.1 n), hab.2.trans hbc.2⟩
  case dataset.dataset.dataset =>
    simp only [Obj.eq, beq_iff_eq] at *
    exact hab.trans hbc
  case foreign.foreign.foreign =>
    simp only [Obj.eq, beq_iff_eq] at *
    exact hab.trans hbc

omit [LawfulBEq α] in
/-- **`!=` is the negation of `==`** -/
theorem ne_is_not_eq (a b : Obj α) : a.ne b = !(a.eq b) := rfl

/-- **equal exactly when they denote the same thing**: inventories are equal iff they hold the
same nuclides with equal amounts and are bound to equal datasets (the class is not compared, so
equal numeric types of the same specification compare equal) -/
theorem eq_iff_same (i j : Inv α) (hi : i.contents.keys.Nodup) (hj : j.contents.keys.Nodup) :
    (Obj.inventory i).eq (Obj.inventory j) = true ↔
      (∀ n, i.contents.get? n = j.contents.get? n) ∧ i.ds = j.ds :=
  invEq_iff i j hi hj

omit [LawfulBEq α] in
/-- nuclides are equal iff same canonical name and equal datasets -/
theorem nuclide_eq_iff (n n' : Name) (d d' dn dn' : Nat) :
    (Obj.nuclide (α := α) n d dn).eq (Obj.nuclide n' d' dn') = true ↔ n = n' ∧ d = d' := by
  simp only [Obj.eq, Bool.and_eq_true, beq_iff_eq]

omit [LawfulBEq α] in
/-- **equal nuclides hash equal** (the dataset name is a function of the dataset) -/
theorem hash_respects_eq (a b : Obj α) (nameOf : Nat → Nat)
    (ha : ∀ n d dn, a = .nuclide n d dn → dn = nameOf d) (hb : ∀ n d dn, b = .nuclide n d dn → dn = nameOf d)
    (hk : ∃ k, nuclideHashKey a = some k) (h : a.eq b = true) : nuclideHashKey a = nuclideHashKey b := by
  cases a with
  | nuclide n d dn =>
    cases b with
    | nuclide n' d' dn' =>
      simp only [Obj.eq, Bool.and_eq_true, beq_iff_eq] at h
      have e1 := ha n d dn rfl
      have e2 := hb n' d' dn' rfl
      simp only [nuclideHashKey, e1, e2, h.1, h.2]
    | inventory j => simp [Obj.eq] at h
    | dataset d' => simp [Obj.eq] at h
    | foreign t => simp [Obj.eq] at h
  | inventory i => obtain ⟨k, hk⟩ := hk; simp [nuclideHashKey] at hk
  | dataset d => obtain ⟨k, hk⟩ := hk; simp [nuclideHashKey] at hk
  | foreign t => obtain ⟨k, hk⟩ := hk; simp [nuclideHashKey] at hk

omit [LawfulBEq α] in
/-- **comparison with an unrelated type is False, never an error**, and `!=` is True -/
theorem foreign_type_false (a : Obj α) (t : Nat) (h : ∀ t', a ≠ .foreign t') :
    a.eq (.foreign t) = false ∧ (Obj.foreign t).eq a = false ∧ a.ne (.foreign t) = true := by
  cases a with
  | foreign t' => exact absurd rfl (h t')
  | nuclide n d dn => exact ⟨rfl, rfl, rfl⟩
  | inventory i => exact ⟨rfl, rfl, rfl⟩
  | dataset d => exact ⟨rfl, rfl, rfl⟩

omit [LawfulBEq α] in
/-- objects of different kinds are never equal -/
theorem cross_kind_false (n : Name) (d dn : Nat) (i : Inv α) (d' : Nat) :
    (Obj.nuclide (α := α) n d dn).eq (.inventory i) = false ∧ (Obj.inventory i).eq (.dataset d') = false ∧
    (Obj.nuclide (α := α) n d dn).eq (.dataset d') = false :=
  ⟨rfl, rfl, rfl⟩

end RdVerif.C17
