"""C17 — equality and hashing are consistent with content."""
from __future__ import annotations

import itertools
from fractions import Fraction

import numpy as np

from common import hexs, lean_driver, rng
from props.c09 import all_names_dataset

NEEDS_DATASET = False
TARGETS = ["RdVerif.Props.C17"]
THEOREMS = ["RdVerif.C17.eq_refl", "RdVerif.C17.eq_symm", "RdVerif.C17.eq_trans", "RdVerif.C17.ne_is_not_eq",
            "RdVerif.C17.eq_iff_same", "RdVerif.C17.nuclide_eq_iff", "RdVerif.C17.hash_respects_eq",
            "RdVerif.C17.foreign_type_false", "RdVerif.C17.cross_kind_false"]
PARTIAL = {}
ASSUMPTIONS = ["dataset identity classes (which datasets ought to be equal) are assigned by the harness from how each was built"]


def exact(v, hp=False) -> Fraction:
    if hasattr(v, "is_Rational"):
        if hp and getattr(v, "is_Float", False):
            import sympy
            q = sympy.Rational(v)            # the exact binary value of the Float
            return Fraction(int(q.p), int(q.q))
        if not v.is_Rational:
            raise ValueError("non-rational")
        return Fraction(int(v.p), int(v.q))
    return Fraction(v) if not isinstance(v, float) else Fraction(v)


def correspondence(rep, ctx):
    rd = ctx.rd
    import sympy
    import fractions
    r = rng(ctx.seed, "c17")
    dd = rd.DEFAULTDATA
    rep.corr["rule"] = (
        "a pool of nuclides (spellings, ids), inventories of both classes (spellings, key types, int/float/NumPy/Fraction/SymPy "
        "amounts of equal value, different amounts, different nuclide sets) and datasets (default, fresh load, renamed copy, "
        "load without SymPy data, synthetic), plus unrelated objects; every ordered pair: == and != of the real objects vs the "
        "model's Obj.eq/ne (and hash agreement for nuclides); every triple: transitivity; repeated after running calculations "
        "on the pool. distinct = ordered pairs")
    fresh = rd.decaydata.load_dataset(dd.dataset_name, load_sympy=True)
    nosym = rd.decaydata.load_dataset(dd.dataset_name, load_sympy=False)
    renamed = rd.decaydata.DecayData("verif_other", dd.bfs, dd.float_year_conv, dd.hldata, dd.modes, dd.nuclides,
                                     dd.progeny, dd.scipy_data, dd._sympy_data, dd._sympy_year_conv)
    synth = all_names_dataset(rd, ["H-3", "He-3", "C-14"])
    # the default dataset with ONE trailing entry dropped (the SF branch of Fm-257): same name, same everything else
    import copy as _copy

    def _obj(rows):
        a = np.empty(len(rows), dtype=object)
        for i_, x in enumerate(rows):
            a[i_] = list(x)
        return a
    prog_t, bfs_t, modes_t = ([list(x) for x in arr] for arr in (dd.progeny, dd.bfs, dd.modes))
    k_t = next(i_ for i_, p_ in enumerate(prog_t) if len(p_) >= 2 and p_[-1] == "SF")
    prog_t[k_t], bfs_t[k_t], modes_t[k_t] = prog_t[k_t][:-1], bfs_t[k_t][:-1], modes_t[k_t][:-1]
    trunc = rd.decaydata.DecayData(dd.dataset_name, _obj(bfs_t), dd.float_year_conv, dd.hldata, _obj(modes_t), dd.nuclides,
                                   _obj(prog_t), dd.scipy_data, dd._sympy_data, dd._sympy_year_conv)
    datasets = [(dd, 0), (fresh, 0), (renamed, 1), (nosym, 2), (synth, 3), (trunc, 4)]
    dsname_id = {"icrp107_ame2020_nubase2020": 0, "verif_other": 1, "verif_all_names": 2}

    pool = []   # (real object, descriptor builder)
    for ds, dsid in datasets:
        pool.append((ds, ("d", dsid)))
    for ds, dsid in datasets:
        for key in ("H-3", "3H", " h3", 10030000, "C-14", "He-3"):
            try:
                n = rd.Nuclide(key, ds)
            except Exception:  # noqa: BLE001
                continue
            pool.append((n, ("n", n.nuclide, dsid, dsname_id[ds.dataset_name])))
    invs = []
    specs = [
        ({"H-3": 3.0, "C-14": 2.0}, "num"), ({"3H": 3, "C14": 2}, "num"), ({10030000: np.float64(3.0), "14C": np.int64(2)}, "num"),
        ({"H-3": fractions.Fraction(3), "C-14": fractions.Fraction(4, 2)}, "num"), ({"C-14": 2.0, "H-3": 3.0}, "num"),
        ({"H-3": 3.0, "C-14": 2.0000000000000004}, "num"), ({"H-3": 3.0}, "num"), ({"H-3": 3.0, "C-14": 2.0, "He-3": 0.0}, "num"),
        ({"H-3": 0.5}, "mol"), ({"H-3": 500.0}, "mmol"), ({"H-3": 1.0}, "Bq"),
        # amounts that differ by less than double resolution: equal as doubles, different as exact (HP) amounts
        ({"H-3": 10**20, "C-14": 2}, "num"), ({"H-3": 10**20 + 1, "C-14": 2}, "num"),
        # SymPy number types of the same specification
        ({"H-3": sympy.Float(3.0), "C-14": sympy.Integer(2)}, "num"), ({"H-3": sympy.Rational(6, 2), "C-14": sympy.Float(2.0)}, "num"),
        ({"H-3": sympy.Float(0.5)}, "mol"),
    ]
    for ds, dsid in datasets[:4] + [datasets[5]]:
        for contents, unit in (specs if dsid != 4 else specs[:2]):
            for C in (rd.Inventory, rd.InventoryHP):
                if C is rd.InventoryHP and ds is nosym:
                    continue
                try:
                    inv = C(dict(contents), unit, True, ds)
                except Exception:  # noqa: BLE001
                    continue
                invs.append((inv, dsid))
    foreign = [(5, ("f", 1)), ("H-3", ("f", 2)), (None, ("f", 3)), (3.0, ("f", 4)), ({"H-3": 3.0}, ("f", 5))]

    def run_round(tag):
        lines = ["w\tQ\treset"]
        objs = list(pool)
        h = 1
        for inv, dsid in invs:
            try:
                # the high-precision class stores exact amounts: a SymPy Float left in its contents still DENOTES a rational
                # (its binary value), so the inventory stays in the pool and must equal the same specification given as
                # int / float / Rational; only genuinely irrational stored amounts are left out
                items = [(str(k), exact(v, hp=type(inv) is rd.InventoryHP)) for k, v in inv.contents.items()]
            except ValueError:
                continue
            enc = ";".join(f"{hexs(n)}:{q.numerator}/{q.denominator}" for n, q in items) or "-"
            lines.append(f"w\tQ\tnew\t{h}\t{'hp' if type(inv) is rd.InventoryHP else 'float'}\t{dsid}\t{enc}")
            objs.append((inv, ("i", h)))
            h += 1
        objs += foreign
        nsetup = len(lines)
        pairs = list(itertools.product(range(len(objs)), repeat=2))
        for a, b in pairs:
            da = ",".join(hexs(x) if isinstance(x, str) and i == 1 and objs[a][1][0] == "n" else str(x) for i, x in enumerate(objs[a][1]))
            db = ",".join(hexs(x) if isinstance(x, str) and i == 1 and objs[b][1][0] == "n" else str(x) for i, x in enumerate(objs[b][1]))
            lines.append(f"w\tQ\tobjeq\t{da}\t{db}")
        model = lean_driver(lines) if ctx.build_ok else None
        eqm = {}
        bad = 0
        for k, (a, b) in enumerate(pairs):
            x, y = objs[a][0], objs[b][0]
            try:
                e, ne = (x == y), (x != y)
                if e is NotImplemented or not isinstance(e, (bool, np.bool_)):
                    e = bool(e)
                e, ne = bool(e), bool(ne)
            except Exception as ex:  # noqa: BLE001
                rep.violation("failing-input", f"{tag}: comparing {x!r} with {y!r} raised {type(ex).__name__}: {ex}",
                              {"a": repr(x), "b": repr(y)}, True)
                bad += 1
                continue
            eqm[(a, b)] = e
            rep.case((tag, a, b), sample={"a": repr(x)[:80], "b": repr(y)[:80], "==": e} if k % 4001 == 0 else None)
            rep.dist("pair:" + objs[a][1][0] + objs[b][1][0])
            if ne != (not e):
                bad += 1
                rep.violation("failing-input", f"{tag}: != is not the negation of == for {x!r} and {y!r}", {"a": repr(x), "b": repr(y)}, True)
            if model is not None:
                me, mne, mh = model[nsetup + k].split(" ")
                if (me == "true") != e:
                    cross = (objs[a][1][0] == "i" and objs[b][1][0] == "i" and type(x) is not type(y))
                    if not cross:
                        bad += 1
                    if bad <= 4 or cross:
                        rep.violation("failing-input", f"{tag}: ({x!r} == {y!r}) is {e}, but they "
                                      f"{'denote the same thing' if me == 'true' else 'differ in nuclide set, amount or dataset'}",
                                      {"a": repr(x), "b": repr(y), "real": e, "model": me}, True,
                                      match_key="F7-cross-class-eq" if cross else None)
                if e and objs[a][1][0] == "n" and objs[b][1][0] == "n" and hash(x) != hash(y):
                    bad += 1
                    rep.violation("failing-input", f"{tag}: equal nuclides {x!r}, {y!r} hash differently", {"a": repr(x), "b": repr(y)}, True)
        # reflexive / symmetric / transitive on the real outcomes
        n = len(objs)
        for a in range(n):
            if not eqm.get((a, a), True):
                bad += 1
                rep.violation("failing-input", f"{tag}: {objs[a][0]!r} != itself", {"a": repr(objs[a][0])}, True)
            for b in range(n):
                if eqm.get((a, b)) != eqm.get((b, a)):
                    bad += 1
                    rep.violation("failing-input", f"{tag}: == not symmetric for {objs[a][0]!r}, {objs[b][0]!r}", {}, True)
        eqsets = {a: {b for b in range(n) if eqm.get((a, b))} for a in range(n)}
        for a in range(n):
            for b in eqsets[a]:
                if not eqsets[b] <= eqsets[a]:
                    c = next(iter(eqsets[b] - eqsets[a]))
                    kinds = {type(objs[k_][0]) for k_ in (a, b, c)}
                    cross = kinds == {rd.Inventory, rd.InventoryHP}
                    if not cross:
                        bad += 1
                    rep.violation("failing-input", f"{tag}: == not transitive: {objs[a][0]!r} == {objs[b][0]!r} == {objs[c][0]!r}", {}, True,
                                  match_key="F7-cross-class-eq" if cross else None)
                    break
        return bad

    bad = run_round("fresh")
    # arbitrary calculations on the pool, then compare again
    for inv, _ in invs[:: 3]:
        try:
            inv.decay(r.uniform(1, 1e6), "s")
            inv.cumulative_decays(10.0, "d")
            inv.activities() if all(inv.decay_data.half_life(n) != float("inf") for n in inv.contents) else inv.moles()
        except Exception:  # noqa: BLE001
            pass
    bad += run_round("after-calculations")
    # nuclides usable as dict / set keys
    s = {rd.Nuclide("H-3"), rd.Nuclide("3H"), rd.Nuclide(10030000), rd.Nuclide("C-14")}
    if len(s) != 2:
        bad += 1
        rep.violation("failing-input", f"a set of three spellings of H-3 and C-14 has {len(s)} members", {}, True)
    rep.notes["mismatches"] = bad


def search(rep, ctx) -> bool:
    return False


def replay(body, ctx) -> bool:
    print("re-run ./check C17")
    return False
