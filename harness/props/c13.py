"""C13 — time series and plotted curves are pointwise decay results."""
from __future__ import annotations

import math
from fractions import Fraction

import numpy as np

from common import rng
from decaylib import F
from oracle import DatasetView

NEEDS_DATASET = False
TARGETS = ["RdVerif.Props.C13"]
THEOREMS = ["RdVerif.C13.dispatch_table", "RdVerif.C13.dispatch_unknown", "RdVerif.C13.grid_linear", "RdVerif.C13.grid_start",
            "RdVerif.C13.ylimits_default", "RdVerif.C13.series_constants"]
PARTIAL = {
    "pointwise_partial": "that every series / curve value equals the separate decay(t_k).readout() call is checked for every "
                         "read-out kind through the real methods (bit-identical or <= 1 ulp), not proved",
}
ASSUMPTIONS = ["numpy.linspace/logspace within 2 ulp of the exact grid; pandas / Matplotlib behave as documented"]
ULP = Fraction(1, 2**52)


def readout(inv, kind_unit, rd):
    conv = rd.converters.UnitConverterFloat
    u = kind_unit
    if u in conv.activity_units:
        return inv.activities(u)
    if u in conv.moles_units:
        return inv.moles(u)
    if u in conv.mass_units:
        return inv.masses(u)
    if u == "num":
        return inv.numbers()
    if u == "activity_frac":
        return inv.activity_fractions()
    if u == "mass_frac":
        return inv.mass_fractions()
    if u == "mol_frac":
        return inv.mole_fractions()
    raise ValueError(u)


def ylabel_ok(u, label, rd):
    conv = rd.converters.UnitConverterFloat
    if u in conv.activity_units:
        return label == f"Activity ({u})"
    if u in conv.moles_units:
        return label == f"Number of moles ({u})"
    if u in conv.mass_units:
        return label == f"Mass ({u})"
    return label == {"num": "Number of atoms", "activity_frac": "Activity fraction", "mass_frac": "Mass fraction",
                     "mol_frac": "Mole fraction"}[u]


def correspondence(rep, ctx):
    rd = ctx.rd
    import matplotlib
    matplotlib.use("Agg")
    import matplotlib.pyplot as plt
    dd = rd.DEFAULTDATA
    view = DatasetView(dd)
    r = rng(ctx.seed, "c13")
    thorough = ctx.tier == "thorough"
    conv = rd.converters.UnitConverterFloat
    kinds = list(conv.activity_units) + list(conv.mass_units) + list(conv.moles_units) + ["num", "activity_frac", "mass_frac", "mol_frac"]
    radio = [n for i, n in enumerate(view.names) if view.rate[i] != 0]
    rep.corr["rule"] = (
        "all 47 read-out kinds x {linear, log} x {decay_time_series, decay_time_series_pandas, plot (arguments handed to "
        "plots.decay_graph captured by patching it from the harness)} x npoints 2..50 / explicit arrays / display / order "
        "options, both classes: grid vs the exact linspace / logspace (2 ulp), one column/curve per nuclide of the decayed "
        "inventory or per requested nuclide in the requested order, every value vs the separate decay(t_k, unit).readout() "
        "call (<= 1 ulp), labels naming the unit, limits spanning the data. distinct = (kind, scale, method, options)")
    captured = {}
    orig = rd.inventory.decay_graph

    def fake(**kw):
        captured.clear()
        captured.update(kw)
        return orig(**kw)
    rd.inventory.decay_graph = fake
    bad = 0

    def fail(desc, msg):
        nonlocal bad
        bad += 1
        if bad <= 4:
            rep.violation("failing-input", f"{desc}: {msg}", {"case": desc}, True)

    def same(a, b, ulps=1):
        if a != a or b != b:          # NaN: 0/0 in the fractions of a fully decayed inventory (C14's premise fails)
            return (a != a) and (b != b)
        fa, fb = F(a), F(b)
        return abs(fa - fb) <= ulps * ULP * max(abs(fa), abs(fb))

    def grid_ok(tp, lo, hi, n, scale):
        if len(tp) != n:
            return False
        for k, t in enumerate(tp):
            if scale == "linear":
                want = Fraction(lo) + k * (Fraction(hi) - Fraction(lo)) / (n - 1) if n > 1 else Fraction(lo)
                tol = 2 * ULP * max(abs(F(lo)), abs(F(hi)))
                if abs(F(t) - want) > tol:
                    return False
            else:
                ex = math.log10(lo) + k * (math.log10(hi) - math.log10(lo)) / (n - 1)
                if abs(float(t) - 10.0 ** ex) > 1e-13 * abs(10.0 ** ex):
                    return False
        # a linear grid starts and ends exactly where it was told; a logarithmic one is 10**(log10 x) at both ends, which is
        # x only to a few ulp (np.logspace)
        ends_ok = (same(tp[0], lo, 2) and same(tp[-1], hi, 4)) if scale == "linear" else (same(tp[0], lo, 32) and same(tp[-1], hi, 32))
        return ends_ok

    shared_fig, shared_ax = plt.subplots()
    try:
        for u in kinds:
            for scale in ("linear", "log"):
                for method in ("series", "pandas", "plot"):
                    reps = 2 if thorough else 1
                    for _ in range(reps):
                        hp = (r.random() < 0.03)
                        C = rd.InventoryHP if hp else rd.Inventory
                        names = r.sample(radio, r.choice([1, 2, 3]))
                        inv = C({n: 10.0 ** r.uniform(3, 15) for n in names}, "num")
                        n = r.choice([2, 3, 5, 50]) if not hp else 2
                        T = 10.0 ** r.uniform(0, 6)
                        tu = r.choice(["s", "d", "y", "h"])
                        desc = f"{C.__name__}({names}) {method} units={u!r} scale={scale} npoints={n} T={T!r} {tu}"
                        rep.case((u, scale, method, n, hp), sample={"case": desc} if (len(rep.corr["samples"]) < 8 and r.random() < 0.05) else None)
                        rep.dist(f"{method}:{scale}")
                        try:
                            if method in ("series", "pandas"):
                                if method == "series":
                                    tp, data = inv.decay_time_series(T, tu, time_scale=scale, decay_units=u, npoints=n)
                                    cols = list(data)
                                else:
                                    df = inv.decay_time_series_pandas(T, tu, time_scale=scale, decay_units=u, npoints=n)
                                    tp, data = list(df.index), {c: list(df[c]) for c in df.columns}
                                    cols = list(df.columns)
                                    if df.index.name != f"Time ({tu})":
                                        fail(desc, f"index is named {df.index.name!r}")
                                lo = 0.0 if scale == "linear" else 0.1
                                if not grid_ok(tp, lo, T, n, scale):
                                    fail(desc, f"time grid {list(tp)[:3]}… is not the {scale} grid from {lo} to {T}")
                                    continue
                                want_cols = list(inv.decay(0.0, tu).contents)
                                if cols != want_cols:
                                    fail(desc, f"columns {cols[:4]} vs nuclides of the decayed inventory {want_cols[:4]}")
                                    continue
                                for k in (range(n) if n <= 5 else (0, 1, n // 2, n - 1)):
                                    ref = readout(inv.decay(tp[k], tu), u, rd)
                                    for c in cols:
                                        if not same(data[c][k], ref[c]):
                                            fail(desc, f"{c} at t={tp[k]!r}: {data[c][k]!r} vs decay(t).readout = {ref[c]!r}")
                                            raise StopIteration
                            else:
                                order = r.choice(["dataset", "alphabetical"])
                                dcont = list(inv.decay(0.0).contents)
                                # explicit display lists of 1-3 nuclides in a random (requested) order
                                disp = "all" if r.random() < 0.5 else r.sample(dcont, min(len(dcont), r.choice([1, 2, 3])))
                                rep.dist("plot:display=all" if disp == "all" else f"plot:display-list-{len(disp)}")
                                xmin = 0.0 if r.random() < 0.6 else r.choice([T / 10, T / 10, 0.01, 0.002, T / 1000])
                                yscale = r.choice(["linear", "log"])
                                shared_ax.clear()
                                fig, ax = inv.plot(T, tu, xmin=xmin, xscale=scale, yscale=yscale, yunits=u, display=disp,
                                                   order=order, npoints=n, fig=shared_fig, axes=shared_ax)
                                kw = dict(captured)
                                lo = xmin if scale == "linear" else (0.1 if xmin == 0.0 else xmin)
                                tp = kw["time_points"]
                                if not grid_ok(tp, lo, T, n, scale):
                                    fail(desc, f"plot time grid {list(tp)[:3]}… is not the {scale} grid from {lo} to {T}")
                                    continue
                                allnuc = list(inv.decay(0.0).contents)
                                if disp == "all":
                                    want_n = allnuc if order == "alphabetical" else sorted(allnuc, key=lambda x: view.index[x])
                                else:
                                    want_n = list(disp)
                                if list(kw["nuclides"]) != want_n or set(kw["display"]) != set(want_n):
                                    fail(desc, f"curves {list(kw['nuclides'])[:4]} vs requested {want_n[:4]} (order={order})")
                                    continue
                                yd = kw["ydata"]
                                for k in (range(n) if n <= 5 else (0, 1, n // 2, n - 1)):
                                    ref = readout(inv.decay(tp[k], tu), u, rd)
                                    for ci, c in enumerate(want_n):
                                        if not same(yd[ci][k], ref[c]):
                                            fail(desc, f"curve {c} at t={tp[k]!r}: {yd[ci][k]!r} vs decay(t).readout = {ref[c]!r}")
                                            raise StopIteration
                                if not ylabel_ok(u, kw["ylabel"], rd) or kw["xunits"] != tu or ax.get_xlabel() != f"Time ({tu})":
                                    fail(desc, f"labels {kw['ylabel']!r} / {ax.get_xlabel()!r}")
                                ymin_w = 0.95 * float(np.min(yd)) if yscale == "log" else 0.0
                                ymax_w = 1.05 * float(np.max(yd))
                                yl = kw["ylimits"]
                                if not (same(yl[0], ymin_w, 2) or yl[0] == ymin_w) or not (same(yl[1], ymax_w, 2) or yl[1] == ymax_w):
                                    fail(desc, f"y-limits {yl} do not span the data [{ymin_w}, {ymax_w}]")
                        except StopIteration:
                            pass
                        except ZeroDivisionError:
                            if u.endswith("_frac"):
                                rep.inconclusive += 1     # total is zero: outside the premise of the fractions (C14)
                            else:
                                fail(desc, "raised ZeroDivisionError")
                        except Exception as e:  # noqa: BLE001
                            if u.endswith("_frac") and isinstance(e, ValueError) and "NaN" in str(e):
                                rep.inconclusive += 1     # 0/0 shares of a fully decayed inventory: outside the premise (C14)
                            else:
                                fail(desc, f"raised {type(e).__name__}: {e}")
        # both classes x every (xscale, yscale) combination of plot, deterministically
        for C in (rd.Inventory, rd.InventoryHP):
            for xs in ("linear", "log"):
                for ys in ("linear", "log"):
                    inv = C({"Sr-90": 2.0e6}, "num")
                    desc = f"{C.__name__}.plot(xscale={xs}, yscale={ys})"
                    rep.case(("scales", C.__name__, xs, ys))
                    rep.dist("plot:scale-combos")
                    npts = 4 if C is rd.Inventory else 3
                    shared_ax.clear()
                    fig, ax = inv.plot(50.0, "y", xscale=xs, yscale=ys, yunits="mmol", npoints=npts, fig=shared_fig, axes=shared_ax)
                    kw = dict(captured)
                    lo = 0.0 if xs == "linear" else 0.1
                    if kw["xscale"] != xs or kw["yscale"] != ys or ax.get_xscale() != xs or ax.get_yscale() != ys:
                        fail(desc, f"axes scales are x={ax.get_xscale()} y={ax.get_yscale()}")
                        continue
                    if not grid_ok(kw["time_points"], lo, 50.0, npts, xs):
                        fail(desc, f"time grid {list(kw['time_points'])} is not the {xs} grid from {lo} to 50")
                        continue
                    ref = inv.decay(kw["time_points"][2], "y").moles("mmol")
                    for ci, c in enumerate(kw["nuclides"]):
                        if not same(kw["ydata"][ci][2], ref[c]):
                            fail(desc, f"curve {c}: {kw['ydata'][ci][2]!r} vs decay(t).moles = {ref[c]!r}")
                    yd = kw["ydata"]
                    want0 = 0.95 * float(np.min(yd)) if ys == "log" else 0.0
                    if not (kw["ylimits"][0] == want0 or same(kw["ylimits"][0], want0, 2)):
                        fail(desc, f"lower y-limit {kw['ylimits'][0]!r}, expected {want0!r}")
        # an explicit display list is drawn in the requested order whatever `order` says (both classes)
        for C in (rd.Inventory, rd.InventoryHP):
            for order in ("dataset", "alphabetical"):
                for disp in (["Y-90", "Sr-90"], ["Sr-90", "Y-90"], ["Zr-90", "Sr-90", "Y-90"], "Y-90"):
                    inv = C({"Sr-90": 2.0e6}, "num")
                    desc = f"{C.__name__}({{'Sr-90': 2e6}}).plot(display={disp!r}, order={order!r})"
                    rep.case(("display-order", C.__name__, order, repr(disp)))
                    rep.dist("plot:display-order")
                    shared_ax.clear()
                    inv.plot(30.0, "y", yunits="num", display=disp, order=order, npoints=3, fig=shared_fig, axes=shared_ax)
                    kw = dict(captured)
                    want_n = [disp] if isinstance(disp, str) else list(disp)
                    if list(kw["nuclides"]) != want_n:
                        fail(desc, f"curves are drawn/labelled for {list(kw['nuclides'])}, requested {want_n}")
                        continue
                    ref = inv.decay(kw["time_points"][1], "y").numbers()
                    for ci, c in enumerate(want_n):
                        if not same(kw["ydata"][ci][1], ref[c]):
                            fail(desc, f"curve {ci} ({c}): {kw['ydata'][ci][1]!r} vs decay(t).numbers = {ref[c]!r}")
        # a logarithmic time axis starts at the xmin it was given, however small (0.1 only stands in for the default 0)
        for C in (rd.Inventory, rd.InventoryHP):
            for xmin_ in (0.01, 0.002, 0.5, 0.0):
                inv = C({"Po-214": 1000.0}, "Bq")
                desc = f"{C.__name__}({{'Po-214': 1000.0}}, 'Bq').plot(1.0, 'ms', xmin={xmin_!r}, xscale='log', npoints=4)"
                rep.case(("log-xmin", C.__name__, xmin_))
                rep.dist("plot:log-xmin")
                try:
                    shared_ax.clear()
                    inv.plot(1.0, "ms", xmin=xmin_, xscale="log", yunits="Bq", npoints=4, fig=shared_fig, axes=shared_ax)
                    kw = dict(captured)
                    lo_ = xmin_ if xmin_ > 0 else 0.1
                    if not grid_ok(kw["time_points"], lo_, 1.0, 4, "log"):
                        fail(desc, f"time grid {list(kw['time_points'])} is not the log grid from {lo_} to 1.0")
                        continue
                    ref = inv.decay(kw["time_points"][0], "ms").activities("Bq")
                    if not same(kw["ydata"][0][0], ref["Po-214"], 4):
                        fail(desc, f"first point {kw['ydata'][0][0]!r} vs decay(t0).activities = {ref['Po-214']!r}")
                except Exception as e:  # noqa: BLE001
                    fail(desc, f"raised {type(e).__name__}: {e}")
        # fraction curves of a DISPLAYED SUBSET are still shares of the whole decayed inventory
        for C in (rd.Inventory, rd.InventoryHP):
            for yu in ("activity_frac", "mass_frac", "mol_frac"):
                for disp in ("C-14", ["K-40"], ["N-14", "C-14"]):
                    inv = C({"C-14": 1.0e6, "K-40": 2.0e9}, "num")
                    desc = f"{C.__name__}({{'C-14': 1e6, 'K-40': 2e9}}).plot(20, 'ky', yunits={yu!r}, display={disp!r})"
                    rep.case(("frac-display", C.__name__, yu, repr(disp)))
                    rep.dist("plot:fraction-of-subset")
                    try:
                        shared_ax.clear()
                        inv.plot(20.0, "ky", yunits=yu, display=disp, npoints=3, fig=shared_fig, axes=shared_ax)
                        kw = dict(captured)
                        want_n = [disp] if isinstance(disp, str) else list(disp)
                        for k_ in (0, 1, 2):
                            ref = readout(inv.decay(kw["time_points"][k_], "ky"), yu, rd)
                            for ci, c in enumerate(want_n):
                                if not same(kw["ydata"][ci][k_], ref[c], 4):
                                    fail(desc, f"curve {c} at t={kw['time_points'][k_]!r}: {kw['ydata'][ci][k_]!r} vs the share in the whole "
                                               f"decayed inventory {ref[c]!r}")
                                    raise StopIteration
                    except StopIteration:
                        pass
                    except Exception as e:  # noqa: BLE001
                        fail(desc, f"raised {type(e).__name__}: {e}")
        # explicit time arrays and refusals
        inv = rd.Inventory({"Mo-99": 1e6, "Sr-90": 2e6}, "num")
        arr = np.array([0.0, 1.5, 2.25, 1000.0, 3.0])
        tp, data = inv.decay_time_series(arr, "h", decay_units="Bq", npoints=99)
        rep.case(("explicit-array",))
        if list(tp) != list(arr) or any(not same(data["Mo-99"][k], inv.decay(arr[k], "h").activities()["Mo-99"]) for k in range(len(arr))):
            fail("decay_time_series(explicit array)", f"times {tp} / values do not follow the supplied array")
        # user-supplied times of other array types: the series is evaluated at exactly those times (as doubles)
        for C in (rd.Inventory, rd.InventoryHP):
            invx = C({"Mo-99": 1000000, "Sr-90": 2000000}, "num")
            for arr_ in (np.array([0, 1, 2, 5, 12]), np.array([0, 3, 7], dtype=np.int32), np.array([0.5, 1.25, 9.75], dtype=np.float32),
                         np.array([2.0, 0.25, 11.5]), np.array([0.0, 1.0, 1.0, 5.0, 0.0])):
                for kind_ in ("Bq", "num", "mass_frac", "pg"):
                    if C is rd.InventoryHP and ((len(arr_) > 3 and arr_.dtype != np.float64) or (not thorough and (arr_.dtype != np.int32 or kind_ not in ("Bq", "mass_frac")))):
                        continue
                    desc = f"{C.__name__}.decay_time_series(np.array({arr_.tolist()}, dtype={arr_.dtype}), 'h', decay_units={kind_!r})"
                    rep.case(("explicit-array", C.__name__, str(arr_.dtype), kind_))
                    rep.dist("explicit-time-array")
                    try:
                        orig_ = arr_.copy()
                        tp, data = invx.decay_time_series(arr_, "h", decay_units=kind_, npoints=77)
                        dfx = invx.decay_time_series_pandas(arr_, "h", decay_units=kind_, npoints=77)
                        if arr_.dtype != orig_.dtype or arr_.tobytes() != orig_.tobytes():
                            fail(desc, f"the caller's time array was changed: {orig_.tolist()} -> {arr_.tolist()}")
                            arr_[...] = orig_
                            continue
                        if [float(x) for x in tp] != [float(x) for x in orig_] or [float(x) for x in dfx.index] != [float(x) for x in orig_]:
                            fail(desc, f"times {list(tp)} are not the supplied ones {orig_.tolist()} (in the supplied order)")
                            continue
                        for k_ in range(len(arr_)):
                            ref = readout(invx.decay(float(arr_[k_]), "h"), kind_, rd)
                            for c_ in data:
                                if not same(data[c_][k_], ref[c_]) or not same(dfx[c_].iloc[k_], ref[c_]):
                                    fail(desc, f"{c_} at t={float(arr_[k_])!r}: series {data[c_][k_]!r} / frame {dfx[c_].iloc[k_]!r} vs "
                                               f"decay(t).readout = {ref[c_]!r}")
                                    raise StopIteration
                    except StopIteration:
                        pass
                    except Exception as e:  # noqa: BLE001
                        fail(desc, f"raised {type(e).__name__}: {e}")
        for badu in ("bq", "", "frac", "s"):
            for fn in (lambda: inv.decay_time_series(1.0, "s", decay_units=badu, npoints=2),
                       lambda: inv.plot(1.0, yunits=badu, npoints=2)):
                rep.case(("refuse", badu))
                try:
                    fn()
                    fail(f"decay_units={badu!r}", "accepted")
                except ValueError:
                    pass
                except Exception as e:  # noqa: BLE001
                    fail(f"decay_units={badu!r}", f"raised {type(e).__name__}")
        try:
            inv.plot(1.0, order="random", npoints=2)
            fail("plot(order='random')", "accepted")
        except ValueError:
            pass
    finally:
        rd.inventory.decay_graph = orig
        plt.close("all")
    rep.corr["exhaustive"] = True
    rep.notes["mismatches"] = bad


def search(rep, ctx) -> bool:
    return False


def replay(body, ctx) -> bool:
    print("re-run ./check C13")
    return False
