"""C10 — invalid input is refused with the documented error, never mis-accepted."""
from __future__ import annotations

import itertools
import os
import re
import tempfile

from common import WORK, hexs, lean_driver, rng
from props.c09 import err_name, model_out, outcome

TARGETS = ["RdVerif.Props.C10", "RdVerif.Props.C10Entry"]
THEOREMS = ["RdVerif.C10.parse_total", "RdVerif.C10.parseId_total", "RdVerif.C10.accept_sound", "RdVerif.C10.parseNuclide_total", "RdVerif.C10.ctor_errors_documented", "RdVerif.C10.ctor_accept_sound", "RdVerif.C10.remove_errors_documented"]
PARTIAL = {}
ASSUMPTIONS = [
    "model is exact for ASCII strings; strings with non-ASCII characters are judged directly by the property's "
    "oracle on the real code (CPython's Unicode tables are not modelled)",
    "bool and complex amounts are reported but not judged (the property lists negative, NaN and non-numeric)",
]

ALPHA_SMALL = ["H", "e", "m", "x", "U", "n", "0", "1", "3", "9", "-", " ", "\t", "_"]
NONASCII = ["é", "٣", "³", "ſ", " ", "K"]
OK_ERRS = ("NuclideStrError", "ValueError")


def literal_oracle(rd, s: str, name: str) -> bool:
    """independent reading of 'the nuclide whose element, mass number and state literally appear in it'"""
    utils = rd.utils
    m = re.fullmatch(r"([A-Z][a-z]?)-(\d+)([a-z]?)", name)
    if not m:
        return False
    el, A, st = m.groups()
    if el not in utils.SYM_DICT or int(A) > 300 or (st and st not in utils.METASTABLE_CHARS):
        return False
    t = "".join(s.split())
    if t.count("-") > 1:
        return False
    t = t.replace("-", "")
    digits = "".join(c for c in t if c.isdigit())
    letters = "".join(c for c in t if not c.isdigit())
    if digits != A or not letters.isalpha():
        return False
    # digits contiguous
    if A not in t:
        return False
    lo = letters.lower()
    return lo == (el + st).lower() or lo == (st + el).lower()


def judge_parse(rd, kind, x, real):
    """property verdict on one parse result; returns None if fine else a message"""
    if real[0] == "err":
        if real[1] not in OK_ERRS:
            return f"escapes as {real[1]}"
        return None
    if kind == "str" and not literal_oracle(rd, x, real[1]):
        return f"accepted as {real[1]!r} although that nuclide does not literally appear in it"
    if kind == "id":
        m = re.fullmatch(r"([A-Z][a-z]?)-(\d+)([a-z]?)", real[1])
        if not m:
            return f"id accepted as ill-formed name {real[1]!r}"
        el, A, st = m.groups()
        Z = rd.utils.SYM_DICT.get(el)
        states = [""] + list(rd.utils.METASTABLE_CHARS)
        if Z is None or st not in states or Z * 10000000 + int(A) * 10000 + states.index(st) != x:
            return f"id accepted as {real[1]!r}, which is not what its digits say"
    return None


def gen_strings(r, n):
    elems = ["H", "He", "Tc", "Ni", "I", "U", "Mn", "N", "Og", "In"]
    pool_l = list("HeTcNiUMnOgImnpqrxXzZaA")
    out = []
    for _ in range(n):
        mode = r.random()
        if mode < 0.5:
            # mutate a valid spelling
            el = r.choice(elems)
            A = str(r.choice([0, 1, 3, 99, 137, 238, 300, 301, 1000, 7]))
            st = r.choice(["", "", "m", "n", "x", "o", "M", "mm"])
            s = r.choice([f"{el}-{A}{st}", f"{el}{A}{st}", f"{A}{st}{el}", f"{A}{st}-{el}"])
            for _ in range(r.choice([0, 1, 1, 2])):
                p = r.randint(0, len(s))
                op = r.random()
                c = r.choice(pool_l + list("0123456789") + ["-", " ", "\t", "_", ".", "+"])
                if op < 0.4:
                    s = s[:p] + c + s[p:]
                elif op < 0.7 and s:
                    s = s[:p] + s[p + 1:]
                elif s:
                    s = s[:p] + c + s[p + 1:]
        else:
            L = r.randint(0, 8)
            s = "".join(r.choice(pool_l + list("0123456789") * 2 + ["-", "-", " ", "\t", "_", "\n"]) for _ in range(L))
        out.append(s)
    return out


def correspondence(rep, ctx):
    rd = ctx.rd
    utils = rd.utils
    thorough = ctx.tier == "thorough"
    r = rng(ctx.seed, "c10")
    rep.corr["rule"] = (
        "exhaustive: all strings of length <=4 over a 14-symbol ASCII alphabet; seeded mutated/unstructured "
        "strings up to length 8+; id strata (every state-digit value 0..9999 x sample Z,A; boundaries; negatives; "
        "random in +-1e10); entry-point matrix (nuclide/unit/amount x every public entry point). Real outcome "
        "compared with the Lean model (ASCII) and judged by the property's own oracle. distinct = distinct inputs; "
        "non-trivial = all (each probes a different refusal/acceptance path)")

    # ---------------- strings
    strs = ["".join(t) for L in range(0, 5) for t in itertools.product(ALPHA_SMALL, repeat=L)]
    rep.dist("str:exhaustive<=4", len(strs))
    more = gen_strings(r, 200000 if thorough else 30000)
    rep.dist("str:seeded", len(more))
    strs += more
    nonascii = []
    for _ in range(20000 if thorough else 4000):
        s = r.choice(gen_strings(r, 1))
        p = r.randint(0, len(s))
        nonascii.append(s[:p] + r.choice(NONASCII) + s[p:])
    rep.dist("str:non-ascii", len(nonascii))

    # ---------------- ids
    ids = []
    for Z, A in [(1, 3), (43, 99), (86, 222), (118, 300), (0, 5), (119, 1), (56, 137)]:
        for sd in range(0, 10000):
            ids.append(Z * 10000000 + A * 10000 + sd)
    for Z in range(0, 130):
        for A in (0, 1, 300, 301, 999):
            ids.append(Z * 10000000 + A * 10000)
    ids += [0, 1, -1, 10**10, -10**10, 9999, 10000, 10**7, 2**31, -2**31, 10030000, -10030000]
    ids += [r.randint(-10**10, 10**10) for _ in range(100000 if thorough else 20000)]
    rep.dist("id", len(ids))

    names = [str(n) for n in rd.DEFAULTDATA.nuclides]
    lines = ["set_names\t" + "\t".join(hexs(n) for n in names)]
    lines += ["parse_str\t" + hexs(s) for s in strs]
    lines += [f"parse_id\t{i}" for i in ids]
    nuc_keys = [("str", s) for s in more[:5000]] + [("int", i) for i in ids[-5000:]]
    lines += [f"parse_nuc\tstr\t{hexs(x)}" if k == "str" else f"parse_nuc\tint\t{x}" for k, x in nuc_keys]
    model = lean_driver(lines) if ctx.build_ok else None
    off = 1
    bad = 0

    def report(kind, x, real, msg):
        nonlocal bad
        bad += 1
        if bad <= 5:
            rep.violation("failing-input", f"{kind} {x!r}: {msg}",
                          {"call": kind, "input": x, "observed": list(real), "how_to_replay": "./check C10 --replay <this file>"},
                          True)

    def diverge(kind, x, real, mo):
        if len(rep.notes.setdefault("divergences", [])) < 10:
            rep.notes["divergences"].append({"call": kind, "input": x, "real": real, "model": mo})
        ctx.broken.append(f"correspondence:{kind}:{x!r}")

    for i, s in enumerate(strs):
        real = outcome(utils.parse_nuclide_str, s)
        rep.case(("s", s), sample={"input": s, "real": real} if i % 7919 == 0 else None)
        msg = judge_parse(rd, "str", s, real)
        if msg:
            report("parse_nuclide_str", s, real, msg)
        elif model is not None and model_out(model[off + i]) != real:
            diverge("parse_nuclide_str", s, real, model_out(model[off + i]))
    off += len(strs)
    for i, x in enumerate(ids):
        real = outcome(utils.parse_id, x)
        rep.case(("i", x), sample={"input": x, "real": real} if i % 7919 == 0 else None)
        msg = judge_parse(rd, "id", x, real)
        if msg:
            report("parse_id", x, real, msg)
        elif model is not None and model_out(model[off + i]) != real:
            diverge("parse_id", x, real, model_out(model[off + i]))
    off += len(ids)
    dd = rd.DEFAULTDATA
    for i, (k, x) in enumerate(nuc_keys):
        real = outcome(utils.parse_nuclide, x, dd.nuclides, dd.dataset_name)
        real = (real[0], str(real[1])) if real[0] == "ok" else real
        rep.case(("n", k, x))
        if real[0] == "err" and real[1] not in OK_ERRS:
            report("parse_nuclide", x, real, f"escapes as {real[1]}")
        elif real[0] == "ok" and real[1] not in names:
            report("parse_nuclide", x, real, "accepted a nuclide that is not in the dataset")
        elif model is not None and model_out(model[off + i]) != real:
            diverge("parse_nuclide", x, real, model_out(model[off + i]))
    for i, s in enumerate(nonascii):
        real = outcome(utils.parse_nuclide_str, s)
        rep.case(("u", s), sample={"input": s, "real": real} if i % 1999 == 0 else None)
        if real[0] == "err" and real[1] not in OK_ERRS:
            report("parse_nuclide_str", s, real, f"escapes as {real[1]}")
        elif real[0] == "ok":
            # accepted: must still be refused by the dataset unless it literally is that nuclide
            # under Python's own case mapping (e.g. 'ſ-35' -> 'S-35')
            t = "".join(s.split()).replace("-", "", 1)
            if sorted(t.lower().replace("ſ", "s").replace("k", "k")) != sorted(real[1].replace("-", "", 1).lower()):
                report("parse_nuclide_str", s, real, f"accepted as {real[1]!r}")

    entry_points(rep, ctx, r, report)
    decision_model(rep, ctx, r, report, diverge)
    rep.notes["mismatches"] = bad


def entry_points(rep, ctx, r, report):
    rd = ctx.rd
    import numpy as np
    import sympy
    import fractions
    import decimal
    dd = rd.DEFAULTDATA
    thorough = ctx.tier == "thorough"

    def fresh(cls=rd.Inventory):
        return cls({"H-3": 1.0, "C-14": 2.0}, "num")

    WORK.mkdir(exist_ok=True)
    tmpdir = tempfile.mkdtemp(dir=WORK)

    def csv_with(row):
        p = os.path.join(tmpdir, "in.csv")
        with open(p, "w", encoding="utf-8") as f:
            f.write(row + "\n")
        return p

    # --- nuclide arguments
    bad_strs = ["Xx-3", "H-9", "99", "", "-", "H--3", "Tc-99mm", "H-301", "3", "H", "Tc99o", "H 3 3", "1H2", "He-3!"]
    bad_strs += [s for s in gen_strings(r, 300 if thorough else 60)
                 if outcome(rd.utils.parse_nuclide, s, dd.nuclides, dd.dataset_name)[0] == "err"]
    bad_ints = [0, 5, -10030000, 862220010, 10090000, 1190010000, 10**10, True]
    # valid uses first (so that anything the library may remember about a key is in place), then keys of the wrong type —
    # including numbers that compare and hash EQUAL to a valid canonical id
    for warm in (lambda: rd.Nuclide(10030000), lambda: rd.Inventory({10030000: 1.0, "C-14": 1.0}, "num"), lambda: dd.half_life(10030000),
                 lambda: rd.InventoryHP({10030000: 1}, "num"), lambda: fresh().remove(10030000), lambda: dd.branching_fraction(10030000, "He-3")):
        warm()
    bad_types = [1.5, None, np.int64(10030000), ("H-3",), b"H-3", 10030000.0, np.float64(10030000), fractions.Fraction(10030000),
                 decimal.Decimal(10030000), complex(10030000, 0)]
    nuc_eps = {
        "Nuclide": lambda x: rd.Nuclide(x),
        "Inventory": lambda x: rd.Inventory({x: 1.0}, "num"),
        "InventoryHP": lambda x: rd.InventoryHP({x: 1.0}, "num"),
        "add": lambda x: fresh().add({x: 1.0}, "num"),
        "subtract": lambda x: fresh().subtract({x: 1.0}, "num"),
        "addHP": lambda x: fresh(rd.InventoryHP).add({x: 1.0}, "num"),
        "remove": lambda x: fresh().remove(x),
        "remove_list": lambda x: fresh().remove(["H-3", x]),
        "half_life": lambda x: dd.half_life(x),
        "bf_parent": lambda x: dd.branching_fraction(x, "He-3"),
        "bf_progeny": lambda x: dd.branching_fraction("H-3", x),
        "decay_mode": lambda x: dd.decay_mode(x, "He-3"),
    }
    for ep, fn in nuc_eps.items():
        for x in bad_strs + bad_ints:
            real = outcome(fn, x)
            rep.case(("ep", ep, repr(x)), sample={"entry": ep, "input": repr(x), "real": str(real)} if ep == "add" and x == "99" else None)
            rep.dist("entry:nuclide")
            if real[0] == "ok" or real[1] not in OK_ERRS:
                report(ep, x if isinstance(x, (str, int)) else repr(x), real, "invalid nuclide not refused with ValueError")
        for x in bad_types:
            real = outcome(fn, x)
            rep.case(("ep", ep, repr(x)))
            rep.dist("entry:key-type")
            want = "NotImplementedError" if ep == "remove" else "TypeError"
            if real != ("err", want):
                report(ep, repr(x), real, f"key of type {type(x).__name__} should raise {want}")
    # two datasets carrying the SAME name but different nuclide lists: what one contains says nothing about the other
    from props.c09 import all_names_dataset
    ds_a = all_names_dataset(rd, ["H-3", "He-3", "C-14"])
    ds_b = all_names_dataset(rd, ["C-14", "N-14"])
    for key in ("H-3", "3H", 10030000, "He-3"):
        for nm_, mk in (("Nuclide", lambda k, d: rd.Nuclide(k, d)), ("Inventory", lambda k, d: rd.Inventory({k: 1.0}, "num", True, d)),
                        ("half_life", lambda k, d: d.half_life(k))):
            first = outcome(mk, key, ds_a)
            second = outcome(mk, key, ds_b)
            rep.case(("same-name-datasets", nm_, repr(key)))
            rep.dist("entry:same-name-datasets")
            if first[0] != "ok":
                report(nm_, repr(key), first, "valid nuclide of the dataset refused")
            if second[0] == "ok" or second[1] not in OK_ERRS:
                report(nm_, repr(key), second, "nuclide that is NOT in this dataset (a second dataset with the same name holds it) "
                                              "not refused with ValueError")
    # read_csv rows
    for x in bad_strs[:20]:
        if any(c in x for c in ',"\n') or x.strip() == "":
            continue
        real = outcome(lambda: rd.read_csv(csv_with(f"{x},1.0")))
        rep.case(("csv", x))
        if real[0] == "ok" or real[1] not in OK_ERRS:
            report("read_csv", x, real, "invalid nuclide row not refused with ValueError")
    for row in ["H-3", "H-3,1.0,Bq,extra", "H-3,abc", "H-3,1.0,xx", "He-3,1.0,Bq", "H-3,-1.0", "H-3,nan"]:
        real = outcome(lambda: rd.read_csv(csv_with(row)))
        rep.case(("csvrow", row))
        if real[0] == "ok" or real[1] not in OK_ERRS:
            report("read_csv", row, real, "invalid row not refused with ValueError")
    real = outcome(lambda: rd.read_csv(csv_with("H-3,1.0"), inventory_type="Foo"))
    if real[0] == "ok" or real[1] not in OK_ERRS:
        report("read_csv", "inventory_type=Foo", real, "invalid inventory_type not refused")
    real = outcome(lambda: rd.read_csv(csv_with("H-3,1.0"), skip_rows=3))
    if real[0] == "ok" or real[1] not in OK_ERRS:
        report("read_csv", "skip_rows=3", real, "skipping past the end not refused")

    # --- units
    conv = rd.converters.UnitConverterFloat
    good = {"amount": set(conv.activity_units) | set(conv.mass_units) | set(conv.moles_units) | {"num"},
            "activity": set(conv.activity_units), "mass": set(conv.mass_units), "moles": set(conv.moles_units),
            "time": set(conv.time_units)}
    cand = ["bq", "", "Bq ", " Bq", "num ", "xx", None, 5, "BQ", "kbq", "Kg", "mole", "S", "sec ", "yrs", "µs",
            "readable", "activity_frac", "mass_frac", "mol_frac", "Bq\n", "g,", "ci"]
    good["amount-activity"] = set(conv.mass_units) | set(conv.moles_units) | {"num"}     # a stable nuclide has no activity
    allu = sorted(good["amount"] | good["time"])
    unit_eps = {
        "Inventory": ("amount", lambda u: rd.Inventory({"H-3": 1.0}, u)),
        "InventoryHP": ("amount", lambda u: rd.InventoryHP({"H-3": 1.0}, u)),
        "add": ("amount", lambda u: fresh().add({"H-3": 1.0}, u)),
        "subtract": ("amount", lambda u: fresh().subtract({"H-3": 1.0}, u)),
        "activities": ("activity", lambda u: fresh().activities(u)),
        "masses": ("mass", lambda u: fresh().masses(u)),
        "moles": ("moles", lambda u: fresh().moles(u)),
        "activitiesHP": ("activity", lambda u: fresh(rd.InventoryHP).activities(u)),
        "massesHP": ("mass", lambda u: fresh(rd.InventoryHP).masses(u)),
        "molesHP": ("moles", lambda u: fresh(rd.InventoryHP).moles(u)),
        "decay": ("time", lambda u: fresh().decay(1.0, u)),
        "decayHP": ("time", lambda u: fresh(rd.InventoryHP).decay(1.0, u)),
        "cumulative_decays": ("time", lambda u: fresh().cumulative_decays(1.0, u)),
        "cumulative_decaysHP": ("time", lambda u: fresh(rd.InventoryHP).cumulative_decays(1.0, u)),
        "half_life": ("time+readable", lambda u: dd.half_life("H-3", u)),
        "half_lives": ("time+readable", lambda u: fresh().half_lives(u)),
        "Nuclide.half_life": ("time+readable", lambda u: rd.Nuclide("H-3").half_life(u)),
        "to_csv": ("amount", lambda u: fresh().to_csv(os.path.join(tmpdir, "o.csv"), u)),
        "series_time": ("time", lambda u: fresh().decay_time_series(1.0, u, npoints=2)),
        "series_units": ("amount+frac", lambda u: fresh().decay_time_series(1.0, "s", decay_units=u, npoints=2)),
    }
    # the same entry points on a STABLE nuclide (infinite half-life, zero decay constant: the code paths that skip work)
    def fresh_s(C=rd.Inventory):
        return C({"He-3": 1.0}, "num")
    unit_eps.update({
        "masses[stable]": ("mass", lambda u: fresh_s().masses(u)),
        "moles[stable]": ("moles", lambda u: fresh_s().moles(u)),
        "massesHP[stable]": ("mass", lambda u: fresh_s(rd.InventoryHP).masses(u)),
        "molesHP[stable]": ("moles", lambda u: fresh_s(rd.InventoryHP).moles(u)),
        "decay[stable]": ("time", lambda u: fresh_s().decay(1.0, u)),
        "decayHP[stable]": ("time", lambda u: fresh_s(rd.InventoryHP).decay(1.0, u)),
        "cumulative_decays[stable]": ("time", lambda u: fresh_s().cumulative_decays(1.0, u)),
        "cumulative_decaysHP[stable]": ("time", lambda u: fresh_s(rd.InventoryHP).cumulative_decays(1.0, u)),
        "half_life[stable]": ("time+readable", lambda u: dd.half_life("He-3", u)),
        "half_lives[stable]": ("time+readable", lambda u: fresh_s().half_lives(u)),
        "half_livesHP[stable]": ("time+readable", lambda u: fresh_s(rd.InventoryHP).half_lives(u)),
        "Nuclide.half_life[stable]": ("time+readable", lambda u: rd.Nuclide("He-3").half_life(u)),
        "series_time[stable]": ("time", lambda u: fresh_s().decay_time_series(1.0, u, npoints=2)),
        "Inventory[stable]": ("amount-activity", lambda u: rd.Inventory({"He-3": 1.0}, u)),
        "InventoryHP[stable]": ("amount-activity", lambda u: rd.InventoryHP({"He-3": 1.0}, u)),
    })
    for ep, (kind, fn) in unit_eps.items():
        ok_set = set()
        for part in kind.split("+"):
            if part == "readable":
                ok_set |= {"readable"}
            elif part == "frac":
                ok_set |= {"activity_frac", "mass_frac", "mol_frac"}
            else:
                ok_set |= good[part]
        for u in cand + allu:
            is_ok = isinstance(u, str) and u in ok_set
            real = outcome(fn, u)
            rep.case(("unit", ep, repr(u)))
            rep.dist("entry:unit")
            if is_ok and real[0] != "ok":
                report(ep, repr(u), real, "supported unit refused")
            if not is_ok and (real[0] == "ok" or real[1] not in OK_ERRS):
                report(ep, repr(u), real, "unsupported unit not refused with ValueError")

    # --- amounts
    bad_amts = [-1.0, float("nan"), "abc", None, np.float64("nan"), np.float64(-2), -3, sympy.Integer(-1),
                sympy.nan, [1], "1.0", sympy.Symbol("x"), fractions.Fraction(-1, 3), decimal.Decimal("-1.5"),
                -1e-300, float("-inf"), fractions.Fraction(-1, 10**400), sympy.Rational(-1, 10**400), -10**400,
                sympy.Float("-1e-400", 30)]
    good_amts = [3, 3.0, np.int64(3), np.float64(3.0), np.float32(3.0), fractions.Fraction(3),
                 sympy.Integer(3), sympy.Rational(6, 2), sympy.Float(3.0), np.uint8(3)]
    amt_eps = {
        "Inventory": lambda v, u: rd.Inventory({"H-3": v}, u).numbers()["H-3"],
        "InventoryHP": lambda v, u: rd.InventoryHP({"H-3": v}, u).numbers()["H-3"],
        "add": lambda v, u: (lambda i: (i.add({"H-3": v}, u), i.numbers()["H-3"] - 1.0)[1])(rd.Inventory({"H-3": 1.0}, "num")),
        "subtract": lambda v, u: (lambda i: (i.subtract({"H-3": v}, u), 10.0 - i.numbers()["H-3"])[1])(rd.Inventory({"H-3": 10.0}, "num")),
        "addHP": lambda v, u: (lambda i: (i.add({"H-3": v}, u), i.numbers()["H-3"] - 1.0)[1])(rd.InventoryHP({"H-3": 1.0}, "num")),
    }
    for ep, fn in amt_eps.items():
        for u in ("num", "Bq", "g", "mol"):
            for v in bad_amts:
                real = outcome(fn, v, u)
                rep.case(("amt", ep, u, repr(v)))
                rep.dist("entry:amount-bad")
                if real[0] == "ok" or real[1] not in OK_ERRS:
                    report(ep, f"{v!r} {u}", real, "invalid amount not refused with ValueError")
        ref = None
        for v in good_amts:
            real = outcome(fn, v, "num")
            rep.case(("amt", ep, "num", repr(v)))
            rep.dist("entry:amount-good")
            if real[0] != "ok" or float(real[1]) != 3.0:
                report(ep, f"{v!r} num", (real[0], str(real[1])), "numeric amount of value 3 not accepted as 3 atoms")
    # --- activity for a stable nuclide
    for cls in (rd.Inventory, rd.InventoryHP):
        for u in ("Bq", "Ci", "dpm"):
            for v in (1.0, 0.0):
                real = outcome(lambda: cls({"He-3": v}, u))
                rep.case(("stable", cls.__name__, u, v))
                if real[0] == "ok" or real[1] not in OK_ERRS:
                    report(cls.__name__, f"He-3 {v} {u}", real, "activity for a stable nuclide not refused")
    # --- removing an absent nuclide, state must be unchanged
    inv = fresh()
    real = outcome(inv.remove, "He-3")
    if real != ("err", "ValueError") or inv.contents != {"C-14": 2.0, "H-3": 1.0}:
        report("remove", "He-3", real, "removing an absent nuclide not refused / inventory changed")
    for f in os.listdir(tmpdir):
        os.unlink(os.path.join(tmpdir, f))
    os.rmdir(tmpdir)


def decision_model(rep, ctx, r, report, diverge):
    """constructor / remove decision model (Model/Entry.lean) against the real classes"""
    rd = ctx.rd
    import numpy as np
    import sympy
    import fractions
    dd = rd.DEFAULTDATA
    names = [str(n) for n in dd.nuclides]
    stable = [n for n in names if dd.half_life(n) == float("inf")]
    thorough = ctx.tier == "thorough"
    amounts = {
        "nonneg": [0, 1.5, 3, np.float64(2.0), np.int64(4), fractions.Fraction(1, 3), sympy.Rational(2, 7), float("inf"), 1e-30],
        "negative": [-1.0, -3, np.float64(-2.5), sympy.Integer(-1), fractions.Fraction(-1, 3), float("-inf")],
        "nan": [float("nan"), np.float64("nan"), sympy.nan],
        "nonnumeric": ["abc", None, [1], "1.0", sympy.Symbol("x"), 1 + 2j],
    }
    units = {"num": ["num"], "activity": ["Bq", "kBq", "Ci", "dpm", "μCi"], "moles": ["mol", "mmol"],
             "mass": ["g", "kg", "t"], "unknown": ["bq", "", "s", "Bq ", "activity_frac"]}

    def rand_key():
        k = r.random()
        if k < 0.45:
            n = r.choice(names if r.random() < 0.7 else stable)
            el, rest = n.split("-")
            form = r.choice(["{e}-{a}", "{e}{a}", "{a}{e}", "{a}-{e}", " {e} - {a}"])
            A = "".join(c for c in rest if c.isdigit()); st = rest[len(A):]
            if form.startswith("{a}"):
                s_ = form.format(e=el, a=A + st)
            else:
                s_ = form.format(e=el, a=A + st)
            return s_, "s:" + hexs(s_)
        if k < 0.6:
            n = r.choice(names)
            i = rd.Nuclide(n).id
            return i, f"i:{i}"
        if k < 0.72:
            s_ = r.choice(["H-9", "Xx-3", "99", "Tc-99mm", "U-301", "", "He 3 3"])
            return s_, "s:" + hexs(s_)
        if k < 0.8:
            i = r.choice([5, 862220010, 10090000, -10030000, 0])
            return i, f"i:{i}"
        if k < 0.9:
            n = r.choice(names)
            return rd.Nuclide(n), "s:" + hexs(n)
        return r.choice([1.5, None, np.int64(10030000), ("H-3",), b"H-3"]), "o"

    lines = ["set_names\t" + "\t".join(hexs(n) for n in names), "set_stable\t" + "\t".join(hexs(n) for n in stable)]
    cases = []
    ncase = 6000 if thorough else 1200
    for _ in range(ncase):
        cls = r.choice(["float", "hp"])
        ukind = r.choice(list(units) if r.random() < 0.5 else ["num", "activity", "mass"])
        unit = r.choice(units[ukind])
        n = r.choice([1, 1, 2, 3, 5])
        entries, wire, seen = {}, [], []
        for _ in range(n):
            key, kw = rand_key()
            akind = r.choice(list(amounts)) if r.random() < 0.35 else "nonneg"
            val = r.choice(amounts[akind])
            try:
                if key in entries:
                    continue
            except TypeError:
                continue
            entries[key] = val
            wire += [kw, akind]
        lines.append("ctor\t%s\t%s\t%s" % (cls, ukind, "\t".join(wire)))
        cases.append((cls, unit, entries, ukind))
    model = lean_driver(lines) if ctx.build_ok else None
    for i, (cls, unit, entries, ukind) in enumerate(cases):
        C = rd.Inventory if cls == "float" else rd.InventoryHP
        real = outcome(lambda: sorted(C(dict(entries), unit).contents))
        rep.case(("ctor", cls, unit, repr(list(entries.items()))),
                 sample={"cls": cls, "unit": unit, "contents": repr(entries), "real": str(real)} if i % 211 == 0 else None)
        rep.dist("ctor:" + (real[0] if real[0] == "ok" else real[1]))
        if real[0] == "err" and real[1] not in OK_ERRS + ("TypeError",):
            report(cls + ".ctor", repr(entries) + " " + unit, real, f"escapes as {real[1]}")
            continue
        if model is None:
            continue
        m = model[2 + i]
        k, _, v = m.partition(" ")
        if k == "ok":
            mo = ("ok", sorted("".join(chr(int(c)) for c in t.split(".")) for t in v.split(" ") if t and t != "-"))
        else:
            mo = ("err", v)
        if mo != real:
            diverge(cls + ".ctor", repr(entries) + " " + repr(unit), str(real), str(mo))
            # judged by the property itself: is the real outcome wrong?
            kinds_bad = any(not _amount_ok(v_) for v_ in entries.values())
            if real[0] == "ok" and (kinds_bad or ukind == "unknown"):
                report(cls + ".ctor", repr(entries) + " " + unit, real, "invalid input accepted")


def _amount_ok(v):
    import numbers
    from sympy.core.expr import Expr
    if not isinstance(v, (numbers.Number, Expr)):
        return False
    try:
        return bool(v >= 0)
    except TypeError:
        return False


def search(rep, ctx) -> bool:
    return False  # the correspondence run already judges every case with the property's own oracle


def replay(body, ctx) -> bool:
    rd = ctx.rd
    call, x = body["call"], body["input"]
    if call in ("parse_nuclide_str", "parse_id"):
        fn = getattr(rd.utils, call)
        real = outcome(fn, x)
        return judge_parse(rd, "str" if call == "parse_nuclide_str" else "id", x, real) is None
    if call == "parse_nuclide":
        dd = rd.DEFAULTDATA
        real = outcome(rd.utils.parse_nuclide, x, dd.nuclides, dd.dataset_name)
        return real[0] == "ok" or real[1] in OK_ERRS
    print("replay of entry-point cases: re-run ./check C10")
    return False
