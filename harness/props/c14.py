"""C14 — activity, mass and mole fractions are true shares of the total."""
from __future__ import annotations

from fractions import Fraction

from common import lean_driver
from decaylib import F, Gen, is_finite
from oracle import frac_str, parse_frac

NEEDS_DATASET = True
TARGETS = ["RdVerif.Props.C14"]
THEOREMS = ["RdVerif.C14.frac_def", "RdVerif.C14.frac_sum_one", "RdVerif.C14.frac_in_unit_interval",
            "RdVerif.C14.frac_scale_invariant", "RdVerif.C14.mole_fractions_eq_number_shares",
            "RdVerif.C14.mass_fractions_eq_weighted_shares", "RdVerif.C14.activity_fractions_scale",
            "RdVerif.C14.mass_fractions_scale", "RdVerif.C14.mole_fractions_scale",
            "RdVerif.C14.mass_fractions_created_from_mass", "RdVerif.C14.mole_fractions_created_from_moles",
            "RdVerif.C14.activity_fractions_created_from_activity", "RdVerif.C14.activity_fraction_stable",
            "RdVerif.C14.frac_group_additive", "RdVerif.C14.frac_perm"]
PARTIAL = {
    "C14_float_partial": "the exact laws are theorems over the rationals; that the double-precision fractions are within (n+4) ulp "
                         "of the exact quotient of the actual read-outs is checked per input against the executable model",
}
ASSUMPTIONS = ["IEEE-754 double arithmetic; Python's sum() of doubles is within (n-1) roundings of the exact sum"]


def correspondence(rep, ctx):
    rd = ctx.rd
    gen = Gen(rd, ctx.seed, "c14")
    view, r = gen.view, gen.r
    thorough = ctx.tier == "thorough"
    ncases = 800 if thorough else 120
    nhp = 30 if thorough else 5
    rep.corr["rule"] = (
        "inventories of 1-40 nuclides with amounts over 40 decades, fresh or decayed, both classes: each of activity/mass/"
        "mole fractions compared with the model's exact quotient of the ACTUAL read-outs (doubles are rationals) within "
        "(n+4) ulp, in [0,1], sum within n ulp of 1; invariance under scaling by a constant and under the unit kind used "
        "to build the inventory; float class vs high-precision class. distinct = distinct (inventory, read-out kind)")
    U = Fraction(1, 2**52)
    items, lines = [], []
    citems, clines = [], []
    sd = rd.DEFAULTDATA.scipy_data
    sd_index = {str(nm_): i_ for i_, nm_ in enumerate(rd.DEFAULTDATA.nuclides)}
    from radioactivedecay.converters import AVOGADRO as avogadro
    bad = 0

    def fail(desc, msg):
        nonlocal bad
        bad += 1
        if bad <= 4:
            rep.violation("failing-input", f"{desc}: {msg}", {"case": desc}, True)

    for j in range(ncases + nhp):
        hp = j >= ncases
        n = r.choice([1, 2, 3, 5, 12, 40]) if not hp else r.choice([1, 2, 3])
        idxs = r.sample(gen.radio, min(n, len(gen.radio)))
        contents = {view.names[i]: 10.0 ** r.uniform(-20, 20) for i in idxs}
        C = rd.InventoryHP if hp else rd.Inventory
        inv = C(dict(contents), "num")
        if r.random() < 0.4:
            g = r.choice(idxs)
            inv = inv.decay(float(r.choice([0.1, 1.0, 10.0]) / view.rate[g]), "s")
        for kind, fr_fn, ro_fn in (("activity", inv.activity_fractions, inv.activities), ("mass", inv.mass_fractions, inv.masses),
                                   ("mole", inv.mole_fractions, inv.numbers)):
            try:
                fr = fr_fn()
                ro = ro_fn()
            except Exception as e:  # noqa: BLE001
                fail(f"{C.__name__}({contents!r}) {kind}_fractions", f"raised {type(e).__name__}: {e}")
                continue
            if hp:
                ro = {k: float(v) for k, v in ro.items()}
            vals = [F(v) for v in ro.values()]
            if sum(vals) <= 0 or any(v < 0 for v in vals):
                continue   # decayed float inventories can carry negative rounding noise: outside the property's premise
            items.append((C.__name__, kind, contents, list(fr.values()), list(fr), len(vals), inv, hp))
            lines.append("fracs\t" + "\t".join(frac_str(v) for v in vals))
            if not hp:
                # the same fractions from the STORED contents (atoms, the dataset's double decay constants and atomic
                # masses, the converter's Avogadro constant) through the model of the read-outs: ties the theorems about
                # activityFractions / massFractions / moleFractions to the code, not only the final division
                trip = []
                for nm_ in fr:
                    i_ = sd_index[nm_]
                    trip += [frac_str(F(float(inv.contents[nm_]))), frac_str(F(float(sd.decay_consts[i_]))),
                             frac_str(F(float(sd.atomic_masses[i_])))]
                citems.append((len(items) - 1, len(clines), sum(vals)))
                clines.append("cfracs\t" + kind + "\t" + frac_str(F(float(avogadro))) + "\t" + "\t".join(trip))
                gen._count(f"from-contents:{kind}")
            gen._count(f"{'hp' if hp else 'float'}:{kind}")
    model = lean_driver(lines) if (ctx.build_ok and lines) else None
    for j, (cname, kind, contents, got, keys, n, inv, hp) in enumerate(items):
        desc = f"{cname}({contents!r}).{kind}_fractions()"
        rep.case((cname, kind, repr(contents)), sample={"cls": cname, "kind": kind, "n": n, "fractions": got[:3]} if j % 53 == 0 else None)
        if not all(is_finite(x) for x in got):
            fail(desc, "non-finite fraction")
            continue
        fg = [F(x) for x in got]
        if any(x < 0 or x > 1 + 2 * U for x in fg):
            fail(desc, f"fraction outside [0,1]: {got[:4]}")
            continue
        if abs(sum(fg) - 1) > (n + 2) * U:
            fail(desc, f"fractions sum to {float(sum(fg))!r}")
            continue
        if model is not None:
            exact = [parse_frac(x) for x in model[j][3:].split(" ")]
            tol = (n + 4) * U if not hp else (n + 6) * U
            for k, x, e in zip(keys, fg, exact):
                if abs(x - e) > tol * e + Fraction(1, 10**320):
                    fail(desc, f"{k}: {float(x)!r} vs exact share {float(e)!r}")
                    break
    cmodel = lean_driver(clines) if (ctx.build_ok and clines) else None
    if cmodel is not None:
        for j, cj, tot_ro in citems:
            cname, kind, contents, got, keys, n, inv, hp = items[j]
            desc = f"{cname}({contents!r}).{kind}_fractions() vs the model run on the stored contents"
            rep.case(("from-contents", kind, repr(contents)))
            if not cmodel[cj].startswith("ok "):
                fail(desc, f"model answered {cmodel[cj][:60]!r}")
                continue
            exact = [parse_frac(x) for x in cmodel[cj][3:].split(" ")]
            for k, x, e in zip(keys, got, exact):
                # read-out: <= 2 roundings, sum: n - 1, quotient: 1; a read-out whose intermediate N / avogadro or N * lambda
                # is subnormal carries an absolute error of up to one subnormal spacing (times the atomic mass, < 300)
                if abs(F(x) - e) > (n + 8) * U * e + Fraction(600, 2**1074) / tot_ro + Fraction(1, 10**320):
                    fail(desc, f"{k}: {x!r} vs share computed from the contents {float(e)!r}")
                    break
    # invariances (float class)
    for j in range(ncases // 3):
        n = r.choice([2, 3, 8])
        idxs = r.sample(gen.radio, n)
        nums = {view.names[i]: 10.0 ** r.uniform(-10, 20) for i in idxs}
        inv = rd.Inventory(dict(nums), "num")
        c = r.choice([3.7e10, 1e-9, 7.0, 1e12])
        sc = inv * c
        desc = f"Inventory({nums!r}) scaled by {c!r}"
        rep.case(("scale", repr(nums), c))
        gen._count("scale-invariance")
        for a, b in ((inv.activity_fractions(), sc.activity_fractions()), (inv.mass_fractions(), sc.mass_fractions()),
                     (inv.mole_fractions(), sc.mole_fractions())):
            for k in a:
                if abs(F(a[k]) - F(b[k])) > (n + 6) * U * max(F(a[k]), F(b[k])):
                    fail(desc, f"{k}: {a[k]!r} vs {b[k]!r}")
                    break
        # unit invariance: rebuild the same inventory from its masses / activities
        for unit, ro in (("g", inv.masses("g")), ("mol", inv.moles("mol")), ("Bq", inv.activities("Bq")), ("kg", inv.masses("kg"))):
            other = rd.Inventory(dict(ro), unit)
            a, b = inv.mass_fractions(), other.mass_fractions()
            for k in a:
                if abs(F(a[k]) - F(b[k])) > (n + 12) * U * max(F(a[k]), F(b[k])):
                    fail(desc + f" rebuilt from {unit}", f"{k}: {a[k]!r} vs {b[k]!r}")
                    break
        gen._count("unit-invariance")
        # both classes agree
        if j % 10 == 0:
            h = rd.InventoryHP(dict(nums), "num")
            a, b = inv.activity_fractions(), h.activity_fractions()
            for k in a:
                # the HP class reads every amount to 15 significant digits and uses exact decay constants
                if abs(F(a[k]) - F(b[k])) > Fraction(5, 10**14) * max(F(a[k]), F(b[k])):
                    fail(desc + " float vs HP", f"{k}: {a[k]!r} vs {b[k]!r}")
                    break
            gen._count("float-vs-hp")
    # both classes agree — EVERY nuclide of the dataset once, paired with a reference nuclide, read in a fraction kind
    # that crosses a conversion (mass <-> atoms <-> activity), so that each nuclide's double-precision atomic mass and
    # decay constant is compared with its exact counterpart through the fractions
    view = gen.view
    ref_name = "H-3"
    for i, nm in enumerate(view.names):
        if nm == ref_name:
            continue
        stable = view.rate[i] == 0
        mode = i % 3
        unit, reader = (("g", "mole_fractions"), ("mol", "mass_fractions"), ("g", "activity_fractions"))[mode]
        if stable and reader == "activity_fractions":
            reader = "mole_fractions"
        contents = {nm: 2.0, ref_name: 3.0}
        desc = f"{{{nm!r}: 2.0, 'H-3': 3.0}} in {unit!r}: {reader}()"
        rep.case(("all-nuclides-both-classes", nm, unit, reader), sample={"pair": nm, "unit": unit, "reader": reader} if i % 400 == 0 else None)
        gen._count("float-vs-hp:all-nuclides")
        try:
            a = getattr(rd.Inventory(dict(contents), unit), reader)()
            b = getattr(rd.InventoryHP(dict(contents), unit), reader)()
        except Exception as e:  # noqa: BLE001
            fail(desc, f"raised {type(e).__name__}: {e}")
            continue
        for k in a:
            if abs(F(a[k]) - F(b[k])) > Fraction(5, 10**14) * max(F(a[k]), F(b[k])):
                fail(desc, f"Inventory gives {k}: {a[k]!r}, InventoryHP gives {b[k]!r}")
                break
    # atom counts given as Python ints (exact), from small to beyond 2**63 and 2**64: shares of the exact integers
    for amts in ((3, 5), (10**19, 10**19), (6 * 10**18, 4 * 10**18, 2 * 10**18), (2**63, 1, 2**62), (10**25, 3 * 10**25), (2**64, 2**64 + 1)):
        names_ = [view.names[i] for i in r.sample([i for i in range(view.n) if view.rate[i] != 0], len(amts))]
        cont = dict(zip(names_, amts))
        tot_ = sum(amts)
        for C in (rd.Inventory, rd.InventoryHP):
            desc = f"{C.__name__}({cont!r}, 'num').mole_fractions()"
            rep.case(("int-amounts", C.__name__, amts))
            gen._count("fractions:python-int-amounts")
            try:
                fr_ = C(dict(cont), "num").mole_fractions()
                for n_, a in cont.items():
                    if abs(F(fr_[n_]) - Fraction(a, tot_)) > Fraction(1, 10**14):
                        fail(desc, f"{n_}: {fr_[n_]!r}, the share of the integers is {float(Fraction(a, tot_))!r}")
                        break
            except Exception as e:  # noqa: BLE001
                fail(desc, f"raised {type(e).__name__}: {e}")
    # amounts spanning many orders of magnitude, given in a large unit and as the 1e12-times larger numbers in the small one:
    # the fractions are the input shares, the same in both classes and whichever unit was used
    for k_ in range(20 if thorough else 6):
        picks = r.sample([i for i in range(view.n) if view.rate[i] != 0], 4)
        amts = [1.0e-6, 7.3219046e-12, 4.0e-16, 2.5e-13]
        r.shuffle(amts)
        big, small = r.choice([("mol", "pmol"), ("g", "pg"), ("Bq", "pBq")])
        reader = {"mol": "mole_fractions", "g": "mass_fractions", "Bq": "activity_fractions"}[big]
        names_ = [view.names[i] for i in picks]
        tot_ = sum(Fraction(repr(a)) for a in amts)
        res = {}
        for C in (rd.Inventory, rd.InventoryHP):
            for unit_, scale_ in ((big, 1.0), (small, 1.0e12)):
                cont = {n_: a * scale_ for n_, a in zip(names_, amts)}
                desc = f"{C.__name__}({cont!r}, {unit_!r}).{reader}()"
                rep.case(("magnitudes", k_, C.__name__, unit_))
                gen._count("fractions:spanning-magnitudes")
                try:
                    fr_ = getattr(C(dict(cont), unit_), reader)()
                    res[(C.__name__, unit_)] = fr_
                    for n_, a in zip(names_, amts):
                        want = Fraction(repr(a)) / tot_
                        if abs(F(fr_[n_]) - want) > Fraction(1, 10**12) * want:
                            fail(desc, f"{n_}: {fr_[n_]!r}, the input share is {float(want)!r}")
                            break
                except Exception as e:  # noqa: BLE001
                    fail(desc, f"raised {type(e).__name__}: {e}")
    # fractions of an inventory used, changed in place and used again == those of a fresh inventory with the same amounts
    from decaylib import mutated_object_block
    bad += mutated_object_block(rep, ctx, "c14/mutated-object", hp_too=True, nseq=(24 if thorough else 6))
    # scale / unit invariance and definition of the fractions on synthetic datasets (own half-lives and masses)
    import synthetic
    for k_ in range(6 if thorough else 2):
        ds, sch, path = synthetic.build(rd, view, r, f"c14_{ctx.seed}_{k_}")
        try:
            from oracle import DatasetView as _DV
            sview = _DV(ds)
            for C in (rd.Inventory, rd.InventoryHP):
                picks = r.sample(range(sview.n), min(sview.n, 3))
                cont = {sview.names[i]: float(r.randint(1, 10**6)) for i in picks}
                desc = f"{C.__name__}({cont!r}) on a synthetic dataset ({sch['names'][:4]}…)"
                rep.case(("synthetic", k_, C.__name__, repr(cont)))
                gen._count("synthetic-dataset")
                try:
                    inv = C(dict(cont), "num", True, ds)
                    kinds = ["mass_fractions", "mole_fractions"] + (["activity_fractions"] if any(sview.rate[i] != 0 for i in picks) else [])
                    kk = 1000 if C is rd.InventoryHP else 1000.0
                    for kind in kinds:
                        base = getattr(inv, kind)()
                        # the definition, from this dataset's own constants
                        ro = {"mass_fractions": inv.masses("g"), "mole_fractions": inv.moles("mol"), "activity_fractions": inv.activities("Bq")}[kind]
                        tot_ = sum(F(v) for v in ro.values())
                        for n_ in base:
                            if abs(F(base[n_]) - F(ro[n_]) / tot_) > Fraction(1, 10**13):
                                fail(desc, f"{kind}()[{n_}] = {base[n_]!r} is not read-out / total = {float(F(ro[n_]) / tot_)!r}")
                                break
                        for label, other in (("inv * k", inv * kk), ("k * inv", kk * inv), ("inv / k", inv / kk), ("inv + inv", inv + inv)):
                            if other.decay_data is not ds:
                                fail(desc, f"{label} is bound to dataset {other.decay_data.dataset_name!r}")
                                break
                            sc = getattr(other, kind)()
                            if any(abs(F(sc[n_]) - F(base[n_])) > Fraction(1, 10**13) for n_ in base):
                                fail(desc, f"{kind}() of {label} = {sc} differs from {base}")
                                break
                except Exception as e:  # noqa: BLE001
                    fail(desc, f"raised {type(e).__name__}: {e}")
        finally:
            synthetic.cleanup(path)
    rep.corr["input_distribution"].update(gen.dist)
    rep.notes["mismatches"] = bad


def search(rep, ctx) -> bool:
    return False


def replay(body, ctx) -> bool:
    print("re-run ./check C14 (cases are regenerated from the seed)")
    return False
