"""C12 — CSV export and import are inverse and follow the documented precedence."""
from __future__ import annotations

import csv
import os
import tempfile
from fractions import Fraction

from common import WORK, rng
from decaylib import F
from invlib import respell
from oracle import DatasetView

NEEDS_DATASET = False
TARGETS = ["RdVerif.Props.C12"]
THEOREMS = ["RdVerif.C12.precedence_row", "RdVerif.C12.precedence_arg", "RdVerif.C12.precedence_default",
            "RdVerif.C12.precedence_empty_cell", "RdVerif.C12.bad_row_refused", "RdVerif.C12.skip_exact",
            "RdVerif.C12.roundtrip_rows", "RdVerif.C12.csvKind_eq_kindOf_listed", "RdVerif.C12.csvKind_unknown"]
PARTIAL = {
    "roundtrip_amounts_partial": "that re-reading gives the same amounts to a few ulp rests on float(str(x)) == x (CPython) and on "
                                 "C05's round trip; it is checked through real files for every unit, not proved",
}
ASSUMPTIONS = ["csv / io / codecs modules behave as documented (exercised through real files, not modelled)",
               "float(str(x)) == x for doubles (shortest-repr round trip of CPython/NumPy)"]
ULP = Fraction(1, 2**52)
DELIMS = [",", ";", "\t", "|"]
ENCODINGS = ["utf-8", "utf-16", "latin-1"]


def eff_unit(row, units):
    """the specification of the precedence (row unit > argument > 'Bq'), as in Model/Csv.lean"""
    ru = row[2] if len(row) == 3 else units
    if ru is not None or units is not None:
        return ru or units
    return "Bq"


def readout(inv, unit):
    return inv.masses(unit) if unit == "g" else inv.activities(unit) if unit == "Bq" else inv.moles(unit)


def correspondence(rep, ctx):
    rd = ctx.rd
    dd = rd.DEFAULTDATA
    view = DatasetView(dd)
    r = rng(ctx.seed, "c12")
    thorough = ctx.tier == "thorough"
    conv = rd.converters.UnitConverterFloat
    all_units = list(conv.activity_units) + list(conv.mass_units) + list(conv.moles_units) + ["num"]
    radio = [n for i, n in enumerate(view.names) if view.rate[i] != 0]
    rep.corr["rule"] = (
        "real files in a scratch directory: inventories of both classes (1-30 nuclides) x every one of the 44 units x "
        "delimiters {comma, semicolon, tab, pipe} x encodings {utf-8, utf-16, latin-1 where the text is representable} x "
        "write_units x header/skip_rows: written rows (read back with the csv module) vs the model's rows; re-read inventory vs "
        "the original (same nuclides, amounts within 8 ulp, requested class, exact SymPy values for the HP class); "
        "hand-written files for precedence (row unit > argument > default), ids, skipping, repeated rows accumulating, and "
        "equality with the inventory built directly from the rows. distinct = distinct files")
    WORK.mkdir(exist_ok=True)
    tmp = tempfile.mkdtemp(dir=WORK)
    path = os.path.join(tmp, "f.csv")
    bad = 0

    def fail(desc, msg):
        nonlocal bad
        bad += 1
        if bad <= 4:
            rep.violation("failing-input", f"{desc}: {msg}", {"case": desc}, True)

    # ---- export / import round trips
    combos = [(u, d, e, wu, hd) for u in all_units for d in DELIMS for e in ENCODINGS for wu in (True, False) for hd in (True, False)]
    if not thorough:
        # every unit at least 3 times, every delimiter/encoding/flag combination at least once
        chosen = []
        for u in all_units:
            chosen += r.sample([c for c in combos if c[0] == u], 3)
        chosen += r.sample(combos, 60)
        combos = chosen
    for k, (u, delim, enc, wu, hd) in enumerate(combos):
        hp = (k % 6 == 0)
        n = r.choice([1, 2, 3, 8, 30]) if not hp else r.choice([1, 2, 3])
        pool = radio if u in conv.activity_units else view.names
        names = r.sample(pool, n)
        if hp:
            import sympy
            names = [x for x in names if dd.sympy_data.atomic_masses[view.index[x]].is_Rational] or ["H-3"]
            contents = {x: float(r.randint(1, 10**6)) for x in names}
        else:
            contents = {x: 10.0 ** r.uniform(-15, 20) for x in names}
        C = rd.InventoryHP if hp else rd.Inventory
        inv = C(dict(contents), "num")
        if enc == "latin-1" and "μ" in u and wu:
            continue           # μ (U+03BC) is not representable in latin-1
        header = ["nuclide", "quantity", "units"][: 3 if wu else 2] if hd else None
        desc = f"{C.__name__}({len(names)} nuclides).to_csv(units={u!r}, delimiter={delim!r}, encoding={enc!r}, write_units={wu}, header={bool(hd)})"
        rep.case(("rt", k, u, delim, enc, wu, hd), sample={"case": desc} if k % 29 == 0 else None)
        rep.dist(f"roundtrip:{'hp' if hp else 'float'}")
        try:
            inv.to_csv(path, units=u, delimiter=delim, write_units=wu, header=header, encoding=enc)
            with open(path, "r", encoding=enc, newline="") as f:
                rows = list(csv.reader(f, delimiter=delim))
            ro = {"num": inv.numbers}.get(u) or (lambda: (inv.activities(u) if u in conv.activity_units else
                                                           inv.masses(u) if u in conv.mass_units else inv.moles(u)))
            vals = ro()
            want = ([header] if header else []) + [[nm, str(v)] + ([u] if wu else []) for nm, v in vals.items()]
            if rows != want:
                fail(desc, f"file rows {rows[:2]} differ from the expected rows {want[:2]}")
                continue
            if hp and any(0 < abs(float(v)) < 1e-25 for v in vals.values()):
                rep.inconclusive += 1      # quantities below 1e-25 in their unit are outside the property's domain
                continue                   # (nsimplify reads them as 0)
            back = rd.read_csv(path, inventory_type=C.__name__, units=None if wu else u, delimiter=delim,
                               skip_rows=1 if hd else 0, encoding=enc)
        except Exception as e:  # noqa: BLE001
            fail(desc, f"raised {type(e).__name__}: {e}")
            continue
        if type(back) is not C:
            fail(desc, f"read back as {type(back).__name__}")
            continue
        if list(back.contents) != list(inv.contents):
            fail(desc, "nuclides differ after the round trip")
            continue
        for nm in inv.contents:
            a, b = inv.contents[nm], back.contents[nm]
            if hp:
                if not getattr(b, "is_Rational", False) and not (u in conv.activity_units):
                    fail(desc, f"{nm}: re-read high-precision amount {b!r} is not exact")
                    break
                fa, fb = F(float(a)), F(float(b))
            else:
                fa, fb = F(a), F(b)
            # the high-precision class reads every number from the file to 15 significant digits (C02)
            if abs(fa - fb) > (Fraction(2, 10**14) if hp else 8 * ULP) * abs(fa):
                fail(desc, f"{nm}: {a!r} became {b!r}")
                break

    # ---- precedence, ids, skipping, accumulation, equality with the direct build
    def write(lines, delim=","):
        with open(path, "w", encoding="utf-8", newline="") as f:
            csv.writer(f, delimiter=delim).writerows(lines)

    for k in range(300 if thorough else 60):
        nrows = r.choice([1, 2, 3, 6])
        rows, direct = [], []
        units_arg = r.choice([None, None, "kBq", "g", "num", "mol"])
        skip = r.choice([0, 0, 1, 2])
        for _ in range(skip):
            rows.append(r.choice([["nuclide", "quantity"], ["#", "x", "y", "z"], []]))
        # repeated rows for one nuclide accumulate: half of the files draw their rows from a pool of two or three nuclides,
        # so that repeats occur in every position (first row, later rows, same or different unit, same or other spelling)
        pool_ = r.sample(radio, r.choice([2, 3])) if k % 2 == 0 else radio
        if k % 2 == 0:
            nrows = r.choice([3, 4, 6, 8])
        names = [r.choice(pool_) for _ in range(nrows)]
        for nm in names:
            q = 10.0 ** r.uniform(-3, 6)
            cell = r.choice([nm, respell(r, nm).strip(), str(rd.Nuclide(nm).id)])
            row = [cell, repr(q)]
            if r.random() < 0.5:
                row.append(r.choice(["Bq", "Ci", "mg", "mmol", "num", ""]))
            rows.append(row)
            direct.append((nm, q, eff_unit(row, units_arg)))
        write(rows)
        desc = f"read_csv rows={rows!r} units={units_arg!r} skip_rows={skip}"
        rep.case(("prec", k, repr(rows), units_arg, skip), sample={"case": desc[:200]} if k % 13 == 0 else None)
        rep.dist("precedence/accumulate")
        for cname in ("Inventory", "InventoryHP") if k % 4 == 0 else ("Inventory",):
            C = getattr(rd, cname)
            try:
                want = None
                for nm, q, u in direct:
                    if u is None:
                        raise ValueError("units=None")
                    if want is None:
                        want = C({nm: q}, u)
                    else:
                        want.add({nm: q}, u)
                exp_err = None
            except ValueError as e:
                exp_err = e
            try:
                got = rd.read_csv(path, inventory_type=cname, units=units_arg, skip_rows=skip)
                got_err = None
            except ValueError as e:
                got_err = e
            except Exception as e:  # noqa: BLE001
                fail(desc, f"raised {type(e).__name__}: {e}")
                continue
            if (exp_err is None) != (got_err is None):
                fail(desc, f"read_csv {'raised ' + repr(got_err) if got_err else 'accepted'}, building the same rows directly "
                           f"{'raises ' + repr(exp_err) if exp_err else 'succeeds'}")
                continue
            if exp_err is None:
                if type(got) is not C or list(got.contents) != list(want.contents):
                    fail(desc, f"{cname}: nuclides {list(got.contents)} vs direct build {list(want.contents)}")
                    continue
                for nm in want.contents:
                    a, b = want.contents[nm], got.contents[nm]
                    same = (a == b) if cname == "InventoryHP" else (F(a) == F(b))
                    if not same:
                        fail(desc, f"{cname} {nm}: {b!r} vs direct build {a!r}")
                        break
    # ---- all-digit names are canonical ids, whatever their length: every nuclide with Z >= 100 (10 digits) and a sample of
    #      the others incl. isomers, both classes
    big_z = [nm for nm in view.names if rd.Nuclide(nm).Z >= 100]
    for nm in big_z + r.sample(view.names, 12):
        cid = rd.Nuclide(nm).id
        for cname in ("Inventory", "InventoryHP"):
            write([[str(cid), "6.25", "mol"], [nm, "0.75", "mol"]])
            desc = f"read_csv rows=[[{str(cid)!r}, '6.25', 'mol'], [{nm!r}, '0.75', 'mol']] inventory_type={cname!r}"
            rep.case(("id-row", nm, cname))
            rep.dist("id-rows")
            try:
                got = rd.read_csv(path, inventory_type=cname)
                want = getattr(rd, cname)({cid: 7.0}, "mol")
                if list(got.contents) != [nm] or abs(F(got.moles("mol")[nm]) - 7) > Fraction(1, 10**13):
                    fail(desc, f"gives {got.moles('mol')}, the id {cid} is {nm} (direct build: {want.moles('mol')})")
            except Exception as e:  # noqa: BLE001
                fail(desc, f"raised {type(e).__name__}: {e}")
    # ---- the decay_data option: a file read with a NON-default dataset equals the inventory built directly on that dataset —
    #      in contents AND in everything computed from it (masses, activities, decay use the dataset's own constants)
    import synthetic
    from oracle import DatasetView as _DV
    for k_ in range(6 if thorough else 2):
        ds, sch, spath = synthetic.build(rd, view, r, f"c12_{ctx.seed}_{k_}")
        try:
            sview = _DV(ds)
            picks = [i for i in r.sample(range(sview.n), min(sview.n, 3)) if sview.rate[i] != 0] or [next(i for i in range(sview.n) if sview.rate[i] != 0)]
            for cname in ("Inventory", "InventoryHP"):
                C = getattr(rd, cname)
                unit = r.choice(["g", "Bq", "mol"])
                rows_ = [[sview.names[i], repr(float(r.randint(1, 10**6)) / 8)] for i in picks]
                write(rows_)
                desc = f"read_csv rows={rows_!r} units={unit!r} inventory_type={cname!r} decay_data=<synthetic dataset {sch['names'][:3]}…>"
                rep.case(("decay_data-option", k_, cname, unit))
                rep.dist("decay_data-option")
                try:
                    got = rd.read_csv(path, inventory_type=cname, units=unit, decay_data=ds)
                    want = C({nm: float(q) for nm, q in rows_}, unit, True, ds)
                    if type(got) is not C or got.decay_data is not ds or list(got.contents) != list(want.contents):
                        fail(desc, f"class/dataset/nuclides differ from the direct build: {type(got).__name__}, {got.decay_data.dataset_name}, {list(got.contents)}")
                        continue
                    g = sview.index[rows_[0][0]]
                    tsec = float(1 / sview.rate[g])
                    for label, fa, fb in (("contents", lambda: got.numbers(), lambda: want.numbers()),
                                          ("read-out in the file's unit", lambda: readout(got, unit), lambda: readout(want, unit)),
                                          ("masses('g')", lambda: got.masses("g"), lambda: want.masses("g")),
                                          ("decay(one half-life)", lambda: got.decay(tsec, "s").numbers(), lambda: want.decay(tsec, "s").numbers())):
                        a_, b_ = fa(), fb()
                        if list(a_) != list(b_) or any(abs(F(a_[n_]) - F(b_[n_])) > Fraction(1, 10**13) * abs(F(b_[n_])) for n_ in b_):
                            fail(desc, f"{label}: {dict(list(a_.items())[:3])} vs direct build on that dataset {dict(list(b_.items())[:3])}")
                            break
                except Exception as e:  # noqa: BLE001
                    fail(desc, f"raised {type(e).__name__}: {e}")
        finally:
            synthetic.cleanup(spath)
    # skipping everything / malformed rows are refused
    for lines, kw in (([["H-3", "1.0"]], {"skip_rows": 1}), ([["H-3"]], {}), ([["H-3", "1", "Bq", "x"]], {}), ([], {}),
                      ([["H-3", "abc"]], {}), ([["H-3", "1.0"]], {"inventory_type": "Foo"})):
        write(lines)
        rep.case(("refuse", repr(lines), repr(kw)))
        try:
            rd.read_csv(path, **kw)
            fail(f"read_csv {lines!r} {kw!r}", "accepted")
        except ValueError:
            pass
        except Exception as e:  # noqa: BLE001
            fail(f"read_csv {lines!r} {kw!r}", f"raised {type(e).__name__}")
    for f in os.listdir(tmp):
        os.unlink(os.path.join(tmp, f))
    os.rmdir(tmp)
    rep.notes["mismatches"] = bad


def search(rep, ctx) -> bool:
    return False


def replay(body, ctx) -> bool:
    print("re-run ./check C12")
    return False
