"""C04 — the shipped decay datasets are exactly self-consistent.

Decided by kernel evaluation over Lean data regenerated from the files on every run (translator),
plus: what `load_dataset` built in this interpreter equals the files (both through SymPy's own
unpickler and through the stub reader), and the file-selection switch picks the right
generation."""
from __future__ import annotations

import re
from fractions import Fraction

import numpy as np

from common import REPO, lean_driver, rng
from oracle import DatasetView, LeanOracle, amaku_solution

NEEDS_DATASET = True
TARGETS = ["RdVerif.Props.C04", "RdVerif.Props.C04Error"]
THEOREMS = ["RdVerif.C04.exact_inverses", "RdVerif.C04.exact_diagonalises", "RdVerif.C04.rates_from_half_lives", "RdVerif.C04.graph_and_listed_data_ok", "RdVerif.C04.parents_is_transpose", "RdVerif.C04.pattern_is_ancestors", "RdVerif.C04.float_entries_close", "RdVerif.C04.float_aggregate_bound", "RdVerif.C04.float_decay_consts_close", "RdVerif.C04.float_masses_close", "RdVerif.C04.pickles_identical", "RdVerif.C04.year_close",
            "RdVerif.C04.float_data_contribution", "RdVerif.C04.ln2_constants_certified"]
PARTIAL = {}
ASSUMPTIONS = [
    "numpy.load / scipy.sparse.load_npz / pickle opcode stream are read correctly by the translator",
    "decimal reading of a listed half-life / branching fraction = shortest repr of the stored double",
]


def correspondence(rep, ctx):
    rd = ctx.rd
    import sympy
    import translate_dataset as T
    dd = rd.DEFAULTDATA
    rep.corr["rule"] = (
        "every entry of what load_dataset built in this interpreter is compared with the file contents as read by "
        "the translator (float matrices bit-for-bit; SymPy matrices, decay constants, masses, year as exact values "
        "against the stub-unpickled payload of the generation selected); the generation switch is exercised for "
        "SymPy versions 1.8/1.9/1.14; distinct = distinct data entries compared, all non-trivial")
    data, cf, cif, gens = T.read_all()
    n = len(data["nuclides"])
    bad = []

    def cmp(what, ok, detail=None, key=None):
        rep.case((what, key), sample={"what": what, "ok": bool(ok)} if len(rep.corr["samples"]) < 10 else None)
        if not ok:
            bad.append((what, detail))

    # every decay-chain diagram is drawn first (a pure read of the dataset): the dataset the library hands out must still be
    # the data of the files afterwards
    try:
        import networkx as _nx
        for nm_ in dd.nuclides:
            rd.nuclide._build_decay_digraph(rd.Nuclide(str(nm_)), _nx.DiGraph())
        rep.dist("diagrams-drawn-before-comparison", len(dd.nuclides))
    except Exception as e:  # noqa: BLE001
        rep.violation("failing-input", f"building the decay-chain diagram of {nm_} raised {type(e).__name__}: {e}", {"call": "diagram", "root": str(nm_)}, True)
    sd = dd.scipy_data
    for nm, m, ref in (("c_scipy", sd.matrix_c, cf), ("c_inv_scipy", sd.matrix_c_inv, cif)):
        m = m.tocsr()
        ref = ref.tocsr()
        cmp(nm + ".indptr", np.array_equal(m.indptr, ref.indptr))
        cmp(nm + ".indices", np.array_equal(m.indices, ref.indices))
        cmp(nm + ".data", m.data.tobytes() == ref.data.tobytes())
        rep.dist("float-matrix-entries", int(m.nnz))
    cmp("masses", np.asarray(sd.atomic_masses).tobytes() == np.asarray(data["masses"], dtype=np.float64).tobytes())
    cmp("year_conv", float(dd.float_year_conv) == float(data["year_conv"]))
    cmp("nuclides", list(dd.nuclides) == list(data["nuclides"]))
    for k in ("progeny", "bfs", "modes"):
        diff = [i for i, (a, b) in enumerate(zip(getattr(dd, k), data[k])) if list(a) != list(b)]
        cmp(k, not diff)
        if diff:
            i = diff[0]
            # the dataset the library hands out is not the data of the files: a concrete failing input for the listed-data
            # clauses (order of branching fractions, decay mode vs change in Z / A are stated about what is loaded)
            rep.violation("failing-input", f"load_dataset(): {k} of {data['nuclides'][i]} is {list(getattr(dd, k)[i])} in the loaded dataset, "
                          f"{list(data[k][i])} in decay_data.npz (progeny {list(dd.progeny[i])} / fractions {list(dd.bfs[i])} / modes "
                          f"{list(dd.modes[i])} as loaded)", {"call": "loaded-vs-file", "field": k, "nuclide": str(data['nuclides'][i])}, True)
    cmp("hldata", all(tuple(a) == tuple(b) for a, b in zip(dd.hldata, data["hldata"])))
    # decay constants as recomputed at load: ln2 / (hl in seconds), float arithmetic
    conv = rd.converters.UnitConverterFloat
    worst = 0.0
    for i, h in enumerate(data["hldata"]):
        want = np.log(2) / conv.time_unit_conv(h[0], units_from=h[1], units_to="s", year_conv=data["year_conv"])
        got = sd.decay_consts[i]
        if float(want) != float(got):
            bad.append(("decay_consts", (i, float(want), float(got))))
        rep.case(("lam", i))
    rep.dist("float-decay-constants", n)

    # SymPy side, through SymPy's own unpickler, against the stub reading of the selected generation
    gen = "1.8" if tuple(int(x) for x in sympy.__version__.split(".")[:2]) < (1, 9) else "1.9"
    g = gens[gen]
    sy = dd.sympy_data

    def fr(x):
        p, q = x.as_numer_denom()
        return Fraction(int(p), int(q))

    for nm, m, ref in (("c_sympy", sy.matrix_c, g["c"]), ("c_inv_sympy", sy.matrix_c_inv, g["ci"])):
        ents = {(int(i), int(j)): fr(v) for (i, j), v in m.todok().items()}
        cmp(nm, ents == ref, key=nm)
        rep.dist("sympy-matrix-entries", len(ents))
        for _ in range(len(ents)):
            rep.corr["evaluations"] += 1
    ln2 = sympy.log(2)
    okr = True
    for i in range(n):
        lam = sy.decay_consts[i]
        r = fr(lam / ln2) if lam != 0 else Fraction(0)
        if r != g["rates"][i]:
            okr = False
            bad.append(("decay_consts_sympy", i))
        rep.case(("rate", i))
    for i in range(n):
        m = g["masses"][i]
        v = sy.atomic_masses[i]
        if m[0] == "q":
            if not (v.is_Rational and fr(v) == m[1]):
                bad.append(("atomic_masses_sympy", i))
        else:
            lo, hi = T.iroot_bounds(m[3], m[4])
            val = Fraction(str(sympy.N(v, 60)))
            if not (m[1] + m[2] * lo - Fraction(1, 10**40) <= val <= m[1] + m[2] * hi + Fraction(1, 10**40)):
                bad.append(("atomic_masses_sympy_algebraic", i))
        rep.case(("mass", i))
    cmp("year_sympy", fr(dd.sympy_year_conv) == g["year"])

    # generation switch
    decaydata = rd.decaydata
    seen = {}
    orig_load, orig_ver = decaydata._load_pickle_file, sympy.__version__
    try:
        for ver, want in (("1.8", "1.8"), ("1.8.1", "1.8"), ("1.9", "1.9"), ("1.10", "1.9"), ("1.14.0", "1.9"), ("1.7", "1.8")):
            opened = []

            def fake(dataset_name, dir_path, filename, _o=opened):
                _o.append(filename)
                if filename.startswith("year"):
                    return sympy.Integer(365)
                return sympy.Matrix.zeros(2, 2) if filename.startswith("c_") else sympy.Matrix.zeros(2, 1)
            decaydata._load_pickle_file = fake
            sympy.__version__ = ver
            try:
                decaydata.load_dataset("icrp107_ame2020_nubase2020", load_sympy=True)
            except Exception as e:  # noqa: BLE001
                opened.append(f"EXC {type(e).__name__}")
            seen[ver] = opened
            ok = len(opened) == 5 and all(f.endswith(f"_{want}.pickle") for f in opened) and \
                {f.split("_sympy")[0] for f in opened} == {"atomic_masses", "decay_consts", "c", "c_inv", "year_conversion"}
            cmp(f"generation-switch sympy {ver}", ok, opened, key=ver)
    finally:
        decaydata._load_pickle_file = orig_load
        sympy.__version__ = orig_ver
    rep.notes["generation_switch"] = seen
    rep.corr["exhaustive"] = True
    if bad:
        ctx.broken.append("loaded_eq_files")
        rep.notes["loaded_vs_files"] = [str(b)[:300] for b in bad[:10]]


def failing_rows(ctx):
    """ask the model (interpreter) which rows fail which check — used to aim the search"""
    return []


def search(rep, ctx) -> bool:
    """A kernel obligation / the loaded-vs-file comparison broke.  Hunt for a decay result of the
    REAL code that disagrees with the independent Amaku solution built from the listed data."""
    rd = ctx.rd
    import mpmath
    dd = rd.DEFAULTDATA
    view = DatasetView(dd)
    r = rng(ctx.seed, "c04-search")
    radio = [i for i in range(view.n) if view.rate[i] != 0]
    order = radio if ctx.tier == "thorough" else radio[:80] + r.sample(radio, min(220, len(radio)))
    # nuclides whose LOADED double-precision decay constant is not ln2 / (listed half-life in seconds), or whose loaded
    # double mass is not the exact one, first: that is where a stale or mis-converted entry shows
    import math
    prio = []
    try:
        sd = rd.DEFAULTDATA.scipy_data
        sy = rd.DEFAULTDATA.sympy_data
        for i in radio:
            want = math.log(2) * float(view.rate[i])
            if abs(float(sd.decay_consts[i]) - want) > 1e-12 * want:
                prio.append(i)
        for i in range(view.n):
            if sy is not None and abs(float(sd.atomic_masses[i]) - float(sy.atomic_masses[i])) > 1e-12 * float(sy.atomic_masses[i]):
                rep.violation("failing-input", f"atomic mass of {view.names[i]}: double {float(sd.atomic_masses[i])!r} vs exact "
                              f"{float(sy.atomic_masses[i])!r} — Inventory and InventoryHP convert masses differently",
                              {"call": "mass", "nuclide": view.names[i]}, True)
                return True
    except Exception:  # noqa: BLE001
        pass
    order = prio + [i for i in order if i not in prio]
    found = False
    for i in order:
        name = view.names[i]
        t = 1 / view.rate[i]           # one half-life, seconds
        try:
            ref = amaku_solution(view, {i: Fraction(1)}, t)
        except ZeroDivisionError:
            continue
        tt = float(t)
        for cls, tol in ((rd.Inventory, 1e-9), (rd.InventoryHP, 1e-12)):
            if cls is rd.InventoryHP and ctx.tier != "thorough" and i % 7:
                continue
            try:
                out = cls({name: 1.0}, "num").decay(tt, "s").numbers()
            except Exception as e:  # noqa: BLE001
                rep.violation("failing-input", f"{cls.__name__}({{{name!r}: 1}}).decay raises {type(e).__name__}",
                              {"call": "decay", "cls": cls.__name__, "nuclide": name, "t_s": tt}, True)
                return True
            for g, v in ref.items():
                got = out.get(view.names[g])
                exact = float(v)
                if got is None or abs(float(got) - exact) > tol * max(1.0, abs(exact)) + 1e-30:
                    rep.violation("failing-input",
                                  f"{cls.__name__}({{{name!r}: 1}}, 'num').decay({tt}, 's')[{view.names[g]!r}] = {got}, "
                                  f"exact solution of the listed data = {exact}",
                                  {"call": "decay", "cls": cls.__name__, "nuclide": name, "t_s": tt,
                                   "progeny": view.names[g], "observed": None if got is None else float(got),
                                   "expected": exact}, True)
                    found = True
                    break
            if found:
                break
        if found:
            break
    return found


def replay(body, ctx) -> bool:
    rd = ctx.rd
    view = DatasetView(rd.DEFAULTDATA)
    cls = getattr(rd, body["cls"])
    i = view.index[body["nuclide"]]
    ref = amaku_solution(view, {i: Fraction(1)}, Fraction(body["t_s"]))
    out = cls({body["nuclide"]: 1.0}, "num").decay(body["t_s"], "s").numbers()
    g = view.index[body["progeny"]]
    tol = 1e-9 if body["cls"] == "Inventory" else 1e-12
    return abs(float(out[body["progeny"]]) - float(ref[g])) <= tol * max(1.0, abs(float(ref[g])))
