"""C03 — cumulative decays equal integrated activity; the atom balance closes."""
from __future__ import annotations

from fractions import Fraction

from decaylib import F, Gen, ancestors_sum, is_finite, within
from oracle import DatasetView, LeanOracle, eval_adaptive

NEEDS_DATASET = True
TARGETS = ["RdVerif.Props.C03", "RdVerif.Props.C04", "RdVerif.Props.C01Oracle", "RdVerif.Props.C03Oracle", "RdVerif.Props.AllDatasets"]
THEOREMS = ["RdVerif.C03.C03_integral", "RdVerif.C03.C03_stable", "RdVerif.C03.C03_atom_balance",
            "RdVerif.C04.exact_inverses", "RdVerif.C04.exact_diagonalises",
            "RdVerif.C01.C01_oracle_sound", "RdVerif.C03.C03_oracle_sound", "RdVerif.C03.C03_oracle_cached",
            "RdVerif.C01.C01_ln2_certified", "RdVerif.AllDatasets.cum_integral", "RdVerif.AllDatasets.atom_balance",
            "RdVerif.AllDatasets.cum_oracle_sound"]
PARTIAL = {
    "C03_error_bound_partial": "double-precision deviation (<= 1e-11 x ancestors' atoms) and the 1e-13 relative accuracy of the "
                               "high-precision class are checked per input against the oracle cumEncl, which is PROVED to enclose the exact "
                               "integral of activity (C03_oracle_sound); the rounding bound itself is not a theorem",
}
ASSUMPTIONS = ["IEEE-754 / SymPy arithmetic as in C01/C02"]
TOL = Fraction(1, 10**11)
REL = Fraction(1, 10**13)


def correspondence(rep, ctx, ncases=None):
    rd = ctx.rd
    import sympy
    gen = Gen(rd, ctx.seed, "c03")
    view = gen.view
    dd = rd.DEFAULTDATA
    thorough = ctx.tier == "thorough"
    ncases = ncases or (1500 if thorough else 150)
    nhp = 60 if thorough else 8
    rep.corr["rule"] = (
        "seeded inventories x times (as C01) through cumulative_decays of both classes: keys = radioactive members of the "
        "descendant closure (no stable keys), each value within 1e-11 x ancestors' atoms (float) / 1e-13 relative (HP) of the "
        "verified oracle for lambda_i * integral of N_i; balance residual N_i(t)-N_i(0)+D_i-sum_j b_ji D_j from the real "
        "decay(), cumulative_decays() and branching_fraction() outputs within the float bound, SF / sum(b) != 1 chains "
        "included by the deep-chain stratum. distinct = distinct (class, inventory, time)")
    cases = []
    # long chains at times short against the chain head (deep progeny many orders of magnitude below the parent): HP class
    # the witness of the open finding F6' always runs, so that the finding stays observable
    cases.append(("hp", {"Mn-57": 20.176420064165978, "Bk-247": 1.7982780957370433e+23}, "num", 2.2242615233878635e-29, "y"))
    for parent, t_, tu_ in (("Th-232", 1.0, "s"), ("U-238", 1.0, "h")) + ((("Np-237", 10.0, "s"), ("U-235", 1.0, "m")) if thorough else ()):
        cases.append(("hp", {parent: 1.0}, "num", t_, tu_))
    for k in range(ncases + nhp):
        contents, unit = gen.inventory(max_n=3 if k >= ncases else 6)
        idxs = [view.index[rd.utils.parse_nuclide_str(n)] for n in contents]
        t, tu = gen.time_for(idxs)
        cases.append(("hp" if k >= ncases else "float", contents, unit, t, tu))
    reals, ocases = [], []
    for c in cases:
        cls, contents, unit, t, tu = c
        try:
            if cls == "float":
                inv = rd.Inventory(dict(contents), unit)
                n0 = {view.index[k]: F(v) for k, v in inv.contents.items()}
                ts = F(rd.converters.UnitConverterFloat.time_unit_conv(t, tu, "s", dd.float_year_conv))
            else:
                inv = rd.InventoryHP(dict(contents), unit)
                n0 = {}
                for k, v in inv.contents.items():
                    if not v.is_Rational:
                        n0 = None
                        break
                    n0[view.index[k]] = Fraction(int(v.p), int(v.q))
                tsx = rd.converters.UnitConverterSympy.time_unit_conv(sympy.nsimplify(t), tu, "s", dd.sympy_year_conv)
                if n0 is None or not tsx.is_Rational:
                    rep.inconclusive += 1
                    continue
                ts = Fraction(int(tsx.p), int(tsx.q))
            cum = inv.cumulative_decays(t, tu)
            dec = inv.decay(t, tu).numbers() if cls == "float" else None
            reals.append((c, inv, cum, dec))
            ocases.append((n0, ts))
        except Exception as e:  # noqa: BLE001
            rep.violation("failing-input", f"cumulative_decays raised {type(e).__name__}: {e}",
                          {"call": "cumulative_decays", "cls": cls, "contents": contents, "unit": unit, "t": t, "tu": tu}, True)
    if not (ctx.build_ok and ocases):
        return
    orc = LeanOracle()

    def need(j, o):
        n0 = ocases[j][0]
        hp = reals[j][0][0] == "hp"
        for i, (lo, hi) in o.items():
            w = hi - lo
            if w == 0:
                continue
            if hp:
                m = min(abs(lo), abs(hi))
                if max(abs(lo), abs(hi)) < Fraction(1, 10**300):
                    continue
                if lo <= 0 <= hi or w > REL * m / 16:
                    return False
            elif w > TOL * ancestors_sum(view, n0, i) / 64:
                return False
        return True
    encls, inconclusive = eval_adaptive(orc, ocases, need, kind="cum", P0=200, Pmax=3300)
    rep.inconclusive += len(inconclusive)
    bad = 0
    for j, ((c, inv, cum, dec), (n0, ts)) in enumerate(zip(reals, ocases)):
        cls, contents, unit, t, tu = c
        rep.case(("c03", repr(c)), sample={"cls": cls, "inventory": contents, "unit": unit, "t": t, "tu": tu,
                                            "n_keys": len(cum)} if j % 37 == 0 else None)
        if j in inconclusive:
            continue
        want = sorted(view.names[i] for i in view.descendants(list(n0)) if view.rate[i] != 0)
        msg = None
        f6_class = False
        if sorted(cum) != want:
            msg = f"keys {sorted(cum)[:5]}… differ from the radioactive closure {want[:5]}…"
        else:
            for i, (lo, hi) in encls[j].items():
                nm = view.names[i]
                v = cum[nm]
                if not is_finite(v) or not isinstance(v, float):
                    msg = f"{nm} = {v!r} is not a finite float"
                    break
                anc = ancestors_sum(view, n0, i)
                if cls == "float":
                    okv = within(F(v), lo, hi, TOL * anc)
                else:
                    mag = max(abs(lo), abs(hi))
                    okv = (abs(F(v)) < Fraction(1, 10**299)) if mag < Fraction(1, 10**300) else \
                        within(F(v), lo, hi, REL * mag)
                if not okv:
                    msg = f"{nm}: reported {v!r}, exact integral of activity in [{float(lo)!r}, {float(hi)!r}]"
                    # the class of the open finding F6 (320 digits used up): exact value below 1e-290 of the ancestors' atoms
                    f6_class = cls == "hp" and max(abs(lo), abs(hi)) < Fraction(1, 10**290) * anc
                    break
        if msg is None and cls == "float":
            # balance from the real outputs
            total = sum(abs(a) for a in n0.values())
            for i in view.descendants(list(n0)):
                nm = view.names[i]
                res = F(dec[nm]) - n0.get(i, Fraction(0)) + (F(cum[nm]) if nm in cum else 0)
                for p, b in view.parents[i]:
                    pn = view.names[p]
                    if pn in cum:
                        bf = dd.branching_fraction(pn, nm)
                        res -= F(bf) * F(cum[pn])
                if abs(res) > 4 * TOL * total:
                    msg = f"atom balance of {nm} does not close: residual {float(res):.3e} (total atoms {float(total):.3e})"
                    break
        if msg:
            key_ = "F6-hp-digits-cum" if (cls == "hp" and f6_class) else None
            if key_ is None:
                bad += 1
            if bad <= 3 or key_:
                rep.violation("failing-input", f"{'Inventory' if cls == 'float' else 'InventoryHP'}({contents!r}, {unit!r})"
                              f".cumulative_decays({t!r}, {tu!r}): {msg}",
                              {"call": "cumulative_decays", "cls": cls, "contents": contents, "unit": unit, "t": t, "tu": tu}, True,
                              match_key=key_)
    # t = 0 and the key set, both classes, in several units: exactly the radioactive chain members, every value 0
    for k_ in range(12 if thorough else 5):
        contents, unit = gen.inventory(max_n=3)
        idxs = [view.index[rd.utils.parse_nuclide_str(n)] for n in contents]
        want = sorted(view.names[i] for i in view.descendants(idxs) if view.rate[i] != 0)
        for Cc in (rd.Inventory, rd.InventoryHP):
            for t0, tu0 in ((0, "s"), (0.0, "y"), (0.0, "ms")):
                desc = f"{Cc.__name__}({contents!r}, {unit!r}).cumulative_decays({t0!r}, {tu0!r})"
                rep.case(("zero-time", k_, Cc.__name__, tu0))
                gen._count("cumulative:t=0")
                try:
                    cum0 = Cc(dict(contents), unit).cumulative_decays(t0, tu0)
                    if sorted(cum0) != want:
                        raise AssertionError(f"lists {sorted(set(cum0) ^ set(want))[:4]} although only radioactive chain members "
                                             "have decays (stable nuclides are never listed)")
                    if any(float(v) != 0.0 for v in cum0.values()):
                        raise AssertionError("non-zero decays at t = 0")
                except Exception as e:  # noqa: BLE001
                    bad += 1
                    rep.violation("failing-input", f"{desc}: {type(e).__name__}: {e}", {"call": "cumulative_decays-zero", "contents": contents, "unit": unit}, True)
    from decaylib import mutated_object_block
    bad += mutated_object_block(rep, ctx, "c03/mutated-object", hp_too=True, nseq=(24 if thorough else 6))
    import synthetic
    bad += synthetic.decay_block(rep, ctx, "c03/synthetic", kinds=("cumulative_decays",))
    bad += synthetic.decay_block(rep, ctx, "c03/synthetic-hp", kinds=("cumulative_decays",), ndatasets=(4 if thorough else 1), per=2, hp=True)
    rep.corr["input_distribution"].update(gen.dist)
    rep.notes["mismatches"] = bad


def search(rep, ctx) -> bool:
    """a tie broke: the atom balance needs no model — for EVERY radionuclide as single parent, after one of its
    half-lives, N_i(t) - N_i(0) + D_i - sum_j b_ji D_j must vanish (within the float bound) for every chain member, with
    N from decay(), D from cumulative_decays() and b from branching_fraction() of the real code"""
    rd = ctx.rd
    dd = rd.DEFAULTDATA
    view = DatasetView(dd)
    for i in range(view.n):
        if view.rate[i] == 0:
            continue
        nm0 = view.names[i]
        tsec = float(1 / view.rate[i])
        try:
            inv = rd.Inventory({nm0: 1.0e12}, "num")
            dec = inv.decay(tsec, "s").numbers()
            cum = inv.cumulative_decays(tsec, "s")
        except Exception as e:  # noqa: BLE001
            rep.violation("failing-input", f"Inventory({{{nm0!r}: 1e12}}).decay/cumulative_decays({tsec!r}, 's') raised "
                          f"{type(e).__name__}: {e}", {"call": "balance", "nuclide": nm0, "t_s": tsec}, True)
            return True
        for g in view.descendants([i]):
            nm = view.names[g]
            res = F(dec[nm]) - (Fraction(10**12) if g == i else 0) + (F(cum[nm]) if nm in cum else 0)
            for p, _b in view.parents[g]:
                pn = view.names[p]
                if pn in cum:
                    res -= F(dd.branching_fraction(pn, nm)) * F(cum[pn])
            if abs(res) > 4 * TOL * 10**12:
                rep.violation("failing-input", f"Inventory({{{nm0!r}: 1e12}}, 'num') after {tsec!r} s: the atom balance of {nm} does "
                              f"not close: N(t) - N(0) + D - sum b*D(parents) = {float(res):.6e} atoms (allowed {float(4 * TOL * 10**12):.1e})",
                              {"call": "balance", "nuclide": nm0, "t_s": tsec, "member": nm}, True)
                return True
    return False


def replay(body, ctx) -> bool:
    print("re-run ./check C03 (the case is regenerated from the seed recorded in the replay file)")
    return False
