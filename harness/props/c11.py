"""C11 — calculations are pure and independent of process history."""
from __future__ import annotations

import hashlib
import json
import os
import subprocess
import sys
import tempfile

import numpy as np

from common import REPO, WORK, lean_driver
from invlib import Mirror, fbits

NEEDS_DATASET = False
TARGETS = ["RdVerif.Props.C11"]
THEOREMS = ["RdVerif.C11.templates_invariant", "RdVerif.C11.readers_frame", "RdVerif.C11.mutators_frame",
            "RdVerif.C11.failure_atomic", "RdVerif.C11.history_independent"]
PARTIAL = {}
ASSUMPTIONS = [
    "the state machine abstracts every reader to 'copies the templates, returns what it read'; that the real readers do so is "
    "what the fingerprint comparison after every step observes",
]

PROBE = r"""
import sys, json, struct
sys.path.insert(0, %r)
import radioactivedecay as rd
def bits(x): return struct.unpack('<Q', struct.pack('<d', float(x)))[0]
out = {}
inv = rd.Inventory({'U-238': 1.0, 'Sr-90': 2.5e10, 'Mo-99': 3.0}, 'num')
out['decay'] = {k: bits(v) for k, v in inv.decay(1.0e9, 'y').numbers().items()}
out['cum'] = {k: bits(v) for k, v in inv.cumulative_decays(30.0, 'd').items()}
out['acts'] = {k: bits(v) for k, v in inv.activities('Ci').items()}
out['frac'] = {k: bits(v) for k, v in inv.decay(3.0, 'd').mass_fractions().items()}
out['hl'] = [bits(rd.DEFAULTDATA.half_life('Tc-99m', 'h')), rd.DEFAULTDATA.half_life('K-40', 'readable')]
h = rd.InventoryHP({'Mo-99': 2.0}, 'num')
out['hp'] = {k: bits(v) for k, v in h.decay(66.0, 'h').numbers().items()}
out['hpcum'] = {k: bits(v) for k, v in h.cumulative_decays(10.0, 'h').items()}
print(json.dumps(out, sort_keys=True))
"""


def ds_fingerprint(dd, heavy=False):
    sd = dd.scipy_data
    h = hashlib.sha1()
    h.update(np.ascontiguousarray(sd.vector_n0).tobytes())
    me = sd.matrix_e
    for a in (me.data, me.indices, me.indptr):
        h.update(np.ascontiguousarray(a).tobytes())
    # the listed data every query reads (progeny / fractions / modes / half-lives): part of "the shared dataset"
    h.update(repr([list(x) for x in dd.progeny]).encode())
    h.update(repr([list(x) for x in dd.bfs]).encode())
    h.update(repr([tuple(x) for x in dd.hldata]).encode())
    h.update(repr(float(dd.float_year_conv)).encode())
    light = h.hexdigest()
    sy = dd._sympy_data
    sy_ok = True
    if sy is not None:
        sy_ok = (len(sy.matrix_e.todok()) == 0) and all(x == 0 for x in sy.vector_n0)
    out = {"templates": light, "sympy_templates_zero": sy_ok}
    if heavy:
        g = hashlib.sha1()
        for m in (sd.matrix_c, sd.matrix_c_inv):
            for a in (m.data, m.indices, m.indptr):
                g.update(np.ascontiguousarray(a).tobytes())
        g.update(np.ascontiguousarray(sd.atomic_masses).tobytes())
        g.update(np.ascontiguousarray(sd.decay_consts).tobytes())
        g.update(repr([tuple(x) for x in dd.hldata]).encode())
        g.update(repr([list(x) for x in dd.progeny]).encode())
        g.update(repr([list(x) for x in dd.bfs]).encode())
        g.update(repr(list(dd.nuclides)).encode())
        g.update(repr(float(dd.float_year_conv)).encode())
        if sy is not None:
            for mtx in (sy.matrix_c, sy.matrix_c_inv):
                dok = mtx.todok()
                g.update(str(len(dok)).encode())
                g.update(str(hash(tuple(sorted((k, hash(v)) for k, v in dok.items())))).encode())
            g.update(str(sy.decay_consts[0:40]).encode() + str(sy.atomic_masses[0:40]).encode())
        out["data"] = g.hexdigest()
    return out


def inv_fp(inv):
    items = []
    for k, v in inv.contents.items():
        try:
            # the TYPE of the stored amount is part of the state: '20.25' (a str) is not 20.25
            items.append((str(k), type(v).__name__, fbits(v) if not hasattr(v, "is_Rational") else str(v)))
        except Exception:  # noqa: BLE001
            items.append((str(k), type(v).__name__, repr(v)))
    return (type(inv).__name__, id(inv.decay_data), tuple(items))


def result_fp(inv, tt):
    """bit-level fingerprint of the decay-type results of an inventory (keys, order, values)"""
    d = inv.decay(tt, "s")
    c = inv.cumulative_decays(tt, "s")
    enc = lambda v: fbits(v) if not hasattr(v, "is_Rational") else str(v)   # noqa: E731
    return ([(str(k), enc(v)) for k, v in d.contents.items()], [(str(k), fbits(v)) for k, v in c.items()])


def diff_fp(a, b):
    ka, kb = [k for k, _ in a[0]], [k for k, _ in b[0]]
    if ka != kb:
        return f"nuclides {sorted(set(ka) ^ set(kb))[:4]} appear/disappear"
    return "same nuclides, different bits"


READERS = ["numbers", "activities", "masses", "moles", "fractions", "half_lives", "progeny", "decay", "cumulative_decays",
           "time_series", "to_csv", "len", "repr", "operators", "plot", "nuclide_diagram"]


class ArgumentChanged(Exception):
    pass


def do_reader(rd, inv, kind, r, tmpdir, hp):
    present = list(inv.contents)
    if kind == "numbers":
        x = inv.numbers()
        if not hp:
            x = dict(x)       # the float class returns its own dict: a caller mutating it is outside this property
        return x
    if kind == "activities":
        return inv.activities(r.choice(["Bq", "Ci", "dpm"]))
    if kind == "masses":
        return inv.masses(r.choice(["g", "kg"]))
    if kind == "moles":
        return inv.moles("mol")
    if kind == "fractions":
        try:
            return (inv.mass_fractions(), inv.mole_fractions(), inv.activity_fractions())
        except ZeroDivisionError:
            return None
    if kind == "half_lives":
        return (inv.half_lives("y"), inv.half_lives("readable"))
    if kind == "progeny":
        return (inv.progeny(), inv.branching_fractions(), inv.decay_modes())
    if kind == "decay":
        return inv.decay(10.0 ** r.uniform(-3, 9), r.choice(["s", "d", "y"]))
    if kind == "cumulative_decays":
        return inv.cumulative_decays(10.0 ** r.uniform(-3, 6), "h")
    if kind == "time_series":
        if hp and len(present) > 3:
            return None
        if r.random() < 0.5:
            # an explicit (unsorted) array of times is an ARGUMENT: it must come back bit-for-bit unchanged
            import numpy as _np
            arr = _np.array(r.choice([[10.0, 5.0, 0.0], [3.0, 1.0, 2.0], [0.5, 7.25, 7.0]]))
            before = arr.tobytes()
            res = (inv.decay_time_series if r.random() < 0.5 else inv.decay_time_series_pandas)(arr, "d", decay_units=r.choice(["Bq", "num"]))
            if arr.tobytes() != before:
                raise ArgumentChanged(f"decay_time_series changed the caller's time array to {arr.tolist()}")
            return res
        return inv.decay_time_series(100.0, "d", npoints=3, decay_units=r.choice(["Bq", "num", "g", "mass_frac"]))
    if kind == "to_csv":
        inv.to_csv(os.path.join(tmpdir, "o.csv"), r.choice(["Bq", "num", "g"]) if all(
            inv.decay_data.half_life(n) != float("inf") for n in present) else "num", write_units=True)
        return None
    if kind == "len":
        return (len(inv), inv.nuclides)
    if kind == "repr":
        return repr(inv)
    if kind == "operators":
        return (inv * 2.0 if not hp else inv * 2, inv + inv, inv - inv, (inv / 3.0) if not hp else inv / 3)
    if kind == "nuclide_diagram":
        # the decay-chain diagram of one of the inventory's nuclides, or of a spontaneously fissioning one (chains with the
        # pseudo-progeny 'SF'): a pure drawing of dataset content
        import matplotlib
        matplotlib.use("Agg")
        import matplotlib.pyplot as plt
        nm = r.choice(present + ["Cf-252", "U-238", "Fm-256"]) if present else "Cf-252"
        fig, ax = rd.Nuclide(nm, inv.decay_data).plot()
        plt.close(fig)
        return None
    if kind == "plot":
        if hp:
            return None
        import matplotlib
        matplotlib.use("Agg")
        import matplotlib.pyplot as plt
        fig, ax = inv.plot(10.0, "d", npoints=3)
        plt.close(fig)
        return None
    return None


def raises_same_on_fresh(rd, m, inv, dsi, kind, r, state, tmpdir, hp, exc) -> bool:
    """A reader that raises is not by itself a violation of this property (e.g. plotting an emptied inventory raises
    ValueError in matplotlib/numpy): it is one only if the same call on a fresh inventory with the same contents behaves
    differently (history dependence).  The caller still compares every fingerprint afterwards."""
    if isinstance(exc, ArgumentChanged):
        return False                   # raised by the harness itself: an argument was modified
    after = r.getstate()
    try:
        r.setstate(state)
        fresh = m.C(dict(inv.contents), "num", False, m.datasets[dsi])
        try:
            do_reader(rd, fresh, kind, r, tmpdir, hp)
        except Exception as e2:  # noqa: BLE001
            return type(e2) is type(exc) and str(e2) == str(exc)
        return False
    finally:
        r.setstate(after)


def correspondence(rep, ctx):
    rd = ctx.rd
    thorough = ctx.tier == "thorough"
    dd = rd.DEFAULTDATA
    rep.corr["rule"] = (
        "seeded histories (length 30) interleaving mutators (add/subtract/remove, incl. ones that fail part-way), operators and "
        "every kind of reader (decay, cumulative decays, read-outs, fractions, queries, time series, CSV, plot) over several live "
        "inventories of one class sharing the default dataset; after EVERY step every live inventory and the dataset templates "
        "are fingerprinted (bit patterns / SymPy values / CSR arrays) and compared with the state machine's prediction; probe "
        "calculations are compared bit-for-bit before/after the history and against a fresh interpreter; load_dataset twice "
        "stays equal. distinct = distinct histories")
    WORK.mkdir(exist_ok=True)
    tmpdir = tempfile.mkdtemp(dir=WORK)
    # probe in a fresh interpreter (same hash seed: only process *history* differs)
    env = dict(os.environ, PYTHONHASHSEED="0", MPLBACKEND="Agg")
    fresh = subprocess.run([sys.executable, "-c", PROBE % str(REPO)], capture_output=True, text=True, env=env, timeout=600)
    fresh_out = fresh.stdout.strip().splitlines()[-1] if fresh.returncode == 0 and fresh.stdout.strip() else None
    heavy0 = ds_fingerprint(dd, heavy=True)
    fresh1 = rd.decaydata.load_dataset(dd.dataset_name, load_sympy=True)
    if not (fresh1 == dd and not (fresh1 != dd)):
        rep.violation("failing-input", "a fresh load_dataset() is not equal to DEFAULTDATA before any calculation", {}, True)
    bad = 0
    nseq = 40 if thorough else 7
    all_lines, metas = [], []
    for hp in (False, True):
        for s in range(nseq if not hp else max(2, nseq // 3)):
            m = Mirror(rd, ctx.seed, f"c11/{int(hp)}/{s}", hp)
            m.datasets = [dd, m.datasets[1]]
            m.lines.append(f"w\t{m.tag}\treset")
            m.expect.append(("done", None))
            r = m.r
            if s % 2 == 0:
                # a small pool of nuclides, so that different live inventories share chain members
                m.radio = r.sample(m.radio, 5)
                m.names = m.radio + r.sample([n for n in m.names if n not in m.radio], 2)
            recorded = []
            for step_i in range(30 if not hp else 12):
                before_inv = {h: inv_fp(i) for h, (i, _) in m.live.items()}
                before_ds = ds_fingerprint(dd)
                k = r.random()
                if m.live and k < 0.5:
                    h = r.choice(list(m.live))
                    inv = m.live[h][0]
                    kind = r.choice(READERS)
                    m.log.append(f"h{h}.<{kind}>")
                    rstate = r.getstate()
                    try:
                        do_reader(rd, inv, kind, r, tmpdir, hp)
                        if kind in ("decay", "cumulative_decays", "time_series", "numbers", "activities") and len(recorded) < 8:
                            tt = 10.0 ** r.uniform(0, 7)
                            recorded.append((list(inv.contents.items()), m.live[h][1], tt, result_fp(inv, tt)))
                    except Exception as e:  # noqa: BLE001
                        if not raises_same_on_fresh(rd, m, inv, m.live[h][1], kind, r, rstate, tmpdir, hp, e):
                            rep.violation("failing-input", f"history {m.log!r}: reader raised {type(e).__name__}: {e} (a fresh "
                                          "inventory with the same contents does not)", {"history": m.log}, True)
                            break
                        rep.dist("reader-raises-deterministically:" + kind)
                    m.req("read", h)
                    m.expect.append(("reader", None))
                    rep.dist("reader:" + kind)
                    after_inv = {h2: inv_fp(i) for h2, (i, _) in m.live.items()}
                    if after_inv != before_inv:
                        bad += 1
                        rep.violation("failing-input", f"history {m.log!r}: the reader changed a live inventory",
                                      {"history": m.log}, True)
                        break
                else:
                    target_before = set(m.live)
                    m.random_op()
                    rep.dist("mutator/operator")
                    last = m.expect[-1][0]
                    after_inv = {h2: inv_fp(i) for h2, (i, _) in m.live.items()}
                    changed = [h2 for h2 in target_before if after_inv.get(h2) != before_inv.get(h2)]
                    if last.startswith("err") and changed:
                        bad += 1
                        rep.violation("failing-input", f"history {m.log!r}: the failing call changed inventory h{changed[0]}",
                                      {"history": m.log}, True)
                        break
                    if len(changed) > 1:
                        bad += 1
                        rep.violation("failing-input", f"history {m.log!r}: one call changed inventories {changed}",
                                      {"history": m.log}, True)
                        break
                if ds_fingerprint(dd) != before_ds:
                    bad += 1
                    rep.violation("failing-input", f"history {m.log!r}: the shared dataset's pre-allocated templates changed",
                                  {"history": m.log}, True)
                    break
                m.snapshot()
            # final sweep: every kind of reader on every live inventory (mixtures, aged ones, with stable nuclides)
            for h_, (inv_, _) in list(m.live.items())[:4]:
                for kind in READERS:
                    if hp and kind in ("plot", "time_series", "operators") and len(inv_.contents) > 2:
                        continue
                    before_inv = {h2: inv_fp(i) for h2, (i, _) in m.live.items()}
                    before_ds = ds_fingerprint(dd)
                    rstate = r.getstate()
                    try:
                        do_reader(rd, inv_, kind, r, tmpdir, hp)
                    except Exception as e:  # noqa: BLE001
                        if not raises_same_on_fresh(rd, m, inv_, m.live[h_][1], kind, r, rstate, tmpdir, hp, e):
                            rep.violation("failing-input", f"history {m.log!r} then h{h_}.<{kind}>: raised {type(e).__name__}: {e} "
                                          "(a fresh inventory with the same contents does not)", {"history": m.log}, True)
                            break
                        rep.dist("reader-raises-deterministically:" + kind)
                    rep.dist("sweep-reader:" + kind)
                    if {h2: inv_fp(i) for h2, (i, _) in m.live.items()} != before_inv or ds_fingerprint(dd) != before_ds:
                        bad += 1
                        rep.violation("failing-input", f"history {m.log!r} then h{h_}.<{kind}> on {list(inv_.contents)[:5]}: a live "
                                      "inventory or the shared dataset's templates changed", {"history": m.log}, True)
                        break
                # … and on the aged inventory (it holds the stable end-members with non-zero amounts)
                try:
                    members = [n for n in inv_.contents if dd.half_life(n) != float("inf")]
                    if members:
                        aged = inv_.decay(float(dd.half_life(r.choice(members), "s")) * r.choice([0.5, 3.0, 40.0]), "s")
                        before_ds = ds_fingerprint(dd)
                        aged.cumulative_decays(10.0 ** r.uniform(0, 6), "s")
                        after_cum = ds_fingerprint(dd)
                        aged.decay(10.0 ** r.uniform(0, 6), "s")
                        rep.dist("sweep-reader:aged")
                        if after_cum != before_ds or ds_fingerprint(dd) != before_ds:
                            bad += 1
                            rep.violation("failing-input", f"history {m.log!r}: cumulative_decays/decay of the aged inventory "
                                          f"h{h_}.decay(…) changed the shared dataset's pre-allocated templates", {"history": m.log}, True)
                            break
                except Exception as e:  # noqa: BLE001
                    rep.violation("failing-input", f"history {m.log!r}: aged inventory raised {type(e).__name__}: {e}", {"history": m.log}, True)
                    break
            # the same calculations on fresh objects with the same contents must give bit-identical results now
            for snap, dsi, tt, fp in recorded:
                again = result_fp(m.C(dict(snap), "num", False, m.datasets[dsi]), tt)
                rep.dist("re-run-after-history")
                if again != fp:
                    bad += 1
                    rep.violation("failing-input", f"history {m.log!r}: decay / cumulative_decays of an inventory holding "
                                  f"{[k for k, _ in snap]} returns a different result after the later calculations than before "
                                  f"({diff_fp(fp, again)})", {"history": m.log}, True)
                    break
            all_lines += m.lines
            metas.append(m)
    # failure atomicity, deterministically: a mutating call that raises leaves the inventory exactly as it was — the failing
    # element / entry placed AFTER valid ones, every kind of failure (absent, duplicate, unparseable, outside the dataset,
    # wrong type; bad amount, bad unit), both classes
    for hp in (False, True):
        C = rd.InventoryHP if hp else rd.Inventory
        calls = [
            ("remove(['H-3', 'Be-10'])", lambda i_: i_.remove(["H-3", "Be-10"])),
            ("remove(['K-40', 40100000])", lambda i_: i_.remove(["K-40", 40100000])),
            ("remove(['H-3', 'H-3'])", lambda i_: i_.remove(["H-3", "H-3"])),
            ("remove(['C-14', '14C'])", lambda i_: i_.remove(["C-14", "14C"])),
            ("remove(['H-3', 'C-14', 'Xx-1'])", lambda i_: i_.remove(["H-3", "C-14", "Xx-1"])),
            ("remove(['H-3', 'Og-294'])", lambda i_: i_.remove(["H-3", "Og-294"])),
            ("remove(['K-40', 1.5])", lambda i_: i_.remove(["K-40", 1.5])),
            ("remove([Nuclide('C-14'), Nuclide('Be-10')])", lambda i_: i_.remove([rd.Nuclide("C-14"), rd.Nuclide("Be-10")])),
            ("add({'H-3': 1.0, 'C-14': -1.0}, 'num')", lambda i_: i_.add({"H-3": 1.0, "C-14": -1.0}, "num")),
            ("add({'H-3': 1.0, 'Xx-1': 1.0}, 'num')", lambda i_: i_.add({"H-3": 1.0, "Xx-1": 1.0}, "num")),
            ("add({'H-3': 1.0}, 'furlongs')", lambda i_: i_.add({"H-3": 1.0}, "furlongs")),
            ("add({'H-3': 1.0, 'He-3': 1.0}, 'Bq')", lambda i_: i_.add({"H-3": 1.0, "He-3": 1.0}, "Bq")),
            ("add({'H-3': 1.0, 'H3': 2.0}, 'num')", lambda i_: i_.add({"H-3": 1.0, "H3": 2.0}, "num")),
            ("subtract({'K-40': 1.0, 'C-14': float('nan')}, 'num')", lambda i_: i_.subtract({"K-40": 1.0, "C-14": float("nan")}, "num")),
            ("subtract({'K-40': 1.0}, '')", lambda i_: i_.subtract({"K-40": 1.0}, "")),
        ]
        for label, fn in calls:
            src = C({"H-3": 8, "C-14": 4, "K-40": 2}, "num")
            before = inv_fp(src)
            rep.dist("failure-atomicity")
            rep.case(("failure-atomicity", hp, label))
            try:
                fn(src)
                bad += 1
                rep.violation("failing-input", f"{C.__name__}({{'H-3': 8, 'C-14': 4, 'K-40': 2}}, 'num').{label} did not raise",
                              {"call": label}, True)
            except Exception:  # noqa: BLE001
                if inv_fp(src) != before:
                    bad += 1
                    rep.violation("failing-input", f"{C.__name__}({{'H-3': 8, 'C-14': 4, 'K-40': 2}}, 'num').{label} raised, but the inventory "
                                  f"is now {dict(src.contents)!r}", {"call": label}, True)
    # results are independent objects: a decay result / scaled / summed inventory changed in place afterwards leaves the
    # inventory it was computed from untouched (all-stable, all-radioactive and mixed inventories, zero time included)
    for hp in (False, True):
        C = rd.InventoryHP if hp else rd.Inventory
        for contents in ({"He-3": 4, "Pb-208": 7}, {"Co-59": 2}, {"H-3": 5, "He-3": 1}, {"Mo-99": 3}, {}):
            for label, fn in (("decay(10, 'd')", lambda i_: i_.decay(10.0, "d")), ("decay(0)", lambda i_: i_.decay(0.0)),
                              ("* 2", lambda i_: i_ * 2), ("+ itself", lambda i_: i_ + i_), ("/ 1", lambda i_: i_ / 1)):
                src = C(dict(contents), "num")
                before = inv_fp(src)
                rep.dist("result-aliasing")
                try:
                    res = fn(src)
                    res.add({"Sr-90": 11}, "num")
                    if res.contents and "Sr-90" in res.contents:
                        res.remove("Sr-90")
                    for nm_ in list(res.contents)[:1]:
                        res.remove(nm_)
                    if inv_fp(src) != before or res is src:
                        bad += 1
                        rep.violation("failing-input", f"{C.__name__}({contents!r}, 'num'): the result of {label} is not independent of the "
                                      f"inventory it came from — changing the result in place changed the original to {dict(src.contents)!r}",
                                      {"contents": contents, "op": label}, True)
                except Exception as e:  # noqa: BLE001
                    bad += 1
                    rep.violation("failing-input", f"{C.__name__}({contents!r}, 'num') {label} then add/remove on the result raised "
                                  f"{type(e).__name__}: {e}", {"contents": contents, "op": label}, True)
    model = lean_driver(all_lines) if ctx.build_ok else None
    pos = 0
    for s, m in enumerate(metas):
        rep.case(("c11", s, tuple(m.log)), sample={"history": m.log[:8], "class": "HP" if m.hp else "float"} if s % 5 == 0 else None)
        if model is not None:
            for k, (exp, extra) in enumerate(m.expect):
                got = model[pos + k]
                if exp == "reader":
                    if not got.startswith("value"):
                        ctx.broken.append("correspondence:reader")
                    continue
                want = (exp if exp != "show" else extra).replace("err NuclideStrError", "err ValueError")
                got = got.replace("err NuclideStrError", "err ValueError")
                if exp in ("real-accepted-duplicate",):
                    continue
                if got != want:
                    bad += 1
                    if bad <= 3:
                        rep.violation("failing-input", f"history {m.log!r}: real state {want[:200]!r} differs from the state "
                                      f"machine {got[:200]!r}", {"history": m.log}, True)
                    break
        pos += len(m.expect)
    # after all histories: heavy dataset fingerprint, probes, reload equality
    if ds_fingerprint(dd, heavy=True) != heavy0:
        bad += 1
        rep.violation("failing-input", "the dataset's arrays / matrices changed during the histories", {}, True)
    fresh2 = rd.decaydata.load_dataset(dd.dataset_name, load_sympy=True)
    if not (fresh2 == dd and fresh1 == fresh2):
        bad += 1
        rep.violation("failing-input", "two loads of the dataset are no longer equal after the histories "
                      "(DEFAULTDATA == load_dataset(...) is False)", {}, True)
    ns = {}
    exec(compile(PROBE.replace("print(json.dumps(out, sort_keys=True))", "RESULT = json.dumps(out, sort_keys=True)") % str(REPO),
                 "<probe>", "exec"), ns)
    after = ns["RESULT"]
    rep.case(("probe",), sample={"probe": "decay/cumulative/activities/fractions/half-life, float and HP", "bytes": len(after)})
    if fresh_out is None:
        ctx.broken.append("fresh-interpreter-probe")
        rep.notes["probe_stderr"] = fresh.stderr[-500:]
    elif fresh_out != after:
        bad += 1
        a, b = json.loads(fresh_out), json.loads(after)
        diff = [k for k in a if a[k] != b.get(k)]
        rep.violation("failing-input", f"probe calculations {diff} give different bits after the histories than in a fresh interpreter",
                      {"differs": diff}, True)
    for f in os.listdir(tmpdir):
        os.unlink(os.path.join(tmpdir, f))
    os.rmdir(tmpdir)
    rep.notes["mismatches"] = bad


def search(rep, ctx) -> bool:
    return False


def replay(body, ctx) -> bool:
    print("history:", body.get("history"))
    print("re-run ./check C11 (histories are regenerated from the seed)")
    return False
