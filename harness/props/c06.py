"""C06 — a decay time means the same duration however it is expressed."""
from __future__ import annotations

from fractions import Fraction

from common import hexs, lean_driver, rng
from decaylib import F, is_finite
from oracle import DatasetView, frac_str, parse_frac

NEEDS_DATASET = True
TARGETS = ["RdVerif.Props.C06", "RdVerif.Props.C04", "RdVerif.Props.C06Float"]
THEOREMS = ["RdVerif.C06.time_table_eq_spec", "RdVerif.C06.year_units_eq_spec", "RdVerif.C06.unknown_unit_refused",
            "RdVerif.C06.timeConv_ok", "RdVerif.C06.to_seconds", "RdVerif.C06.conv_compose", "RdVerif.C06.halving_exact",
            "RdVerif.C04.rates_from_half_lives", "RdVerif.C04.year_close", "RdVerif.C06.float_conversion_within"]
PARTIAL = {
    "halving_float_partial": "that the double-precision result of decaying for the reported half-life is 1/2 to a few ulp is "
                             "checked for every radionuclide x time unit, not proved",
}
ASSUMPTIONS = ["IEEE-754 double arithmetic; SymPy exact"]
ULP = Fraction(1, 2**52)


def correspondence(rep, ctx):
    rd = ctx.rd
    import numpy as np
    import sympy
    dd = rd.DEFAULTDATA
    view = DatasetView(dd)
    r = rng(ctx.seed, "c06")
    thorough = ctx.tier == "thorough"
    convF, convS = rd.converters.UnitConverterFloat, rd.converters.UnitConverterSympy
    tunits = list(convF.time_units)
    yearF, yearS = F(dd.float_year_conv), Fraction(int(dd.sympy_year_conv.p), int(dd.sympy_year_conv.q))
    rep.corr["rule"] = (
        "all 27 time-unit strings x {time_unit_conv float, SymPy} vs the exact model; decay / cumulative_decays / "
        "decay_time_series with (t, unit) vs the equivalent seconds in both classes; Nuclide.half_life / "
        "Inventory.half_lives / DecayData.half_life in every unit vs stored half-life x exact ratio; halving identity for "
        "radionuclides x units; unknown units refused. distinct = (unit, entry point, nuclide)")
    bad = 0

    def fail(desc, msg):
        nonlocal bad
        bad += 1
        if bad <= 4:
            rep.violation("failing-input", f"{desc}: {msg}", {"case": desc}, True)

    # ---- 1. converter vs model, every ordered pair of units
    lines, items = [], []
    for a in tunits:
        for b in tunits:
            x = 10.0 ** r.uniform(-6, 6)
            got = convF.time_unit_conv(x, a, b, dd.float_year_conv)
            xs = sympy.Rational(r.randint(1, 10**6), r.choice([1, 3, 1000]))
            gots = convS.time_unit_conv(xs, a, b, dd.sympy_year_conv)
            items.append((a, b, x, got, xs, gots))
            lines.append(f"timeconv\tF\t{frac_str(F(x))}\t{hexs(a)}\t{hexs(b)}\t{frac_str(yearF)}")
            lines.append(f"timeconv\tS\t{xs.p}/{xs.q}\t{hexs(a)}\t{hexs(b)}\t{frac_str(yearS)}")
            rep.dist("converter-pairs")
    for u in ["S", "sec ", "yrs", "", "min", "Y", "µs", "readable", "Bq", None, 3]:
        for fn in (lambda: convF.time_unit_conv(1.0, u, "s", 365.0), lambda: convF.time_unit_conv(1.0, "s", u, 365.0),
                   lambda: convS.time_unit_conv(sympy.Integer(1), u, "s", sympy.Integer(365)),
                   lambda: rd.Inventory({"H-3": 1.0}).decay(1.0, u), lambda: rd.InventoryHP({"H-3": 1.0}).decay(1.0, u),
                   lambda: rd.Inventory({"H-3": 1.0}).cumulative_decays(1.0, u), lambda: dd.half_life("H-3", u) if u != "readable" else (_ for _ in ()).throw(ValueError()),
                   lambda: rd.Inventory({"H-3": 1.0}).decay_time_series(1.0, u, npoints=2)):
            rep.case(("unknown", repr(u)))
            try:
                fn()
                fail(f"time unit {u!r}", "unknown unit accepted")
            except ValueError:
                pass
            except Exception as e:  # noqa: BLE001
                fail(f"time unit {u!r}", f"raises {type(e).__name__} instead of ValueError")
        rep.dist("unknown-unit")
    model = lean_driver(lines) if ctx.build_ok else None
    for j, (a, b, x, got, xs, gots) in enumerate(items):
        rep.case(("conv", a, b), sample={"from": a, "to": b, "x": x, "float": float(got), "sympy": str(gots)} if j % 101 == 0 else None)
        if model is None:
            continue
        k, _, v = model[2 * j].partition(" ")
        if k != "ok" or abs(F(got) - parse_frac(v)) > 4 * ULP * abs(parse_frac(v)):
            fail(f"UnitConverterFloat.time_unit_conv({x!r}, {a!r}, {b!r})", f"{got!r} vs model {v}")
        k, _, v = model[2 * j + 1].partition(" ")
        if k != "ok" or not gots.is_Rational or Fraction(int(gots.p), int(gots.q)) != parse_frac(v):
            fail(f"UnitConverterSympy.time_unit_conv({xs}, {a!r}, {b!r})", f"{gots} vs model {v}")

    # ---- 2. (t, unit) vs equivalent seconds through the calculations
    radio = [i for i in range(view.n) if view.rate[i] != 0]
    spec_s = {u: view.unit_s[{"sec": "s", "second": "s", "seconds": "s", "hr": "h", "hour": "h", "hours": "h", "day": "d",
                              "days": "d", "yr": "y", "year": "y", "years": "y"}.get(u, u)] for u in tunits}
    for u in tunits:
        for rep_i in range(3 if thorough else 1):
            i = r.choice(radio)
            nm = view.names[i]
            secs = float(r.choice([0.3, 1.0, 2.5]) / view.rate[i])
            t = secs / float(spec_s[u])
            inv = rd.Inventory({nm: 1.0e9}, "num")
            desc = f"Inventory({{{nm!r}: 1e9}}) t={t!r} {u}"
            rep.case(("equiv", u, nm), sample={"unit": u, "nuclide": nm, "t": t} if rep_i == 0 and u in ("Gy", "us") else None)
            rep.dist("equivalent-seconds")
            a, b = inv.decay(t, u).numbers(), inv.decay(secs, "s").numbers()
            for k_ in a:
                if abs(F(a[k_]) - F(b[k_])) > Fraction(1, 10**11) * 10**9:
                    fail(desc, f"decay: {k_} {a[k_]!r} vs {b[k_]!r} for the equivalent seconds")
                    break
            ca, cb = inv.cumulative_decays(t, u), inv.cumulative_decays(secs, "s")
            for k_ in ca:
                if abs(F(ca[k_]) - F(cb[k_])) > Fraction(1, 10**11) * 10**9:
                    fail(desc, f"cumulative_decays: {k_} {ca[k_]!r} vs {cb[k_]!r}")
                    break
            tsr, data = inv.decay_time_series(t, u, npoints=3, decay_units="num")
            if abs(F(data[nm][-1]) - F(a[nm])) > 4 * ULP * abs(F(a[nm])) or abs(F(tsr[-1]) - F(t)) > 2 * ULP * abs(F(t)):
                fail(desc, f"decay_time_series end point {data[nm][-1]!r} at {tsr[-1]!r} vs decay {a[nm]!r}")
            if u in ("s", "My", "ms", "years") or thorough:
                h = rd.InventoryHP({nm: 1.0e9}, "num")
                ha, hb = h.decay(t, u).numbers(), h.decay(secs, "s").numbers()
                for k_ in ha:
                    if abs(F(ha[k_]) - F(hb[k_])) > Fraction(1, 10**12) * max(abs(F(ha[k_])), abs(F(hb[k_]))) + Fraction(1, 10**280):
                        fail(desc, f"HP decay: {k_} {ha[k_]!r} vs {hb[k_]!r}")
                        break
                rep.dist("equivalent-seconds-hp")

    # ---- 2b. the time given as a whole number in other numeric types: the same duration as the float of that number
    import numpy as np
    import fractions as _fr
    long_lived = [i for i in radio if float(view.rate[i]) < 1e-9][:40]
    for u in (tunits if thorough else r.sample(tunits, 10) + ["m", "h", "d", "days"]):
        i = r.choice(long_lived)
        nm = view.names[i]
        for n_int in (r.choice([3, 200, 25000, 600000]), 7):
            ref_inv = rd.Inventory({nm: 1.0e9}, "num")
            ref = ref_inv.decay(float(n_int), u).numbers()
            refc = ref_inv.cumulative_decays(float(n_int), u)
            for tv in (n_int, np.int64(n_int), np.int32(n_int), np.float32(n_int), np.float64(n_int), np.uint32(n_int)) + ((np.uint8(n_int), np.int16(n_int)) if n_int < 128 else ()):
                desc = f"Inventory({{{nm!r}: 1e9}}).decay({type(tv).__name__}({n_int}), {u!r})"
                rep.case(("numeric-type-time", u, type(tv).__name__, n_int))
                rep.dist("time-numeric-types")
                try:
                    with np.errstate(all="ignore"):
                        got = rd.Inventory({nm: 1.0e9}, "num").decay(tv, u).numbers()
                        gotc = rd.Inventory({nm: 1.0e9}, "num").cumulative_decays(tv, u)
                    if any(abs(F(got[k_]) - F(ref[k_])) > Fraction(1, 10**11) * 10**9 for k_ in ref) or \
                            any(not (abs(F(gotc[k_]) - F(refc[k_])) <= Fraction(1, 10**11) * 10**9) for k_ in refc):
                        fail(desc, f"gives {dict(list(got.items())[:2])}, the same duration as a float gives {dict(list(ref.items())[:2])}")
                except Exception as e:  # noqa: BLE001
                    fail(desc, f"raised {type(e).__name__}: {e}")

    # ---- 3. half-life queries in every unit; halving
    common_units = {"s", "m", "h", "d", "y"}
    unusual = [i for i in radio if str(dd.hldata[i][1]) not in common_units]      # e.g. Ra-219 (ms), Rn-215 (μs)
    sample = radio if thorough else list(dict.fromkeys(unusual + r.sample(radio, 120)))
    for i in sample:
        nm = view.names[i]
        hl_s = 1 / view.rate[i]                      # exact, from the stored (value, unit) pair
        for u in (tunits if thorough else r.sample(tunits, 6)):
            want = hl_s / spec_s[u]
            vals = {"DecayData": dd.half_life(nm, u), "Nuclide": rd.Nuclide(nm).half_life(u),
                    "Inventory": rd.Inventory({nm: 1.0}, "num").half_lives(u)[nm]}
            rep.case(("hl", nm, u))
            rep.dist("half-life-query")
            for who, v in vals.items():
                if not is_finite(v) or abs(F(v) - want) > 4 * ULP * want:
                    fail(f"{who}.half_life({nm!r}, {u!r})", f"{v!r} vs stored half-life converted exactly {float(want)!r}")
                    break
            # halving: decay for the reported half-life
            v = vals["DecayData"]
            left = rd.Inventory({nm: 1.0}, "num").decay(v, u).numbers()[nm]
            if abs(F(left) - Fraction(1, 2)) > 8 * ULP:
                fail(f"Inventory({{{nm!r}: 1}}).decay(half_life={v!r}, {u!r})", f"leaves {left!r}, not 1/2")
        if i % 9 == 0:
            v = dd.half_life(nm, "s")
            left = rd.InventoryHP({nm: 1}, "num").decay(v, "s").numbers()[nm]
            if abs(F(left) - Fraction(1, 2)) > Fraction(1, 10**14):
                fail(f"InventoryHP({{{nm!r}: 1}}).decay(half_life={v!r}, 's')", f"leaves {left!r}, not 1/2")
            rep.dist("halving-hp")
    # ---- 4. a dataset with a different days-per-year, used in the same process as the default one
    alt_year_checks(rd, rep, fail, r, thorough)
    for i in [j for j in range(view.n) if view.rate[j] == 0][:: (1 if thorough else 25)]:
        nm = view.names[i]
        for u in ("s", "y", "readable"):
            v = dd.half_life(nm, u)
            rep.case(("hl-stable", nm, u))
            if (u == "readable" and v != "stable") or (u != "readable" and v != float("inf")):
                fail(f"half_life({nm!r}, {u!r})", f"{v!r} for a stable nuclide")
    rep.notes["mismatches"] = bad


def alt_dataset(rd, days_f=365.25, days_q=(1461, 4)):
    """the default dataset with another days-per-year, through the public constructors; decay
    constants are re-derived from the listed half-lives with that year (exactly, on the SymPy side)"""
    import numpy as np
    import sympy
    dd = rd.DEFAULTDATA
    convF = rd.converters.UnitConverterFloat
    lam = np.array([np.log(2) / convF.time_unit_conv(h[0], units_from=h[1], units_to="s", year_conv=days_f) for h in dd.hldata])
    sd = dd.scipy_data
    sdata = rd.decaydata.DecayMatricesScipy(sd.atomic_masses, lam, sd.matrix_c, sd.matrix_c_inv)
    yq = sympy.Rational(*days_q)
    sy = dd.sympy_data
    ratio = dd.sympy_year_conv / yq
    consts = sy.decay_consts.copy()
    for i, h in enumerate(dd.hldata):
        if str(h[1]) in convF.year_units:
            consts[i] = sy.decay_consts[i] * ratio
    sydata = rd.decaydata.DecayMatricesSympy(sy.atomic_masses, consts, sy.matrix_c, sy.matrix_c_inv)
    return rd.decaydata.DecayData("verif_year_36525", dd.bfs, days_f, dd.hldata, dd.modes, dd.nuclides, dd.progeny,
                                  sdata, sydata, yq)


def alt_year_checks(rd, rep, fail, r, thorough):
    """year-based units must use the days-per-year of the dataset the inventory is bound to, whichever dataset was used
    first; nuclides with a single stable daughter are used (their matrix entries do not depend on the decay constants)"""
    dd = rd.DEFAULTDATA
    alt = alt_dataset(rd)
    convF = rd.converters.UnitConverterFloat
    year_units = sorted(convF.year_units)
    cand = []
    for i, nm in enumerate(dd.nuclides):
        h = dd.hldata[i]
        if str(h[1]) == "y" and len(dd.progeny[i]) == 1 and str(dd.progeny[i][0]) in dd.nuclide_dict and \
                dd.half_life(str(dd.progeny[i][0])) == float("inf"):
            cand.append(str(nm))
    picks = cand if thorough else r.sample(cand, min(6, len(cand)))
    mult = {"y": 1, "yr": 1, "year": 1, "years": 1, "ky": 1e3, "My": 1e6, "By": 1e9, "Gy": 1e9, "Ty": 1e12, "Py": 1e15}
    for nm in picks:
        hl_y = float(dd.hldata[dd.nuclide_dict[nm]][0])
        for ds, days in ((dd, float(dd.float_year_conv)), (alt, 365.25), (dd, float(dd.float_year_conv)), (alt, 365.25)):
            secs_hl = F(hl_y) * F(days) * 86400
            for u in year_units:
                desc = f"dataset with {days} days/year, {nm}, unit {u!r}"
                rep.case(("altyear", ds.dataset_name, nm, u))
                rep.dist("alt-days-per-year")
                t = 3 * hl_y / mult[u]
                inv = rd.Inventory({nm: 1.0e9}, "num", True, ds)
                a = inv.decay(t, u).numbers()[nm]
                b = inv.decay(float(3 * secs_hl), "s").numbers()[nm]
                if abs(F(a) - F(b)) > Fraction(1, 10**5) or abs(F(a) - Fraction(10**9, 8)) > Fraction(1, 10**4):
                    fail(desc, f"decay(3 half-lives in {u}) leaves {a!r}; with the equivalent seconds {b!r}; expected 1.25e8")
                    continue
                c1 = inv.cumulative_decays(t, u)[nm]
                if abs(F(c1) - Fraction(7 * 10**9, 8)) > Fraction(1, 10**3):
                    fail(desc, f"cumulative_decays(3 half-lives in {u}) = {c1!r}, expected 8.75e8")
                    continue
                hq = ds.half_life(nm, u)
                if abs(F(hq) - F(hl_y) / Fraction(mult[u])) > 4 * ULP * F(hl_y) / Fraction(mult[u]):
                    fail(desc, f"half_life in {u} = {hq!r}")
                    continue
            hs = ds.half_life(nm, "s")
            if abs(F(hs) - secs_hl) > 4 * ULP * secs_hl:
                fail(f"dataset with {days} days/year", f"half_life({nm!r}, 's') = {hs!r}, listed {hl_y} y x {days} d x 86400 = {float(secs_hl)!r}")
            if nm == picks[0] or thorough:
                h = rd.InventoryHP({nm: 8}, "num", True, ds)
                left = h.decay(3 * hl_y, "y").numbers()[nm]
                left_s = h.decay(float(3 * secs_hl), "s").numbers()[nm]
                if abs(F(left) - 1) > Fraction(1, 10**12) or abs(F(left_s) - 1) > Fraction(1, 10**12):
                    fail(f"dataset with {days} days/year (high precision)", f"{nm}: 8 atoms after 3 half-lives: {left!r} (years), {left_s!r} (seconds)")
                rep.dist("alt-days-per-year-hp")


def search(rep, ctx) -> bool:
    return False


def replay(body, ctx) -> bool:
    print("re-run ./check C06")
    return False
