"""C02 — high-precision decay is exact to double rounding, at every time."""
from __future__ import annotations

from fractions import Fraction

from decaylib import F, Gen, ancestors_sum, is_finite
from oracle import DatasetView, LeanOracle, eval_adaptive

NEEDS_DATASET = True
TARGETS = ["RdVerif.Props.C02", "RdVerif.Props.C04", "RdVerif.Props.C01Oracle", "RdVerif.Props.AllDatasets", "RdVerif.Props.C02Error"]
THEOREMS = ["RdVerif.C02.C02_symbolic", "RdVerif.C02.C02_single_parent", "RdVerif.C02.C02_sig_fig_ge", "RdVerif.C04.exact_inverses", "RdVerif.C04.exact_diagonalises", "RdVerif.C04.pickles_identical",
            "RdVerif.C01.C01_oracle_sound", "RdVerif.AllDatasets.exact_solution", "RdVerif.AllDatasets.oracle_sound",
            "RdVerif.C02.C02_hp_abs_error", "RdVerif.C02.C02_hp_rel_error"]
PARTIAL = {
    "C02_rel_error (arithmetic model)": "relative error <= 1e-13 for every value >= 1e-290 x the initial atoms IS a theorem "
                             "(C02_hp_rel_error) under a model of the 320-digit arithmetic stated in its hypotheses (per-term "
                             "relative perturbation and per-exponential error with Theta(1+eta)+eta <= 1e-306); that SymPy/mpmath "
                             "meet the model is assumed and observed per input against the proved oracle. Below 1e-290 the "
                             "guarantee ends — 320 digits are used up by cancellation (open known finding F6): the full "
                             "statement ('however small') is false on the shipped code",
}
ASSUMPTIONS = [
    "SymPy/mpmath round each operation correctly at the working precision; nsimplify's reading of a float is taken as the "
    "exact input (checked to be within 1e-15 relative of the double)",
]
REL = Fraction(1, 10**13)
TINY = Fraction(2225073858507201, 10**323)   # 2.2250738585072014e-308, smallest normal double (approx.)
F6_THRESHOLD = Fraction(1, 10**290)


def sym_to_frac(x):
    if not x.is_Rational:
        return None
    p, q = x.as_numer_denom()
    return Fraction(int(p), int(q))


def correspondence(rep, ctx):
    rd = ctx.rd
    import sympy
    gen = Gen(rd, ctx.seed, "c02")
    view = gen.view
    dd = rd.DEFAULTDATA
    thorough = ctx.tier == "thorough"
    rep.corr["rule"] = (
        "numeric: seeded inventories x times as in C01 (fewer, 1.5 s each) through InventoryHP.decay, compared with the "
        "verified oracle evaluated on the exact SymPy contents and exact converted time at adaptive precision: relative "
        "error <= 1e-13 per nuclide (values below 2.2e-308 excepted), nuclide set exact. symbolic: decay(Symbol('t')) of "
        "single-parent chains: every coefficient of every exponential compared as an exact rational with the model's "
        "C_ik*C^-1_kj, every exponent with r_k*ln2 at 1e-315 relative. distinct = distinct (inventory,time) / chains")
    conv = rd.converters.UnitConverterSympy
    ncases = 64 if thorough else 22
    cases = []
    for _ in range(ncases):
        contents, unit = gen.inventory(max_n=3)
        idxs = [view.index[rd.utils.parse_nuclide_str(k)] for k in contents]
        t, tu = gen.time_for(idxs)
        cases.append((contents, unit, t, tu))
    # the two inputs of finding F6 always run, so that the finding stays observable
    cases.append(({"Fm-257": 1e30}, "num", 1e-20, "s"))
    # the reading of the TIME (15 significant digits of the supplied number, then the exact unit factor): a relative error
    # eps of the time shows up as lambda*t*eps in the result, so long times (40-600 half-lives) given as non-round numbers
    # in non-second units are the sensitive inputs; and very short times in sub-second units (>= 1e-25 in their unit)
    r_ = gen.r
    for k in range(10 if thorough else 4):
        g = r_.choice(gen.radio)
        secs = float(r_.choice([40.0, 100.0, 300.0, 600.0]) * r_.uniform(0.9, 1.1) / view.rate[g])
        t, tu = gen._in_unit(secs)
        while tu in ("s", "sec"):
            t, tu = gen._in_unit(secs)
        cases.append(({view.names[g]: 10.0 ** r_.uniform(20, 30)}, "num", t, tu))
        gen._count("time:long-nonround-nonsecond")
    for k in range(6 if thorough else 3):
        g = r_.choice(gen.deep)
        cases.append(({view.names[g]: 10.0 ** r_.uniform(25, 30)}, "num", 10.0 ** r_.uniform(-25, -19), r_.choice(["ps", "ns", "us", "μs", "ms"])))
        gen._count("time:tiny-subsecond-unit")
    # inventories scaled by a Python float before the decay (their amounts become SymPy Floats): deep chains, short times
    scaled = [({"U-238": 2.0}, "mol", 1.0, "h", 0.5), ({"Th-232": 3.0}, "num", 1.0, "s", 0.25), ({"Fm-257": 1.0e10}, "num", 1.0e-3, "s", 1.0 / 3.0)]
    for contents, unit, t, tu, fac in scaled if thorough else scaled[:2]:
        cases.append((contents, unit, t, tu, fac))
        gen._count("inventory:float-scaled-hp")
    reals, ocases, meta = [], [], []
    for c in cases:
        contents, unit, t, tu = c[:4]
        try:
            inv = rd.InventoryHP(dict(contents), unit)
            if len(c) > 4:
                inv = c[4] * inv
            n0 = {view.index[k]: (sym_to_frac(sympy.Rational(v)) if getattr(v, "is_Float", False) else sym_to_frac(v)) for k, v in inv.contents.items()}
            if unit == "num" and len(c) == 4:
                # "for the supplied amounts (each taken to 15 significant digits)": the atoms the object holds are the supplied
                # numbers, whatever their magnitude (this reading is independent of the library: the shortest decimal that
                # round-trips has at most 17 digits; 15 significant digits of it differ by < 1e-14 relative)
                for key_, x_ in contents.items():
                    held = n0.get(view.index[rd.utils.parse_nuclide_str(key_)])
                    want_ = Fraction(repr(float(x_)))
                    if held is not None and abs(held - want_) > want_ / 10**14:
                        rep.violation("failing-input", f"InventoryHP({contents!r}, 'num') holds {float(held)!r} atoms of {key_}, supplied {x_!r} "
                                      f"(relative difference {float(abs(held - want_) / want_):.2e}; 15 significant digits allow 1e-14)",
                                      {"call": "hp-amount-reading", "contents": contents}, True)
                        break
            ts = sym_to_frac(conv.time_unit_conv(sympy.nsimplify(t), tu, "s", dd.sympy_year_conv))
            if any(v is None for v in n0.values()) or ts is None:
                rep.inconclusive += 1     # irrational reading (algebraic atomic mass / nsimplify artefact)
                continue
            # contract of the float reading: within 1e-15 of the double
            if ts != 0 and abs(ts - F(rd.converters.UnitConverterFloat.time_unit_conv(t, tu, "s", dd.float_year_conv))) > abs(ts) / 10**14:
                rep.violation("failing-input", f"time {t!r} {tu} is read as {float(ts)!r} s", {"case": repr(c)}, True)
            dec = inv.decay(t, tu)
            reals.append((c, dec))
            ocases.append((n0, ts))
        except Exception as e:  # noqa: BLE001
            rep.violation("failing-input", f"InventoryHP decay raised {type(e).__name__}: {e}",
                          {"call": "decayHP", "contents": contents, "unit": unit, "t": t, "tu": tu}, True)
    if ctx.build_ok and ocases:
        orc = LeanOracle()

        def need(j, o):
            for i, (lo, hi) in o.items():
                m = min(abs(lo), abs(hi))
                if max(abs(lo), abs(hi)) < TINY:
                    continue
                if lo <= 0 <= hi:
                    if hi - lo > TINY / 4:
                        return False
                elif hi - lo > REL * m / 16:
                    return False
            return True
        encls, inconclusive = eval_adaptive(orc, ocases, need, kind="decay", P0=1500, Pmax=(4600 if thorough else 3100))
        rep.inconclusive += len(inconclusive)
        bad = 0
        for j, ((c, dec), (n0, ts)) in enumerate(zip(reals, ocases)):
            rep.case(("c02", repr(c)), sample={"inventory": c[0], "unit": c[1], "t": c[2], "tu": c[3]} if j % 7 == 0 else None)
            if j in inconclusive:
                continue
            nums = dec.numbers()
            want = sorted(view.names[i] for i in view.descendants(list(n0)))
            if list(nums) != want:
                rep.violation("failing-input", f"InventoryHP nuclide set/order differs for {c!r}",
                              {"call": "decayHP", "contents": c[0], "unit": c[1], "t": c[2], "tu": c[3]}, True)
                continue
            for i, (lo, hi) in encls[j].items():
                nm = view.names[i]
                v = nums[nm]
                if not is_finite(v):
                    rep.violation("failing-input", f"{nm} = {v!r} not finite for {c!r}", {"case": repr(c)}, True)
                    break
                fv = F(v)
                mag = max(abs(lo), abs(hi))
                if mag < TINY:
                    ok = abs(fv) <= 2 * TINY
                else:
                    ok = lo - REL * mag <= fv <= hi + REL * mag
                if not ok:
                    anc = ancestors_sum(view, n0, i)
                    key = "F6-hp-digits" if mag < F6_THRESHOLD * anc else None
                    rep.violation("failing-input",
                                  f"{'(%r * ' % c[4] if len(c) > 4 else ''}InventoryHP({c[0]!r}, {c[1]!r}){')' if len(c) > 4 else ''}.decay({c[2]!r}, {c[3]!r})[{nm}] = {float(v)!r}, exact "
                                  f"{float(lo)!r} (relative error {float(abs(fv - lo) / mag) if mag else 0:.2e})",
                                  {"call": "decayHP", "contents": c[0], "unit": c[1], "t": c[2], "tu": c[3], "nuclide": nm,
                                   "how_to_replay": "./check C02 --replay <this file>"}, True, match_key=key)
                    if key is None:
                        bad += 1
                    break
        rep.notes["mismatches"] = bad
    from decaylib import mutated_object_block
    mutated_object_block(rep, ctx, "c02/mutated-object", hp_too=True, nseq=(18 if thorough else 6))
    import synthetic
    synthetic.decay_block(rep, ctx, "c02/synthetic-hp", kinds=("decay",), ndatasets=(6 if thorough else 2), per=3, hp=True)
    symbolic(rep, ctx, gen)
    rep.corr["input_distribution"].update(gen.dist)


def symbolic(rep, ctx, gen):
    """decay(Symbol('t')): coefficients exact, exponents to 315 digits"""
    rd = ctx.rd
    import sympy
    view = gen.view
    thorough = ctx.tier == "thorough"
    tsym = sympy.Symbol("t")
    parents = ([gen.deep[0], gen.deep[37]] + gen.r.sample(gen.radio, 120)) if thorough else [gen.deep[0], gen.deep[37]] + gen.r.sample(gen.radio, 3)
    if not ctx.build_ok:
        return
    orc = LeanOracle()
    lo2, hi2 = orc.ln2(1200)
    for j in parents:
        name = view.names[j]
        try:
            dec = rd.InventoryHP({name: 1}, "num").decay(tsym, "s")
        except Exception as e:  # noqa: BLE001
            rep.violation("failing-input", f"symbolic decay of {name} raised {type(e).__name__}: {e}",
                          {"call": "decayHP-symbolic", "nuclide": name}, True)
            continue
        idxs = sorted(view.descendants([j]))
        mods = orc.coeffs([({j: Fraction(1)}, i) for i in idxs])
        rep.case(("sym", name), sample={"symbolic_parent": name, "chain": len(idxs)})
        gen._count("symbolic-chain")
        for i, mod in zip(idxs, mods):
            expr = dec.contents[view.names[i]]
            got = {}
            okshape = True
            for basis, coeff in expr.as_coefficients_dict().items():
                if basis == 1:
                    c_exp = Fraction(0)
                elif basis.func == sympy.exp:
                    lin = basis.args[0]
                    cf = lin.coeff(tsym)
                    if (lin - cf * tsym) != 0 or not cf.is_Float:
                        okshape = False
                        break
                    rq = sympy.Rational(cf)
                    c_exp = -Fraction(int(rq.p), int(rq.q))
                else:
                    okshape = False
                    break
                cq = sym_to_frac(sympy.nsimplify(coeff)) if not coeff.is_Rational else sym_to_frac(coeff)
                if cq is None:
                    okshape = False
                    break
                got[c_exp] = got.get(c_exp, Fraction(0)) + cq
            if not okshape:
                rep.violation("failing-input", f"symbolic decay of {name}: amount of {view.names[i]} is not a sum of rational x exp(c t)",
                              {"call": "decayHP-symbolic", "nuclide": name, "progeny": view.names[i]}, True)
                break
            # group the model's coefficients by rate
            want = {}
            for k, a in mod.items():
                if a != 0:
                    want[view.rate[k]] = want.get(view.rate[k], Fraction(0)) + a
            want = {r_: a for r_, a in want.items() if a != 0}
            got = {c_: a for c_, a in got.items() if a != 0}
            matched = True
            if len(want) != len(got):
                matched = False
            else:
                for r_, a in want.items():
                    hit = [c_ for c_ in got if r_ * lo2 * (1 - Fraction(1, 10**315)) <= c_ <= r_ * hi2 * (1 + Fraction(1, 10**315))]
                    if len(hit) != 1 or got[hit[0]] != a:
                        matched = False
                        break
            if not matched:
                rep.violation("failing-input",
                              f"symbolic decay of {name}: N_{view.names[i]}(t) differs from the exact solution "
                              f"(coefficients {list(map(float, got.values()))[:4]} vs {list(map(float, want.values()))[:4]})",
                              {"call": "decayHP-symbolic", "nuclide": name, "progeny": view.names[i]}, True)
                break


def search(rep, ctx) -> bool:
    import props.c01 as c01
    before = len(rep.violations)
    # judge the float and HP classes against the independent Amaku oracle
    import props.c04 as c04
    return c04.search(rep, ctx)


def replay(body, ctx) -> bool:
    rd = ctx.rd
    import sympy
    view = DatasetView(rd.DEFAULTDATA)
    if body.get("call") != "decayHP":
        print("re-run ./check C02")
        return False
    from oracle import amaku_solution
    inv = rd.InventoryHP(dict(body["contents"]), body["unit"])
    n0 = {view.index[k]: sym_to_frac(v) for k, v in inv.contents.items()}
    ts = sym_to_frac(rd.converters.UnitConverterSympy.time_unit_conv(sympy.nsimplify(body["t"]), body["tu"], "s", rd.DEFAULTDATA.sympy_year_conv))
    sol = amaku_solution(view, n0, ts, digits=700)
    nums = inv.decay(body["t"], body["tu"]).numbers()
    ok = True
    for i, v in sol.items():
        exact = float(v)
        got = float(nums[view.names[i]])
        if abs(exact) > 2.3e-308 and abs(got - exact) > 1e-13 * abs(exact):
            print(view.names[i], got, exact)
            ok = False
    return ok
