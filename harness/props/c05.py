"""C05 — amounts convert consistently between every unit and quantity kind."""
from __future__ import annotations

from fractions import Fraction

from common import hexs, lean_driver, rng
from decaylib import F, is_finite
from oracle import DatasetView, frac_str, parse_frac

NEEDS_DATASET = False
TARGETS = ["RdVerif.Props.C05", "RdVerif.Props.C05Float"]
THEOREMS = ["RdVerif.C05.sympy_tables_eq_spec", "RdVerif.C05.float_tables_close_to_spec", "RdVerif.C05.float_sympy_same_units",
            "RdVerif.C05.kinds_disjoint", "RdVerif.C05.avogadro_ok", "RdVerif.C05.roundtrip_unit", "RdVerif.C05.ratio_law",
            "RdVerif.C05.roundtrip_activity", "RdVerif.C05.roundtrip_mass", "RdVerif.C05.roundtrip_moles",
            "RdVerif.C05.kinds_tied", "RdVerif.C05.refusals", "RdVerif.C05.float_roundtrip_within"]
PARTIAL = {
    "roundtrip_float (floating-point model)": "'to within a few ulp' for the double-precision class: under the standard model (each "
                               "of the <= 6 operations of a round trip commits relative error <= 2^-53) the result is within 3.5 ulp "
                               "(float_roundtrip_within); that the library's round trips consist of at most six operations on the same "
                               "stored factors is read off the source; every nuclide x unit is compared with the exact model (<= 8 ulp)",
}
ASSUMPTIONS = ["IEEE-754 double arithmetic in CPython/NumPy; SymPy rational arithmetic exact"]
ULP = Fraction(1, 2**52)


def out_rat(line):
    k, _, v = line.partition(" ")
    return ("ok", parse_frac(v)) if k == "ok" else ("err", v)


def correspondence(rep, ctx):
    rd = ctx.rd
    import sympy
    dd = rd.DEFAULTDATA
    view = DatasetView(dd)
    r = rng(ctx.seed, "c05")
    thorough = ctx.tier == "thorough"
    conv = rd.converters.UnitConverterFloat
    acts, masses, moles = list(conv.activity_units), list(conv.mass_units), list(conv.moles_units)
    units = [("activity", u) for u in acts] + [("mass", u) for u in masses] + [("moles", u) for u in moles]
    rep.corr["rule"] = (
        "float class: every nuclide of the dataset x every activity/mass/mole unit (activity for radioactive ones) as "
        "constructor input with a random amount in 1e-25..1e25, via constructor / add / subtract; stored atoms, read-back in "
        "the same unit, reading in a second unit of the kind, and the Bq/mol/g ties compared with the exact rational model "
        "(Lean) evaluated on the library's actual double constants, tolerance 8 ulp. HP class: stratified sample, exact "
        "equality of SymPy values with the model on the exact tables. distinct = (nuclide, unit, entry point)")
    lam = [F(x) for x in dd.scipy_data.decay_consts]
    mass = [F(x) for x in dd.scipy_data.atomic_masses]
    names = view.names
    nuclides = list(range(view.n)) if thorough else sorted(set(r.sample(range(view.n), 260) + list(range(0, view.n, 37))))
    lines, items = [], []
    bad = 0

    def fail(desc, msg):
        nonlocal bad
        bad += 1
        if bad <= 4:
            rep.violation("failing-input", f"{desc}: {msg}", {"case": desc}, True)

    for i in nuclides:
        nm = names[i]
        for kind, u in units:
            if kind == "activity" and lam[i] == 0:
                continue
            x = 10.0 ** r.uniform(-25, 25)
            via = r.choice(["ctor", "ctor", "add", "subtract"])
            try:
                if via == "ctor":
                    inv = rd.Inventory({nm: x}, u)
                    N = inv.contents[nm]
                elif via == "add":
                    inv = rd.Inventory({nm: 0.0}, "num")
                    inv.add({nm: x}, u)
                    N = inv.contents[nm]
                else:
                    inv = rd.Inventory({nm: 0.0}, "num")
                    inv.subtract({nm: x}, u)
                    N = -inv.contents[nm]
                    inv = rd.Inventory({nm: N}, "num")
                u2 = r.choice({"activity": acts, "mass": masses, "moles": moles}[kind])
                rd_fn = {"activity": inv.activities, "mass": inv.masses, "moles": inv.moles}[kind]
                back, other = rd_fn(u)[nm], rd_fn(u2)[nm]
                tie = {"activity": inv.activities("Bq")[nm], "mass": inv.masses("g")[nm], "moles": inv.moles("mol")[nm]}[kind]
            except Exception as e:  # noqa: BLE001
                fail(f"Inventory({{{nm!r}: {x!r}}}, {u!r}) via {via}", f"raised {type(e).__name__}: {e}")
                continue
            items.append((i, nm, kind, u, u2, x, via, N, back, other, tie))
            xs, ls, ms = frac_str(F(x)), frac_str(lam[i]), frac_str(mass[i])
            lines.append(f"tonum\tF\t{hexs(u)}\t{xs}\t{ls}\t{ms}")
            Ns = frac_str(F(N))
            lines.append(f"read\tF\t{kind}\t{hexs(u)}\t{Ns}\t{ls}\t{ms}")
            lines.append(f"read\tF\t{kind}\t{hexs(u2)}\t{Ns}\t{ls}\t{ms}")
            rep.dist(f"float:{kind}:{via}")
    model = lean_driver(lines) if (ctx.build_ok and lines) else None
    av = F(rd.converters.QuantityConverterFloat.avogadro)
    for j, (i, nm, kind, u, u2, x, via, N, back, other, tie) in enumerate(items):
        desc = f"Inventory({{{nm!r}: {x!r}}}, {u!r}) via {via}"
        rep.case((nm, u, via), sample={"nuclide": nm, "unit": u, "amount": x, "via": via, "atoms": float(N), "read_back": float(back)} if j % 1999 == 0 else None)
        if not all(is_finite(v) for v in (N, back, other, tie)):
            fail(desc, "non-finite value")
            continue
        # property-level oracle (independent of the model): read-back equals the input to a few ulp
        if abs(F(back) - F(x)) > 8 * ULP * F(x):
            fail(desc, f"reads back {back!r} {u}")
            continue
        want_tie = {"activity": lam[i] * F(N), "moles": F(N) / av, "mass": F(N) / av * mass[i]}[kind]
        if abs(F(tie) - want_tie) > 6 * ULP * abs(want_tie):
            fail(desc, f"{kind} in base unit {tie!r} is not tied to the atoms {N!r}")
            continue
        if model is not None:
            mN, mb, mo = (out_rat(model[3 * j + k]) for k in range(3))
            if mN[0] != "ok" or abs(F(N) - mN[1]) > 6 * ULP * abs(mN[1]):
                fail(desc, f"stores {N!r} atoms, model {mN}")
            elif mb[0] != "ok" or abs(F(back) - mb[1]) > 6 * ULP * abs(mb[1]):
                fail(desc, f"read-back {back!r}, model {mb}")
            elif mo[0] != "ok" or abs(F(other) - mo[1]) > 6 * ULP * abs(mo[1]):
                fail(desc, f"reading in {u2} = {other!r}, model {mo}")

    # ---- high-precision class: exact equality with the model on the exact tables
    sy = dd.sympy_data
    hp_n = 400 if thorough else 60
    hp_lines, hp_items = [], []
    ln2 = sympy.log(2)
    for _ in range(hp_n):
        i = r.choice(nuclides)
        nm = names[i]
        kind, u = r.choice(units)
        rate = view.rate[i]
        if kind == "activity" and rate == 0:
            continue
        if not sy.atomic_masses[i].is_Rational:
            continue
        x = sympy.Rational(r.randint(1, 10**6), r.choice([1, 2, 8, 1000, 10**9]))
        if sympy.nsimplify(x) != x:
            rep.inconclusive += 1     # nsimplify would read this rational as an algebraic number (C02's 15-digit reading)
            continue
        inv = rd.InventoryHP({nm: x}, u)
        N = inv.contents[nm]
        # amounts of the HP class live in Q(ln 2): N = q / ln2 for activity input
        # (no nsimplify here: it reads exact values below ~1e-30 as 0 — the stored amount is read as it is)
        q = sympy.cancel(N * ln2) if kind == "activity" else N
        if not q.is_Rational:
            rep.inconclusive += 1
            continue
        m = sy.atomic_masses[i]
        hp_items.append((nm, kind, u, x, Fraction(int(q.p), int(q.q)), inv))
        # the model works in units of ln2: λ = r (the factor ln 2 is carried symbolically)
        hp_lines.append(f"tonum\tS\t{hexs(u)}\t{x.p}/{x.q}\t{frac_str(rate)}\t{m.p}/{m.q}")
        rep.dist(f"hp:{kind}")
    hp_model = lean_driver(hp_lines) if (ctx.build_ok and hp_lines) else None
    for j, (nm, kind, u, x, q, inv) in enumerate(hp_items):
        desc = f"InventoryHP({{{nm!r}: {x}}}, {u!r})"
        rep.case(("hp", nm, u, str(x)), sample={"cls": "HP", "nuclide": nm, "unit": u, "amount": str(x), "atoms": str(q)} if j % 17 == 0 else None)
        if hp_model is not None:
            mo = out_rat(hp_model[j])
            if mo != ("ok", q):
                fail(desc, f"stores {q} (x1/ln2 for activity), model {mo}")
                continue
        back = {"activity": inv.activities, "mass": inv.masses, "moles": inv.moles}[kind](u)[nm]
        if abs(F(back) - Fraction(int(x.p), int(x.q))) > 2 * ULP * Fraction(int(x.p), int(x.q)):
            fail(desc, f"reads back {back!r}")
    # ---- high-precision class with FLOAT amounts: the stored value is the input read to 15 significant digits
    hpf_lines, hpf_items = [], []
    for _ in range(1500 if thorough else 250):
        i = r.choice(nuclides)
        nm = names[i]
        kind, u = r.choice(units + [("num", "num")] * 4)
        rate = view.rate[i]
        if kind == "activity" and rate == 0:
            continue
        if not sy.atomic_masses[i].is_Rational:
            continue
        x = 10.0 ** r.uniform(-24, 25)
        via = r.choice(["ctor", "ctor", "add", "subtract"])
        try:
            if via == "ctor":
                inv = rd.InventoryHP({nm: x}, u)
                N = inv.contents[nm]
            elif via == "add":
                inv = rd.InventoryHP({nm: 0}, "num")
                inv.add({nm: x}, u)
                N = inv.contents[nm]
            else:
                inv = rd.InventoryHP({nm: 0}, "num")
                inv.subtract({nm: x}, u)
                N = -inv.contents[nm]
        except Exception as e:  # noqa: BLE001
            fail(f"InventoryHP({{{nm!r}: {x!r}}}, {u!r}) via {via}", f"raised {type(e).__name__}: {e}")
            continue
        q = sympy.cancel(N * ln2) if kind == "activity" else N       # not nsimplify: it reads exact values below ~1e-30 as 0
        try:
            qf = Fraction(str(sympy.N(q, 40)))
        except Exception:  # noqa: BLE001
            rep.inconclusive += 1
            continue
        m = sy.atomic_masses[i]
        hpf_items.append((nm, kind, u, x, qf, via))
        hpf_lines.append(f"tonum\tS\t{hexs(u)}\t{frac_str(F(x))}\t{frac_str(rate)}\t{m.p}/{m.q}")
        rep.dist(f"hp-float:{kind}:{via}")
    hpf_model = lean_driver(hpf_lines) if (ctx.build_ok and hpf_lines) else None
    for j, (nm, kind, u, x, qf, via) in enumerate(hpf_items):
        desc = f"InventoryHP({{{nm!r}: {x!r}}}, {u!r}) via {via}"
        rep.case(("hpf", nm, u, x, via), sample={"cls": "HP", "nuclide": nm, "unit": u, "amount": x, "via": via} if j % 61 == 0 else None)
        if hpf_model is not None:
            mo = out_rat(hpf_model[j])
            if mo[0] != "ok" or abs(qf - mo[1]) > Fraction(1, 10**14) * abs(mo[1]):
                fail(desc, f"stores {float(qf)!r} atoms (x ln2 for activity); the amount read to 15 digits gives {mo[1] and float(mo[1])!r}")
    rep.corr["exhaustive"] = thorough
    # ---- one dictionary naming several nuclides of very different atomic mass / decay constant: each is converted with its
    #      OWN constants (constructor, add, subtract; both classes)
    for C in (rd.Inventory, rd.InventoryHP):
        for u in ("g", "kg", "pg", "mol", "Bq", "Ci"):
            for group in (("H-3", "U-238", "Co-60"), ("Cs-137", "C-14"), ("Tc-99m", "Pu-239", "Be-10", "I-131")):
                amts = {nm: 1.5 + 0.25 * k_ for k_, nm in enumerate(group)}
                conv = rd.converters.UnitConverterFloat
                rd_ = (lambda inv_: inv_.activities(u) if u in conv.activity_units else inv_.masses(u) if u in conv.mass_units else inv_.moles(u))
                for via in ("ctor", "add", "subtract"):
                    desc = f"{C.__name__} {via} {amts!r} {u!r}"
                    rep.case(("multi-nuclide-dict", C.__name__, u, group, via))
                    rep.dist("multi-nuclide-dictionary")
                    try:
                        if via == "ctor":
                            inv = C(dict(amts), u)
                            want = {nm: F(a) for nm, a in amts.items()}
                        else:
                            inv = C({nm: 10.0 for nm in group}, u)
                            getattr(inv, via)(dict(amts), u)
                            want = {nm: F(10.0) + (F(a) if via == "add" else -F(a)) for nm, a in amts.items()}
                        got = rd_(inv)
                        for nm in group:
                            if abs(F(got[nm]) - want[nm]) > 16 * ULP * abs(want[nm]):
                                fail(desc, f"{nm} reads back {got[nm]!r} {u}, expected {float(want[nm])!r}")
                                break
                    except Exception as e:  # noqa: BLE001
                        fail(desc, f"raised {type(e).__name__}: {e}")
    # ---- subtract() of a nuclide the inventory does not hold: its reading in the unit of the input is 0 - q (both classes)
    for C in (rd.Inventory, rd.InventoryHP):
        for nm, u, q in (("Co-60", "Bq", 2.5), ("Cs-137", "g", 4.0), ("Sr-90", "mmol", 0.125), ("H-3", "num", 7.0), ("Ra-226", "Ci", 1.5)):
            desc = f"{C.__name__}({{'K-40': 1.0}}, 'mol').subtract({{{nm!r}: {q!r}}}, {u!r})"
            rep.case(("subtract-absent", C.__name__, nm, u))
            rep.dist("subtract-absent-nuclide")
            try:
                inv = C({"K-40": 1.0}, "mol")
                inv.subtract({nm: q}, u)
                conv = rd.converters.UnitConverterFloat
                got = F((inv.activities(u) if u in conv.activity_units else inv.masses(u) if u in conv.mass_units
                         else inv.moles(u) if u in conv.moles_units else inv.numbers())[nm])
                if abs(got + F(q)) > 8 * ULP * F(q):
                    fail(desc, f"{nm} reads back {float(got)!r} {u}, expected {-q!r}")
                inv.add({nm: q}, u)
                back = F(inv.numbers()[nm])
                if abs(back) > Fraction(1, 10**3):
                    fail(desc, f"then add() of the same input leaves {float(back)!r} atoms instead of 0")
            except Exception as e:  # noqa: BLE001
                fail(desc, f"raised {type(e).__name__}: {e}")
    # ---- "mass = moles x THE DATASET'S atomic mass": two revisions of a synthetic dataset under ONE name, loaded from two
    #      directories in this process, with different atomic masses and half-lives — each class must use the data of the
    #      dataset object it was given
    import copy
    import synthetic
    for k_ in range(4 if thorough else 1):
        sch1 = synthetic.make_scheme(view, r)
        sch2 = copy.deepcopy(sch1)
        sch2["masses"] = [float(f"{m * (1 + 1e-3 * (j_ + 1)):.9f}") for j_, m in enumerate(sch1["masses"])]
        ds1, _, p1 = synthetic.build(rd, view, r, f"c05_{ctx.seed}_{k_}_rev1", sch=sch1, name="verif_same_name")
        ds2, _, p2 = synthetic.build(rd, view, r, f"c05_{ctx.seed}_{k_}_rev2", sch=sch2, name="verif_same_name")
        try:
            for ds_, sch_ in ((ds2, sch2), (ds1, sch1)):
                for j_, nm in enumerate(sch_["names"][:6]):
                    mass = Fraction(repr(sch_["masses"][j_]))
                    for C in (rd.Inventory, rd.InventoryHP):
                        desc = f"{C.__name__}({{{nm!r}: 2.5}}, 'mol', dataset revision with atomic mass {float(mass)!r})"
                        rep.case(("same-name-datasets", k_, nm, C.__name__))
                        rep.dist("dataset-revisions-under-one-name")
                        try:
                            inv = C({nm: 2.5}, "mol", True, ds_)
                            got_g = F(inv.masses("g")[nm])
                            got_mol = F(C({nm: 5.0}, "g", True, ds_).moles("mol")[nm])
                            if abs(got_g - Fraction(5, 2) * mass) > Fraction(5, 2) * mass / 10**13 or abs(got_mol - 5 / mass) > (5 / mass) / 10**13:
                                fail(desc, f"masses('g') = {float(got_g)!r} (expected {float(Fraction(5, 2) * mass)!r}), 5 g -> "
                                           f"{float(got_mol)!r} mol (expected {float(5 / mass)!r})")
                        except Exception as e:  # noqa: BLE001
                            fail(desc, f"raised {type(e).__name__}: {e}")
        finally:
            synthetic.cleanup(p1)
            synthetic.cleanup(p2)
    rep.notes["mismatches"] = bad


PREFIX = {"p": Fraction(1, 10**12), "n": Fraction(1, 10**9), "μ": Fraction(1, 10**6), "u": Fraction(1, 10**6),
          "m": Fraction(1, 1000), "": Fraction(1), "k": Fraction(1000), "M": Fraction(10**6), "G": Fraction(10**9),
          "T": Fraction(10**12), "P": Fraction(10**15), "E": Fraction(10**18)}


def spec_factor(unit: str):
    """the unit in Bq / g / mol, from the SI prefixes and 1 Ci = 3.7e10 Bq, 1 dpm = 1/60 Bq, t = ton = 1e6 g — written
    out here independently of both the library and the Lean tables"""
    if unit == "dpm":
        return "activity", Fraction(1, 60)
    if unit in ("t", "ton"):
        return "mass", Fraction(10**6)
    for base, kind, f in (("Bq", "activity", Fraction(1)), ("Ci", "activity", Fraction(37 * 10**9)), ("mol", "moles", Fraction(1)),
                          ("g", "mass", Fraction(1))):
        if unit.endswith(base) and unit[:-len(base)] in PREFIX:
            return kind, PREFIX[unit[:-len(base)]] * f
    return None, None


def search(rep, ctx) -> bool:
    """a tie broke (a unit table no longer equals the specification, or a theorem is gone): look for a unit pair whose
    readings do not differ by the defined ratio, on the real code, both classes"""
    rd = ctx.rd
    found = False
    for cls, conv in ((rd.Inventory, rd.converters.UnitConverterFloat), (rd.InventoryHP, rd.converters.UnitConverterSympy)):
        for table, reader in ((conv.activity_units, "activities"), (conv.mass_units, "masses"), (conv.moles_units, "moles")):
            units = list(table)
            for u1 in units:
                k1, f1 = spec_factor(u1)
                if f1 is None:
                    continue
                try:
                    inv = cls({"H-3": 2.5}, u1)
                except Exception:  # noqa: BLE001
                    continue
                for u2 in units:
                    k2, f2 = spec_factor(u2)
                    if f2 is None or k2 != k1:
                        continue
                    got = F(getattr(inv, reader)(u2)["H-3"])
                    want = Fraction(5, 2) * f1 / f2
                    if abs(got - want) > want / 10**12:
                        rep.violation("failing-input", f"{cls.__name__}({{'H-3': 2.5}}, {u1!r}).{reader}({u2!r}) = {float(got)!r}, "
                                      f"the defined ratio of the units gives {float(want)!r}",
                                      {"call": "unit-ratio", "cls": cls.__name__, "unit_in": u1, "unit_out": u2}, True)
                        found = True
                        break
                if found:
                    break
            if found:
                break
    return found


def replay(body, ctx) -> bool:
    print("re-run ./check C05")
    return False
