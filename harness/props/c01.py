"""C01 — float decay equals the exact Bateman solution of the dataset."""
from __future__ import annotations

from fractions import Fraction

from decaylib import F, Gen, U53, ancestors_sum, is_finite, within
from oracle import DatasetView, LeanOracle, amaku_solution, eval_adaptive

NEEDS_DATASET = True
TARGETS = ["RdVerif.Props.C01", "RdVerif.Props.C04", "RdVerif.Props.C01Oracle", "RdVerif.Props.C04Error", "RdVerif.Props.C01Set",
           "RdVerif.Props.C01Error", "RdVerif.Props.AllDatasets"]
THEOREMS = ["RdVerif.C01.C01_exact", "RdVerif.C01.C01_closed_form", "RdVerif.C01.C01_stable", "RdVerif.C01.C01_oracle_factor", "RdVerif.C01.C01_oracle_sound", "RdVerif.C01.C01_oracle_cached", "RdVerif.C01.C01_ln2_certified", "RdVerif.C01.C01_nuclide_set", "RdVerif.C01.C01_forward_error", "RdVerif.C01.C01_forward_error_ancestors",
            "RdVerif.C01.C01_fp_exp", "RdVerif.C01.C01_fp_product", "RdVerif.AllDatasets.exact_solution", "RdVerif.AllDatasets.nuclide_set",
            "RdVerif.AllDatasets.oracle_sound", "RdVerif.AllDatasets.stable", "RdVerif.AllDatasets.forward_error",
            "RdVerif.AllDatasets.shipped_is_instance", "RdVerif.C04.float_data_contribution", "RdVerif.C04.exact_inverses", "RdVerif.C04.exact_diagonalises", "RdVerif.C04.pattern_is_ancestors", "RdVerif.C04.float_aggregate_bound"]
PARTIAL = {
    "C01_forward_error (floating-point model)": "the 1e-11 bound IS a theorem for the shipped dataset (C01_forward_error_ancestors: 5e-12 from the "
                               "stored doubles + 4e-12 from rounding), under the standard model of floating-point arithmetic stated "
                               "in its hypotheses (each operation relative error <= 2^-53, exp <= 2^-52; C01_fp_exp, C01_fp_product "
                               "derive the hypotheses from it). That NumPy/SciPy satisfy the model is assumed; every generated input "
                               "is compared with the oracle, which is PROVED to enclose the exact solution (C01_oracle_sound)",
    "synthetic datasets": "exactness, nuclide set and oracle soundness are theorems for every dataset accepted by the executable checker "
                               "wellFormedB (AllDatasets.*); the driver evaluates wellFormedB on each synthetic dataset as the library "
                               "loaded it (compiled evaluation); the float tolerance on a synthetic dataset is the bound of "
                               "AllDatasets.forward_error evaluated by the driver (errorBoundQ at the smallest tolerances passing "
                               "errorCheckedB); compiled evaluation, not the kernel",
}
ASSUMPTIONS = [
    "NumPy/SciPy perform IEEE-754 double arithmetic (np.exp within 1 ulp; sparse products in some order)",
    "synthetic datasets: descendant-closed parts of the shipped graph with new half-lives and branching fractions",
]
TOL = Fraction(1, 10**11)


def mpf_frac(v) -> Fraction:
    """exact value of an mpmath number; values below 2^-20000 are taken as 0 (exp(-1e30) has an exponent of 1e30 bits:
    converting it literally never ends)"""
    import mpmath
    v = mpmath.mpf(v)
    if v == 0:
        return Fraction(0)
    man, exp = v.man_exp
    if exp < -20000:
        return Fraction(0)
    return Fraction(int(man)) * (Fraction(2) ** int(exp)) if exp < 0 else Fraction(int(man) * 2 ** int(exp))


def build_cases(rd, gen: Gen, ncases):
    cases = []
    for _ in range(ncases):
        contents, unit = gen.inventory()
        idxs = []
        # indices of the nuclides named (through the library's own parser — C09 covers it)
        for k in contents:
            idxs.append(gen.view.index[rd.utils.parse_nuclide_str(k)])
        t, tu = gen.time_for(idxs)
        cases.append((contents, unit, t, tu))
    return cases


def run_real(rd, case):
    contents, unit, t, tu = case
    inv = rd.Inventory(dict(contents), unit)
    n0 = {k: F(v) for k, v in inv.contents.items()}
    ts = F(rd.converters.UnitConverterFloat.time_unit_conv(t, tu, "s", rd.DEFAULTDATA.float_year_conv))
    dec = inv.decay(t, tu)
    return inv, n0, ts, dec


def exercise_other_calls(rd, view, inv, dec, t, tu, k):
    """between two cases: other public calculations on the objects just used (a decayed inventory holds stable
    nuclides; cumulative decays; the high-precision class) — a later case must not be affected by them — and the
    nuclides of a mixture decayed one by one must give exactly their own chains"""
    msgs = []
    try:
        if k % 3 == 0:
            dec.cumulative_decays(t if t > 0 else 1.0, tu)
        if k % 17 == 0 and len(inv.contents) <= 2:
            rd.InventoryHP({n: 1.0 for n in inv.contents}, "num").cumulative_decays(1.0, "d")
        if len(inv.contents) > 1:
            for nm in inv.contents:
                alone = rd.Inventory({nm: 1.0}, "num").decay(t, tu)
                want = sorted(view.names[i] for i in view.descendants([view.index[nm]]))
                if list(alone.contents) != want:
                    msgs.append(f"after decaying a mixture holding {nm}, decaying {nm} alone gives {list(alone.contents)[:6]}…, "
                                f"its chain is {want[:6]}…")
                    break
    except Exception as e:  # noqa: BLE001
        msgs.append(f"follow-up calculation raised {type(e).__name__}: {e}")
    return msgs


def judge_case(rd, view, case, n0_names, ts, dec, encl, report):
    """encl: {idx: (lo, hi)} exact enclosures of the true solution for (n0, ts)"""
    names = view.names
    n0 = {view.index[k]: v for k, v in n0_names.items()}
    nums = dec.numbers()
    keys = list(nums)
    want = sorted(names[i] for i in view.descendants(list(n0)))
    if keys != want:
        report("nuclide set/order differs: got %s..., expected %s..." % (keys[:6], want[:6]))
        return False
    if sorted(names[i] for i in encl) != want:
        report("model index set differs from the dataset's descendant closure")
        return False
    acts = dec.activities()
    ok = True
    for i, (lo, hi) in encl.items():
        nm = names[i]
        v = nums[nm]
        if not is_finite(v):
            report(f"{nm} = {v!r} is not finite")
            return False
        tol = TOL * ancestors_sum(view, n0, i)
        if not within(F(v), lo, hi, tol):
            report(f"{nm}: computed {float(v)!r}, exact in [{float(lo)!r}, {float(hi)!r}], allowed deviation {float(tol):.3e}")
            ok = False
            break
        if view.rate[i] == 0 and not (float(acts[nm]) == 0.0):
            report(f"stable {nm} reports activity {acts[nm]!r}")
            ok = False
            break
    return ok


def correspondence(rep, ctx, ncases=None, oracle_kind="lean"):
    rd = ctx.rd
    gen = Gen(rd, ctx.seed, "c01")
    view = gen.view
    thorough = ctx.tier == "thorough"
    ncases = ncases or (3000 if thorough else 300)
    rep.corr["rule"] = (
        "seeded inventories (1-6 nuclides stratified by chain depth, amounts 1e-25..1e30 atoms or 1e-12..1e12 in "
        "activity/mass/mole units, respelled names) x times (log-uniform 1e-25..1e30 s, multiples of chain members' "
        "half-lives incl. exp-underflow edges, 0) in random time units; real Inventory.decay compared with the verified "
        "interval oracle on the stored atoms and converted seconds: nuclide set and order exact, every amount within "
        "1e-11 x ancestors' atoms, finite, stable activity exactly 0. thorough adds every radionuclide as single parent. "
        "distinct = distinct (inventory, time) pairs; non-trivial = all (each has at least one radioactive chain member "
        "or checks the stable path)")
    cases = build_cases(rd, gen, ncases)
    # amounts of exactly zero are legitimate ("non-negative"): the nuclide and its progeny are still part of the result
    for _ in range(60 if thorough else 12):
        idxs = [gen.nuclide() for _ in range(gen.r.choice([1, 2, 3]))]
        contents = {view.names[i]: (0.0 if (k_ == 0 or gen.r.random() < 0.4) else 10.0 ** gen.r.uniform(0, 20)) for k_, i in enumerate(dict.fromkeys(idxs))}
        t, tu = gen.time_for(list(dict.fromkeys(idxs)))
        cases.append((contents, "num", t, tu))
        gen._count("inventory:zero-amounts")
    # every radionuclide with a half-life below one second as the single parent, at times around (and far below) it —
    # durations of nanoseconds to milliseconds are ordinary inputs for these
    for i in gen.radio:
        if float(view.rate[i]) > 1.0:
            for mult in (1e-3, 0.05, 1.0):
                secs = float(mult / view.rate[i])
                tu = gen.r.choice(["s", "ms", "μs", "ns", "ps"])
                cases.append(({view.names[i]: 1.0e6}, "num", secs / float(view.unit_s[tu]), tu))
                gen._count("nuclide:sub-second half-life")
    if thorough:
        for i in gen.radio:
            for mult in (0.01, 1.0, 40.0):
                cases.append(({view.names[i]: 1.0e6}, "num", float(mult / view.rate[i]), "s"))
    reals = []
    for k_, c in enumerate(cases):
        try:
            reals.append(run_real(rd, c))
            extra = exercise_other_calls(rd, view, reals[-1][0], reals[-1][3], c[2], c[3], k_)
            for m_ in extra[:1]:
                rep.violation("failing-input", f"Inventory({c[0]!r}, {c[1]!r}).decay({c[2]!r}, {c[3]!r}): {m_}",
                              {"call": "decay", "contents": c[0], "unit": c[1], "t": c[2], "tu": c[3]}, True)
        except Exception as e:  # noqa: BLE001
            rep.violation("failing-input", f"decay raised {type(e).__name__}: {e}", {"case": repr(c)}, True)
            reals.append(None)
    live = [k for k, x in enumerate(reals) if x is not None]
    ocases = [({view.index[nm]: v for nm, v in reals[k][1].items()}, reals[k][2]) for k in live]
    if oracle_kind == "lean" and ctx.build_ok:
        orc = LeanOracle()

        def need(j, o):
            n0 = ocases[j][0]
            for i, (lo, hi) in o.items():
                tol = TOL * ancestors_sum(view, n0, i)
                if hi - lo > tol / 64 and hi - lo > 0:
                    if tol == 0 and hi - lo == 0:
                        continue
                    return False
            return True
        encls, inconclusive = eval_adaptive(orc, ocases, need, kind="decay", P0=160, Pmax=1300)
        rep.inconclusive += len(inconclusive)
    else:
        import time as _time
        encls, inconclusive = [], []
        t_end = _time.time() + 240          # the independent oracle is slow: bounded search
        for n0, ts in ocases:
            if _time.time() > t_end:
                break
            try:
                sol = amaku_solution(view, n0, ts, digits=80, deadline=t_end)
            except TimeoutError:
                break
            encls.append({i: (mpf_frac(v) - Fraction(1, 10**60) * abs(mpf_frac(v)),
                              mpf_frac(v) + Fraction(1, 10**60) * abs(mpf_frac(v))) for i, v in sol.items()})
    bad = 0
    for j, k in enumerate(live):
        if j >= len(encls):
            break
        case = cases[k]
        inv, n0n, ts, dec = reals[k]
        rep.case(("c01", repr(case)), sample={"inventory": case[0], "unit": case[1], "t": case[2], "tu": case[3],
                                               "n_out": len(dec.contents)} if j % 97 == 0 else None)
        if j in inconclusive:
            continue
        msgs = []
        ok = judge_case(rd, view, case, n0n, ts, dec, encls[j], msgs.append)
        if not ok:
            bad += 1
            if bad <= 3:
                rep.violation("failing-input", f"Inventory({case[0]!r}, {case[1]!r}).decay({case[2]!r}, {case[3]!r}): " + "; ".join(msgs),
                              {"call": "decay", "contents": case[0], "unit": case[1], "t": case[2], "tu": case[3],
                               "how_to_replay": "./check C01 --replay <this file>"}, True)
    bad += all_single_block(rep, ctx, gen)
    from decaylib import mutated_object_block
    bad += mutated_object_block(rep, ctx, "c01/mutated-object", hp_too=False)
    bad += subset_block(rep, ctx, gen)
    if oracle_kind == "lean":
        import synthetic
        bad += synthetic.decay_block(rep, ctx, "c01/synthetic", kinds=("decay",))
    rep.corr["input_distribution"].update(gen.dist)
    rep.notes["mismatches"] = bad


def all_single_block(rep, ctx, gen):
    """EVERY nuclide of the dataset as a one-nuclide inventory (the nuclide-set clause is exact, so it can be decided
    for the whole finite family of single parents): keys of decay(t) = the nuclide and all its progeny, alphabetical;
    at t = 0 the parent keeps its amount and every progeny stays 0, to within the bound"""
    rd, view, r = ctx.rd, gen.view, gen.r
    bad = 0
    for i in range(view.n):
        nm = view.names[i]
        want = sorted(view.names[g] for g in view.descendants([i]))
        t = 0.0 if (i + ctx.seed) % 2 == 0 or view.rate[i] == 0 else float(r.choice([0.01, 1.0, 20.0]) / view.rate[i])
        try:
            got = rd.Inventory({nm: 1.0e6}, "num").decay(t, "s").numbers()
            msg = None
            if list(got) != want:
                missing = sorted(set(want) - set(got))
                extra = sorted(set(got) - set(want))
                msg = (f"nuclide set/order differs from the chain of {nm}: missing {missing[:4]}, unexpected {extra[:4]}"
                       if missing or extra else "order differs")
            elif t == 0.0 and (abs(got[nm] - 1.0e6) > 1e-5 or any(abs(v) > 1e-5 for k, v in got.items() if k != nm)):
                # (C * I * C^-1 * N0 in doubles is not bit-exactly N0: the stated bound is 1e-11 of the parent's atoms)
                msg = f"amounts change at t = 0 by more than 1e-11 of the parent's atoms: {dict(list(got.items())[:4])}"
        except Exception as e:  # noqa: BLE001
            msg = f"raised {type(e).__name__}: {e}"
        gen._count("single-parent-all")
        rep.case(("all-single", nm, t), sample={"single_parent": nm, "t_s": t, "n_out": len(want)} if i % 500 == 0 else None)
        if msg:
            bad += 1
            if bad <= 3:
                rep.violation("failing-input", f"Inventory({{{nm!r}: 1e6}}, 'num').decay({t!r}, 's'): {msg}",
                              {"call": "decay", "contents": {nm: 1.0e6}, "unit": "num", "t": t, "tu": "s"}, True)
    return bad


def subset_block(rep, ctx, gen):
    """non-default datasets built through the public constructors: descendant-closed sub-chains of the shipped dataset,
    re-indexed; every decay on them must agree with the same decay on the full dataset (which the oracle covers)"""
    from oracle import subset_dataset
    rd, view, r = ctx.rd, gen.view, gen.r
    bad = 0
    for k in range(40 if ctx.tier == "thorough" else 8):
        roots = [gen.nuclide() for _ in range(r.choice([1, 2, 3]))]
        try:
            ds, names = subset_dataset(rd, view, roots, name=f"verif_subset_{k}")
        except Exception as e:  # noqa: BLE001
            rep.violation("failing-input", f"building a sub-dataset of {[view.names[g] for g in roots]} through the public "
                          f"constructors raised {type(e).__name__}: {e}", {"roots": [view.names[g] for g in roots]}, True)
            bad += 1
            continue
        for _ in range(6):
            picks = r.sample(names, min(len(names), r.choice([1, 2, 3])))
            contents = {nm: 10.0 ** r.uniform(-5, 20) for nm in picks}
            t, tu = gen.time_for([view.index[nm] for nm in picks])
            desc = f"Inventory({contents!r}, 'num', decay_data=<sub-dataset of {[view.names[g] for g in roots]}>).decay({t!r}, {tu!r})"
            rep.case(("subset", k, repr(contents), t, tu), sample={"subset_roots": [view.names[g] for g in roots], "inventory": contents, "t": t, "tu": tu} if k == 0 else None)
            gen._count("sub-dataset")
            try:
                a = rd.Inventory(dict(contents), "num", True, ds).decay(t, tu)
                b = rd.Inventory(dict(contents), "num").decay(t, tu)
                if a.decay_data is not ds:
                    raise AssertionError("the decayed inventory is bound to another dataset")
                an, bn = a.numbers(), b.numbers()
                tot = sum(abs(F(v)) for v in contents.values())
                if list(an) != list(bn) or any(abs(F(an[x]) - F(bn[x])) > TOL * tot for x in an):
                    raise AssertionError(f"{dict(list(an.items())[:3])} vs on the full dataset {dict(list(bn.items())[:3])}")
            except Exception as e:  # noqa: BLE001
                bad += 1
                rep.violation("failing-input", f"{desc}: {type(e).__name__}: {e}", {"call": "subset-decay", "roots": [view.names[g] for g in roots]}, True)
                break
    return bad


def search(rep, ctx) -> bool:
    """a tie broke: judge the real code against the independent Amaku oracle (no Lean needed)"""
    before = len(rep.violations)
    correspondence(rep, ctx, ncases=200, oracle_kind="amaku")
    return any(v["found"] for v in rep.violations[before:])


def replay(body, ctx) -> bool:
    rd = ctx.rd
    view = DatasetView(rd.DEFAULTDATA)
    case = (body["contents"], body["unit"], body["t"], body["tu"])
    inv, n0n, ts, dec = run_real(rd, case)
    n0 = {view.index[nm]: v for nm, v in n0n.items()}
    sol = amaku_solution(view, n0, ts, digits=80)
    encl = {i: (mpf_frac(v) - Fraction(1, 10**60) * abs(mpf_frac(v)),
                mpf_frac(v) + Fraction(1, 10**60) * abs(mpf_frac(v))) for i, v in sol.items()}
    msgs = []
    ok = judge_case(rd, view, case, n0n, ts, dec, encl, msgs.append)
    print("\n".join(msgs))
    return ok
