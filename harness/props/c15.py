"""C15 — decay-data queries report the dataset faithfully and agree with each other."""
from __future__ import annotations

from fractions import Fraction

from common import hexs, lean_driver, rng, unhexs
from decaylib import F
from invlib import respell
from oracle import DatasetView, parse_frac

NEEDS_DATASET = True
TARGETS = ["RdVerif.Props.C15"]
THEOREMS = ["RdVerif.C15.lookup_listed", "RdVerif.C15.lookup_nonmember", "RdVerif.C15.half_life_conv",
            "RdVerif.C15.half_life_stable", "RdVerif.C15.readable_denotes_same", "RdVerif.C15.listed_data_ok"]
PARTIAL = {}
ASSUMPTIONS = ["float half-life conversion compared with the exact ratio to 4 ulp (IEEE-754)"]
ULP = Fraction(1, 2**52)


def correspondence(rep, ctx):
    rd = ctx.rd
    dd = rd.DEFAULTDATA
    view = DatasetView(dd)
    r = rng(ctx.seed, "c15")
    thorough = ctx.tier == "thorough"
    tunits = list(rd.converters.UnitConverterFloat.time_units)
    rep.corr["rule"] = (
        "every nuclide of the dataset: half-life through DecayData / Nuclide / Inventory in time units (all 27 in thorough, "
        "6 random + storage unit in quick) and 'readable', against the model's exact conversion of the translated (value, "
        "unit) pair (4 ulp) and the file's readable string; progeny / branching fractions / decay modes lists through the three "
        "interfaces against the translated lists; pairwise look-ups for every listed link and every non-link within the chain "
        "(parent x each descendant and each ancestor) against the model's linear search; atomic masses; names addressed by "
        "random spellings. distinct = (nuclide, query)")
    bad = 0

    def fail(desc, msg):
        nonlocal bad
        bad += 1
        if bad <= 4:
            rep.violation("failing-input", f"{desc}: {msg}", {"case": desc}, True)

    lines, items = [], []
    for i, nm in enumerate(view.names):
        stored_unit = str(dd.hldata[i][1])
        units = tunits if thorough else sorted(set(r.sample(tunits, 6) + [stored_unit]))
        spelled = respell(r, nm) if r.random() < 0.3 else nm
        nuc = rd.Nuclide(spelled)
        inv = rd.Inventory({spelled: 1.0}, "num")
        for u in units:
            vals = (dd.half_life(spelled, u), nuc.half_life(u), inv.half_lives(u)[nm])
            items.append(("hl", i, nm, u, vals))
            lines.append(f"hl\ticrp107\t{i}\t{hexs(u)}")
        rd_vals = (dd.half_life(spelled, "readable"), nuc.half_life("readable"), inv.half_lives("readable")[nm])
        if len(set(rd_vals)) != 1 or rd_vals[0] != str(dd.hldata[i][2]):
            fail(f"half_life({nm!r}, 'readable')", f"{rd_vals} vs stored {dd.hldata[i][2]!r}")
        rep.case(("readable", nm))
        # lists through the three interfaces
        lists = ((nuc.progeny(), nuc.branching_fractions(), nuc.decay_modes()),
                 (inv.progeny()[nm], inv.branching_fractions()[nm], inv.decay_modes()[nm]),
                 (list(dd.progeny[i]), list(dd.bfs[i]), list(dd.modes[i])))
        items.append(("lists", i, nm, None, lists))
        lines.append(f"linksof\ticrp107\t{i}")
        if float(nuc.atomic_mass) != float(dd.scipy_data.atomic_masses[i]):
            fail(f"Nuclide({nm!r}).atomic_mass", f"{nuc.atomic_mass!r}")
        # pairwise look-ups: every listed progeny, plus non-links within the chain
        cands = [p for p in view.progeny[i] if p in view.index]
        chain = sorted(view.descendants([i]) | view.ancestors(i))
        others = [view.names[g] for g in (chain if thorough or len(chain) <= 8 else r.sample(chain, 8))]
        for pn in sorted(set(cands + others)):
            ps = respell(r, pn) if r.random() < 0.2 else pn
            got = (dd.branching_fraction(spelled, ps), dd.decay_mode(spelled, ps))
            items.append(("pair", i, nm, pn, got))
            lines.append(f"bfq\ticrp107\t{i}\t{hexs(pn)}")
    model = lean_driver(lines) if ctx.build_ok else None
    for j, (kind, i, nm, x, got) in enumerate(items):
        rep.case((kind, nm, x), sample={"query": kind, "nuclide": nm, "arg": x, "real": str(got)[:120]} if j % 4999 == 0 else None)
        rep.dist(kind)
        if kind == "hl":
            if not (float(got[0]) == float(got[1]) == float(got[2])):
                fail(f"half_life({nm!r}, {x!r})", f"interfaces disagree: {got}")
                continue
            if model is None:
                continue
            m = model[j]
            if m == "ok inf":
                if float(got[0]) != float("inf"):
                    fail(f"half_life({nm!r}, {x!r})", f"{got[0]!r} for a stable nuclide")
            elif m.startswith("ok "):
                want = parse_frac(m[3:])
                if got[0] == float("inf") or abs(F(got[0]) - want) > 4 * ULP * want:
                    fail(f"half_life({nm!r}, {x!r})", f"{got[0]!r}, stored half-life converted exactly = {float(want)!r}")
            else:
                fail(f"half_life({nm!r}, {x!r})", f"model refuses the unit: {m}")
        elif kind == "lists":
            a, b, c = got
            if not (list(a[0]) == list(b[0]) == list(c[0]) and list(a[1]) == list(b[1]) == list(c[1]) and list(a[2]) == list(b[2]) == list(c[2])):
                fail(f"progeny/branching_fractions/decay_modes of {nm!r}", "interfaces disagree")
                continue
            if not (len(a[0]) == len(a[1]) == len(a[2])) or any(a[1][k] < a[1][k + 1] for k in range(len(a[1]) - 1)):
                fail(f"lists of {nm!r}", "not aligned / not in order of decreasing branching fraction")
                continue
            if model is not None:
                want = []
                for item in model[j][3:].split(" "):
                    if item:
                        n_, b_, m_ = item.split(":")
                        want.append((unhexs(n_), parse_frac(b_), unhexs(m_)))
                have = [(str(p), Fraction(repr(float(bf))), str(md)) for p, bf, md in zip(*a)]
                if have != want:
                    fail(f"lists of {nm!r}", f"{have} vs translated file content {want}")
        else:
            if model is None:
                continue
            _, bq, mq = model[j].split(" ")
            want_bf, want_mode = parse_frac(bq), unhexs(mq)
            if Fraction(repr(float(got[0]))) != want_bf or str(got[1]) != want_mode:
                fail(f"branching_fraction/decay_mode({nm!r}, {x!r})", f"{got} vs listed ({float(want_bf)}, {want_mode!r})")
    # ---- a non-default dataset (descendant-closed sub-chain, through the public constructors)
    from oracle import subset_dataset
    for k in range(12 if thorough else 3):
        roots = r.sample(range(view.n), 2)
        ds, names = subset_dataset(rd, view, roots, name=f"verif_subset_{k}")
        for nm in names:
            rep.case(("subset", k, nm))
            rep.dist("sub-dataset")
            try:
                n1, n0 = rd.Nuclide(nm, ds), rd.Nuclide(nm)
                same = (float(ds.half_life(nm, "d")) == float(dd.half_life(nm, "d")) and ds.half_life(nm, "readable") == dd.half_life(nm, "readable")
                        and list(n1.progeny()) == list(n0.progeny()) and list(n1.branching_fractions()) == list(n0.branching_fractions())
                        and list(n1.decay_modes()) == list(n0.decay_modes()) and float(n1.atomic_mass) == float(n0.atomic_mass))
                for p_ in n0.progeny():
                    if p_ in names:
                        same = same and ds.branching_fraction(nm, p_) == dd.branching_fraction(nm, p_) and ds.decay_mode(nm, p_) == dd.decay_mode(nm, p_)
                if not same:
                    fail(f"sub-dataset of {[view.names[g] for g in roots]}", f"queries about {nm} differ from the full dataset")
            except Exception as e:  # noqa: BLE001
                fail(f"sub-dataset of {[view.names[g] for g in roots]}", f"query about {nm} raised {type(e).__name__}: {e}")
        outsider = next(n for n in view.names if n not in names)
        try:
            ds.half_life(outsider)
            fail(f"sub-dataset {k}", f"half_life({outsider!r}) accepted although it is not in that dataset")
        except ValueError:
            pass
    # ---- the same scheme written with every progeny list in the opposite order, next to the default dataset in one
    #      process: pairwise look-ups are about (parent, progeny), not about list positions
    for k in range(6 if thorough else 2):
        branching = [i for i in range(view.n) if len(view.children[i]) >= 2] if hasattr(view, "children") else []
        roots = r.sample(branching, 2) if branching else r.sample(range(view.n), 2)
        ds, names = subset_dataset(rd, view, roots, name=f"verif_reversed_{k}", reverse_links=True)
        for q_, nm in enumerate(names):
            n0 = rd.Nuclide(nm)
            prog = [str(p_) for p_ in n0.progeny()]
            others = r.sample(names, min(3, len(names)))
            for p_ in prog + others:
                if p_ not in names:
                    continue          # incl. the pseudo-progeny 'SF': it is not a nuclide, a look-up naming it is refused
                rep.case(("reversed", k, nm, p_))
                rep.dist("reversed-list-dataset")
                try:
                    if q_ % 2:
                        a = (dd.branching_fraction(nm, p_), dd.decay_mode(nm, p_))
                        b = (ds.branching_fraction(nm, p_), ds.decay_mode(nm, p_))
                    else:
                        b = (ds.branching_fraction(nm, p_), ds.decay_mode(nm, p_))
                        a = (dd.branching_fraction(nm, p_), dd.decay_mode(nm, p_))
                    want = (0.0, "")
                    if p_ in prog:
                        j_ = prog.index(p_)
                        want = (float(n0.branching_fractions()[j_]), str(n0.decay_modes()[j_]))
                    if (float(a[0]), str(a[1])) != want or (float(b[0]), str(b[1])) != want:
                        fail(f"branching_fraction/decay_mode({nm!r}, {p_!r})", f"default dataset gives {a}, the same scheme with "
                             f"reversed progeny lists gives {b}; listed: {want}")
                except Exception as e:  # noqa: BLE001
                    fail(f"branching_fraction/decay_mode({nm!r}, {p_!r}) on two datasets", f"raised {type(e).__name__}: {e}")
            rev = rd.Nuclide(nm, ds)
            if list(rev.progeny()) != prog[::-1] or [float(x) for x in rev.branching_fractions()] != [float(x) for x in n0.branching_fractions()][::-1]:
                fail(f"lists of {nm!r} on the reversed-list dataset", "do not follow that dataset's own lists")
    # ---- the dataset still reports the same lists after decay-chain diagrams and plots were drawn from it (chains with
    #      spontaneous fission, isomers, long and short chains): lists through all three interfaces vs the snapshot
    import matplotlib
    matplotlib.use("Agg")
    import matplotlib.pyplot as plt
    snapshot = {nm: (list(dd.progeny[i]), list(dd.bfs[i]), list(dd.modes[i]), tuple(dd.hldata[i])) for i, nm in enumerate(view.names)}
    sf_parents = [nm for i, nm in enumerate(view.names) if "SF" in [str(p) for p in dd.progeny[i]]]
    drawn = r.sample(sf_parents, min(3, len(sf_parents))) + ["U-238", "Cf-252", "Mo-99"] + [view.names[i] for i in r.sample(range(view.n), 3)]
    import networkx as _nx
    for nm in view.names:                       # the builder behind Nuclide.plot(), for every root (fast: no rendering)
        rd.nuclide._build_decay_digraph(rd.Nuclide(nm), _nx.DiGraph())
    for nm in drawn:
        try:
            fig, ax = rd.Nuclide(nm).plot()
            plt.close(fig)
            fig, ax = rd.Inventory({nm: 1.0}, "num").plot(1.0, "d", npoints=2) if view.rate[view.index[nm]] != 0 else (None, None)
            if fig is not None:
                plt.close(fig)
        except Exception as e:  # noqa: BLE001
            fail(f"Nuclide({nm!r}).plot()", f"raised {type(e).__name__}: {e}")
    rep.dist("after-plots", len(drawn))
    for i, nm in enumerate(view.names):
        now = (list(dd.progeny[i]), list(dd.bfs[i]), list(dd.modes[i]), tuple(dd.hldata[i]))
        nuc = rd.Nuclide(nm)
        if now != snapshot[nm] or list(nuc.progeny()) != snapshot[nm][0] or list(nuc.decay_modes()) != snapshot[nm][2]:
            fail(f"progeny/branching_fractions/decay_modes of {nm!r} after drawing the decay-chain diagrams of all nuclides (and plots of {drawn})",
                 f"now {now[0]} / {list(nuc.progeny())}, before {snapshot[nm][0]}")
            break
    rep.case(("after-plots", tuple(drawn)))
    # ---- synthetic datasets loaded through load_dataset(dir_path=…): queries vs the model run on the same dataset
    import synthetic
    for k in range(8 if thorough else 2):
        tag = f"c15_{ctx.seed}_{k}"
        ds, sch, path = synthetic.build(rd, view, r, tag)
        try:
            sview = DatasetView(ds)
            slines, sitems = [], []
            for i, nm in enumerate(sview.names):
                for u in sorted(set(r.sample(tunits, 4) + [str(ds.hldata[i][1]), "s"])):
                    sitems.append(("hl", nm, u, ds.half_life(nm, u)))
                    slines.append(f"hl\tsyn\t{i}\t{hexs(u)}")
                for pn in sview.names:
                    sitems.append(("pair", nm, pn, (ds.branching_fraction(nm, pn), ds.decay_mode(nm, pn))))
                    slines.append(f"bfq\tsyn\t{i}\t{hexs(pn)}")
            if not ctx.build_ok:
                continue
            prelude = synthetic.driver_lines(ds, "syn")
            out = lean_driver(prelude + slines)[len(prelude):]
            for (kind, nm, x, got), m in zip(sitems, out):
                rep.case(("synthetic", tag, kind, nm, x))
                rep.dist("synthetic-dataset:" + kind)
                desc = f"synthetic dataset ({sch['names'][:4]}…, half-life of {nm}: {ds.hldata[sview.index[nm]][2]})"
                if kind == "hl":
                    if m == "ok inf":
                        if float(got) != float("inf"):
                            fail(f"{desc}: half_life({nm!r}, {x!r})", f"{got!r} for a stable nuclide")
                    elif m.startswith("ok "):
                        want = parse_frac(m[3:])
                        if got == float("inf") or abs(F(got) - want) > 4 * ULP * want:
                            fail(f"{desc}: half_life({nm!r}, {x!r})", f"{got!r}, stored half-life converted exactly = {float(want)!r}")
                    else:
                        fail(f"{desc}: half_life({nm!r}, {x!r})", f"model refuses: {m}")
                else:
                    _, bq, mq = m.split(" ")
                    if Fraction(repr(float(got[0]))) != parse_frac(bq) or str(got[1]) != unhexs(mq):
                        fail(f"{desc}: branching_fraction/decay_mode({nm!r}, {x!r})", f"{got} vs listed ({float(parse_frac(bq))}, {unhexs(mq)!r})")
        finally:
            synthetic.cleanup(path)
    rep.corr["exhaustive"] = thorough
    rep.notes["mismatches"] = bad


def search(rep, ctx) -> bool:
    return False


def replay(body, ctx) -> bool:
    print("re-run ./check C15")
    return False
