"""C09 — every documented nuclide spelling resolves to one canonical nuclide."""
from __future__ import annotations

import itertools

from common import hexs, lean_driver, rng, unhexs

TARGETS = ["RdVerif.Props.C09", "RdVerif.Props.C09Elements"]
THEOREMS = ["RdVerif.C09.all_forms_elemFirst", "RdVerif.C09.all_forms_massFirst", "RdVerif.C09.canonical_fixed_point", "RdVerif.C09.parse_idempotent", "RdVerif.C09.id_roundtrip", "RdVerif.C09.attrs_agree",
            "RdVerif.C09.element_table_is_periodic_table", "RdVerif.C09.symbol_table_is_inverse"]

# the periodic table, written out independently of the library (the expectation for "Z agrees with the name")
PERIODIC = ("H He Li Be B C N O F Ne Na Mg Al Si P S Cl Ar K Ca Sc Ti V Cr Mn Fe Co Ni Cu Zn Ga Ge As Se Br Kr Rb Sr Y Zr "
            "Nb Mo Tc Ru Rh Pd Ag Cd In Sn Sb Te I Xe Cs Ba La Ce Pr Nd Pm Sm Eu Gd Tb Dy Ho Er Tm Yb Lu Hf Ta W Re Os Ir Pt "
            "Au Hg Tl Pb Bi Po At Rn Fr Ra Ac Th Pa U Np Pu Am Cm Bk Cf Es Fm Md No Lr Rf Db Sg Bh Hs Mt Ds Rg Cn Nh Fl Mc "
            "Lv Ts Og").split()
PARTIAL = {}
ASSUMPTIONS = [
    "model is exact for ASCII strings; non-ASCII spellings are outside the documented forms",
    "Python's int(x / 10000) equals truncating integer division for |x| < 2^52",
]

WS = [" ", "\t", "\n", "\x0b", "\x0c", "\r", "\x1c", "\x1d", "\x1e", "\x1f"]
# "with arbitrary whitespace": every character Python's str.isspace() knows (29 in the BMP: no-break space, thin space,
# ideographic space, line / paragraph separators, ...); the Lean model is ASCII-only, so spellings holding one of these are
# judged against the name known by construction only
UWS = [chr(c) for c in range(0x10000) if chr(c).isspace() and ord(chr(c)) > 0x7f]
MASSES_QUICK = [1, 2, 9, 10, 11, 99, 100, 101, 137, 238, 299, 300]
FORMS = ["El-As", "ElAs", "AsEl", "As-El", "el-as", "EL-AS", "elas"]


def spell(el: str, A, st: str, form: str) -> str:
    A = str(A)
    if form == "El-As":
        return f"{el}-{A}{st}"
    if form == "ElAs":
        return f"{el}{A}{st}"
    if form == "AsEl":
        return f"{A}{st}{el}"
    if form == "As-El":
        return f"{A}{st}-{el}"
    if form == "el-as":
        return f"{el.lower()}-{A}{st}"
    if form == "EL-AS":
        return f"{el.upper()}-{A}{st.upper()}"
    if form == "elas":
        return f"{el.lower()}{A}{st}"
    raise ValueError(form)


def outcome(fn, *args):
    """canonicalised result of a real call: ('ok', value) or ('err', class name)"""
    try:
        return ("ok", fn(*args))
    except Exception as e:  # noqa: BLE001
        return ("err", err_name(e))


def err_name(e) -> str:
    from radioactivedecay.utils import NuclideStrError
    if isinstance(e, NuclideStrError):
        return "NuclideStrError"
    for cls in (ValueError, TypeError, NotImplementedError, IndexError, KeyError, ZeroDivisionError):
        if type(e) is cls:
            return cls.__name__
    for cls in (ValueError, TypeError, NotImplementedError, IndexError, KeyError, ZeroDivisionError):
        if isinstance(e, cls):
            return cls.__name__
    return "Other:" + type(e).__name__


def model_out(line: str):
    """'ok 1.2.3' / 'err X' → ('ok', str) / ('err', X)"""
    k, _, v = line.partition(" ")
    if k == "ok":
        return ("ok", unhexs(v))
    return ("err", v)


def all_names_dataset(rd, names):
    """a DecayData whose nuclide list is `names` (built through the public constructors)"""
    import numpy as np
    from scipy import sparse
    n = len(names)
    eye = sparse.identity(n, format="csr")
    sd = rd.decaydata.DecayMatricesScipy(np.ones(n), np.zeros(n), eye, eye)
    obj = np.empty(n, dtype=object)
    for i in range(n):
        obj[i] = []
    hld = np.array([(np.inf, "s", "stable")] * n, dtype=object)
    return rd.decaydata.DecayData("verif_all_names", obj.copy(), 365.2422, hld, obj.copy(),
                                  np.array(names), obj.copy(), sd)


def correspondence(rep, ctx):
    rd = ctx.rd
    utils = rd.utils
    elements = list(enumerate(PERIODIC, 1))      # NOT utils.Z_DICT: the expectation must not come from the code under test
    states = [""] + list(utils.METASTABLE_CHARS)
    thorough = ctx.tier == "thorough"
    masses = list(range(1, 301)) if thorough else MASSES_QUICK
    r = rng(ctx.seed, "c09")
    rep.corr["rule"] = (
        "spellings: every element x every state x 7 forms x mass numbers (%s); random whitespace/case "
        "variants; ids of every (Z,A,state); attributes through Nuclide on a dataset holding all names; "
        "each case compared three ways: real code vs Lean model vs canonical name known by construction. "
        "distinct = distinct input strings/ids; all are non-trivial (each is a different spelling)"
        % ("1..300" if thorough else ",".join(map(str, masses))))

    # ---- 1. exhaustive forms
    cases = []   # (kind, input, expected)
    for (Z, el), st, A, form in itertools.product(elements, states, masses, FORMS):
        s = spell(el, A, st, form)
        cases.append(("str", s, f"{el}-{A}{st}"))
        rep.dist("form:" + form)
    # ---- 2. whitespace / case variants (element-first: any case; mass-first: whitespace only)
    nvar = 200000 if thorough else 20000
    for _ in range(nvar):
        Z, el = r.choice(elements)
        st = r.choice(states)
        A = r.randint(1, 300)
        form = r.choice(FORMS[:4])
        elx, stx = el, st
        if form in ("El-As", "ElAs"):
            elx = "".join(c.upper() if r.random() < 0.5 else c.lower() for c in el)
            stx = st.upper() if r.random() < 0.3 else st
        As = str(A) if r.random() < 0.9 else "0" * r.randint(1, 3) + str(A)
        s = spell(elx, As, stx, form)
        k = r.choice([0, 1, 1, 2, 3, 6])
        for _ in range(k):
            p = r.randint(0, len(s))
            s = s[:p] + r.choice(WS) * r.randint(1, 2) + s[p:]
        cases.append(("str", s, f"{el}-{As}{st}"))
        rep.dist("variant:ws%d" % k)
    # ---- 3. canonical ids
    for (Z, el), st, A in itertools.product(elements, states, masses):
        cid = Z * 10000000 + A * 10000 + (states.index(st))
        cases.append(("id", cid, f"{el}-{A}{st}"))
        rep.dist("id")

    lines = [("parse_str\t" + hexs(c[1])) if c[0] == "str" else f"parse_id\t{c[1]}" for c in cases]
    model = None
    if ctx.build_ok:
        model = lean_driver(lines)
    nbad = 0
    for i, (kind, x, exp) in enumerate(cases):
        real = outcome(utils.parse_nuclide_str if kind == "str" else utils.parse_id, x)
        rep.case((kind, x), sample={"input": x, "real": real, "expected": exp} if i % 9973 == 0 else None)
        if real != ("ok", exp):
            nbad += 1
            if nbad <= 5:
                rep.violation("failing-input", f"{kind} {x!r} resolves to {real}, expected {exp!r}",
                              {"call": "parse_nuclide_str" if kind == "str" else "parse_id", "input": x,
                               "expected": exp, "observed": real,
                               "how_to_replay": f"./check C09 --replay <this file>"}, True)
        elif model is not None and model_out(model[i]) != real:
            nbad += 1
            if nbad <= 5:
                ctx.broken.append(f"correspondence:{kind}:{x!r}")
                rep.notes.setdefault("divergences", []).append(
                    {"input": x, "real": real, "model": model_out(model[i])})

    # ---- 3b. non-ASCII whitespace (not sent to the ASCII model): every such character, in every position class
    for j_ in range(30000 if thorough else 3000):
        Z, el = r.choice(elements)
        st = r.choice(states)
        A = r.randint(1, 300)
        s = spell(el, str(A), st, r.choice(FORMS[:4]))
        for _ in range(r.choice([1, 1, 2, 3])):
            p = r.randint(0, len(s))
            s = s[:p] + (UWS[j_ % len(UWS)] if _ == 0 else r.choice(UWS + WS)) + s[p:]
        real = outcome(utils.parse_nuclide_str, s)
        rep.case(("ustr", s))
        rep.dist("variant:unicode-whitespace")
        if real != ("ok", f"{el}-{A}{st}"):
            nbad += 1
            if nbad <= 5:
                rep.violation("failing-input", f"str {s!r} (with the whitespace character U+{ord(UWS[j_ % len(UWS)]):04X}) resolves to {real}, "
                              f"expected {el}-{A}{st}", {"call": "parse_nuclide_str", "input": s, "expected": f"{el}-{A}{st}", "observed": real}, True)

    # ---- 4. idempotence on the real code, attributes and ids through Nuclide
    names = [f"{el}-{A}{st}" for (Z, el), st, A in itertools.product(elements, states, masses)]
    ds = all_names_dataset(rd, names)
    alines = ["attrs\t" + hexs(n) for n in names]
    amodel = lean_driver(alines) if ctx.build_ok else None
    idx = 0
    for (Z, el), st, A in itertools.product(elements, states, masses):
        name = names[idx]
        nuc = outcome(rd.Nuclide, name, ds)
        exp = (Z, A, st, Z * 10000000 + A * 10000 + states.index(st))
        if nuc[0] != "ok":
            got = nuc
            real_attrs = None
        else:
            n = nuc[1]
            real_attrs = tuple(outcome(lambda a=a: getattr(n, a)) for a in ("Z", "A", "state", "id"))
            got = tuple(v[1] if v[0] == "ok" else v for v in real_attrs)
        rep.case(("attrs", name), sample={"nuclide": name, "attrs": got} if idx % 997 == 0 else None)
        rep.dist("attrs:state=" + (st or "ground"))
        if got != exp:
            key = "F1-attrs-pqrx" if st in ("p", "q", "r", "x") else None
            rep.violation("failing-input", f"Nuclide({name!r}) reports (Z,A,state,id)={got}, expected {exp}",
                          {"call": "Nuclide.attrs", "input": name, "expected": exp, "observed": got,
                           "how_to_replay": "./check C09 --replay <this file>"}, True, match_key=key)
            if key is None:
                nbad += 1
        elif amodel is not None:
            m = amodel[idx].split("|")
            mv = []
            for j, part in enumerate(m):
                k, _, v = part.partition(" ")
                if k == "ok":
                    mv.append(unhexs(v) if j == 2 else int(v))
                else:
                    mv.append(("err", v))
            if tuple(mv) != exp:
                ctx.broken.append(f"correspondence:attrs:{name}")
                rep.notes.setdefault("divergences", []).append({"input": name, "real": got, "model": mv})
        # id → Nuclide round trip
        if nuc[0] == "ok" and got == exp:
            back = outcome(rd.Nuclide, exp[3], ds)
            if back[0] != "ok" or back[1].nuclide != name:
                rep.violation("failing-input", f"id {exp[3]} does not round-trip to {name}: {back}",
                              {"call": "Nuclide(id)", "input": exp[3], "expected": name,
                               "observed": str(back)}, True)
        idx += 1

    # ---- 5. the same spellings through other entry points, on the default dataset
    dd = rd.DEFAULTDATA
    dnames = list(dd.nuclides)
    sample = dnames if thorough else r.sample(dnames, 150)
    for name in sample:
        el, rest = name.split("-")
        A = "".join(c for c in rest if c.isdigit())
        st = rest[len(A):]
        form = r.choice(FORMS)
        s = spell(el, A, st, form)
        s = s.replace(A, A + r.choice(["", " ", "\t"]), 1)
        rep.case(("entry", s), sample=None)
        rep.dist("entry-points")
        res = {}
        res["Nuclide"] = outcome(lambda: rd.Nuclide(s).nuclide)
        res["Inventory"] = outcome(lambda: list(rd.Inventory({s: 1.0}, "num").contents))
        res["InventoryHP"] = outcome(lambda: list(rd.InventoryHP({s: 1.0}, "num").contents))

        def rm():
            inv = rd.Inventory({name: 1.0, "H-3": 1.0} if name != "H-3" else {name: 1.0, "C-14": 1.0}, "num")
            inv.remove(s)
            return [n for n in (name,) if n in inv.contents]
        res["remove"] = outcome(rm)
        res["half_life"] = outcome(lambda: dd.half_life(s) == dd.half_life(name))
        res["by_id"] = outcome(lambda: rd.Nuclide(rd.Nuclide(name).id).nuclide)
        exp = {"Nuclide": ("ok", name), "Inventory": ("ok", [name]), "InventoryHP": ("ok", [name]),
               "remove": ("ok", []), "half_life": ("ok", True), "by_id": ("ok", name)}
        # the pairwise dataset queries: the spelling (or id) may name the parent or the progeny
        i_ = list(dd.nuclides).index(name)
        kids = [str(p) for p in dd.progeny[i_] if str(p) in set(dnames)]
        if kids:
            kid = kids[0]
            res["bf(spelled parent)"] = outcome(lambda: (dd.branching_fraction(s, kid), dd.decay_mode(s, kid)) == (dd.branching_fraction(name, kid), dd.decay_mode(name, kid)) and dd.branching_fraction(name, kid) > 0)
            exp["bf(spelled parent)"] = ("ok", True)
        pars = [j_ for j_, ps in enumerate(dd.progeny) if name in [str(p) for p in ps]]
        if pars:
            par = str(dd.nuclides[pars[0]])
            for label_, arg_ in (("bf(spelled progeny)", s), ("bf(progeny id)", rd.Nuclide(name).id)):
                res[label_] = outcome(lambda a_=arg_: (dd.branching_fraction(par, a_), dd.decay_mode(par, a_)) == (dd.branching_fraction(par, name), dd.decay_mode(par, name)) and dd.branching_fraction(par, name) > 0)
                exp[label_] = ("ok", True)
        for k in exp:
            if res[k] != exp[k]:
                rep.violation("failing-input", f"{k} with spelling {s!r}: {res[k]}, expected {exp[k]}",
                              {"call": k, "input": s, "expected": str(exp[k]), "observed": str(res[k])}, True)
    rep.corr["exhaustive"] = thorough
    rep.notes["mismatches"] = nbad


def search(rep, ctx) -> bool:
    """A tie broke (translator / theorem / divergence).  The correspondence run above already
    judged every generated spelling against the name known by construction; widen it."""
    rd = ctx.rd
    utils = rd.utils
    found = False
    states = [""] + list(utils.METASTABLE_CHARS)
    for Z, el in enumerate(PERIODIC, 1):
        got = (outcome(utils.Z_to_elem, Z), outcome(utils.elem_to_Z, el))
        if got != (("ok", el), ("ok", Z)):
            rep.violation("failing-input", f"element table: Z_to_elem({Z}) = {got[0]}, elem_to_Z({el!r}) = {got[1]}; "
                          f"element {Z} is {el}", {"call": "Z_to_elem", "input": Z, "expected": el, "observed": str(got)}, True)
            return True
    for (Z, el), st, A, form in itertools.product(list(enumerate(PERIODIC, 1)), states, range(1, 301), FORMS):
        s = spell(el, A, st, form)
        real = outcome(utils.parse_nuclide_str, s)
        if real != ("ok", f"{el}-{A}{st}"):
            rep.violation("failing-input", f"{s!r} resolves to {real}", {"call": "parse_nuclide_str", "input": s,
                          "expected": f"{el}-{A}{st}", "observed": real}, True)
            found = True
            break
    return found


def replay(body, ctx) -> bool:
    rd = ctx.rd
    call, x = body["call"], body["input"]
    if call == "parse_nuclide_str":
        return outcome(rd.utils.parse_nuclide_str, x) == ("ok", body["expected"])
    if call == "parse_id":
        return outcome(rd.utils.parse_id, x) == ("ok", body["expected"])
    if call == "Nuclide.attrs":
        ds = all_names_dataset(rd, [x])
        n = rd.Nuclide(x, ds)
        got = tuple(outcome(lambda a=a: getattr(n, a)) for a in ("Z", "A", "state", "id"))
        got = tuple(v[1] if v[0] == "ok" else v for v in got)
        return list(got) == list(body["expected"])
    if call == "Nuclide(id)":
        ds = all_names_dataset(rd, [body["expected"]])
        return outcome(lambda: rd.Nuclide(x, ds).nuclide) == ("ok", body["expected"])
    return False
