"""C07 — decay is a linear, time-additive flow."""
from __future__ import annotations

from fractions import Fraction

from decaylib import F, Gen, ancestors_sum, is_finite, within
from oracle import DatasetView, LeanOracle, eval_adaptive

NEEDS_DATASET = True
TARGETS = ["RdVerif.Props.C07", "RdVerif.Props.C01Oracle", "RdVerif.Props.AllDatasets"]
THEOREMS = ["RdVerif.C07.flow_add", "RdVerif.C07.flow_zero", "RdVerif.C07.flow_linear", "RdVerif.C07.flow_split",
            "RdVerif.C07.companions", "RdVerif.C07.flow_split_perm", "RdVerif.C07.flow_smul", "RdVerif.C07.flow_of_zero",
            "RdVerif.C07.flow_sub", "RdVerif.C07.flow_combination", "RdVerif.C07.flow_split_combination",
            "RdVerif.C01.C01_oracle_sound", "RdVerif.AllDatasets.flow_add", "RdVerif.AllDatasets.flow_zero",
            "RdVerif.AllDatasets.flow_linear", "RdVerif.AllDatasets.flow_split"]
PARTIAL = {
    "C07_float_partial": "the exact flow laws are theorems; that the double-precision / 320-digit results obey them within the "
                         "sum of the per-call error bounds is checked per input (both sides against each other and against "
                         "the verified oracle)",
}
ASSUMPTIONS = ["IEEE-754 / SymPy arithmetic as in C01/C02"]
TOL = Fraction(1, 10**11)
REL = Fraction(1, 10**13)


def correspondence(rep, ctx):
    rd = ctx.rd
    gen = Gen(rd, ctx.seed, "c07")
    view = gen.view
    r = gen.r
    dd = rd.DEFAULTDATA
    thorough = ctx.tier == "thorough"
    ncases = 1200 if thorough else 120
    nhp = 24 if thorough else 4
    rep.corr["rule"] = (
        "seeded: (a) t split into k<=4 pieces, chained decay vs single decay, both vs the verified oracle at the total time; "
        "(b) (a*X+Y).decay(t) vs a*X.decay(t)+Y.decay(t); (c) X alone vs X inside a mixture with unrelated companions; (d) "
        "decay(0) returns the same amounts; float tolerance = number of calls x 1e-11 x total atoms, HP relative 1e-13. "
        "distinct = distinct (law, inventories, times)")
    conv = rd.converters.UnitConverterFloat
    bad = 0

    def fail(law, desc, msg):
        nonlocal bad
        bad += 1
        if bad <= 4:
            rep.violation("failing-input", f"{law}: {desc}: {msg}", {"law": law, "case": desc}, True)

    # ---------------- (a) splitting, float
    split_cases, ocases = [], []
    for _ in range(ncases):
        contents, unit = gen.inventory(max_n=3)
        idxs = [view.index[rd.utils.parse_nuclide_str(n)] for n in contents]
        t, tu = gen.time_for(idxs)
        k = r.choice([2, 2, 3, 4])
        cuts = sorted(r.random() for _ in range(k - 1))
        parts = [b - a for a, b in zip([0.0] + cuts, cuts + [1.0])]
        ts = [t * p for p in parts]
        inv = rd.Inventory(dict(contents), unit)
        cur = inv
        for x in ts:
            cur = cur.decay(x, tu)
        one = inv.decay(sum(ts), tu)
        n0 = {view.index[nm]: F(v) for nm, v in inv.contents.items()}
        tsec = F(conv.time_unit_conv(sum(ts), tu, "s", dd.float_year_conv))
        split_cases.append((contents, unit, ts, tu, cur.numbers(), one.numbers(), k))
        ocases.append((n0, tsec))
        gen._count(f"split:k={k}")
    if ctx.build_ok:
        orc = LeanOracle()

        def need(j, o):
            n0 = ocases[j][0]
            tot = sum(abs(a) for a in n0.values())
            return all(hi - lo <= TOL * tot / 64 or hi == lo for lo, hi in o.values())
        encls, inconclusive = eval_adaptive(orc, ocases, need, kind="decay", P0=160, Pmax=1300)
        rep.inconclusive += len(inconclusive)
    else:
        encls, inconclusive = None, []
    for j, (contents, unit, ts, tu, chained, one, k) in enumerate(split_cases):
        rep.case(("split", repr(contents), repr(ts)), sample={"law": "split", "inventory": contents, "unit": unit, "pieces": ts, "tu": tu} if j % 41 == 0 else None)
        n0 = ocases[j][0]
        tot = sum(abs(a) for a in n0.values())
        desc = f"Inventory({contents!r}, {unit!r}) pieces {ts!r} {tu}"
        if list(chained) != list(one):
            fail("time-additivity", desc, "nuclide sets differ")
            continue
        for nm in one:
            a, b = chained[nm], one[nm]
            if not (is_finite(a) and is_finite(b)):
                fail("time-additivity", desc, f"{nm} not finite")
                break
            if abs(F(a) - F(b)) > (k + 1) * TOL * tot:
                fail("time-additivity", desc, f"{nm}: chained {a!r} vs single {b!r}")
                break
            if encls is not None and j not in inconclusive:
                lo, hi = encls[j][view.index[nm]]
                if not within(F(a), lo, hi, k * TOL * tot):
                    fail("time-additivity", desc, f"{nm}: chained {a!r}, exact {float(lo)!r}")
                    break

    # ---------------- (b) linearity, (c) companions, (d) zero time — float
    for j in range(ncases):
        cx, ux = gen.inventory(max_n=3)
        cy, uy = gen.inventory(max_n=3)
        idxs = [view.index[rd.utils.parse_nuclide_str(n)] for n in list(cx) + list(cy)]
        t, tu = gen.time_for(idxs)
        a = r.choice([2.0, 0.5, 3.7e10, 1e-6, r.uniform(0.1, 10)])
        try:
            _c07_laws(rd, rep, gen, view, r, fail, cx, ux, cy, uy, t, tu, a, j)
        except Exception as e:  # noqa: BLE001
            fail("linearity/companions/zero-time", f"X=Inventory({cx!r},{ux!r}), Y=Inventory({cy!r},{uy!r}), t={t!r} {tu}",
                 f"raised {type(e).__name__}: {e}")

    # ---------------- HP: splitting and linearity to double rounding
    import sympy
    for j in range(nhp):
        contents, unit = gen.inventory(max_n=2, units="num", lo=-3, hi=12)
        idxs = [view.index[rd.utils.parse_nuclide_str(n)] for n in contents]
        members = [g for g in view.descendants(idxs) if view.rate[g] != 0]
        if not members:
            continue
        g = r.choice(members)
        tsec = float(r.choice([0.3, 1.0, 5.0]) / view.rate[g])
        t1 = tsec * r.choice([0.25, 0.5])
        inv = rd.InventoryHP(dict(contents), unit)
        a = inv.decay(t1, "s").decay(tsec - t1, "s").numbers()
        b = inv.decay(t1 + (tsec - t1), "s").numbers()
        desc = f"InventoryHP({contents!r}) t1={t1!r} t2={tsec - t1!r} s"
        rep.case(("hp-split", desc), sample={"law": "hp-split", "inventory": contents, "t1": t1, "t2": tsec - t1} if j == 0 else None)
        gen._count("hp-split")
        for nm in b:
            x, y = F(a[nm]), F(b[nm])
            # the float readings t1, t2, t1+t2 are each taken to 15 digits, so the two sides may differ by the
            # propagated 1e-15 relative time difference; 1e-12 relative covers it for t <= 5 half-lives
            if abs(x - y) > Fraction(1, 10**12) * max(abs(x), abs(y)) and max(abs(x), abs(y)) > Fraction(1, 10**290):
                fail("hp-time-additivity", desc, f"{nm}: {a[nm]!r} vs {b[nm]!r}")
                break
    # ---------------- very short-lived nuclides: k equal steps vs one step, durations of nanoseconds
    for i in gen.radio:
        if float(view.rate[i]) > 1.0e3:
            nm = view.names[i]
            T = float(1 / view.rate[i])
            for tot_t, k in ((min(T, 3.0e-8), 3), (T / 7, 4)):
                inv = rd.Inventory({nm: 1.0e6}, "num")
                cur = inv
                for _ in range(k):
                    cur = cur.decay(tot_t / k, "s")
                one = inv.decay(tot_t, "s").numbers()
                chained = cur.numbers()
                rep.case(("tiny-steps", nm, tot_t, k))
                gen._count("split:tiny-steps")
                for n_ in one:
                    if abs(F(chained[n_]) - F(one[n_])) > (k + 1) * TOL * 10**6:
                        fail("time-additivity", f"Inventory({{{nm!r}: 1e6}}) in {k} steps of {tot_t / k!r} s vs one step of {tot_t!r} s",
                             f"{n_}: chained {chained[n_]!r} vs single {one[n_]!r}")
                        break
    # ---------------- an inventory used, changed in place, used again == a fresh inventory with the same amounts
    from decaylib import mutated_object_block
    bad += mutated_object_block(rep, ctx, "c07/mutated-object", hp_too=True, nseq=(24 if thorough else 6))
    # ---------------- the laws on synthetic datasets (loaded through load_dataset(dir_path=…)): every derived inventory must
    #                  stay bound to ITS dataset, and scaling / adding / splitting commute with decay there too
    import synthetic
    for k_ in range(6 if thorough else 2):
        ds, sch, path = synthetic.build(rd, view, r, f"c07_{ctx.seed}_{k_}")
        try:
            sview = DatasetView(ds)
            radio = [i for i in range(sview.n) if sview.rate[i] != 0]
            for _ in range(4):
                picks = r.sample(range(sview.n), min(sview.n, r.choice([1, 2, 3])))
                cx = {sview.names[i]: 10.0 ** r.uniform(0, 20) for i in picks}
                g = r.choice(radio)
                tsec = float(r.choice([0.1, 1.0, 3.0, 20.0]) / sview.rate[g])
                a = r.choice([2.0, 3.0, 0.5, 1e-6, 7.0])
                desc = f"synthetic dataset ({sch['names'][:4]}…, half-lives {[f'{v!r} {u}' for v, u in sch['hl'][:3]]}…): X=Inventory({cx!r}), a={a!r}, t={tsec!r} s"
                rep.case(("synthetic-laws", k_, repr(cx), a, tsec))
                gen._count("synthetic-dataset-laws")
                try:
                    X = rd.Inventory(dict(cx), "num", True, ds)
                    tot = sum(abs(F(v)) for v in X.contents.values())
                    variants = {"a*X": a * X, "X*a": X * a, "X/(1/a)": X / (1.0 / a), "X+X": X + X, "X-X/2": X - X / 2.0, "X.decay": X.decay(tsec, "s")}
                    for nm_, inv_ in variants.items():
                        if inv_.decay_data is not ds:
                            fail("dataset-binding", desc, f"{nm_} is bound to dataset {inv_.decay_data.dataset_name!r}, not to X's dataset")
                            raise StopIteration
                    ref = X.decay(tsec, "s").numbers()
                    for nm_, fac in (("a*X", a), ("X*a", a), ("X+X", 2.0), ("X-X/2", 0.5)):
                        got = variants[nm_].decay(tsec, "s").numbers()
                        if list(got) != list(ref):
                            fail("linearity", desc, f"({nm_}).decay has other nuclides than X.decay")
                            break
                        for n_ in ref:
                            if abs(F(got[n_]) - F(fac) * F(ref[n_])) > 4 * TOL * F(fac) * tot + abs(F(got[n_])) / 2**48:
                                fail("linearity", desc, f"({nm_}).decay(t)[{n_}] = {got[n_]!r}, {fac!r} x X.decay(t)[{n_}] = {fac * ref[n_]!r}")
                                raise StopIteration
                    two = X.decay(tsec / 4, "s").decay(3 * tsec / 4, "s").numbers()
                    for n_ in ref:
                        if abs(F(two[n_]) - F(ref[n_])) > 3 * TOL * tot * max(1, 1) + abs(F(ref[n_])) / 2**40:
                            fail("time-additivity", desc, f"{n_}: split {two[n_]!r} vs single {ref[n_]!r}")
                            break
                except StopIteration:
                    pass
                except Exception as e:  # noqa: BLE001
                    fail("laws on a synthetic dataset", desc, f"raised {type(e).__name__}: {e}")
        finally:
            synthetic.cleanup(path)
    rep.corr["input_distribution"].update(gen.dist)
    rep.notes["mismatches"] = bad


def _c07_laws(rd, rep, gen, view, r, fail, cx, ux, cy, uy, t, tu, a, j):
    X, Y = rd.Inventory(dict(cx), ux), rd.Inventory(dict(cy), uy)
    lhs = (X * a + Y).decay(t, tu).numbers()
    rhs = (X.decay(t, tu) * a + Y.decay(t, tu)).numbers()
    tot = a_tot = F(a) * sum(abs(F(v)) for v in X.contents.values()) + sum(abs(F(v)) for v in Y.contents.values())
    desc = f"a={a!r}, X=Inventory({cx!r},{ux!r}), Y=Inventory({cy!r},{uy!r}), t={t!r} {tu}"
    rep.case(("linear", desc), sample={"law": "linearity", "a": a, "X": cx, "Y": cy, "t": t, "tu": tu} if j % 41 == 0 else None)
    gen._count("linearity")
    if list(lhs) != list(rhs):
        fail("linearity", desc, "nuclide sets differ")
    else:
        for nm in lhs:
            if abs(F(lhs[nm]) - F(rhs[nm])) > 4 * TOL * tot + abs(F(lhs[nm])) / 2**50:
                fail("linearity", desc, f"{nm}: {lhs[nm]!r} vs {rhs[nm]!r}")
                break
    # companions: X's nuclides that Y cannot reach
    xd = view.descendants([view.index[n] for n in X.contents])
    yd = view.descendants([view.index[n] for n in Y.contents])
    alone = X.decay(t, tu).numbers()
    mixed = (X + Y).decay(t, tu).numbers()
    xtot = sum(abs(F(v)) for v in X.contents.values())
    for g in xd - yd:
        nm = view.names[g]
        if abs(F(alone[nm]) - F(mixed[nm])) > 2 * TOL * xtot:
            fail("companions", desc, f"{nm}: alone {alone[nm]!r}, in mixture {mixed[nm]!r}")
            break
    gen._count("companions")
    z = X.decay(0.0, tu).numbers()
    for nm, v in X.contents.items():
        if abs(F(z[nm]) - F(v)) > TOL * xtot:
            fail("zero-time", desc, f"{nm}: {z[nm]!r} vs {v!r}")
            break
    if any(F(v) != 0 and abs(F(v)) > TOL * xtot for nm, v in z.items() if nm not in X.contents):
        fail("zero-time", desc, "progeny appear at t = 0")


def search(rep, ctx) -> bool:
    return False


def replay(body, ctx) -> bool:
    print("re-run ./check C07 (cases are regenerated from the seed)")
    return False
