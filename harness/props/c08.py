"""C08 — inventory arithmetic is exact multiset arithmetic on atoms."""
from __future__ import annotations

from common import lean_driver
from invlib import Mirror

NEEDS_DATASET = False
TARGETS = ["RdVerif.Props.C08"]
THEOREMS = ["RdVerif.C08.sort_perm", "RdVerif.C08.sort_sorted", "RdVerif.C08.sort_amount", "RdVerif.C08.addDictionaries_spec",
            "RdVerif.C08.abs_add", "RdVerif.C08.abs_sub", "RdVerif.C08.abs_mul", "RdVerif.C08.abs_div", "RdVerif.C08.abs_remove",
            "RdVerif.C08.refusals", "RdVerif.C08.remove_absent_refused", "RdVerif.C08.no_amount_discarded"]
PARTIAL = {}
ASSUMPTIONS = [
    "Lean's Float operations + - * / are IEEE-754 binary64, as CPython's and NumPy's are (bit-for-bit comparison)",
    "unit conversion of an argument is taken from a throw-away constructor call of the real code (covered by C05)",
]


def run_sequences(rep, ctx, stream, nseq, nops, hp):
    rd = ctx.rd
    all_lines, metas = [], []
    for s in range(nseq):
        m = Mirror(rd, ctx.seed, f"{stream}/{s}", hp)
        m.lines.append(f"w\t{m.tag}\treset")
        m.expect.append(("done", None))
        for _ in range(nops):
            try:
                m.random_op()
            except Exception as e:  # noqa: BLE001  (an operation that must not raise did)
                rep.violation("failing-input", f"history {m.log!r}: unexpected {type(e).__name__}: {e}",
                              {"history": m.log}, True)
                break
            m.snapshot()
        all_lines += m.lines
        metas.append(m)
        for line in m.log:
            rep.dist("op:" + ("new" if " = " in line and "(" in line.split(" = ")[1][:12] else
                              line.split(".")[1].split("(")[0] if line.startswith("h") and "." in line.split(" ")[0] else "operator"))
    model = lean_driver(all_lines) if ctx.build_ok else None
    pos = 0
    bad = 0
    for s, m in enumerate(metas):
        rep.case((stream, s, tuple(m.log)), sample={"class": "InventoryHP" if hp else "Inventory", "history": m.log[:6]} if s % 25 == 0 else None)
        ok = True
        for k, (exp, extra) in enumerate(m.expect):
            got = model[pos + k] if model is not None else None
            want = exp if exp != "show" else extra
            if exp == "real-accepted-duplicate":
                rep.violation("failing-input", f"history {m.log!r}: an argument naming one nuclide twice was accepted "
                              "(an amount is silently discarded)", {"history": m.log}, True)
                ok = False
                break
            if exp.startswith("err ") and exp.split()[1] not in ("ValueError", "NuclideStrError"):
                rep.violation("failing-input", f"history {m.log!r}: raised {exp[4:]}", {"history": m.log}, True)
                ok = False
                break
            if got is None:
                continue
            g = got
            if g.startswith("err NuclideStrError"):
                g = "err ValueError"
            w = want.replace("err NuclideStrError", "err ValueError")
            if g != w:
                bad += 1
                ok = False
                if bad <= 3:
                    # judged by the property itself: the model is the exact multiset arithmetic
                    rep.violation("failing-input",
                                  f"{'InventoryHP' if hp else 'Inventory'} history {m.log!r}: real code gives {w[:300]!r}, "
                                  f"exact multiset arithmetic gives {g[:300]!r} (request {m.lines[k][:120]!r})",
                                  {"history": m.log, "real": w, "model": g}, True)
                break
        pos += len(m.expect)
    return bad


def correspondence(rep, ctx):
    thorough = ctx.tier == "thorough"
    rep.corr["rule"] = (
        "seeded operation sequences (length 12: construct / add / subtract / + / - / * / / / remove; keys as strings in several "
        "spellings, canonical ids, Nuclide objects; units num/activity/mass/mole; default and a second dataset; arguments naming "
        "one nuclide twice; absent removals) on both classes, mirrored into the Lean state machine: after every operation every "
        "live inventory is compared — order, class, dataset, and every amount bit-for-bit (IEEE double) or as an exact rational "
        "(high-precision class, a Float appearing is a divergence). distinct = distinct histories, all non-trivial")
    nseq = 600 if thorough else 70
    bad = run_sequences(rep, ctx, "c08-float", nseq, 12, hp=False)
    bad += run_sequences(rep, ctx, "c08-hp", max(12, nseq // 5), 12, hp=True)
    bad += duplicate_matrix(rep, ctx)
    bad += dataset_mismatch(rep, ctx)
    rep.notes["mismatches"] = bad


def dataset_mismatch(rep, ctx):
    """"Combining inventories of different datasets is refused" — also when the two datasets carry the same NAME but not
    the same data (one trailing entry dropped; or other atomic masses), in both operand orders, both classes, also as the
    last step of a longer expression; equal datasets (a fresh load) still combine"""
    import numpy as np
    rd = ctx.rd
    dd = rd.DEFAULTDATA
    bad = 0

    def obj(rows):
        a = np.empty(len(rows), dtype=object)
        for i_, x in enumerate(rows):
            a[i_] = list(x)
        return a
    prog_t = [list(x) for x in dd.progeny]
    bfs_t = [list(x) for x in dd.bfs]
    modes_t = [list(x) for x in dd.modes]
    k_t = next(i_ for i_, p_ in enumerate(prog_t) if len(p_) >= 2 and p_[-1] == "SF")
    prog_t[k_t], bfs_t[k_t], modes_t[k_t] = prog_t[k_t][:-1], bfs_t[k_t][:-1], modes_t[k_t][:-1]
    other = rd.decaydata.DecayData(dd.dataset_name, obj(bfs_t), dd.float_year_conv, dd.hldata, obj(modes_t), dd.nuclides,
                                   obj(prog_t), dd.scipy_data, dd._sympy_data, dd._sympy_year_conv)
    fresh = rd.decaydata.load_dataset(dd.dataset_name, load_sympy=True)
    for C in (rd.Inventory, rd.InventoryHP):
        a = C({"H-3": 3, "C-14": 5}, "num", True, dd)
        b = C({"H-3": 1, "Co-60": 2}, "num", True, other)
        f = C({"H-3": 1, "Co-60": 2}, "num", True, fresh)
        for label, fn in (("a + b", lambda: a + b), ("b + a", lambda: b + a), ("a - b", lambda: a - b), ("b - a", lambda: b - a),
                          ("(a * 2 - a) + b / 4", lambda: (a * 2 - a) + b / 4)):
            rep.case(("dataset-mismatch", C.__name__, label))
            rep.dist("dataset-mismatch")
            try:
                res = fn()
                bad += 1
                rep.violation("failing-input", f"{C.__name__}: {label} with a on the default dataset and b on a dataset of the same name "
                              f"whose data differ (a.decay_data != b.decay_data is {a.decay_data != b.decay_data}) is accepted: "
                              f"{dict(res.contents)!r}", {"case": label}, True)
            except ValueError:
                pass
            except Exception as e:  # noqa: BLE001
                bad += 1
                rep.violation("failing-input", f"{C.__name__}: {label} on mismatching datasets raised {type(e).__name__}: {e}", {"case": label}, True)
        try:
            res = a + f
            if float(res.contents["H-3"]) != 4.0:
                raise AssertionError(f"H-3 = {res.contents['H-3']!r}")
        except Exception as e:  # noqa: BLE001
            bad += 1
            rep.violation("failing-input", f"{C.__name__}: a + f with f on a fresh load of the same dataset: {type(e).__name__}: {e}", {"case": "equal datasets"}, True)
    return bad


def duplicate_matrix(rep, ctx):
    """every ordered pair of key kinds naming ONE nuclide in one argument x {constructor, add, subtract} x both classes:
    the call is refused with ValueError and the target keeps its amounts (no supplied amount is silently discarded)"""
    rd = ctx.rd
    bad = 0
    for nm in ("H-3", "Cs-137", "Ba-137m"):
        nuc = rd.Nuclide(nm)
        el, rest = nm.split("-")
        kinds = {"canonical": nm, "no-hyphen": el + rest, "mass-first": rest + el, "spaced": f" {el} {rest}", "id": nuc.id, "Nuclide": nuc}
        for ka, a in kinds.items():
            for kb, b in kinds.items():
                if ka == kb:
                    continue
                for C in (rd.Inventory, rd.InventoryHP):
                    for op in ("ctor", "add", "subtract"):
                        arg = {a: 1000, b: 24}
                        desc = f"{C.__name__} {op} {{{ka} {a!r}: 1000, {kb} {b!r}: 24}}"
                        rep.case(("dup-matrix", nm, ka, kb, C.__name__, op))
                        rep.dist("duplicate-matrix")
                        try:
                            if op == "ctor":
                                inv = C(dict(arg), "num")
                                got = dict(inv.contents)
                            else:
                                inv = C({nm: 5000}, "num")
                                getattr(inv, op)(dict(arg), "num")
                                got = dict(inv.contents)
                            bad += 1
                            if bad <= 3:
                                rep.violation("failing-input", f"{desc}: accepted, result {got!r} — one of the two supplied amounts "
                                              "is silently discarded", {"case": desc}, True)
                        except ValueError:
                            if op != "ctor" and float(inv.contents[nm]) != 5000.0:
                                bad += 1
                                rep.violation("failing-input", f"{desc}: refused, but the inventory now holds {inv.contents!r}", {"case": desc}, True)
                        except Exception as e:  # noqa: BLE001
                            bad += 1
                            if bad <= 3:
                                rep.violation("failing-input", f"{desc}: raised {type(e).__name__}: {e}", {"case": desc}, True)
    return bad


def search(rep, ctx) -> bool:
    return False


def replay(body, ctx) -> bool:
    print("history:", body.get("history"))
    print("re-run ./check C08 (histories are regenerated from the seed)")
    return False
