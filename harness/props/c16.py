"""C16 — the decay-chain diagram depicts exactly the nuclide's decay subgraph."""
from __future__ import annotations

from fractions import Fraction

from common import hexs, lean_driver, rng, unhexs
from oracle import DatasetView, parse_frac

NEEDS_DATASET = True
TARGETS = ["RdVerif.Props.C16", "RdVerif.Props.C16Inv", "RdVerif.Props.C16Labels"]
THEOREMS = ["RdVerif.C16.diagram_is_decay_subgraph", "RdVerif.C16.queue_drained_witness",
            "RdVerif.C16.C16_positions_injective", "RdVerif.C16.C16_edges_from_links", "RdVerif.C16.C16_node_names_nodup",
            "RdVerif.C16.C16_nodes_sound", "RdVerif.C16.C16_nodes_complete", "RdVerif.C16.C16_rows_are_distances",
            "RdVerif.C16.C16_queue_drained", "RdVerif.C16.C16_checked_dataset",
            "RdVerif.C16.C16_label_decodes", "RdVerif.C16.C16_label_injective", "RdVerif.C16.C16_label_hypotheses_hold"]
PARTIAL = {
    "labels / rendering":
        "node set = reachable set, rows = minimum number of decays, distinct names and positions, edges = listed links are "
        "theorems for EVERY dataset on which the executable checker reachWFb returns true (C16_checked_dataset; the driver "
        "evaluates reachWFb on every synthetic / artificial dataset of the run and, by compiled evaluation, on the shipped "
        "one), and for the shipped dataset additionally a kernel decision per root. The node-label text is modelled "
        "(Model/Labels.lean, table regenerated from the source, compared with the real function for every name) and proved to "
        "decode back to element / mass number / state (C16_label_decodes, C16_label_injective); the readable half-life line, the "
        "edge labels and what Matplotlib/networkx draw are compared per input, not proved",
}
ASSUMPTIONS = ["networkx stores nodes/edges/attributes as given; Matplotlib rendering not modelled"]

SUP = {"⁰": "0", "¹": "1", "²": "2", "³": "3", "⁴": "4", "⁵": "5", "⁶": "6", "⁷": "7", "⁸": "8", "⁹": "9",
       "ᵐ": "m", "ⁿ": "n", "ᵖ": "p", "q": "q", "ʳ": "r", "ˣ": "x"}
MODE_SUP = {"⁺": "+", "⁻": "-", "¹": "1", "²": "2", "³": "3", "⁴": "4", "⁰": "0", "⁵": "5", "⁶": "6", "⁸": "8", "⁹": "9"}


def independent_graph(view: DatasetView, root: int):
    """expected nodes {name: row} and edges {(src, dst): (mode, bf)} from the progeny lists alone"""
    dd = view.dd
    dist = {root: 0}
    frontier = [root]
    while frontier:
        nxt = []
        for i in frontier:
            for c in view.children[i]:
                if c not in dist:
                    dist[c] = dist[i] + 1
                    nxt.append(c)
        frontier = nxt
    nodes = {view.names[i]: d for i, d in dist.items()}
    edges = {}
    for i, d in dist.items():
        for p, bf, md in zip(view.progeny[i], dd.bfs[i], dd.modes[i]):
            dst = p
            if p not in view.index:
                dst = view.names[i] + "_SF"
                nodes[dst] = d + 1
            edges[(view.names[i], dst)] = (str(md), float(bf))
    return nodes, edges


def correspondence(rep, ctx):
    rd = ctx.rd
    import networkx as nx
    dd = rd.DEFAULTDATA
    view = DatasetView(dd)
    r = rng(ctx.seed, "c16")
    thorough = ctx.tier == "thorough"
    build = rd.nuclide._build_decay_digraph
    rep.corr["rule"] = (
        "every nuclide of the dataset as root: the graph built by the real _build_decay_digraph (nodes with generation/xpos/"
        "pos/label, edges with label) compared (a) with the Lean builder model node by node and edge by edge, (b) with an "
        "independent reading of the property from the progeny lists (reachable set, BFS distance, SF nodes, one edge per link, "
        "labels naming mass number/state/element/half-life and mode/branching fraction, no shared position). Axes texts of "
        "Nuclide.plot read back for a sample. distinct = roots")
    roots = list(range(view.n))
    lines = [f"diagram\ticrp107\t{i}" for i in roots]
    model = lean_driver(lines + ["reach_wf\ticrp107"]) if ctx.build_ok else None
    if model is not None:
        # the hypotheses of the for-all-datasets theorems hold for the shipped dataset (compiled evaluation of reachWFb)
        if model.pop() != "ok true":
            ctx.broken.append("correspondence:reachWFb(icrp107)")
    bad = 0

    def fail(root, msg):
        nonlocal bad
        bad += 1
        if bad <= 4:
            rep.violation("failing-input", f"diagram of {view.names[root]}: {msg}",
                          {"call": "diagram", "root": view.names[root], "how_to_replay": "./check C16 --replay <this file>"}, True)

    import matplotlib
    matplotlib.use("Agg")
    import matplotlib.pyplot as plt
    for i in roots:
        try:
            ok, msg = judge_root(rd, view, i, model[i] if model is not None else None, build, nx)
        except Exception as e:  # noqa: BLE001
            ok, msg = False, f"the graph lacks what the diagram needs ({type(e).__name__}: {e})"
        if ok and (view.rate[i] == 0 or i % 97 == 0):
            # every stable root (a one-node diagram) and a sample of the others are actually drawn
            try:
                fig, ax = rd.Nuclide(view.names[i]).plot()
                plt.close(fig)
            except Exception as e:  # noqa: BLE001
                ok, msg = False, f"Nuclide.plot() raised {type(e).__name__}: {e}"
        rep.case(("root", view.names[i]), sample={"root": view.names[i], "ok": ok} if i % 300 == 0 else None)
        if not ok:
            fail(i, msg)
    rep.dist("roots", len(roots))
    # the label texts: real _parse_nuclide_label / _parse_decay_mode_label vs the Lean label model, for every nuclide name of
    # the dataset (+ names with each state letter) and every decay-mode string that occurs (+ a few composed ones)
    lab_names = list(view.names) + ["SF", "X-1p", "Og-294q", "U-238r", "Fe-56x", "H-3n"]
    lab_modes = sorted({str(m) for ms in dd.modes for m in ms}) + ["β-n", "β+p", "14C", "24Ne & 26Ne", "ε", "β-β-", "2β+", "SF & α"]
    if ctx.build_ok:
        out = lean_driver([f"label\t{hexs(n)}" for n in lab_names] + [f"modelabel\t{hexs(m)}" for m in lab_modes])
        for n_, o in zip(lab_names, out[:len(lab_names)]):
            try:
                real = ("ok", rd.plots._parse_nuclide_label(n_))
            except Exception as e:  # noqa: BLE001
                real = ("err", type(e).__name__)
            mdl = ("ok", unhexs(o[3:])) if o.startswith("ok ") else ("err", "")
            rep.case(("label", n_))
            rep.dist("label-texts")
            if real[0] != mdl[0] or (real[0] == "ok" and real[1] != mdl[1]):
                ctx.broken.append(f"correspondence:label:{n_}")
                rep.notes.setdefault("divergences", []).append({"name": n_, "real": real, "model": mdl})
        for m_, o in zip(lab_modes, out[len(lab_names):]):
            real = rd.plots._parse_decay_mode_label(m_)
            rep.case(("modelabel", m_))
            rep.dist("label-texts")
            if not o.startswith("ok ") or unhexs(o[3:]) != real:
                ctx.broken.append(f"correspondence:modelabel:{m_}")
                rep.notes.setdefault("divergences", []).append({"mode": m_, "real": real, "model": o})
    # texts on the axes
    import matplotlib
    matplotlib.use("Agg")
    import matplotlib.pyplot as plt
    for i in (r.sample(roots, 40) if thorough else r.sample(roots, 6)):
        nuc = rd.Nuclide(view.names[i])
        fig, ax = nuc.plot()
        texts = {t.get_text() for t in ax.texts}
        plt.close(fig)
        g, _, _ = build(nuc, nx.DiGraph())
        want = set(nx.get_node_attributes(g, "label").values()) | set(nx.get_edge_attributes(g, "label").values())
        rep.case(("axes", view.names[i]))
        rep.dist("axes-texts")
        if not want <= texts:
            fail(i, f"labels missing on the returned axes: {sorted(want - texts)[:3]}")
    # ---- non-default datasets: the diagram of a root inside a descendant-closed sub-dataset is the same graph
    from oracle import subset_dataset
    for k in range(25 if thorough else 6):
        root = r.choice(roots)
        ds, names = subset_dataset(rd, view, [root], name=f"verif_subset_{k}")
        rep.case(("subset", view.names[root]))
        rep.dist("sub-dataset")
        try:
            g1, _, _ = build(rd.Nuclide(view.names[root], ds), nx.DiGraph())
            g0, _, _ = build(rd.Nuclide(view.names[root]), nx.DiGraph())
            if dict(g1.nodes(data=True)) != dict(g0.nodes(data=True)) or sorted(g1.edges(data="label")) != sorted(g0.edges(data="label")):
                fail(root, "the diagram on a sub-dataset holding the whole chain differs from the one on the full dataset")
        except Exception as e:  # noqa: BLE001
            fail(root, f"diagram on a sub-dataset raised {type(e).__name__}: {e}")
    # ---- synthetic datasets (new half-lives / branching fractions, loaded through load_dataset(dir_path=…)): every root,
    #      against the Lean builder run on the same dataset and the independent reading
    import synthetic
    for k in range(8 if thorough else 2):
        tag = f"c16_{ctx.seed}_{k}"
        ds, sch, path = synthetic.build(rd, view, r, tag)
        try:
            sview = DatasetView(ds)
            prelude = synthetic.driver_lines(ds, "syn")
            smodel = None
            if ctx.build_ok:
                out = lean_driver(prelude + [f"diagram\tsyn\t{i}" for i in range(sview.n)] + ["reach_wf\tsyn"])
                smodel = out[len(prelude):-1]
                if out[-1] != "ok true":
                    ctx.broken.append("correspondence:synthetic-dataset:reachWFb")
            for i in range(sview.n):
                ok, msg = judge_root(rd, sview, i, smodel[i] if smodel is not None else None, build, nx, ds=ds)
                rep.case(("synthetic-root", tag, sview.names[i]))
                rep.dist("synthetic-dataset-roots")
                if not ok:
                    bad += 1
                    if bad <= 4:
                        rep.violation("failing-input", f"diagram of {sview.names[i]} on a synthetic dataset (nuclides "
                                      f"{sch['names'][:5]}…, new half-lives/branching fractions): {msg}",
                                      {"call": "diagram-synthetic", "names": sch["names"]}, True)
        finally:
            synthetic.cleanup(path)
    # ---- two revisions of one synthetic dataset under ONE name, drawn in this process: each diagram is labelled with the
    #      half-lives of the dataset it was asked about
    import copy
    for k in range(3 if thorough else 1):
        sch1 = synthetic.make_scheme(view, r)
        sch2 = copy.deepcopy(sch1)
        sch2["hl"] = [(v, u) if v == float("inf") else (float(f"{v * 1.5:.4g}"), u) for v, u in sch1["hl"]]
        try:
            ds1, _, p1 = synthetic.build(rd, view, r, f"c16rev_{ctx.seed}_{k}_1", sch=sch1, name="verif_one_name")
            ds2, _, p2 = synthetic.build(rd, view, r, f"c16rev_{ctx.seed}_{k}_2", sch=sch2, name="verif_one_name")
        except ZeroDivisionError:
            continue                      # the altered half-lives made two decay constants equal: not a well-formed scheme
        try:
            for ds_ in (ds1, ds2, ds1):
                dv = DatasetView(ds_)
                for i in range(dv.n):
                    ok, msg = judge_root(rd, dv, i, None, build, nx, ds=ds_)
                    rep.case(("revision-root", k, id(ds_), dv.names[i]))
                    rep.dist("dataset-revisions-under-one-name")
                    if not ok:
                        bad += 1
                        if bad <= 4:
                            rep.violation("failing-input", f"diagram of {dv.names[i]} on a dataset revision (half-life of the root "
                                          f"{ds_.hldata[i][2]!r}; another revision with the same dataset name was drawn before): {msg}",
                                          {"call": "diagram-revisions", "names": dv.names}, True)
                        break
        finally:
            synthetic.cleanup(p1)
            synthetic.cleanup(p2)
    # ---- artificial datasets with dense branching and every metastable state letter (constructor route)
    for k in range(30 if thorough else 8):
        ds, dlines = dense_dataset(rd, r, k)
        dview = DatasetView(ds)
        dmodel = None
        if ctx.build_ok:
            out = lean_driver(dlines + [f"diagram\tdense\t{i}" for i in range(dview.n)] + [f"diagram_ok\tdense\t{i}" for i in range(dview.n)] + ["reach_wf\tdense"])
            dmodel = out[len(dlines):len(dlines) + dview.n]
            # the builder model agrees with the executable specification (reachability, layered distance) on this dataset
            if any(o != "ok true" for o in out[len(dlines) + dview.n:-1]):
                ctx.broken.append("correspondence:dense-dataset:builder-model-vs-specification")
            if out[-1] != "ok true":      # hypotheses of C16_checked_dataset (names/links well formed) fail: generator bug
                ctx.broken.append("correspondence:dense-dataset:reachWFb")
            if any(o == "bad-request" for o in out[:len(dlines)]):
                ctx.broken.append("correspondence:dense-dataset-lines")
        for i in range(dview.n):
            try:
                ok, msg = judge_root(rd, dview, i, dmodel[i] if dmodel is not None else None, build, nx, ds=ds)
            except Exception as e:  # noqa: BLE001
                ok, msg = False, f"raised {type(e).__name__}: {e}"
            rep.case(("dense-root", k, dview.names[i]))
            rep.dist("dense-dataset-roots")
            if not ok:
                bad += 1
                if bad <= 4:
                    rep.violation("failing-input", f"diagram of {dview.names[i]} on an artificial dataset (nuclides "
                                  f"{dview.names[:8]}…, progeny of the root {list(ds.progeny[i])}): {msg}",
                                  {"call": "diagram-dense", "names": dview.names, "progeny": [list(x) for x in ds.progeny]}, True)
    rep.corr["exhaustive"] = True
    rep.notes["mismatches"] = bad


def dense_dataset(rd, r, k):
    """an artificial dataset for the diagram builder only (identity matrices): 6-18 nuclides, names with every state
    letter, 1-4 progeny per radioactive nuclide among the later nuclides (dense branching, shared progeny), optional SF"""
    import numpy as np
    from scipy import sparse
    import synthetic
    n = r.randint(6, 18)
    names = []
    while len(names) < n:
        nm = f"{r.choice(['H', 'He', 'C', 'Fe', 'U', 'Pu', 'Og', 'Xe', 'W'])}-{r.randint(1, 299)}{r.choice(['', '', 'm', 'n', 'p', 'q', 'r', 'x'])}"
        if nm not in names:
            names.append(nm)
    nstable = r.randint(1, 3)
    prog, bfs, modes, hld = [], [], [], []
    for i in range(n):
        later = list(range(i + 1, n))
        if i >= n - nstable or not later:
            prog.append([]); bfs.append([]); modes.append([])
            hld.append((np.inf, "s", "stable"))
            continue
        kk = min(len(later), r.choice([1, 2, 2, 3, 4]))
        ps = [names[j] for j in r.sample(later, kk)]
        if r.random() < 0.3:
            ps.insert(r.randrange(len(ps) + 1), "SF")
        cuts = sorted(r.sample(range(1, 1000), len(ps) - 1)) if len(ps) > 1 else []
        parts = sorted((b - a for a, b in zip([0] + cuts, cuts + [1000])), reverse=True)
        prog.append(ps)
        bfs.append([p / 1000 for p in parts])
        modes.append([("SF" if p == "SF" else r.choice(["α", "β-", "β+ & EC", "IT", "EC", "β-n"])) for p in ps])
        v = float(f"{10.0 ** r.uniform(-2, 3):.3g}")
        u = r.choice(["s", "m", "h", "d", "y"])
        hld.append((v, u, f"{v} {u}"))

    def obj(rows):
        a = np.empty(n, dtype=object)
        for i, x in enumerate(rows):
            a[i] = list(x)
        return a
    eye = sparse.identity(n, format="csr")
    consts = np.array([0.0 if np.isinf(h[0]) else 1.0 for h in hld])
    sd = rd.decaydata.DecayMatricesScipy(np.ones(n), consts, eye, eye)
    hl = np.empty((n, 3), dtype=object)
    for i, h in enumerate(hld):
        hl[i, 0], hl[i, 1], hl[i, 2] = np.float64(h[0]), h[1], h[2]
    ds = rd.decaydata.DecayData(f"verif_dense_{k}", obj(bfs), 365.2422, hl, obj(modes), np.array(names), obj(prog), sd)
    index = {nm: i for i, nm in enumerate(names)}
    lines = [f"ds_new\t{n}\t365/1\t365/1"]
    for i in range(n):
        stable = np.isinf(hld[i][0])
        lines.append("\t".join(["ds_nuc", hexs(names[i]), "inf" if stable else synthetic.fr(synthetic.dec(hld[i][0])), str(synthetic.bits(hld[i][0])),
                                hexs(hld[i][1]), hexs(hld[i][2]), "0" if stable else "1", "1", "1", "0" if stable else "1", "1"]))
        for p, b, md in zip(prog[i], bfs[i], modes[i]):
            lines.append("\t".join(["ds_link", str(index[p]) if p in index else "-", hexs(p), synthetic.fr(synthetic.dec(b)), str(synthetic.bits(b)), hexs(md)]))
    lines.append("ds_done\tdense")
    return ds, lines


def judge_root(rd, view, i, model_line, build, nx, ds=None):
    name = view.names[i]
    nuc = rd.Nuclide(name) if ds is None else rd.Nuclide(name, ds)
    g, max_gen, max_x = build(nuc, nx.DiGraph())
    nodes = {str(n): dict(a) for n, a in g.nodes(data=True)}
    edges = {(str(a), str(b)): dict(d) for a, b, d in g.edges(data=True)}
    want_nodes, want_edges = independent_graph(view, i)
    if {k: v["generation"] for k, v in nodes.items()} != want_nodes:
        extra = set(nodes) ^ set(want_nodes)
        return False, f"nodes/rows differ from the decay subgraph (e.g. {sorted(extra)[:3] or [k for k in nodes if nodes[k]['generation'] != want_nodes[k]][:3]})"
    if set(edges) != set(want_edges):
        return False, f"edges differ from the listed links: {sorted(set(edges) ^ set(want_edges))[:3]}"
    pos = [(a["generation"], a["xpos"]) for a in nodes.values()]
    if len(set(pos)) != len(pos):
        return False, "two nodes share a position"
    for k, a in nodes.items():
        if "pos" not in a or "label" not in a:
            return False, f"node {k} has no {'pos' if 'pos' not in a else 'label'} attribute"
        if a["pos"] != (a["xpos"], -a["generation"]):
            return False, f"pos attribute of {k} inconsistent"
        lab = a["label"].split("\n")
        if k.endswith("_SF"):
            if lab != ["various"]:
                return False, f"label of {k} is {a['label']!r}"
            continue
        el, rest = k.split("-")
        plain = "".join(SUP.get(c, c) for c in lab[0])
        if plain != rest + el or len(lab) != 2 or lab[1] != str(view.dd.hldata[view.index[k]][2]):
            return False, f"label of {k} is {a['label']!r}"
    for (a, b), d in edges.items():
        md, bf = want_edges[(a, b)]
        lab = d["label"].split("\n")
        shown = "".join(MODE_SUP.get(c, c) for c in lab[0])
        if len(lab) != 2 or lab[1] != str(bf) or shown.replace(" ", "") != md.replace(" ", ""):
            return False, f"edge {a}->{b} labelled {d['label']!r}, listed ({md!r}, {bf})"
    # (max_generation / max_xpos only size the figure; the builder counts one empty row below the
    #  last radioactive generation — not part of the property)
    if model_line is not None:
        npart, _, epart = model_line[3:].partition(" | ")
        mnodes = {}
        for item in npart.split(" "):
            if item:
                n_, g_, x_ = item.split(":")
                mnodes[unhexs(n_)] = (int(g_), int(x_))
        medges = {}
        for item in epart.split(" "):
            if item:
                s_, d_, m_, b_ = item.split(":")
                medges[(unhexs(s_), unhexs(d_))] = (unhexs(m_), parse_frac(b_))
        if {k: (a["generation"], a["xpos"]) for k, a in nodes.items()} != mnodes:
            return False, "node rows/x-positions differ from the builder model"
        if {k: (m, Fraction(repr(b))) for k, (m, b) in want_edges.items()} != medges:
            return False, "edges differ from the builder model"
    return True, ""


def search(rep, ctx) -> bool:
    return False


def replay(body, ctx) -> bool:
    rd = ctx.rd
    import networkx as nx
    view = DatasetView(rd.DEFAULTDATA)
    ok, msg = judge_root(rd, view, view.index[body["root"]], None, rd.nuclide._build_decay_digraph, nx)
    print(msg)
    return ok
