"""Shared plumbing: paths, Lean literal emission, lake build / axiom audit, evidence, verdicts."""
from __future__ import annotations

import fcntl
import hashlib
import json
import os
import random
import re
import struct
import subprocess
import sys
import time
from fractions import Fraction
from pathlib import Path

VERIF = Path(__file__).resolve().parent.parent
REPO = Path(os.environ.get("RD_REPO", "/repo"))
LEAN = VERIF / "lean"
GEN = LEAN / "RdVerif" / "Gen"
EVIDENCE = VERIF / "evidence"
REPLAYS = VERIF / "replays"
WORK = VERIF / ".work"
GUARD = "RADIOACTIVEDECAY_VERIF"

ALLOWED_AXIOMS = {"propext", "Classical.choice", "Quot.sound"}
FORBIDDEN = re.compile(
    r"\b(sorry|admit|native_decide|bv_decide|implemented_by|unsafe)\b|^\s*axiom\s|maxHeartbeats\s+0\b",
    re.M,
)

TRUSTED_BASE = [
    "Lean 4.33.0 kernel; axioms limited to propext, Classical.choice, Quot.sound (audited by #print axioms each run)",
    "Mathlib v4.33.0 definitions of Real.exp, Real.log, HasDerivAt, Matrix",
    "translator harness/translate*.py: Lean literals equal the repository's data files / constants",
    "correspondence harness (Python) and its canonicalisers",
]


def seed_from_env() -> int:
    try:
        return int(os.environ.get("VERIF_SEED", "0"))
    except ValueError:
        return 0


def tier_from_env(default="quick") -> str:
    t = os.environ.get("VERIF_TIER", default)
    return t if t in ("quick", "thorough") else default


# ----------------------------------------------------------------------------------------------
# Lean literals
# ----------------------------------------------------------------------------------------------

def float_bits(x: float) -> int:
    return struct.unpack("<Q", struct.pack("<d", float(x)))[0]


def bits_float(b: int) -> float:
    return struct.unpack("<d", struct.pack("<Q", b))[0]


def lean_int(n: int) -> str:
    return str(n) if n >= 0 else f"({n})"


def lean_rat(q: Fraction) -> str:
    """A `Rat` literal that elaborates quickly: mkRat num den."""
    q = Fraction(q)
    return f"(mkRat {lean_int(q.numerator)} {q.denominator})"


def lean_str(s: str) -> str:
    out = []
    for ch in s:
        if ch == "\\":
            out.append("\\\\")
        elif ch == '"':
            out.append('\\"')
        elif ch == "\n":
            out.append("\\n")
        elif ch == "\t":
            out.append("\\t")
        elif ord(ch) < 32:
            out.append("\\x%02x" % ord(ch))
        else:
            out.append(ch)
    return '"' + "".join(out) + '"'


def lean_codes(s: str) -> str:
    return "[" + ", ".join(str(ord(c)) for c in s) + "]"


def write_if_changed(path: Path, text: str) -> bool:
    path.parent.mkdir(parents=True, exist_ok=True)
    if path.exists() and path.read_text(encoding="utf-8") == text:
        return False
    tmp = path.with_suffix(path.suffix + ".tmp")
    tmp.write_text(text, encoding="utf-8")
    os.replace(tmp, path)
    return True


# ----------------------------------------------------------------------------------------------
# lake / lean
# ----------------------------------------------------------------------------------------------

class Lock:
    """One lake build / regeneration at a time (checks may be started concurrently)."""

    def __init__(self):
        WORK.mkdir(exist_ok=True)
        self.f = open(WORK / "lock", "w")

    def __enter__(self):
        fcntl.flock(self.f, fcntl.LOCK_EX)
        return self

    def __exit__(self, *a):
        fcntl.flock(self.f, fcntl.LOCK_UN)
        self.f.close()


def run(cmd, cwd=None, timeout=None, env=None, input=None):
    e = dict(os.environ)
    if env:
        e.update(env)
    p = subprocess.run(cmd, cwd=cwd, capture_output=True, text=True, timeout=timeout, env=e, input=input)
    return p.returncode, p.stdout, p.stderr


def lake_build(targets: list[str], timeout=3600):
    """Returns (ok, log)."""
    rc, out, err = run(["lake", "build", *targets], cwd=LEAN, timeout=timeout)
    return rc == 0, out + err


def scan_forbidden(mods: list[str]):
    """grep the sources of the given modules (and everything under Proofs/Props/Model) for
    forbidden constructs; comments are stripped first."""
    hits = []
    files = set()
    for sub in ("Model", "Proofs", "Props", "Spec"):
        files.update((LEAN / "RdVerif" / sub).glob("*.lean"))
    files.add(LEAN / "Main.lean")
    for f in sorted(files):
        if not f.exists():
            continue
        txt = f.read_text(encoding="utf-8")
        txt = re.sub(r"/-.*?-/", "", txt, flags=re.S)
        txt = re.sub(r"--.*", "", txt)
        for m in FORBIDDEN.finditer(txt):
            hits.append(f"{f.relative_to(LEAN)}: {m.group(0).strip()}")
    return hits


def axiom_audit(prop: str, theorems: list[str], targets: list[str], timeout=1800):
    """Writes .work/Audit_<prop>.lean (`#print axioms` for every fully-qualified theorem name) and
    runs it; returns (ok, {theorem: [axioms]}, log).  A theorem that no longer exists makes lean
    report an error for that line and is simply missing from the result."""
    WORK.mkdir(exist_ok=True)
    f = WORK / f"Audit_{prop}.lean"
    lines = [f"import {t}" for t in targets if t.startswith("RdVerif.Props") or t.startswith("RdVerif.Proofs")]
    lines += [f"#print axioms {t}" for t in theorems]
    f.write_text("\n".join(lines) + "\n")
    rc, out, err = run(["lake", "env", "lean", str(f)], cwd=LEAN, timeout=timeout)
    log = out + err
    thms: dict[str, list[str]] = {}
    for m in re.finditer(r"'([^']+)' depends on axioms: \[([^\]]*)\]", log, flags=re.S):
        thms[m.group(1)] = [a.strip() for a in m.group(2).replace("\n", " ").split(",") if a.strip()]
    for m in re.finditer(r"'([^']+)' does not depend on any axioms", log):
        thms[m.group(1)] = []
    ok = bool(thms)
    for t, ax in thms.items():
        if not set(ax) <= ALLOWED_AXIOMS:
            ok = False
    return ok, thms, log


_DRIVER_READY = False


def lean_driver(lines: list[str], timeout=3600) -> list[str]:
    """Pipe protocol lines through the model driver; one output line per input line."""
    inp = "\n".join(lines) + "\n"
    rc, out, err = run(["lake", "env", "lean", "--run", "Main.lean"], cwd=LEAN, timeout=timeout, input=inp)
    if rc != 0:
        raise RuntimeError(f"model driver failed rc={rc}: {err[-2000:]} {out[-500:]}")
    res = out.split("\n")
    if res and res[-1] == "":
        res.pop()
    if len(res) != len(lines):
        raise RuntimeError(f"model driver returned {len(res)} lines for {len(lines)} requests: {err[-1000:]}")
    return res


def hexs(s: str) -> str:
    """protocol encoding of a string: dot-separated code points ('-' for empty)."""
    return ".".join(str(ord(c)) for c in s) if s else "-"


def unhexs(t: str) -> str:
    return "" if t == "-" else "".join(chr(int(x)) for x in t.split("."))


# ----------------------------------------------------------------------------------------------
# known findings, evidence, verdict
# ----------------------------------------------------------------------------------------------

def load_known():
    p = VERIF / "known_findings.json"
    if not p.exists():
        return []
    return json.loads(p.read_text())["findings"]


class Report:
    """Collects what one check run did and turns it into evidence + exit status."""

    def __init__(self, prop: str, tier: str, seed: int):
        self.prop, self.tier, self.seed = prop, tier, seed
        self.t0 = time.time()
        self.obligations: dict[str, list[str] | None] = {}   # theorem -> axioms (None = failed)
        self.partial: dict[str, str] = {}
        self.corr = {"evaluations": 0, "distinct_nontrivial": 0, "rule": "", "samples": [],
                     "exhaustive": False, "input_distribution": {}}
        self._distinct: set = set()
        self.violations: list[dict] = []      # each: {kind, what, replay(dict), found(bool)}
        self.known_matched: list[str] = []
        self.assumptions: list[str] = []
        self.notes: dict = {}
        self.inconclusive = 0
        self.checker_cmd = ""
        self.known = [k for k in load_known() if k["property"] == prop]

    # -- correspondence bookkeeping
    def case(self, key, nontrivial=True, sample=None):
        self.corr["evaluations"] += 1
        if nontrivial:
            h = hashlib.sha1(repr(key).encode()).digest()[:8]
            self._distinct.add(h)
        if sample is not None and len(self.corr["samples"]) < 12:
            self.corr["samples"].append(sample)

    def dist(self, k, n=1):
        d = self.corr["input_distribution"]
        d[k] = d.get(k, 0) + n

    # -- violations
    def violation(self, kind: str, what: str, replay: dict, found_input: bool, match_key: str | None = None):
        """kind: failing-input | broken-obligation | broken-correspondence.  If match_key names
        an open known finding, it is reported as KNOWN-FINDING instead."""
        if match_key is not None:
            for k in self.known:
                if k.get("status") == "open" and k["key"] == match_key:
                    if match_key not in self.known_matched:
                        self.known_matched.append(match_key)
                        print(f"KNOWN-FINDING: property={self.prop} {k['description']}")
                    return
        self.violations.append({"kind": kind, "what": what, "replay": replay, "found": found_input})

    def finish(self) -> int:
        wall = time.time() - self.t0
        self.corr["distinct_nontrivial"] = len(self._distinct)
        n_ob = len(self.obligations)
        n_ok = sum(1 for v in self.obligations.values() if v is not None)
        cov = {
            "obligations": n_ob,
            "discharged": n_ok,
            "checker_cmd": self.checker_cmd or "cd lean && lake build && lake env lean RdVerif/Audit/%s.lean" % self.prop,
            "trusted_base": TRUSTED_BASE + self.assumptions,
            "theorems": {k: (v if v is not None else "FAILED") for k, v in self.obligations.items()},
            "partial": self.partial,
            "evaluations": self.corr["evaluations"],
            "distinct_nontrivial": self.corr["distinct_nontrivial"],
            "rule": self.corr["rule"],
            "samples": self.corr["samples"] or [{"note": "no correspondence cases in this run"}],
            "exhaustive": self.corr["exhaustive"],
            "input_distribution": self.corr["input_distribution"],
            "known_findings_matched": self.known_matched,
            "inconclusive": self.inconclusive,
        }
        cov.update(self.notes)
        ev = {
            "property_id": self.prop,
            "tier": self.tier,
            "seed": self.seed,
            "level": "proof",
            "coverage": cov,
            "assumptions": self.assumptions,
            "wall_s": round(wall, 2),
            "violations": len(self.violations),
        }
        EVIDENCE.mkdir(exist_ok=True)
        (EVIDENCE / f"{self.prop}.json").write_text(json.dumps(ev, indent=1, ensure_ascii=False, default=str))
        if not self.violations:
            print(f"OK property={self.prop} tier={self.tier} seed={self.seed} obligations={n_ok}/{n_ob} "
                  f"cases={cov['evaluations']} distinct={cov['distinct_nontrivial']} wall={wall:.1f}s")
            return 0
        d = REPLAYS / self.prop
        d.mkdir(parents=True, exist_ok=True)
        for v in self.violations:
            body = {"property": self.prop, "kind": v["kind"], "what": v["what"], "seed": self.seed,
                    "tier": self.tier, **v["replay"]}
            txt = json.dumps(body, indent=1, ensure_ascii=False, default=str)
            name = hashlib.sha1(txt.encode()).hexdigest()[:12] + ".json"
            (d / name).write_text(txt)
            tail = "" if v["found"] else " no-failing-input-found"
            print(f"# {v['kind']}: {v['what']}")
            print(f"VIOLATION property={self.prop} replay={d / name}{tail}")
        return 1


def rng(seed: int, stream: str) -> random.Random:
    return random.Random(f"{seed}/{stream}")


def setup_repo_import():
    """Make `import radioactivedecay` resolve to REPO's working tree, with the hook guard on."""
    os.environ[GUARD] = "1"
    os.environ.setdefault("MPLBACKEND", "Agg")
    if str(REPO) not in sys.path:
        sys.path.insert(0, str(REPO))
    for m in list(sys.modules):
        if m == "radioactivedecay" or m.startswith("radioactivedecay."):
            del sys.modules[m]
    import radioactivedecay  # noqa
    assert Path(radioactivedecay.__file__).resolve().parent.parent == REPO.resolve(), radioactivedecay.__file__
    return radioactivedecay
