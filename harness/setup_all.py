"""setup_cmd: translate everything and build every Lean target once (warm cache for the checks)."""
import sys
from pathlib import Path
sys.path.insert(0, str(Path(__file__).resolve().parent))
import common
from common import Lock, lake_build

def main():
    import translate_consts
    with Lock():
        print(translate_consts.generate()["changed"])
        try:
            import translate_dataset
            print(translate_dataset.generate()["changed"])
        except ImportError:
            pass
        ok, log = lake_build(["RdVerif", "RdVerif.Model.Driver"])
        print(log[-3000:])
        if not ok:
            print("setup: lake build reported errors (checks will report them per property)")
    return 0

if __name__ == "__main__":
    sys.exit(main())
