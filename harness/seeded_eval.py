"""Development aid (not a registered check): apply each seeded change in /verif/seeded/<id>/ to /repo,
run the checks, undo it, and record which check caught it in seeded/RESULTS.md.

usage: seeded_eval.py [<id> ...] [--all-checks]
"""
from __future__ import annotations

import json
import subprocess
import sys
import time
from pathlib import Path

VERIF = Path(__file__).resolve().parent.parent
REPO = Path("/repo")
SEEDED = VERIF / "seeded"


def sh(cmd, **kw):
    return subprocess.run(cmd, capture_output=True, text=True, **kw)


def repo_clean():
    return sh(["git", "-C", str(REPO), "status", "--porcelain"]).stdout.strip() == ""


def run_check(prop, timeout=3600):
    t0 = time.time()
    try:
        p = sh([str(VERIF / "check"), prop, "--tier", "quick"], timeout=timeout)
        rc, out = p.returncode, p.stdout
    except subprocess.TimeoutExpired:
        rc, out = 2, "TIMEOUT"
    lines = [l for l in out.splitlines() if l.startswith(("VIOLATION", "# ", "OK ", "KNOWN-FINDING"))]
    return rc, lines, time.time() - t0


def main():
    args = [a for a in sys.argv[1:] if not a.startswith("--")]
    all_checks = "--all-checks" in sys.argv
    ids = args or sorted(d.name for d in SEEDED.iterdir() if (d / "patch.diff").exists())
    if "--table-only" in sys.argv:
        ids = []
    props = [json.loads(l)["id"] for l in (VERIF / "properties.jsonl").read_text().splitlines() if l.strip()]
    results = {}
    resfile = SEEDED / "results.json"
    if resfile.exists():
        results = json.loads(resfile.read_text())
    for sid in ids:
        d = SEEDED / sid
        meta = json.loads((d / "meta.json").read_text())
        if not repo_clean():
            print("refusing to run: /repo has uncommitted changes")
            return 2
        ap = sh(["git", "-C", str(REPO), "apply", "--binary", str(d / "patch.diff")])
        if ap.returncode != 0:
            ap = sh(["git", "-C", str(REPO), "apply", str(d / "patch.diff")])
        if ap.returncode != 0:
            print(sid, "patch does not apply:", ap.stderr[:300])
            results[sid] = {"error": "patch does not apply"}
            continue
        try:
            if "--primary-only" in sys.argv and sid in results and "demo_exit_on_mutant" in results[sid]:
                demo_rc = results[sid]["demo_exit_on_mutant"]          # regression run: the demonstration was confirmed before
            else:
                demo_rc = sh(["/venv/bin/python", str(d / "demo.py"), str(REPO)], timeout=1800).returncode
            res = {"property": meta["property"], "demo_exit_on_mutant": demo_rc, "checks": dict(results.get(sid, {}).get("checks", {})) if "--primary-only" in sys.argv else {}}
            targets = props if all_checks else [meta["property"]] + ([] if "--primary-only" in sys.argv else meta.get("also_run", []))
            for p in targets:
                rc, lines, secs = run_check(p)
                res["checks"][p] = {"exit": rc, "secs": round(secs), "lines": [l[:400] for l in lines[:4]]}
                print(sid, p, "exit", rc, f"{secs:.0f}s", (lines[0][:160] if lines else ""), flush=True)
        finally:
            sh(["git", "-C", str(REPO), "apply", "-R", "--binary", str(d / "patch.diff")])
            sh(["git", "-C", str(REPO), "checkout", "--", "."])
            if not repo_clean():
                print("WARNING: /repo not clean after undoing", sid)
        results[sid] = res
        resfile.write_text(json.dumps(results, indent=1))
    # table
    rows = ["# Seeded changes vs checks", "",
            "Each row: a change written by an independent sub-agent from the property text alone (tests stay green), applied to",
            "/repo, the quick check(s) run, the change undone.  `caught` = exit 1 with a VIOLATION line; the replay kind is the",
            "first line the check printed.", "",
            "| seeded id | property | needs | caught by | first report |", "|---|---|---|---|---|"]
    for sid in sorted(results):
        r = results[sid]
        if "error" in r:
            rows.append(f"| {sid} | – | – | – | {r['error']} |")
            continue
        meta = json.loads((SEEDED / sid / "meta.json").read_text())
        caught = [p for p, c in r["checks"].items() if c["exit"] == 1]
        first = ""
        for p in caught[:1]:
            ls = r["checks"][p]["lines"] or [""]
            ls = [l for l in ls if l.startswith("# ")] or ls
            first = ls[0].replace("|", "\\|")[:200]
        verdict = ", ".join(caught) or ("not caught — " + meta["judged"] if meta.get("judged") else "**missed**")
        rows.append(f"| {sid} | {r['property']} | {meta.get('needs', '')[:120]} | {verdict} | {first} |")
        # keep the meta files in step with what was run
        meta["confirmed"] = {"demo_exit_on_changed_tree": r.get("demo_exit_on_mutant"), "by": "harness/seeded_eval.py (demo run on /repo with the patch applied)"}
        meta["ran"] = {p: c["exit"] for p, c in r["checks"].items()}
        (SEEDED / sid / "meta.json").write_text(json.dumps(meta, indent=1, ensure_ascii=False))
    (SEEDED / "RESULTS.md").write_text("\n".join(rows) + "\n")
    return 0


if __name__ == "__main__":
    sys.exit(main())
