"""Synthetic decay datasets, built through the library's PUBLIC route (data files in a directory +
`load_dataset(name, dir_path, load_sympy=True)`), and their rendering for the Lean driver.

A synthetic dataset is a descendant-closed part of the shipped decay graph (real nuclide names and decay
modes, so the dZ/dA rules of the well-formedness checker apply) with NEW half-lives (random values and
units, all decay constants distinct) and NEW branching fractions; its eigenvector matrices C and C^-1 are
computed here in exact rational arithmetic (standard recurrences) and written in both precisions, exactly
as the shipped files are laid out.  Nothing here is an oracle: the loaded dataset object is rendered line
by line for the driver (`driver_lines`), the driver's executable checker `wellFormedB` must accept it
(then the theorems of Proofs/Generic.lean apply to it), and the interval oracle runs on it.
"""
from __future__ import annotations

import math
import os
import pickle
import shutil
import struct
from fractions import Fraction

import numpy as np

from common import WORK, hexs

UNIT_SECONDS = {"μs": Fraction(1, 10**6), "ms": Fraction(1, 1000), "s": Fraction(1), "m": Fraction(60), "h": Fraction(3600),
                "d": Fraction(86400)}
YEAR_UNITS = {"y": 1, "ky": 1000, "My": 10**6}


def bits(x: float) -> int:
    return struct.unpack("<Q", struct.pack("<d", float(x)))[0]


def dec(x: float) -> Fraction:
    """decimal reading of a double (its shortest repr)"""
    return Fraction(repr(float(x)))


def make_scheme(view, r, max_n=22):
    """a random scheme: (names, hl[(value, unit)], links[[(progeny name, bf, mode)]], masses)"""
    dd = view.dd
    small = [i for i in range(view.n) if view.rate[i] != 0 and 3 <= len(view.descendants([i])) <= max_n]
    root = r.choice(small)
    idx = sorted(view.descendants([root]))
    if r.random() < 0.5:
        extra = r.choice(small)
        both = sorted(set(idx) | view.descendants([extra]))
        if len(both) <= max_n:
            idx = both
    names = [view.names[g] for g in idx]
    inset = set(names)
    hl, links, used = [], [], set()
    # the dataset's own days-per-year: the shipped value, or a Julian / calendar year (both precisions get the same)
    year = r.choice([Fraction(int(dd.sympy_year_conv.p), int(dd.sympy_year_conv.q)), Fraction(36525, 100), Fraction(365), Fraction(366)])
    for g in idx:
        prog = [str(p) for p in dd.progeny[g]]
        modes = [str(m) for m in dd.modes[g]]
        if not prog:
            hl.append((float("inf"), "s"))
            links.append([])
            continue
        while True:
            unit = r.choice(["μs", "ms", "s", "s", "m", "h", "d", "d", "y", "y", "ky", "My"])
            value = float(f"{10.0 ** r.uniform(-1, 3):.4g}")
            sec = dec(value) * (UNIT_SECONDS[unit] if unit in UNIT_SECONDS else 86400 * year * YEAR_UNITS[unit])
            if sec not in used:
                used.add(sec)
                break
        hl.append((value, unit))
        k = len(prog)
        # new branching fractions: decimals, non-increasing, sum 1 (or slightly below, as some shipped nuclides)
        if k == 1:
            fr = [r.choice([1.0, 1.0, 0.99, 0.9998])]
        else:
            cuts = sorted((r.randint(1, 9999) for _ in range(k - 1)))
            parts = [b - a for a, b in zip([0] + cuts, cuts + [10000])]
            parts = sorted((p for p in parts), reverse=True)
            if 0 in parts:
                parts = [10000 - (k - 1)] + [1] * (k - 1)
            fr = [p / 10000 for p in parts]
        links.append([(p, f, m) for p, f, m in zip(prog, fr, modes) if p in inset or p == "SF"])
    masses = [float(dd.scipy_data.atomic_masses[g]) for g in idx]
    return {"names": names, "hl": hl, "links": links, "masses": masses, "source_idx": idx,
            "year": year, "year_float": float(year)}


def rates_of(sch):
    out = []
    for value, unit in sch["hl"]:
        if math.isinf(value):
            out.append(Fraction(0))
        else:
            sec = dec(value) * (UNIT_SECONDS[unit] if unit in UNIT_SECONDS else 86400 * sch["year"] * YEAR_UNITS[unit])
            out.append(1 / sec)
    return out


def exact_matrices(sch):
    """C and C^-1 (dict rows {col: Fraction}) of the scheme, rates in units of ln 2"""
    names = sch["names"]
    n = len(names)
    index = {nm: i for i, nm in enumerate(names)}
    rate = rates_of(sch)
    # R[i][j] = b_ji * r_j for j -> i ; R[i][i] = -r_i
    par = [[] for _ in range(n)]
    for j, ls in enumerate(sch["links"]):
        for p, f, _ in ls:
            if p in index:
                par[index[p]].append((j, dec(f)))
    C = [dict() for _ in range(n)]
    for j in range(n):
        C[j][j] = Fraction(1)
        for i in range(j + 1, n):
            s = Fraction(0)
            for p, b in par[i]:
                if p >= j and j in C[p]:
                    s += b * rate[p] * C[p][j]
            if s != 0:
                C[i][j] = s / (rate[i] - rate[j])
    Ci = [dict() for _ in range(n)]
    for j in range(n):
        Ci[j][j] = Fraction(1)
        for i in range(j + 1, n):
            s = Fraction(0)
            for k, c in C[i].items():
                if j <= k < i and j in Ci[k]:
                    s += c * Ci[k][j]
            if s != 0:
                Ci[i][j] = -s
    return C, Ci, rate


def write_files(sch, C, Ci, rate, path):
    import sympy
    from scipy import sparse
    os.makedirs(path, exist_ok=True)
    n = len(sch["names"])
    hld = np.empty((n, 3), dtype=object)
    for i, (v, u) in enumerate(sch["hl"]):
        hld[i, 0] = np.float64(v)
        hld[i, 1] = u if not math.isinf(v) else "s"
        hld[i, 2] = "stable" if math.isinf(v) else f"{v!r} {u}"

    def obj(rows):
        a = np.empty(n, dtype=object)
        for i, x in enumerate(rows):
            a[i] = list(x)
        return a
    np.savez(os.path.join(path, "decay_data.npz"), nuclides=np.array(sch["names"]), masses=np.array(sch["masses"], dtype=np.float64),
             hldata=hld, progeny=obj([[p for p, _, _ in ls] for ls in sch["links"]]),
             bfs=obj([[f for _, f, _ in ls] for ls in sch["links"]]), modes=obj([[m for _, _, m in ls] for ls in sch["links"]]),
             year_conv=np.float64(sch["year_float"]))

    def csr(M):
        rows, cols, vals = [], [], []
        for i, r_ in enumerate(M):
            for j in sorted(r_):
                rows.append(i)
                cols.append(j)
                vals.append(float(r_[j]))          # correctly rounded: Fraction.__float__
        m = sparse.csr_matrix((vals, (rows, cols)), shape=(n, n), dtype=np.float64)
        m.sort_indices()
        return m
    sparse.save_npz(os.path.join(path, "c_scipy.npz"), csr(C))
    sparse.save_npz(os.path.join(path, "c_inv_scipy.npz"), csr(Ci))

    def srat(q):
        return sympy.Rational(q.numerator, q.denominator)

    def smat(M):
        return sympy.SparseMatrix(n, n, {(i, j): srat(v) for i, r_ in enumerate(M) for j, v in r_.items()})
    for gen in ("1.8", "1.9"):
        for fname, o in (("c_sympy", smat(C)), ("c_inv_sympy", smat(Ci)),
                         ("decay_consts_sympy", sympy.Matrix([sympy.log(2) * srat(x) for x in rate])),
                         ("atomic_masses_sympy", sympy.Matrix([srat(dec(m)) for m in sch["masses"]])),
                         ("year_conversion_sympy", srat(sch["year"]))):
            with open(os.path.join(path, f"{fname}_{gen}.pickle"), "wb") as f:
                pickle.dump(o, f)


def build(rd, view, r, tag, sch=None, name=None):
    """returns (loaded DecayData, scheme, directory) — the caller removes the directory"""
    sch = sch or make_scheme(view, r)
    C, Ci, rate = exact_matrices(sch)
    path = str(WORK / "synth" / tag)
    shutil.rmtree(path, ignore_errors=True)
    write_files(sch, C, Ci, rate, path)
    ds = rd.decaydata.load_dataset(name or f"verif_synth_{tag}", dir_path=path, load_sympy=True)
    return ds, sch, path


def fr(q) -> str:
    q = Fraction(q)
    return f"{q.numerator}/{q.denominator}"


def float_me(x: float):
    """(m, e) with x = m * 2^e exactly"""
    p, q = float(x).as_integer_ratio()
    return p, -(q.bit_length() - 1)


def driver_lines(ds, name: str):
    """render a LOADED dataset object for the driver (`ds_new … ds_done name`), reading only its public attributes"""
    import sympy
    n = len(ds.nuclides)
    names = [str(x) for x in ds.nuclides]
    index = {nm: i for i, nm in enumerate(names)}
    year = Fraction(int(ds.sympy_year_conv.p), int(ds.sympy_year_conv.q))
    lines = [f"ds_new\t{n}\t{fr(year)}\t{fr(Fraction(float(ds.float_year_conv)))}"]
    sy, sd = ds.sympy_data, ds.scipy_data
    cx, cix = {}, {}
    for (i, j), v in sy.matrix_c.todok().items():
        cx.setdefault(int(i), []).append((int(j), Fraction(int(v.p), int(v.q))))
    for (i, j), v in sy.matrix_c_inv.todok().items():
        cix.setdefault(int(i), []).append((int(j), Fraction(int(v.p), int(v.q))))
    cf, cif = sd.matrix_c.tocsr(), sd.matrix_c_inv.tocsr()
    parents = [[] for _ in range(n)]
    for j in range(n):
        for p, b in zip(ds.progeny[j], ds.bfs[j]):
            if str(p) in index:
                parents[index[str(p)]].append((j, dec(b)))
    ln2 = sympy.log(2)
    for i in range(n):
        v, u, readable = float(ds.hldata[i][0]), str(ds.hldata[i][1]), str(ds.hldata[i][2])
        lam = sy.decay_consts[i]
        if lam == 0:
            rq = sympy.Integer(0)
        else:
            rq, rest = lam.as_coeff_Mul()
            if rest != ln2 or not rq.is_Rational:
                raise ValueError(f"decay constant of {names[i]} is not a rational multiple of ln 2: {lam}")
        rate = Fraction(int(rq.p), int(rq.q))
        m = sy.atomic_masses[i]
        mq = Fraction(int(m.p), int(m.q))
        lines.append("\t".join(["ds_nuc", hexs(names[i]), "inf" if math.isinf(v) else fr(dec(v)), str(bits(v)), hexs(u), hexs(readable),
                                fr(rate), fr(mq), fr(mq), fr(Fraction(float(sd.decay_consts[i]))), fr(Fraction(float(sd.atomic_masses[i])))]))
        for p, b, md in zip(ds.progeny[i], ds.bfs[i], ds.modes[i]):
            p = str(p)
            lines.append("\t".join(["ds_link", str(index[p]) if p in index else "-", hexs(p), fr(dec(b)), str(bits(b)), hexs(str(md))]))
        if parents[i]:
            lines.append("\t".join(["ds_par"] + [f"{p}:{fr(b)}" for p, b in parents[i]]))
        lines.append("\t".join(["ds_cx"] + [f"{j}:{q.numerator}:{q.denominator}" for j, q in sorted(cx.get(i, []))]))
        lines.append("\t".join(["ds_cix"] + [f"{j}:{q.numerator}:{q.denominator}" for j, q in sorted(cix.get(i, []))]))
        for key, mtx in (("ds_cf", cf), ("ds_cif", cif)):
            s, e = mtx.indptr[i], mtx.indptr[i + 1]
            ent = sorted((int(mtx.indices[k]), float(mtx.data[k])) for k in range(s, e))
            lines.append("\t".join([key] + ["%d:%d:%d" % ((j,) + float_me(x)) for j, x in ent]))
    lines.append(f"ds_done\t{name}")
    return lines


class SynthView:
    """the few DatasetView facilities the decay checks use, for a loaded synthetic dataset"""

    def __init__(self, ds):
        from oracle import DatasetView
        self.v = DatasetView(ds)

    def __getattr__(self, k):
        return getattr(self.v, k)


def cleanup(path):
    shutil.rmtree(path, ignore_errors=True)


# ------------------------------------------------------------------------------------------------
# shared correspondence block: real calculations on a loaded synthetic dataset vs the Lean oracle on it
# ------------------------------------------------------------------------------------------------

def condition_bounds(C, Ci):
    """K_i = max_j sum_k |C_ik Ci_kj| (exact) — only sets the rounding allowance of the comparison"""
    n = len(C)
    out = []
    for i in range(n):
        best = Fraction(1)
        for j in range(n):
            s = sum((abs(c * Ci[k][j]) for k, c in C[i].items() if j in Ci[k]), Fraction(0))
            best = max(best, s)
        out.append(best)
    return out


def decay_block(rep, ctx, stream, kinds=("decay",), ndatasets=None, per=6, hp=False):
    """For several synthetic datasets: (1) the driver's executable well-formedness checker accepts the dataset as the
    library loaded it, (2) real decay / cumulative_decays on it agree with the interval oracle run on the same
    dataset (nuclide set exact; amounts within 2^-45 * K_i of the ancestors' atoms, K_i the exact condition sum of the
    synthetic matrices; HP: 1e-13 relative).  Returns the number of mismatches."""
    from oracle import DatasetView, LeanOracle, eval_adaptive
    from common import lean_driver, rng
    from decaylib import F, within, is_finite
    rd = ctx.rd
    r = rng(ctx.seed, stream)
    base = DatasetView(rd.DEFAULTDATA)
    nds = ndatasets or (12 if ctx.tier == "thorough" else 3)
    bad = 0
    import sympy
    for k in range(nds):
        tag = f"{stream.replace('/', '_')}_{ctx.seed}_{k}"
        try:
            ds, sch, path = build(rd, base, r, tag)
        except Exception as e:  # noqa: BLE001
            rep.violation("failing-input", f"loading a synthetic dataset through load_dataset(dir_path=…) raised "
                          f"{type(e).__name__}: {e}", {"call": "synthetic-load"}, True)
            bad += 1
            continue
        try:
            name = f"syn{k}"
            prelude = driver_lines(ds, name)
            desc0 = (f"synthetic dataset #{k} ({len(sch['names'])} nuclides from {sch['names'][0]}; half-lives "
                     f"{[f'{v!r} {u}' for v, u in sch['hl'][:4]]}…)")
            if ctx.build_ok:
                out = lean_driver(prelude + [f"ds_wf\t{name}"])
                verdict = out[-1]
                rep.case(("synth-wf", tag), sample={"synthetic": sch["names"][:6], "half_lives": [f"{v!r} {u}" for v, u in sch["hl"][:6]],
                                                    "wellFormedB": verdict[:60]} if k == 0 else None)
                rep.dist("synthetic:datasets")
                if not verdict.startswith("ok true"):
                    # the dataset as LOADED is not the well-formed scheme that was written: find out which side
                    bad += 1
                    rep.violation("failing-input", f"{desc0}: as loaded by load_dataset it fails the well-formedness checker "
                                  f"({verdict[3:200]}) — the loaded object does not carry the data of the files",
                                  {"call": "synthetic-wf", "names": sch["names"], "verdict": verdict}, True)
                    continue
            view = DatasetView(ds)
            if float(ds.float_year_conv) != sch["year_float"] or Fraction(int(ds.sympy_year_conv.p), int(ds.sympy_year_conv.q)) != sch["year"]:
                bad += 1
                rep.violation("failing-input", f"{desc0}: the dataset was written with {float(sch['year'])} days per year, the loaded "
                              f"object reports float {float(ds.float_year_conv)!r} / exact {ds.sympy_year_conv}",
                              {"call": "synthetic-year", "names": sch["names"]}, True)
                continue
            C, Ci, rate = exact_matrices(sch)
            K = condition_bounds(C, Ci)
            # the forward-error bound the theorem Generic.forward_error gives for THIS dataset: the driver finds the smallest
            # tolerances (aggregated data error, condition sum, rounding coefficient) that pass errorCheckedB and evaluates
            # errorBoundQ; used as the float tolerance when the check passes (else the harness's own 2^-45 K_i allowance)
            thm_bound = None
            if ctx.build_ok and not hp:
                eo = lean_driver(prelude + [f"ds_err\t{name}\t1/1000000000000000"])[-1].split(" ")
                if eo[0] == "ok" and eo[1] == "true":
                    thm_bound = Fraction(eo[5])
                    rep.dist("synthetic:theorem-bound-used")
                else:
                    rep.dist("synthetic:theorem-bound-unavailable")
            radio = [i for i in range(view.n) if view.rate[i] != 0]
            cases, reals = [], []
            for _ in range(per):
                picks = r.sample(range(view.n), min(view.n, r.choice([1, 1, 2, 3])))
                contents = {view.names[i]: (10.0 ** r.uniform(-3, 25)) for i in picks}
                members = [g for g in view.descendants(picks) if view.rate[g] != 0]
                if members and r.random() < 0.8:
                    g = r.choice(members)
                    tsec = float(r.choice([1e-3, 0.1, 1.0, 3.0, 30.0, 200.0]) / view.rate[g])
                else:
                    tsec = 10.0 ** r.uniform(-6, 12)
                tu = r.choice(["s", "ms", "h", "d", "y", "y", "ky", "yr", "μs"])
                per_u = float(86400 * sch["year"] * {"y": 1, "yr": 1, "ky": 1000}[tu]) if tu in ("y", "yr", "ky") else float(view.unit_s[tu])
                t = tsec / per_u
                for kind in kinds:
                    cases.append((kind, contents, t, tu))
            ocs = {kd: [] for kd in kinds}
            for kind, contents, t, tu in cases:
                desc = f"{desc0}: {'InventoryHP' if hp else 'Inventory'}({contents!r}, 'num').{kind}({t!r}, {tu!r})"
                try:
                    Cc = rd.InventoryHP if hp else rd.Inventory
                    inv = Cc(dict(contents), "num", True, ds)
                    if hp:
                        n0 = {view.index[nm]: Fraction(int(v.p), int(v.q)) for nm, v in inv.contents.items()}
                        tsx = rd.converters.UnitConverterSympy.time_unit_conv(sympy.nsimplify(t), tu, "s",
                                                                              sympy.Rational(sch["year"].numerator, sch["year"].denominator))
                        if not tsx.is_Rational:
                            rep.inconclusive += 1
                            continue
                        ts = Fraction(int(tsx.p), int(tsx.q))
                    else:
                        n0 = {view.index[nm]: F(v) for nm, v in inv.contents.items()}
                        ts = F(rd.converters.UnitConverterFloat.time_unit_conv(t, tu, "s", sch["year_float"]))
                    res = inv.decay(t, tu).numbers() if kind == "decay" else inv.cumulative_decays(t, tu)
                    reals.append((kind, desc, n0, res))
                    ocs[kind].append((n0, ts))
                except Exception as e:  # noqa: BLE001
                    bad += 1
                    rep.violation("failing-input", f"{desc}: raised {type(e).__name__}: {e}", {"call": "synthetic-" + kind}, True)
            if not ctx.build_ok:
                continue
            orc = LeanOracle(dataset=name, prelude=prelude)
            results = {}
            for kind in kinds:
                if not ocs[kind]:
                    continue

                def need(j, o, kind=kind):
                    n0 = ocs[kind][j][0]
                    tot = sum(abs(a) for a in n0.values())
                    if hp:
                        return all(hi == lo or (not (lo <= 0 <= hi) and hi - lo <= min(abs(lo), abs(hi)) / 10**15)
                                   or max(abs(lo), abs(hi)) < Fraction(1, 10**280) * max(tot, 1) for lo, hi in o.values())
                    return all(hi - lo <= tot / 2**60 or hi == lo for lo, hi in o.values())
                results[kind] = eval_adaptive(orc, ocs[kind], need, kind=("cum" if kind != "decay" else "decay"), P0=200, Pmax=3300)
            pos = {kd: 0 for kd in kinds}
            for kind, desc, n0, res in reals:
                j = pos[kind]
                pos[kind] += 1
                encl, inconcl = results[kind]
                rep.case(("synth", tag, kind, j), sample={"synthetic_case": desc[-160:]} if j == 0 and k == 0 else None)
                rep.dist(f"synthetic:{kind}" + (":hp" if hp else ""))
                if j in inconcl:
                    rep.inconclusive += 1
                    continue
                want = sorted(view.names[i] for i in encl[j])
                if sorted(res) != want or (kind == "decay" and list(res) != want):
                    bad += 1
                    rep.violation("failing-input", f"{desc}: nuclides {list(res)[:6]} differ from the model's {want[:6]}",
                                  {"call": "synthetic-" + kind}, True)
                    continue
                anc_tot = sum(abs(a) for a in n0.values())
                for i, (lo, hi) in encl[j].items():
                    nm = view.names[i]
                    v = res[nm]
                    if not is_finite(v):
                        okv = False
                    elif hp:
                        mag = max(abs(lo), abs(hi))
                        okv = abs(F(v)) < Fraction(1, 10**270) * max(anc_tot, 1) if mag < Fraction(1, 10**280) * max(anc_tot, 1) \
                            else within(F(v), lo, hi, mag / 10**13)
                    else:
                        okv = within(F(v), lo, hi, (thm_bound * anc_tot) if (thm_bound is not None and kind == "decay")
                                     else K[i] * anc_tot / 2**45)
                    if not okv:
                        bad += 1
                        rep.violation("failing-input", f"{desc}: {nm} = {v!r}, exact value in [{float(lo)!r}, {float(hi)!r}]",
                                      {"call": "synthetic-" + kind}, True)
                        break
        finally:
            cleanup(path)
    return bad
