"""Read SymPy pickles without SymPy: every class is replaced by a stub that records how it was
built (`__new__` args, `__setstate__` state, `__setitem__` items, `__reduce__` calls)."""
from __future__ import annotations

import pickle


class Stub:
    _cls = "?"

    def __new__(cls, *args, **kw):
        o = object.__new__(cls)
        o.args = args
        o.kw = kw
        o.state = None
        o.items = {}
        o.appended = []
        return o

    def __init__(self, *a, **k):
        pass

    def __setstate__(self, st):
        self.state = st

    def __setitem__(self, k, v):
        self.items[k] = v

    def append(self, v):
        self.appended.append(v)

    def extend(self, vs):
        self.appended.extend(vs)

    def __hash__(self):
        return id(self)

    def __repr__(self):
        return f"<{self._cls} args={self.args!r} state={self.state!r} items={len(self.items)}>"


_classes: dict = {}


def stub_class(module, name):
    key = f"{module}.{name}"
    if key not in _classes:
        _classes[key] = type(name, (Stub,), {"_cls": key})
    return _classes[key]


class StubUnpickler(pickle.Unpickler):
    def find_class(self, module, name):
        if module == "builtins" and name in ("dict", "list", "tuple", "set", "frozenset", "int", "float", "str", "bool", "complex", "object", "getattr"):
            return getattr(__import__("builtins"), name)
        if module == "collections" and name == "defaultdict":
            import collections
            return collections.defaultdict
        return stub_class(module, name)


def load(path):
    with open(path, "rb") as f:
        return StubUnpickler(f).load()
