"""Translator, part 2: the shipped dataset files → Lean (Gen/Icrp107/*.lean).

Reads the raw files of /repo's working tree (npz + both pickle generations through a stub
unpickler that needs no SymPy) and, for the float decay constants, what `load_dataset` builds
in this interpreter.  Every double is emitted as the exact dyadic rational it is, every decimal
datum (half-life, branching fraction) additionally as the decimal reading of its shortest repr.
"""
from __future__ import annotations

import hashlib
import json
import math
from fractions import Fraction
from pathlib import Path

import numpy as np
from scipy import sparse

import unpickle_stub as U
from common import GEN, REPO, WORK, float_bits, lean_codes, lean_int, lean_str, write_if_changed

BLOCK = 40
DATASET = "icrp107_ame2020_nubase2020"
OUT = GEN / "Icrp107"
FILE_BUDGET = 60000
MAX_FILES_PER_MATRIX = 14


class TranslatorError(Exception):
    pass


# ----------------------------------------------------------------------------------------------
# SymPy stub trees → exact values
# ----------------------------------------------------------------------------------------------

def node_kind(x):
    return getattr(x, "_cls", type(x).__name__).rsplit(".", 1)[-1]


def to_fraction(x) -> Fraction:
    k = node_kind(x)
    if k in ("Rational", "PythonMPQ"):
        return Fraction(int(x.args[0]), int(x.args[1]))
    if k == "Integer":
        return Fraction(int(x.args[0]))
    if k == "One":
        return Fraction(1)
    if k == "NegativeOne":
        return Fraction(-1)
    if k == "Zero":
        return Fraction(0)
    if k == "Half":
        return Fraction(1, 2)
    if isinstance(x, int):
        return Fraction(x)
    if isinstance(x, Fraction):
        return x
    raise TranslatorError(f"not a rational node: {x!r}"[:200])


def rate_of(x) -> Fraction:
    """decay constant node → r with λ = r·log(2)"""
    k = node_kind(x)
    if k == "Zero":
        return Fraction(0)
    if k == "log":
        if to_fraction(x.args[0]) != 2:
            raise TranslatorError("decay constant is not a multiple of log(2)")
        return Fraction(1)
    if k == "Mul":
        r = Fraction(1)
        logs = 0
        for a in x.args:
            if node_kind(a) == "log":
                if to_fraction(a.args[0]) != 2:
                    raise TranslatorError("decay constant is not a multiple of log(2)")
                logs += 1
            else:
                r *= to_fraction(a)
        if logs != 1:
            raise TranslatorError("decay constant is not rational·log(2)")
        return r
    raise TranslatorError(f"unexpected decay constant node {x!r}"[:200])


def mass_of(x):
    """atomic mass node → ('q', Fraction) or ('alg', q0, c, radicand, root)"""
    try:
        return ("q", to_fraction(x))
    except TranslatorError:
        pass
    if node_kind(x) != "Add":
        raise TranslatorError(f"unexpected mass node {x!r}"[:200])
    q0 = Fraction(0)
    alg = None
    for a in x.args:
        try:
            q0 += to_fraction(a)
            continue
        except TranslatorError:
            pass
        if node_kind(a) != "Mul" or alg is not None:
            raise TranslatorError("unexpected algebraic mass shape")
        c = Fraction(1)
        pows = []
        for f in a.args:
            if node_kind(f) == "Pow":
                base = to_fraction(f.args[0])
                ex = to_fraction(f.args[1])
                if base.denominator != 1 or base <= 0 or ex <= 0:
                    raise TranslatorError("unexpected power in algebraic mass")
                pows.append((int(base), ex))
            else:
                c *= to_fraction(f)
        root = 1
        for _, ex in pows:
            root = root * ex.denominator // math.gcd(root, ex.denominator)
        radicand = 1
        for b, ex in pows:
            radicand *= b ** int(ex * root)
        alg = (c, radicand, root)
    if alg is None or alg[0] <= 0:
        raise TranslatorError("unexpected algebraic mass shape")
    return ("alg", q0, alg[0], alg[1], alg[2])


def iroot_bounds(radicand: int, root: int, digits: int = 45):
    """rational lo ≤ radicand^(1/root) ≤ hi with hi − lo = 10^-digits (integer arithmetic only)"""
    scale = 10 ** digits
    target = radicand * scale ** root
    lo, hi = 0, 1
    while hi ** root <= target:
        hi *= 2
    while hi - lo > 1:
        mid = (lo + hi) // 2
        if mid ** root <= target:
            lo = mid
        else:
            hi = mid
    return Fraction(lo, scale), Fraction(lo + 1, scale)


def matrix_entries(obj, gen):
    """sparse SymPy matrix stub → {(i, j): Fraction}, shape"""
    st = obj.state
    rows, cols = st["rows"], st["cols"]
    out = {}
    if gen == "1.8":
        src = st["_smat"] if "_smat" in st else None
        if src is None:
            raise TranslatorError("1.8 matrix without _smat")
        for (i, j), v in src.items():
            out[(i, j)] = to_fraction(v)
    else:
        rep = st["_rep"]
        d = rep.args[0] if rep.args else rep.state["rep"].items
        for i, row in d.items():
            for j, v in row.items():
                out[(i, j)] = to_fraction(v)
    return out, (rows, cols)


def vector_entries(obj, gen):
    st = obj.state
    n = st["rows"]
    if gen == "1.8":
        return list(st["_mat"])
    rep = st["_rep"]
    d = rep.args[0]
    out = [None] * n
    for i, row in d.items():
        out[i] = row[0]
    zero = U.stub_class("sympy.core.numbers", "Zero")()
    return [zero if v is None else v for v in out]


# ----------------------------------------------------------------------------------------------

def float_me(x: float):
    """exact (m, e) with x = m·2^e"""
    x = float(x)
    if x == 0.0:
        return 0, 0
    p, q = x.as_integer_ratio()
    e = -(q.bit_length() - 1)
    while p % 2 == 0:
        p //= 2
        e += 1
    return p, e


def rat(q: Fraction) -> str:
    return f"(mkRat {lean_int(q.numerator)} {q.denominator})"


def dec_reading(x: float) -> Fraction:
    return Fraction(repr(float(x)))


def blocked(items, fmt, typ, indent="  "):
    """Lean literal for a blocked list"""
    blocks = []
    for b in range(0, len(items), BLOCK):
        blocks.append("[" + (",\n" + indent + " ").join(fmt(i, items[i]) for i in range(b, min(b + BLOCK, len(items)))) + "]")
    return "[" + (",\n" + indent).join(blocks) + "]"


def read_all():
    d = REPO / "radioactivedecay" / DATASET
    z = np.load(d / "decay_data.npz", allow_pickle=True)
    data = {k: z[k] for k in z.files}
    cf = sparse.load_npz(d / "c_scipy.npz").tocsr()
    cif = sparse.load_npz(d / "c_inv_scipy.npz").tocsr()
    gens = {}
    for gen in ("1.8", "1.9"):
        g = {}
        g["c"], shp = matrix_entries(U.load(d / f"c_sympy_{gen}.pickle"), gen)
        g["ci"], shp2 = matrix_entries(U.load(d / f"c_inv_sympy_{gen}.pickle"), gen)
        g["shape"] = (shp, shp2)
        g["rates"] = [rate_of(x) for x in vector_entries(U.load(d / f"decay_consts_sympy_{gen}.pickle"), gen)]
        g["masses"] = [mass_of(x) for x in vector_entries(U.load(d / f"atomic_masses_sympy_{gen}.pickle"), gen)]
        g["year"] = to_fraction(U.load(d / f"year_conversion_sympy_{gen}.pickle"))
        gens[gen] = g
    return data, cf, cif, gens


def rows_of(entries: dict, n: int):
    rows = [[] for _ in range(n)]
    for (i, j), v in entries.items():
        if not (0 <= i < n and 0 <= j < n):
            raise TranslatorError(f"matrix entry ({i},{j}) outside {n}x{n}")
        rows[i].append((j, v))
    for r in rows:
        r.sort()
    return rows


def emit_matrix_files(prefix: str, rows, kind: str):
    """kind 'x' (exact E) or 'f' (float FE); returns list of module names written/changed"""
    n = len(rows)
    nb = (n + BLOCK - 1) // BLOCK
    changed = []
    mods = []
    typ = "Row" if kind == "x" else "FRow"
    # render every block, then pack blocks into files of roughly equal size
    rendered = []
    for b in range(nb):
        rr = []
        for i in range(b * BLOCK, min((b + 1) * BLOCK, n)):
            if kind == "x":
                rr.append("  [" + ", ".join(f"E.mk {j} {lean_int(v.numerator)} {v.denominator}" for j, v in rows[i]) + "]")
            else:
                rr.append("  [" + ", ".join("FE.mk %d %s %s" % (j, lean_int(m), lean_int(e)) for j, (m, e) in rows[i]) + "]")
        rendered.append(f"def {prefix}B{b} : List {typ} := [\n" + ",\n".join(rr) + "\n]")
    budget = max(FILE_BUDGET, sum(len(x) for x in rendered) // MAX_FILES_PER_MATRIX + 1)
    groups, cur, size = [], [], 0
    for b, txt in enumerate(rendered):
        if cur and size + len(txt) > budget:
            groups.append(cur)
            cur, size = [], 0
        cur.append(txt)
        size += len(txt)
    if cur:
        groups.append(cur)
    for gi, grp in enumerate(groups):
        L = ["-- GENERATED by harness/translate_dataset.py — do not edit",
             "import RdVerif.Model.Dataset", "set_option maxRecDepth 100000", "namespace RdVerif.Gen.Icrp107", ""]
        L += grp
        L += ["", "end RdVerif.Gen.Icrp107"]
        name = f"{prefix.capitalize()}P{gi}"
        mods.append(name)
        if write_if_changed(OUT / f"{name}.lean", "\n".join(L) + "\n"):
            changed.append(name)
    # remove stale part files of an earlier run with a different split
    for old in OUT.glob(f"{prefix.capitalize()}P*.lean"):
        if old.stem not in mods:
            old.unlink()
    L = ["-- GENERATED by harness/translate_dataset.py — do not edit"]
    L += [f"import RdVerif.Gen.Icrp107.{m}" for m in mods]
    L += ["namespace RdVerif.Gen.Icrp107",
          f"def {prefix} : List (List {typ}) := [" + ", ".join(f"{prefix}B{b}" for b in range(nb)) + "]",
          "end RdVerif.Gen.Icrp107"]
    name = prefix.capitalize()
    if write_if_changed(OUT / f"{name}.lean", "\n".join(L) + "\n"):
        changed.append(name)
    return changed, nb


def generate():
    data, cf, cif, gens = read_all()
    names = [str(x) for x in data["nuclides"]]
    n = len(names)
    index = {nm: i for i, nm in enumerate(names)}
    if len(index) != n:
        raise TranslatorError("duplicate nuclide names")
    for k in ("masses", "hldata", "progeny", "bfs", "modes"):
        if len(data[k]) != n:
            raise TranslatorError(f"{k} has {len(data[k])} rows, expected {n}")
    if cf.shape != (n, n) or cif.shape != (n, n):
        raise TranslatorError("float matrices have the wrong shape")
    g9, g8 = gens["1.9"], gens["1.8"]
    for g in (g8, g9):
        if g["shape"] != ((n, n), (n, n)) or len(g["rates"]) != n or len(g["masses"]) != n:
            raise TranslatorError("SymPy data have the wrong shape")
    changed = []

    # ---- matrices
    for prefix, entries in (("cx", g9["c"]), ("cix", g9["ci"]), ("cx18", g8["c"]), ("cix18", g8["ci"])):
        ch, nb = emit_matrix_files(prefix, rows_of(entries, n), "x")
        changed += ch
    for prefix, m in (("cf", cf), ("cif", cif)):
        m.sort_indices()
        rows = []
        for i in range(n):
            s, e = m.indptr[i], m.indptr[i + 1]
            rows.append([(int(m.indices[k]), float_me(m.data[k])) for k in range(s, e)])
        ch, nb = emit_matrix_files(prefix, rows, "f")
        changed += ch

    # ---- what load_dataset builds in this interpreter
    from common import setup_repo_import
    rd = setup_repo_import()
    dd = rd.DEFAULTDATA
    lamF = [Fraction(float(x)) for x in dd.scipy_data.decay_consts]
    massF = [Fraction(float(x)) for x in dd.scipy_data.atomic_masses]
    yearF = Fraction(float(dd.float_year_conv))
    if len(lamF) != n or len(massF) != n:
        raise TranslatorError("loaded dataset has a different size from the files")

    # ---- meta
    hl = data["hldata"]
    prog, bfs, modes = data["progeny"], data["bfs"], data["modes"]
    parents = [[] for _ in range(n)]
    for j in range(n):
        if not (len(prog[j]) == len(bfs[j]) == len(modes[j])):
            raise TranslatorError(f"progeny/bfs/modes of {names[j]} are not aligned")
        for p, b in zip(prog[j], bfs[j]):
            if p in index:
                parents[index[p]].append((j, dec_reading(b)))

    def fmt_hl(i, h):
        v = float(h[0])
        val = "none" if math.isinf(v) else f"(some {rat(dec_reading(v))})"
        return f"HL.mk {val} {float_bits(v)} {lean_str(str(h[1]))} {lean_str(str(h[2]))}"

    def fmt_links(i, _):
        items = []
        for p, b, m in zip(prog[i], bfs[i], modes[i]):
            idx = f"(some {index[p]})" if p in index else "none"
            items.append(f"Link.mk {idx} {lean_codes(str(p))} {rat(dec_reading(b))} {float_bits(b)} {lean_str(str(m))}")
        return "[" + ", ".join(items) + "]"

    def fmt_mass(i, m):
        if m[0] == "q":
            return f"({rat(m[1])}, {rat(m[1])})"
        _, q0, c, radicand, root = m
        lo, hi = iroot_bounds(radicand, root)
        return f"({rat(q0 + c * lo)}, {rat(q0 + c * hi)})"

    alg = [(i, m) for i, m in enumerate(g9["masses"]) if m[0] == "alg"]
    M = ["-- GENERATED by harness/translate_dataset.py — do not edit",
         "import RdVerif.Model.Dataset", "set_option maxRecDepth 100000", "namespace RdVerif.Gen.Icrp107", "",
         f"def n : Nat := {n}",
         f"def datasetName : String := {lean_str(str(dd.dataset_name))}",
         "def names : List (List (List Nat)) := " + blocked(names, lambda i, s: lean_codes(s), ""),
         "def hl : List (List HL) := " + blocked(list(hl), fmt_hl, ""),
         "def links : List (List (List Link)) := " + blocked(list(range(n)), fmt_links, ""),
         "def parents : Parents := " + blocked(parents, lambda i, ps: "[" + ", ".join(f"({j}, {rat(b)})" for j, b in ps) + "]", ""),
         f"def yearX : Rat := {rat(g9['year'])}",
         f"def yearX18 : Rat := {rat(g8['year'])}",
         f"def yearF : Rat := {rat(yearF)}",
         f"def yearFileBits : UInt64 := {float_bits(float(data['year_conv']))}",
         "def rate : Rates := " + blocked(g9["rates"], lambda i, r: rat(r), ""),
         "def rate18 : Rates := " + blocked(g8["rates"], lambda i, r: rat(r), ""),
         "def massX : List (List (Rat × Rat)) := " + blocked(g9["masses"], fmt_mass, ""),
         "def massX18 : List (List (Rat × Rat)) := " + blocked(g8["masses"], fmt_mass, ""),
         "/-- algebraic (irrational) atomic masses: index, q0, c, radicand, root, lo, hi with",
         "mass = q0 + c·radicand^(1/root) and lo ≤ radicand^(1/root) ≤ hi -/",
         "def massAlg : List (Nat × Rat × Rat × Nat × Nat × Rat × Rat) := [" + ", ".join(
             "(%d, %s, %s, %d, %d, %s, %s)" % (i, rat(m[1]), rat(m[2]), m[3], m[4], *map(rat, iroot_bounds(m[3], m[4])))
             for i, m in alg) + "]",
         "def lamF : List (List Rat) := " + blocked(lamF, lambda i, r: rat(r), ""),
         "def massF : List (List Rat) := " + blocked(massF, lambda i, r: rat(r), ""),
         "def massFileF : List (List Rat) := " + blocked([Fraction(float(x)) for x in data["masses"]], lambda i, r: rat(r), ""),
         "", "end RdVerif.Gen.Icrp107"]
    # one generated file per group of definitions (parallel elaboration)
    header = M[:4]
    body = M[5:-2]
    groups = {"MetaA": [], "MetaHl": [], "MetaLinks": [], "MetaMassX": [], "MetaMassX18": [], "MetaF": []}
    for line in body:
        if line.startswith("def hl "):
            groups["MetaHl"].append(line)
        elif line.startswith("def links "):
            groups["MetaLinks"].append(line)
        elif line.startswith("def massX18"):
            groups["MetaMassX18"].append(line)
        elif line.startswith("def massX "):
            groups["MetaMassX"].append(line)
        elif line.startswith(("def lamF", "def massF", "def massFileF")):
            groups["MetaF"].append(line)
        else:
            groups["MetaA"].append(line)
    for name, lines in groups.items():
        if write_if_changed(OUT / f"{name}.lean", "\n".join(header + [""] + lines + ["", "end RdVerif.Gen.Icrp107"]) + "\n"):
            changed.append(name)
    if write_if_changed(OUT / "Meta.lean", "-- GENERATED\n" + "\n".join(f"import RdVerif.Gen.Icrp107.{g}" for g in groups) + "\n"):
        changed.append("Meta")

    D = ["-- GENERATED by harness/translate_dataset.py — do not edit",
         "import RdVerif.Gen.Icrp107.Meta", "import RdVerif.Gen.Icrp107.Cx", "import RdVerif.Gen.Icrp107.Cix",
         "import RdVerif.Gen.Icrp107.Cf", "import RdVerif.Gen.Icrp107.Cif",
         "namespace RdVerif.Gen",
         "def icrp107 : Dataset := {",
         "  n := Icrp107.n, names := Icrp107.names, hl := Icrp107.hl, links := Icrp107.links,",
         "  parents := Icrp107.parents, yearX := Icrp107.yearX, yearF := Icrp107.yearF, rate := Icrp107.rate,",
         "  massX := Icrp107.massX, cx := Icrp107.cx, cix := Icrp107.cix, lamF := Icrp107.lamF,",
         "  massF := Icrp107.massF, cf := Icrp107.cf, cif := Icrp107.cif }",
         f"def icrp107Blocks : Nat := {nb}",
         "end RdVerif.Gen"]
    if write_if_changed(OUT / "Data.lean", "\n".join(D) + "\n"):
        changed.append("Data")

    # cost estimate per block: number of (i, k, j) products
    crows = rows_of(g9["c"], n)
    cirows = rows_of(g9["ci"], n)
    block_cost = []
    for b in range(nb):
        c = 0
        for i in range(b * BLOCK, min((b + 1) * BLOCK, n)):
            c += sum(len(cirows[k]) for k, _ in crows[i]) + 5
        block_cost.append(c)
    changed += emit_obligations(nb, block_cost)
    return {"changed": changed, "n": n, "blocks": nb}


CHECKS = [
    # (lemma prefix, Lean expression of the per-block Boolean)
    ("w1", "checkInvBlock icrp107.cx icrp107.cix"),
    ("w2", "checkDiagBlock icrp107.cx icrp107.rate icrp107.parents"),
    ("w3", "checkRatesBlock icrp107"),
    ("w6", "checkStableBlock icrp107.cx icrp107.rate"),
    ("w47", "checkLinksBlock icrp107"),
    ("wpar", "checkParentsBlock icrp107"),
    ("w5", "checkPatternBlock icrp107"),
    ("w9", "checkFloatBlock icrp107 floatRelC floatRelCi floatTiny"),
    ("w9agg", "checkAggBlock icrp107 aggErrBound aggCondBound"),
    ("wround", "checkRoundBlock icrp107 roundBound"),
    ("w9lam", "checkLamBlock icrp107 ln2Lo ln2Hi lamRel"),
    ("w9mass", "checkMassBlock icrp107 massRel"),
    ("wread", "checkReadableBlock icrp107"),
    ("wdiag", "checkDiagramBlock icrp107"),
]
OBL_FILES = 13


HEAVY = {"w1": 1.0, "w2": 0.15, "w9agg": 3.0, "wround": 3.0, "w9": 0.2, "w5": 0.1, "w47": 0.15, "w3": 0.03, "wpar": 0.03,
         "w9lam": 0.03, "w9mass": 0.03, "w6": 0.03, "wread": 0.03, "wdiag": 0.3}


def emit_obligations(nb: int, block_cost=None):
    """one `decide +kernel` lemma per 40-row block and check; lemmas are packed into files by an
    estimated cost (number of row-entry products in the block) so that the heavy blocks sit alone
    and all cores are used; plus the recombination lemma per check"""
    changed = []
    block_cost = block_cost or [1] * nb
    total = sum(block_cost)
    for pre, expr in CHECKS:
        imp = "import RdVerif.Model.DatasetBounds" + ("\nimport RdVerif.Model.Queries" if pre == "wread" else "") + ("\nimport RdVerif.Model.Diagram" if pre == "wdiag" else "") + ("\nimport RdVerif.Model.Rounding" if pre == "wround" else "")
        mods = []
        # pack: budget = 1/12 of the total cost, scaled by how heavy this check is
        budget = total / 12 / max(HEAVY.get(pre, 0.1), 0.01) / 3
        groups, cur, size = [], [], 0
        for b in range(nb):
            if cur and size + block_cost[b] > budget:
                groups.append(cur)
                cur, size = [], 0
            cur.append(b)
            size += block_cost[b]
        if cur:
            groups.append(cur)
        for gi, grp in enumerate(groups):
            L = ["-- GENERATED by harness/translate_dataset.py — do not edit",
                 "import RdVerif.Gen.Icrp107.Data", imp, "set_option maxRecDepth 100000",
                 "namespace RdVerif.Gen.Icrp107.Obl", "open RdVerif RdVerif.Gen", ""]
            for b in grp:
                L.append(f"theorem {pre}_b{b} : {expr} {b} = true := by decide +kernel")
            L += ["", "end RdVerif.Gen.Icrp107.Obl"]
            name = f"{pre.capitalize()}P{gi}"
            mods.append(name)
            if write_if_changed(OUT / "Obl" / f"{name}.lean", "\n".join(L) + "\n"):
                changed.append("Obl." + name)
        for old in (OUT / "Obl").glob(f"{pre.capitalize()}P*.lean"):
            if old.stem not in mods:
                old.unlink()
        L = ["-- GENERATED by harness/translate_dataset.py — do not edit"]
        L += [f"import RdVerif.Gen.Icrp107.Obl.{m}" for m in mods]
        L += ["namespace RdVerif.Gen.Icrp107.Obl", "open RdVerif RdVerif.Gen", "",
              f"/-- every block passes `{expr.split()[0]}` -/",
              f"theorem {pre}_all : ∀ b, b < {nb} → {expr} b = true := by",
              "  intro b hb",
              "  have h : " + " ∨ ".join(f"b = {b}" for b in range(nb)) + " := by omega",
              "  rcases h with " + " | ".join("rfl" for _ in range(nb)),
              ]
        for b in range(nb):
            L.append(f"  · exact {pre}_b{b}")
        L += ["", "end RdVerif.Gen.Icrp107.Obl"]
        name = pre.capitalize() + "All"
        if write_if_changed(OUT / "Obl" / f"{name}.lean", "\n".join(L) + "\n"):
            changed.append("Obl." + name)
    # single obligations
    L = ["-- GENERATED by harness/translate_dataset.py — do not edit",
         "import RdVerif.Gen.Icrp107.Data", "import RdVerif.Gen.Icrp107.Cx18", "import RdVerif.Gen.Icrp107.Cix18",
         "import RdVerif.Model.DatasetBounds", "set_option maxRecDepth 100000",
         "namespace RdVerif.Gen.Icrp107.Obl", "open RdVerif RdVerif.Gen", "",
         "/-- both pickle generations hold identical data -/",
         "theorem pickles_cx : Icrp107.cx18 = Icrp107.cx := by decide +kernel",
         "theorem pickles_cix : Icrp107.cix18 = Icrp107.cix := by decide +kernel",
         "theorem pickles_rate : Icrp107.rate18 = Icrp107.rate := by decide +kernel",
         "theorem pickles_mass : Icrp107.massX18 = Icrp107.massX := by decide +kernel",
         "theorem pickles_year : Icrp107.yearX18 = Icrp107.yearX := by decide +kernel",
         "theorem shape_cx : blocksShapeOk icrp107.cx icrp107.n = true := by decide +kernel",
         "theorem shape_cix : blocksShapeOk icrp107.cix icrp107.n = true := by decide +kernel",
         "theorem shape_names : blocksShapeOk icrp107.names icrp107.n = true := by decide +kernel",
         "theorem shape_hl : blocksShapeOk icrp107.hl icrp107.n = true := by decide +kernel",
         "theorem shape_links : blocksShapeOk icrp107.links icrp107.n = true := by decide +kernel",
         "theorem shape_parents : blocksShapeOk icrp107.parents icrp107.n = true := by decide +kernel",
         "theorem shape_rate : blocksShapeOk icrp107.rate icrp107.n = true := by decide +kernel",
         "theorem shape_lamF : blocksShapeOk icrp107.lamF icrp107.n = true := by decide +kernel",
         "theorem shape_massF : blocksShapeOk icrp107.massF icrp107.n = true := by decide +kernel",
         "theorem shape_massX : blocksShapeOk icrp107.massX icrp107.n = true := by decide +kernel",
         "theorem shape_cf : blocksShapeOk icrp107.cf icrp107.n = true := by decide +kernel",
         "theorem shape_cif : blocksShapeOk icrp107.cif icrp107.n = true := by decide +kernel",
         f"theorem nblocks : icrp107.cx.length = {nb} := by decide +kernel",
         "theorem link_count : linkCount icrp107.links = parentCount icrp107.parents := by decide +kernel",
         "theorem mass_alg : Icrp107.massAlg.all (massAlgOk icrp107.massX) = true := by decide +kernel",
         "theorem mass_loaded_eq_file : Icrp107.massF = Icrp107.massFileF := by decide +kernel",
         "/-- days per year: the double is the nearest to the exact value (relative 1e-16) -/",
         "theorem year_close : ratAbs (icrp107.yearF - icrp107.yearX) ≤ icrp107.yearX / 10000000000000000 := by decide +kernel",
         "", "end RdVerif.Gen.Icrp107.Obl"]
    if write_if_changed(OUT / "Obl" / "Misc.lean", "\n".join(L) + "\n"):
        changed.append("Obl.Misc")
    allmods = ["Misc"] + [pre.capitalize() + "All" for pre, _ in CHECKS]
    L = ["-- GENERATED"] + [f"import RdVerif.Gen.Icrp107.Obl.{m}" for m in allmods]
    if write_if_changed(OUT / "Obl.lean", "\n".join(L) + "\n"):
        changed.append("Obl")
    return changed


if __name__ == "__main__":
    print(generate())
