"""Writes MANIFEST.json from the table below (so that it always validates)."""
import json
from pathlib import Path

VERIF = Path(__file__).resolve().parent.parent

NOTE = ("Trusted: Lean 4.33 kernel (axioms propext, Classical.choice, Quot.sound only, audited each run; no sorry/"
        "native_decide/bv_decide); Mathlib definitions; the Python translator that regenerates Gen/*.lean from "
        "/repo on every run; the Python correspondence harness. ")

CHECKS = {
    "C09": dict(
        text="All-forms / fixed-point / idempotence / id round-trip / attribute theorems proved in Lean over every "
             "element of the generated table, every digit string and every state (structural, not enumerated); the "
             "model is tied to the code by exhaustive three-way comparison (real code, model, name known by "
             "construction) over all elements x states x forms and by the translator regenerating the tables.",
        ref="§4 C09", technique="Lean 4 proof (structural induction on strings) + translator + exhaustive correspondence",
        note=NOTE + "Model exact for ASCII; CPython str methods trusted."),
    "C10": dict(
        text="Totality theorems (parse_nuclide_str: name or NuclideStrError; parse_id: name or ValueError; parse_nuclide: "
             "member / ValueError / TypeError only for foreign key types), accept_sound (an accepted string literally "
             "contains element, mass number and state), and constructor/remove decision theorems (only documented "
             "exception classes; acceptance implies valid amounts, unit, membership, no duplicate nuclide) proved for "
             "all strings, integers and argument lists; tied to the code by exhaustive short-string enumeration, id "
             "strata and an entry-point matrix compared with the model and judged by the property's own oracle.",
        ref="§4 C10", technique="Lean 4 proof (case analysis of an executable model with Python's exception classes) + exhaustive/seeded correspondence",
        note=NOTE + "Amount/unit/key classes are abstracted by the harness (classification trusted); non-ASCII strings judged by the oracle only; bool/complex/Decimal amounts not judged."),
}

PENDING = {}


def main():
    props = [json.loads(l) for l in (VERIF / "properties.jsonl").read_text().splitlines() if l.strip()]
    checks, na = [], []
    for p in props:
        pid = p["id"]
        if pid in CHECKS:
            c = CHECKS[pid]
            checks.append({
                "property_id": pid,
                "quick_cmd": f"./check {pid} --tier quick",
                "thorough_cmd": f"./check {pid} --tier thorough",
                "evidence_file": f"evidence/{pid}.json",
                "replay_cmd_template": f"./check {pid} --replay {{path}}",
                "engine": "lean4-rdverif",
                "level_claimed": {"category": "proof", "text": c["text"], "design_ref": c["ref"]},
                "level_note": c["note"],
                "technique": c["technique"],
            })
        else:
            na.append({"property_id": pid, "reason": PENDING.get(pid, "check under construction in this round; not claimed yet")})
    m = {
        "version": 1,
        "setup_cmd": "./setup.sh",
        "hooks": {
            "guard": "RADIOACTIVEDECAY_VERIF",
            "enable": "no source hooks are needed; checks import /repo's working tree in-process with RADIOACTIVEDECAY_VERIF=1 set (it changes nothing)",
            "baseline_off_cmd": "cd /repo && /venv/bin/python -m pytest -ra -q -p no:cacheprovider --timeout=900 --continue-on-collection-errors",
            "source_commits": [],
            "add_only": True,
        },
        "engines": [{
            "name": "lean4-rdverif", "path": "lean/",
            "serves_properties": [c["property_id"] for c in checks],
            "kind_free_text": "Lean 4 library: executable models (core only), data regenerated from /repo by a translator, Mathlib-backed proofs, property theorems, axiom audit; Python correspondence harness drives model and real code through a line protocol",
        }],
        "checks": checks,
        "not_applicable": na,
        "notes": "See DESIGN.md. ./check <id> --tier quick|thorough; evidence/<id>.json rewritten on every run; known_findings.json lists fixed/open genuine defects.",
    }
    (VERIF / "MANIFEST.json").write_text(json.dumps(m, indent=1, ensure_ascii=False) + "\n")


if __name__ == "__main__":
    main()
