"""Writes MANIFEST.json from the table below (so that it always validates)."""
import json
from pathlib import Path

VERIF = Path(__file__).resolve().parent.parent

NOTE = ("Trusted: Lean 4.33 kernel (axioms propext, Classical.choice, Quot.sound only, audited each run; no sorry/"
        "native_decide/bv_decide); Mathlib definitions; the Python translator that regenerates Gen/*.lean from "
        "/repo on every run; the Python correspondence harness. ")

PROOF_DECAY = ("Lean 4 proof (Mathlib real analysis: ODE + uniqueness / FTC) over matrices whose identities are kernel-checked on "
               "data regenerated from the files + per-input comparison with a verified interval oracle")

CHECKS = {
    "C01": dict(
        text="Theorem C01_exact: for every initial inventory and real time the closed form the library evaluates, with the "
             "shipped exact matrices (kernel-checked C*C^-1=1 and L*C=C*diag(-lambda) on data regenerated from the files), "
             "satisfies the decay ODE system + initial condition and is its unique solution. C01_nuclide_set: the index set written "
             "out is exactly the inputs and their closure under the progeny lists. C01_oracle_sound: the rational interval oracle "
             "encloses that exact solution for every input; float_data_contribution: the stored doubles contribute <= 5e-12 of the "
             "initial atoms; C01_forward_error_ancestors: under the standard floating-point model (stated as hypotheses, derived "
             "from per-operation error 2^-53 by C01_fp_exp / C01_fp_product) the computed amount is within 1e-11 of the ancestors' "
             "atoms of the exact solution (kernel obligation wround). AllDatasets.*: the same exactness / nuclide-set / oracle "
             "theorems for every dataset accepted by the executable checker wellFormedB, which the driver evaluates on each "
             "synthetic dataset loaded through load_dataset(dir_path). Order, finiteness, zero activity of stable nuclides and "
             "conformance of NumPy/SciPy to the floating-point model are checked per generated input against the proved oracle.",
        ref="§4 C01", technique=PROOF_DECAY,
        note=NOTE + "IEEE-754 standard model assumed for NumPy/SciPy (hypothesis of the error theorem); synthetic datasets are parts of the shipped graph with new numbers."),
    "C02": dict(
        text="Theorem C02_symbolic (ODE + initial condition hold identically in t, uniqueness) for the exact data; symbolic-t "
             "results of the real InventoryHP compared coefficient-by-coefficient as exact rationals with the model, exponents to "
             "315 digits; C02_hp_rel_error: under the stated model of the 320-digit arithmetic the relative error is <= 1e-13 for "
             "every value >= 1e-290 x the initial atoms; numeric results within 1e-13 relative of the proved oracle at adaptive "
             "precision. The 'however small' clause is false on the shipped code below that magnitude (open known finding F6) "
             "and reported as KNOWN-FINDING.",
        ref="§4 C02", technique=PROOF_DECAY,
        note=NOTE + "SymPy/mpmath rounding assumed correct; nsimplify's reading taken as the exact input."),
    "C03": dict(
        text="Theorems C03_integral (cumulative decays = integral of activity), C03_atom_balance, C03_stable for the shipped "
             "dataset, all N(0), all t; C03_oracle_sound: the interval oracle cumEncl encloses the exact integral for every input; "
             "real cumulative_decays of both classes compared with that oracle, keys = radioactive closure, atom balance "
             "recomputed from real outputs; the same theorems for every dataset accepted by wellFormedB (AllDatasets.*) with "
             "synthetic datasets compared the same way. High-precision values below 1e-290 x the ancestors' atoms lose accuracy "
             "(open known finding F6', same root cause as F6 of C02) and are reported as KNOWN-FINDING.",
        ref="§4 C03", technique=PROOF_DECAY, note=NOTE + "Rounding bounds per input, not proved."),
    "C04": dict(
        text="Every statement of the property is a kernel-evaluated decision (decide +kernel, no axioms beyond the standard three) "
             "over Lean data regenerated from every shipped file on every run: exact inverses and diagonalisation (lifted to real "
             "matrices by proved soundness lemmas), rates = listed half-lives, acyclic parents-first graph, branching fractions, decay "
             "modes vs dZ/dA, ancestor patterns, float-vs-exact entry and aggregated bounds, decay constants vs r*ln2 (certified "
             "ln2 enclosure), masses incl. three algebraic ones by integer-power certificates, identical pickle generations; plus "
             "loaded-vs-file comparison and the generation switch.",
        ref="§4 C04", technique="Lean 4 kernel decision procedures over translator-regenerated data + soundness proofs",
        note=NOTE + "Translator (numpy.load, stub unpickler) trusted to render the files; decimal reading = shortest repr."),
    "C05": dict(
        text="Generated unit tables decided equal to the specification (exact tables) / within 2^-52 (float tables), kinds disjoint, "
             "Avogadro; round-trip, ratio law and activity/mole/mass ties proved for all amounts/units/nuclides over the rationals; "
             "real code compared with the exact model for nuclides x 43 units x entry points (8 ulp), HP class exactly.",
        ref="§4 C05", technique="Lean 4 proof (field identities) + decide on generated tables + exhaustive correspondence",
        note=NOTE + "'A few ulp' for the float class is per input."),
    "C06": dict(
        text="27-entry time tables decided equal to the specification in both modes, year units, unknown units refused (theorem for "
             "all strings), conversions compose, exact halving identity; real converters vs model for all unit pairs, decay/"
             "cumulative/time-series with (t,u) vs equivalent seconds, half-life queries in all units, halving to 8 ulp.",
        ref="§4 C06", technique="Lean 4 proof + decide on generated tables + exhaustive correspondence",
        note=NOTE + "Float halving per input."),
    "C07": dict(
        text="flow_add, flow_zero, flow_linear, flow_split / flow_split_perm (any number and order of pieces), flow_smul, flow_sub, "
             "flow_combination, flow_split_combination, companions proved for the shipped dataset over the reals; real "
             "chained/split/linear/companion decays of both classes compared with each other and with the verified oracle.",
        ref="§4 C07", technique=PROOF_DECAY, note=NOTE + "Float/HP deviations per input."),
    "C09": dict(
        text="All-forms / fixed-point / idempotence / id round-trip / attribute theorems proved in Lean over every "
             "element of the generated table, every digit string and every state (structural, not enumerated); the "
             "model is tied to the code by exhaustive three-way comparison (real code, model, name known by "
             "construction) over all elements x states x forms and by the translator regenerating the tables; the translated "
             "element table is kernel-decided equal to a hand-written periodic table (element_table_is_periodic_table).",
        ref="§4 C09", technique="Lean 4 proof (structural induction on strings) + translator + exhaustive correspondence",
        note=NOTE + "Model exact for ASCII; CPython str methods trusted."),
    "C10": dict(
        text="Totality theorems (parse_nuclide_str: name or NuclideStrError; parse_id: name or ValueError; parse_nuclide: "
             "member / ValueError / TypeError only for foreign key types), accept_sound (an accepted string literally "
             "contains element, mass number and state), and constructor/remove decision theorems (only documented "
             "exception classes; acceptance implies valid amounts, unit, membership, no duplicate nuclide) proved for "
             "all strings, integers and argument lists; tied to the code by exhaustive short-string enumeration, id "
             "strata and an entry-point matrix compared with the model and judged by the property's own oracle.",
        ref="§4 C10", technique="Lean 4 proof (case analysis of an executable model with Python's exception classes) + exhaustive/seeded correspondence",
        note=NOTE + "Amount/unit/key classes are abstracted by the harness (classification trusted); non-ASCII strings judged by the oracle only; bool/complex/Decimal amounts not judged."),
    "C08": dict(
        text="Refinement theorems (abs_add/sub/mul/div/remove, sort_sorted, addDictionaries_spec, refusals, "
             "no_amount_discarded) proved for every inventory over any amount type with the needed algebra: results are the "
             "nuclide-wise sum/difference/multiple/quotient/restriction, alphabetically sorted, same class and dataset; tied to the "
             "code by mirroring seeded operation histories into the Lean state machine and comparing every live inventory after "
             "every step bit-for-bit (IEEE double via Lean Float) or as exact rationals (high-precision class).",
        ref="§4 C08", technique="Lean 4 refinement proof (sorted association list -> finitely supported map) + bit-exact correspondence of operation histories",
        note=NOTE + "Lean Float = IEEE binary64 assumed; unit conversion of arguments taken from the real constructor (C05)."),
    "C11": dict(
        text="State-machine theorems for every world, operation and history: templates_invariant, readers_frame, mutators_frame, "
             "failure_atomic, history_independent; tied to the code by histories interleaving mutators, operators and every kind "
             "of reader with fingerprints of every live object and of the dataset after every step, probes against a fresh "
             "interpreter, and reload equality.",
        ref="§4 C11", technique="Lean 4 proof (invariants of an executable state machine, induction over histories) + fingerprinted histories",
        note=NOTE + "That real readers only copy templates is observed, not proved; one dataset, single thread."),
    "C12": dict(
        text="Precedence (row unit > argument > 'Bq'), empty-cell fall-back, malformed-row refusal, skip_exact, row-level export/"
             "import round trip and agreement of the export and constructor unit chains proved/decided on the generated tables; "
             "real files for 44 units x delimiters x encodings x flags compared row by row and after re-reading.",
        ref="§4 C12", technique="Lean 4 proof (decision logic) + decide on generated tables + real-file correspondence",
        note=NOTE + "csv/io/codecs and float(str(x)) round trip are CPython's."),
    "C13": dict(
        text="dispatch_table decided for all 47 read-out strings in both modes and both duplicated chains, unknown strings refused, "
             "exact linear grid, axis start and limit rules proved; real series / frames / captured plot arguments compared "
             "point by point with separate decay calls for every kind, scale and method.",
        ref="§4 C13", technique="Lean 4 proof + decide on generated tables + exhaustive correspondence over read-out kinds",
        note=NOTE + "Point-wise equality per input; NumPy grids to 2 ulp; Matplotlib rendering not modelled."),
    "C14": dict(
        text="frac_def, frac_sum_one, frac_in_unit_interval, frac_scale_invariant, frac_group_additive, frac_perm proved over the "
             "rationals for all lists; for the model of the three read-outs from the stored contents: Avogadro's constant cancels "
             "(mole/mass fractions), scaling and creation-unit invariance, stable nuclides have activity share 0; real "
             "fractions of both classes compared with the model's exact quotient of the actual read-outs ((n+4) ulp) and with the "
             "model run on the stored contents and the dataset's constants, scale/unit "
             "invariance and class agreement on generated inventories.",
        ref="§4 C14", technique="Lean 4 proof (ordered-field algebra) + correspondence",
        note=NOTE + "Float rounding per input."),
    "C15": dict(
        text="lookup_listed / lookup_nonmember proved for every duplicate-free progeny list (linear search), half_life_conv, and "
             "kernel-decided readable_denotes_same + listed_data_ok for every nuclide of the regenerated dataset; all nuclides x "
             "units x three interfaces and all links / in-chain non-links compared with the model.",
        ref="§4 C15", technique="Lean 4 proof (induction on the linear search) + kernel decision on regenerated data + exhaustive correspondence",
        note=NOTE + "Float half-life conversion to 4 ulp."),
    "C16": dict(
        text="For the shipped dataset the kernel decides, for every root, that the queue-based builder model equals an independent "
             "specification (reachability, layered minimum distance, SF nodes, one edge per link, distinct names and positions); "
             "the real builder is compared with the model and with an independent reading for all 1512 roots, labels included. "
             "For EVERY dataset accepted by the executable checker reachWFb (C16_checked_dataset): nodes = reachable nuclides + SF "
             "nodes, row = minimum number of decays, names and positions pairwise distinct, edges = listed links; the driver "
             "evaluates reachWFb on every synthetic / dense artificial dataset of the run (diagrams compared with the model and "
             "the independent reading there too). C16_label_decodes: the node-label text (modelled, table regenerated from the source) "
             "decodes back to element / mass number / state. Half-life line, edge labels and rendering are compared per input.",
        ref="§4 C16", technique="Lean 4 kernel decision for all roots of the regenerated dataset + exhaustive correspondence",
        note=NOTE + "networkx/Matplotlib not modelled; label texts per input."),
    "C17": dict(
        text="eq_refl/symm/trans, ne_is_not_eq, eq_iff_same, nuclide_eq_iff, hash_respects_eq, foreign_type_false, cross_kind_false "
             "proved for the equality model; all ordered pairs of a pool of nuclides, inventories (both classes, many numeric "
             "types), datasets and foreign objects compared with the model before and after calculations. Cross-class "
             "inventory equality is not transitive on the shipped code (open known finding F7).",
        ref="§4 C17", technique="Lean 4 proof (equivalence relation on an executable equality model) + exhaustive pairwise correspondence",
        note=NOTE + "Dataset identity classes assigned by the harness."),
}

PENDING = {}


def main():
    props = [json.loads(l) for l in (VERIF / "properties.jsonl").read_text().splitlines() if l.strip()]
    checks, na = [], []
    for p in props:
        pid = p["id"]
        if pid in CHECKS:
            c = CHECKS[pid]
            checks.append({
                "property_id": pid,
                "quick_cmd": f"./check {pid} --tier quick",
                "thorough_cmd": f"./check {pid} --tier thorough",
                "evidence_file": f"evidence/{pid}.json",
                "replay_cmd_template": f"./check {pid} --replay {{path}}",
                "engine": "lean4-rdverif",
                "level_claimed": {"category": "proof", "text": c["text"], "design_ref": c["ref"]},
                "level_note": c["note"],
                "technique": c["technique"],
            })
        else:
            na.append({"property_id": pid, "reason": PENDING.get(pid, "check under construction in this round; not claimed yet")})
    m = {
        "version": 1,
        "setup_cmd": "./setup.sh",
        "hooks": {
            "guard": "RADIOACTIVEDECAY_VERIF",
            "enable": "no source hooks are needed; checks import /repo's working tree in-process with RADIOACTIVEDECAY_VERIF=1 set (it changes nothing)",
            "baseline_off_cmd": "cd /repo && /venv/bin/python -m pytest -ra -q -p no:cacheprovider --timeout=900 --continue-on-collection-errors",
            "source_commits": [],
            "add_only": True,
        },
        "engines": [{
            "name": "lean4-rdverif", "path": "lean/",
            "serves_properties": [c["property_id"] for c in checks],
            "kind_free_text": "Lean 4 library: executable models (core only), data regenerated from /repo by a translator, Mathlib-backed proofs, property theorems, axiom audit; Python correspondence harness drives model and real code through a line protocol",
        }],
        "checks": checks,
        "not_applicable": na,
        "notes": "See DESIGN.md. ./check <id> --tier quick|thorough; evidence/<id>.json rewritten on every run; known_findings.json lists fixed/open genuine defects.",
    }
    (VERIF / "MANIFEST.json").write_text(json.dumps(m, indent=1, ensure_ascii=False) + "\n")


if __name__ == "__main__":
    main()
