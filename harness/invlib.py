"""Operation histories on live inventories, mirrored into the Lean state machine (C08, C11, C17)."""
from __future__ import annotations

import struct
from fractions import Fraction

from common import hexs, rng
from props.c09 import err_name

SPELL = ["{e}-{a}{s}", "{e}{a}{s}", "{a}{s}{e}", "{a}{s}-{e}", " {e} {a}{s}"]


def fbits(x) -> int:
    return struct.unpack("<Q", struct.pack("<d", float(x)))[0]


def respell(r, name):
    el, rest = name.split("-")
    A = "".join(c for c in rest if c.isdigit())
    return r.choice(SPELL).format(e=el, a=A, s=rest[len(A):])


class Mirror:
    """keeps real inventories and emits the corresponding model requests"""

    def __init__(self, rd, seed, stream, hp: bool):
        self.rd = rd
        self.r = rng(seed, stream)
        self.hp = hp
        self.tag = "Q" if hp else "F"
        self.C = rd.InventoryHP if hp else rd.Inventory
        dd = rd.DEFAULTDATA
        self.names = [str(n) for n in dd.nuclides]
        self.radio = [n for n in self.names if dd.half_life(n) != float("inf")]
        other = rd.decaydata.DecayData("verif_other", dd.bfs, dd.float_year_conv, dd.hldata, dd.modes, dd.nuclides,
                                       dd.progeny, dd.scipy_data, dd._sympy_data, dd._sympy_year_conv)
        self.datasets = [dd, other]
        self.live = {}          # handle -> (inventory, ds index)
        self.lines = []         # model requests
        self.expect = []        # per request: what the real code did  ('done' | 'err X' | 'show ...')
        self.log = []           # human-readable history
        self.next_h = 1

    # -- encoding
    def enc_val(self, v):
        if self.hp:
            import sympy
            if isinstance(v, int):
                return f"{v}/1"
            v = sympy.nsimplify(v) if not hasattr(v, "is_Rational") else v
            if not v.is_Rational:
                raise ValueError("non-rational HP amount")
            return f"{int(v.p)}/{int(v.q)}"
        if isinstance(v, (str, bytes)) or v is None:
            return f"NOT-A-NUMBER:{type(v).__name__}"        # a stored amount must be a number, not its text
        return str(fbits(v))

    def enc_contents(self, items):
        return ";".join(f"{hexs(n)}:{self.enc_val(v)}" for n, v in items) or "-"

    def req(self, *fields):
        self.lines.append("\t".join(("w", self.tag) + tuple(str(f) for f in fields)))

    # -- generation helpers
    def rand_amount(self):
        r = self.r
        if self.hp:
            import sympy
            # amounts whose nsimplify reading is the rational itself (nsimplify may turn other rationals
            # into algebraic approximations; that reading is C02's 'taken to 15 significant digits')
            if r.random() < 0.25:
                return r.randint(0, 10**6)          # a plain Python int is an exact amount too
            while True:
                q = sympy.Rational(r.randint(0, 10**6), r.choice([1, 2, 4, 10, 1000]))
                if sympy.nsimplify(q) == q:
                    return q
        k = r.random()
        if k < 0.1:
            return 0.0
        return 10.0 ** r.uniform(-20, 25)

    def rand_key(self, name):
        r = self.r
        k = r.random()
        if k < 0.5:
            return name
        if k < 0.75:
            return respell(r, name)
        if k < 0.88:
            return self.rd.Nuclide(name).id
        return self.rd.Nuclide(name)

    def atoms(self, name, amount, unit, ds):
        """atoms the library stores for (name, amount, unit) — through a throw-away constructor
        (unit conversion itself is C05's business)"""
        return self.C({name: amount}, unit, True, ds).contents[name]

    def rand_arg(self, ds, nmax=4, allow_dup=True):
        r = self.r
        n = r.randint(1, nmax)
        pool = self.radio if r.random() < 0.8 else self.names
        picks = r.sample(pool, n)
        if self.hp:
            unit = r.choice(["num", "num", "mol", "mmol"])
        else:
            unit = r.choice(["num", "num", "num", "Bq", "g", "mol", "kBq", "mg"])
        dd = self.datasets[0]
        if unit in ("Bq", "kBq"):
            picks = [p for p in picks if dd.half_life(p) != float("inf")] or [r.choice(self.radio)]
        arg, model_items = {}, []
        for nm in picks:
            amt = self.rand_amount()
            arg[self.rand_key(nm)] = amt
            model_items.append((nm, self.atoms(nm, amt, unit, ds)))
        dup = False
        if allow_dup and r.random() < 0.08:
            # a second key for an already named nuclide: any spelling kind (canonical string, respelling, id, Nuclide
            # object), placed before or after the first one
            j = r.randrange(len(picks))
            nm = picks[j]
            other_key = r.choice([nm, respell(r, nm), self.rd.Nuclide(nm).id, self.rd.Nuclide(nm), respell(r, nm)])
            if other_key not in arg:
                amt = self.rand_amount()
                if r.random() < 0.5:
                    arg = {other_key: amt, **arg}
                    model_items.insert(0, (nm, self.atoms(nm, amt, unit, ds)))
                else:
                    arg[other_key] = amt
                    model_items.append((nm, self.atoms(nm, amt, unit, ds)))
                dup = True
        return arg, unit, model_items, dup

    # -- operations (each appends exactly one model request + expectation)
    def op_new(self):
        h = self.next_h
        self.next_h += 1
        dsi = 0 if self.r.random() < 0.8 else 1
        ds = self.datasets[dsi]
        arg, unit, items, dup = self.rand_arg(ds)
        self.log.append(f"h{h} = {self.C.__name__}({arg!r}, {unit!r}, ds{dsi})")
        if dup:
            # the constructor must refuse; the model's `new` is only for validated arguments
            try:
                self.C(dict(arg), unit, True, ds)
                self.expect.append(("real-accepted-duplicate", None))
            except Exception as e:  # noqa: BLE001
                self.expect.append(("err " + err_name(e), None))
            self.req("fail", h)
            return
        inv = self.C(dict(arg), unit, True, ds)
        self.live[h] = (inv, dsi)
        self.req("new", h, "hp" if self.hp else "float", dsi, self.enc_contents(items))
        self.expect.append(("done", None))

    def op_addsub(self, sub):
        if not self.live:
            return self.op_new()
        h = self.r.choice(list(self.live))
        inv, dsi = self.live[h]
        arg, unit, items, dup = self.rand_arg(self.datasets[dsi])
        self.log.append(f"h{h}.{'subtract' if sub else 'add'}({arg!r}, {unit!r})")
        try:
            (inv.subtract if sub else inv.add)(dict(arg), unit)
            self.expect.append(("done", None))
        except Exception as e:  # noqa: BLE001
            self.expect.append(("err " + err_name(e), None))
        self.req("sub" if sub else "add", h, self.enc_contents(items))

    def op_binary(self, minus):
        if len(self.live) < 1:
            return self.op_new()
        a = self.r.choice(list(self.live))
        b = self.r.choice(list(self.live))
        d = self.next_h
        self.next_h += 1
        self.log.append(f"h{d} = h{a} {'-' if minus else '+'} h{b}")
        try:
            res = (self.live[a][0] - self.live[b][0]) if minus else (self.live[a][0] + self.live[b][0])
            self.live[d] = (res, self.live[a][1])
            self.expect.append(("done", None))
        except Exception as e:  # noqa: BLE001
            self.expect.append(("err " + err_name(e), None))
        self.req("minus" if minus else "plus", d, a, b)

    def op_scale(self, div):
        if not self.live:
            return self.op_new()
        a = self.r.choice(list(self.live))
        d = self.next_h
        self.next_h += 1
        if self.hp:
            import sympy
            c = sympy.Rational(self.r.randint(1, 1000), self.r.choice([1, 3, 8]))   # operators do not re-read the constant
            if c.q == 1 and self.r.random() < 0.7:
                c = int(c)          # a plain Python int must keep the arithmetic exact as well
        else:
            c = self.r.choice([2.0, 0.5, 3.7e10, 1e-9, self.r.uniform(0.1, 9.9)])
        self.log.append(f"h{d} = h{a} {'/' if div else '*'} {c!r}")
        inv = self.live[a][0]
        how = self.r.random()
        res = (inv / c) if div else ((inv * c) if how < 0.6 else (c * inv))
        self.live[d] = (res, self.live[a][1])
        self.expect.append(("done", None))
        self.req("div" if div else "mul", d, a, self.enc_val(c))

    def op_remove(self):
        if not self.live:
            return self.op_new()
        h = self.r.choice(list(self.live))
        inv, dsi = self.live[h]
        present = list(inv.contents)
        r = self.r
        k = r.random()
        if present and k < 0.7:
            names = r.sample(present, min(len(present), r.choice([1, 1, 2])))
        elif k < 0.85:
            names = [r.choice(self.names)]
        elif k < 0.94 or not present:
            names = (r.sample(present, 1) if present else []) + [r.choice(self.names)]
        else:
            # a list naming a present nuclide twice (possibly in two spellings), after another present one
            first = r.sample(present, min(len(present), 2))
            names = first + [first[0]]
        keys = [self.rand_key(n) for n in names]
        arg = keys[0] if len(keys) == 1 and r.random() < 0.6 else keys
        self.log.append(f"h{h}.remove({arg!r})")
        try:
            inv.remove(arg)
            self.expect.append(("done", None))
        except Exception as e:  # noqa: BLE001
            self.expect.append(("err " + err_name(e), None))
        self.req("remove", h, *[hexs(n) for n in names])

    def random_op(self):
        k = self.r.random()
        if not self.live or k < 0.18:
            self.op_new()
        elif k < 0.34:
            self.op_addsub(False)
        elif k < 0.48:
            self.op_addsub(True)
        elif k < 0.60:
            self.op_binary(False)
        elif k < 0.70:
            self.op_binary(True)
        elif k < 0.79:
            self.op_scale(False)
        elif k < 0.87:
            self.op_scale(True)
        else:
            self.op_remove()

    def snapshot(self):
        """after the ops so far: one `show` request per live handle, with the real state to compare"""
        for h, (inv, dsi) in sorted(self.live.items()):
            items = [(str(k), v) for k, v in inv.contents.items()]
            cls = "hp" if type(inv) is self.rd.InventoryHP else ("float" if type(inv) is self.rd.Inventory else type(inv).__name__)
            ok_ds = inv.decay_data is self.datasets[dsi]
            try:
                enc = self.enc_contents(items)
            except ValueError:
                enc = "NON-RATIONAL"
            self.req("show", h)
            self.expect.append(("show", f"{cls} {dsi if ok_ds else 'WRONG-DATASET'} {enc}"))
