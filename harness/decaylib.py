"""Shared generators and comparison helpers for the decay properties (C01, C02, C03, C07, C14)."""
from __future__ import annotations

import math
from fractions import Fraction

from common import rng
from oracle import DatasetView, LeanOracle, eval_adaptive

U53 = Fraction(1, 2**53)
ACT_UNITS = ["Bq", "kBq", "MBq", "Ci", "mCi", "dpm", "μCi", "pBq", "EBq"]
MASS_UNITS = ["g", "kg", "mg", "pg", "t", "ug"]
MOL_UNITS = ["mol", "mmol", "kmol", "pmol"]
TIME_UNITS = ["ps", "ns", "us", "μs", "ms", "s", "sec", "m", "h", "hr", "d", "days", "y", "yr", "ky", "My", "By", "Gy", "Ty", "Py"]


def F(x) -> Fraction:
    """exact value of a Python/NumPy float"""
    return Fraction(float(x))


def loguniform(r, lo_exp, hi_exp):
    return 10.0 ** r.uniform(lo_exp, hi_exp)


def respell(r, name: str) -> str:
    el, rest = name.split("-")
    A = "".join(c for c in rest if c.isdigit())
    st = rest[len(A):]
    form = r.choice(["{e}-{a}{s}", "{e}{a}{s}", "{a}{s}{e}", "{a}{s}-{e}", "{e} {a}{s}", " {e}-{a}{s} "])
    return form.format(e=el, a=A, s=st)


class Gen:
    """seeded, structured generator of inventories and decay times"""

    def __init__(self, rd, seed, stream):
        self.rd = rd
        self.r = rng(seed, stream)
        self.view = DatasetView(rd.DEFAULTDATA)
        v = self.view
        self.radio = [i for i in range(v.n) if v.rate[i] != 0]
        self.stable = [i for i in range(v.n) if v.rate[i] == 0]
        self.desc_count = {i: len(v.descendants([i])) for i in range(v.n)}
        self.deep = sorted(self.radio, key=lambda i: -self.desc_count[i])[:120]
        self.dist = {}

    def _count(self, k):
        self.dist[k] = self.dist.get(k, 0) + 1

    def nuclide(self):
        r = self.r
        k = r.random()
        if k < 0.35:
            self._count("nuclide:deep-chain")
            return r.choice(self.deep)
        if k < 0.9:
            self._count("nuclide:radioactive")
            return r.choice(self.radio)
        self._count("nuclide:stable")
        return r.choice(self.stable)

    def inventory(self, max_n=6, units="any", lo=-25, hi=30):
        """returns (contents dict as passed to the constructor, unit)"""
        r = self.r
        n = r.choice([1, 1, 1, 2, 3, max_n]) if max_n > 1 else 1
        idxs = []
        while len(idxs) < n:
            i = self.nuclide()
            if i not in idxs:
                idxs.append(i)
        kind = r.choice(["num", "num", "activity", "mass", "moles"]) if units == "any" else units
        if kind == "activity":
            idxs = [i for i in idxs if self.view.rate[i] != 0] or [r.choice(self.radio)]
            unit = r.choice(ACT_UNITS)
        elif kind == "mass":
            unit = r.choice(MASS_UNITS)
        elif kind == "moles":
            unit = r.choice(MOL_UNITS)
        else:
            unit = "num"
        self._count("unit:" + kind)
        contents = {}
        for i in idxs:
            name = self.view.names[i]
            key = respell(r, name) if r.random() < 0.3 else name
            amt = loguniform(r, lo, hi) if kind == "num" else loguniform(r, -12, 12)
            if r.random() < 0.1:
                amt = float(round(amt)) if amt > 1 else amt
            contents[key] = amt
        return contents, unit

    def time_for(self, idxs):
        """(value, unit): log-uniform, or a multiple of a chain member's half-life, or 0"""
        r = self.r
        k = r.random()
        if k < 0.06:
            self._count("time:zero")
            return 0.0, r.choice(TIME_UNITS)
        if k < 0.55:
            members = [g for g in self.view.descendants(idxs) if self.view.rate[g] != 0]
            if members:
                g = r.choice(members)
                mult = r.choice([1e-3, 0.1, 1.0, 1.0, 3.0, 30.0, 50.0, 700.0, 745.0, 800.0, 1076.0, 1090.0, 1110.0])
                secs = float(mult / self.view.rate[g])
                self._count("time:half-life-multiple")
                return self._in_unit(secs)
        self._count("time:log-uniform")
        return self._in_unit(loguniform(r, -25, 30))

    def _in_unit(self, secs):
        r = self.r
        u = r.choice(TIME_UNITS)
        per = float(self.view.unit_s[{"sec": "s", "hr": "h", "days": "d", "yr": "y"}.get(u, u)])
        return secs / per, u


def ancestors_sum(view, n0: dict, i: int) -> Fraction:
    anc = view.ancestors(i)
    return sum((abs(a) for j, a in n0.items() if j in anc), Fraction(0))


def within(value: Fraction, lo: Fraction, hi: Fraction, tol: Fraction) -> bool:
    return lo - tol <= value <= hi + tol


def is_finite(x) -> bool:
    try:
        return math.isfinite(float(x))
    except (TypeError, ValueError, OverflowError):
        return False


def mutated_object_block(rep, ctx, stream, hp_too=True, nseq=None):
    """Calculations on an inventory that was used, then changed IN PLACE (add / subtract / remove), then used again:
    every result must be bit-identical to the same calculation on a FRESH inventory holding the same amounts (the
    result is a function of the stored amounts, the time and the dataset — not of what the object was asked before).
    Covers decay (incl. t = 0), cumulative_decays, the three fraction read-outs and a time series, both classes.
    Returns the number of mismatches."""
    from invlib import fbits
    rd = ctx.rd
    gen = Gen(rd, ctx.seed, stream)
    r, view = gen.r, gen.view
    bad = 0
    nseq = nseq or (40 if ctx.tier == "thorough" else 8)

    def snap(inv, hp, t, tu):
        enc = (lambda v: str(v)) if hp else (lambda v: fbits(v))
        out = {}
        out["decay"] = [(str(k), enc(v)) for k, v in inv.decay(t, tu).contents.items()]
        out["decay0"] = [(str(k), enc(v)) for k, v in inv.decay(0, tu).contents.items()]
        out["cum"] = [(str(k), fbits(v)) for k, v in inv.cumulative_decays(t, tu).items()]
        try:
            out["frac"] = [[(str(k), fbits(v)) for k, v in f().items()] for f in (inv.mass_fractions, inv.mole_fractions)]
            out["afrac"] = [(str(k), fbits(v)) for k, v in inv.activity_fractions().items()]
        except ZeroDivisionError:
            out["frac"] = out.get("frac", "zero-total")
            out["afrac"] = "zero-total"
        if not hp:
            tp, data = inv.decay_time_series(t, tu, npoints=3, decay_units="num")
            out["series"] = [(str(k), [fbits(x) for x in v]) for k, v in data.items()]
        return out

    for s in range(nseq):
        for hp in ((False, True) if hp_too and s % 3 == 0 else (False,)):
            C = rd.InventoryHP if hp else rd.Inventory
            pool = r.sample(gen.radio, 4) + r.sample(gen.stable, 1)
            amt = (lambda: r.randint(1, 10**9)) if hp else (lambda: 10.0 ** r.uniform(0, 20))
            names0 = r.sample(pool, 2)
            inv = C({view.names[i]: amt() for i in names0}, "num")
            g = r.choice([i for i in pool if view.rate[i] != 0])
            t, tu = float(r.choice([0.3, 1.0, 4.0]) / view.rate[g]), "s"
            log = [f"inv = {C.__name__}({dict(inv.contents)!r}, 'num')"]
            try:
                snap(inv, hp, t, tu)                       # first use (fills whatever the object may remember)
                log.append(f"decay / cumulative_decays / fractions / series at t={t!r} s")
                for step in range(r.choice([1, 2, 3])):
                    k = r.random()
                    present = list(inv.contents)
                    if k < 0.35:
                        nm = view.names[r.choice([i for i in pool if view.names[i] not in present] or pool)]
                        a = amt()
                        inv.add({nm: a}, "num")
                        log.append(f"inv.add({{{nm!r}: {a!r}}}, 'num')")
                    elif k < 0.6:
                        nm = r.choice(present)
                        a = amt()
                        inv.add({nm: a}, "num")
                        log.append(f"inv.add({{{nm!r}: {a!r}}}, 'num')   # nuclide already present")
                    elif k < 0.8:
                        nm = r.choice(present)
                        a = inv.contents[nm] / 4
                        inv.subtract({nm: a}, "num")
                        log.append(f"inv.subtract({{{nm!r}: {a!r}}}, 'num')")
                    elif len(present) > 1:
                        nm = r.choice(present)
                        # every overload of remove(): name, canonical id, Nuclide object, list (of one or two, mixed kinds)
                        form = r.choice(["str", "id", "nuclide", "list1", "list2"])
                        if form == "str":
                            arg, shown = nm, repr(nm)
                        elif form == "id":
                            arg = rd.Nuclide(nm).id
                            shown = repr(arg)
                        elif form == "nuclide":
                            arg, shown = rd.Nuclide(nm), f"rd.Nuclide({nm!r})"
                        elif form == "list1" or len(present) < 3:
                            arg, shown = [nm], repr([nm])
                        else:
                            nm2 = r.choice([x for x in present if x != nm])
                            arg, shown = [nm, rd.Nuclide(nm2)], f"[{nm!r}, rd.Nuclide({nm2!r})]"
                        inv.remove(arg)
                        log.append(f"inv.remove({shown})")
                        gen._count("mutated-object:remove-" + form)
                    got = snap(inv, hp, t, tu)
                    fresh = C(dict(inv.contents), "num", False)
                    want = snap(fresh, hp, t, tu)
                    rep.case((stream, s, hp, step, tuple(log)), sample={"history": log[:4]} if s == 0 and step == 0 else None)
                    gen._count("mutated-object:" + ("hp" if hp else "float"))
                    diff = [kk for kk in want if got.get(kk) != want[kk]]
                    if diff:
                        bad += 1
                        kk = diff[0]
                        gk = [x[0] for x in got[kk]] if isinstance(got[kk], list) and got[kk] and isinstance(got[kk][0], tuple) else None
                        wk = [x[0] for x in want[kk]] if isinstance(want[kk], list) and want[kk] and isinstance(want[kk][0], tuple) else None
                        detail = (f"nuclides {sorted(set(gk) ^ set(wk))[:4]} appear/disappear" if gk is not None and gk != wk
                                  else "same nuclides, different values")
                        rep.violation("failing-input", f"history {log!r}: then {diff} at t={t!r} s differ from the same calculation on a "
                                      f"fresh {C.__name__} with the same amounts {dict(inv.contents)!r} ({kk}: {detail})",
                                      {"history": log, "differs": diff}, True)
                        break
            except Exception as e:  # noqa: BLE001
                bad += 1
                rep.violation("failing-input", f"history {log!r}: raised {type(e).__name__}: {e}", {"history": log}, True)
    rep.corr["input_distribution"].update(gen.dist)
    return bad
