"""Shared generators and comparison helpers for the decay properties (C01, C02, C03, C07, C14)."""
from __future__ import annotations

import math
from fractions import Fraction

from common import rng
from oracle import DatasetView, LeanOracle, eval_adaptive

U53 = Fraction(1, 2**53)
ACT_UNITS = ["Bq", "kBq", "MBq", "Ci", "mCi", "dpm", "μCi", "pBq", "EBq"]
MASS_UNITS = ["g", "kg", "mg", "pg", "t", "ug"]
MOL_UNITS = ["mol", "mmol", "kmol", "pmol"]
TIME_UNITS = ["ps", "ns", "us", "μs", "ms", "s", "sec", "m", "h", "hr", "d", "days", "y", "yr", "ky", "My", "By", "Gy", "Ty", "Py"]


def F(x) -> Fraction:
    """exact value of a Python/NumPy float"""
    return Fraction(float(x))


def loguniform(r, lo_exp, hi_exp):
    return 10.0 ** r.uniform(lo_exp, hi_exp)


def respell(r, name: str) -> str:
    el, rest = name.split("-")
    A = "".join(c for c in rest if c.isdigit())
    st = rest[len(A):]
    form = r.choice(["{e}-{a}{s}", "{e}{a}{s}", "{a}{s}{e}", "{a}{s}-{e}", "{e} {a}{s}", " {e}-{a}{s} "])
    return form.format(e=el, a=A, s=st)


class Gen:
    """seeded, structured generator of inventories and decay times"""

    def __init__(self, rd, seed, stream):
        self.rd = rd
        self.r = rng(seed, stream)
        self.view = DatasetView(rd.DEFAULTDATA)
        v = self.view
        self.radio = [i for i in range(v.n) if v.rate[i] != 0]
        self.stable = [i for i in range(v.n) if v.rate[i] == 0]
        self.desc_count = {i: len(v.descendants([i])) for i in range(v.n)}
        self.deep = sorted(self.radio, key=lambda i: -self.desc_count[i])[:120]
        self.dist = {}

    def _count(self, k):
        self.dist[k] = self.dist.get(k, 0) + 1

    def nuclide(self):
        r = self.r
        k = r.random()
        if k < 0.35:
            self._count("nuclide:deep-chain")
            return r.choice(self.deep)
        if k < 0.9:
            self._count("nuclide:radioactive")
            return r.choice(self.radio)
        self._count("nuclide:stable")
        return r.choice(self.stable)

    def inventory(self, max_n=6, units="any", lo=-25, hi=30):
        """returns (contents dict as passed to the constructor, unit)"""
        r = self.r
        n = r.choice([1, 1, 1, 2, 3, max_n]) if max_n > 1 else 1
        idxs = []
        while len(idxs) < n:
            i = self.nuclide()
            if i not in idxs:
                idxs.append(i)
        kind = r.choice(["num", "num", "activity", "mass", "moles"]) if units == "any" else units
        if kind == "activity":
            idxs = [i for i in idxs if self.view.rate[i] != 0] or [r.choice(self.radio)]
            unit = r.choice(ACT_UNITS)
        elif kind == "mass":
            unit = r.choice(MASS_UNITS)
        elif kind == "moles":
            unit = r.choice(MOL_UNITS)
        else:
            unit = "num"
        self._count("unit:" + kind)
        contents = {}
        for i in idxs:
            name = self.view.names[i]
            key = respell(r, name) if r.random() < 0.3 else name
            amt = loguniform(r, lo, hi) if kind == "num" else loguniform(r, -12, 12)
            if r.random() < 0.1:
                amt = float(round(amt)) if amt > 1 else amt
            contents[key] = amt
        return contents, unit

    def time_for(self, idxs):
        """(value, unit): log-uniform, or a multiple of a chain member's half-life, or 0"""
        r = self.r
        k = r.random()
        if k < 0.06:
            self._count("time:zero")
            return 0.0, r.choice(TIME_UNITS)
        if k < 0.55:
            members = [g for g in self.view.descendants(idxs) if self.view.rate[g] != 0]
            if members:
                g = r.choice(members)
                mult = r.choice([1e-3, 0.1, 1.0, 1.0, 3.0, 30.0, 50.0, 700.0, 745.0, 800.0, 1076.0, 1090.0, 1110.0])
                secs = float(mult / self.view.rate[g])
                self._count("time:half-life-multiple")
                return self._in_unit(secs)
        self._count("time:log-uniform")
        return self._in_unit(loguniform(r, -25, 30))

    def _in_unit(self, secs):
        r = self.r
        u = r.choice(TIME_UNITS)
        per = float(self.view.unit_s[{"sec": "s", "hr": "h", "days": "d", "yr": "y"}.get(u, u)])
        return secs / per, u


def ancestors_sum(view, n0: dict, i: int) -> Fraction:
    anc = view.ancestors(i)
    return sum((abs(a) for j, a in n0.items() if j in anc), Fraction(0))


def within(value: Fraction, lo: Fraction, hi: Fraction, tol: Fraction) -> bool:
    return lo - tol <= value <= hi + tol


def is_finite(x) -> bool:
    try:
        return math.isfinite(float(x))
    except (TypeError, ValueError, OverflowError):
        return False
