"""./check <Cxx> [--tier quick|thorough] [--replay FILE]

Verdict logic (DESIGN.md §1), identical for every property:
  1. regenerate Gen/*.lean from /repo's current working tree (translator)
  2. lake build the property's targets, grep for forbidden constructs, #print axioms audit
  3. correspondence run: real code vs executable model vs the property's own oracle
  4. if 1–3 broke anywhere: search for a concrete failing input on the REAL code with the
     property's own oracle; found → VIOLATION with the input, not found → VIOLATION naming the
     broken theorem / correspondence, ending in no-failing-input-found.
"""
from __future__ import annotations

import argparse
import importlib
import json
import re
import sys
import traceback
from pathlib import Path

sys.path.insert(0, str(Path(__file__).resolve().parent))

import common  # noqa: E402
from common import Lock, Report, axiom_audit, lake_build, scan_forbidden, seed_from_env, tier_from_env  # noqa: E402


class Ctx:
    def __init__(self, prop, tier, seed):
        self.prop, self.tier, self.seed = prop, tier, seed
        self.build_ok = True
        self.build_log = ""
        self.broken: list[str] = []      # names of obligations / ties that no longer check
        self.translator_error: str | None = None
        self.rd = None


def first_errors(log: str, n=6) -> list[str]:
    out = []
    for m in re.finditer(r"^error: (.*)$", log, flags=re.M):
        out.append(m.group(1)[:300])
        if len(out) >= n:
            break
    return out


def prepare(rep: Report, ctx: Ctx, mod):
    """translate + build + audit; records obligations in rep; fills ctx.broken."""
    import translate_consts
    with Lock():
        try:
            info = translate_consts.generate()
            rep.notes["translator_consts_changed"] = info["changed"]
            if getattr(mod, "NEEDS_DATASET", False):
                import translate_dataset
                dinfo = translate_dataset.generate()
                rep.notes["translator_dataset_changed"] = dinfo["changed"]
            for extra in getattr(mod, "EXTRA_TRANSLATORS", []):
                importlib.import_module(extra).generate()
        except Exception as e:  # translator could not read the source as expected
            ctx.translator_error = f"{type(e).__name__}: {e}"
            ctx.broken.append("translator")
            ctx.build_ok = False
            rep.notes["translator_error"] = ctx.translator_error + "\n" + traceback.format_exc()[-1500:]
        targets = list(mod.TARGETS) + ["RdVerif.Model.Driver"]
        if ctx.translator_error is None:
            ok, log = lake_build(targets)
            ctx.build_log = log
            if not ok:
                ctx.build_ok = False
                errs = first_errors(log)
                failed = re.findall(r"^- (RdVerif\.[\w.]+)$", log, flags=re.M)
                ctx.broken.extend(failed or ["lake build"])
                rep.notes["build_errors"] = errs
        rep.checker_cmd = (f"cd lean && lake build {' '.join(targets)} && "
                           f"lake env lean ../.work/Audit_{rep.prop}.lean   # #print axioms of every theorem listed")
        hits = scan_forbidden([])
        if hits:
            ctx.broken.append("forbidden-construct")
            rep.notes["forbidden"] = hits
        thms = {}
        if ctx.build_ok:
            ok, thms, log = axiom_audit(rep.prop, list(mod.THEOREMS), list(mod.TARGETS))
            if not ok:
                ctx.broken.append("axiom-audit")
                rep.notes["audit_log"] = log[-2000:]
        if ctx.build_ok and ctx.tier == "thorough":
            # independent re-check of the compiled proofs of this property's theorem modules
            mods = [t for t in mod.TARGETS if t.startswith("RdVerif.Props")]
            rc, out, err = common.run(["lake", "env", "leanchecker", *mods], cwd=common.LEAN, timeout=7200)
            rep.notes["leanchecker"] = {"modules": mods, "exit": rc, "tail": (out + err)[-300:]}
            if rc != 0:
                ctx.broken.append("leanchecker")
    expected = list(mod.THEOREMS)
    for t in expected:
        full = [k for k in thms if k == t]
        if full and set(thms[full[0]]) <= common.ALLOWED_AXIOMS and ctx.build_ok:
            rep.obligations[t] = thms[full[0]]
        else:
            rep.obligations[t] = None
            if t not in ctx.broken:
                ctx.broken.append(t)
    rep.partial.update(getattr(mod, "PARTIAL", {}))


def main(argv=None):
    ap = argparse.ArgumentParser()
    ap.add_argument("prop")
    ap.add_argument("--tier", default=None)
    ap.add_argument("--replay", default=None)
    a = ap.parse_args(argv)
    prop = a.prop.upper()
    tier = a.tier or tier_from_env()
    seed = seed_from_env()
    mod = importlib.import_module(f"props.{prop.lower()}")
    rep = Report(prop, tier, seed)
    ctx = Ctx(prop, tier, seed)
    rep.assumptions.extend(getattr(mod, "ASSUMPTIONS", []))

    if a.replay:
        body = json.loads(Path(a.replay).read_text())
        ctx.rd = common.setup_repo_import()
        ok = mod.replay(body, ctx)
        print("replay:", "property holds on this input" if ok else "FAILS on the current tree")
        return 0 if ok else 1

    prepare(rep, ctx, mod)
    try:
        ctx.rd = common.setup_repo_import()
    except Exception as e:
        ctx.rd = None
        rep.violation("failing-input", f"the package no longer imports: {type(e).__name__}: {e}",
                      {"how_to_replay": "python -c 'import radioactivedecay'"}, True)
        return rep.finish()

    try:
        mod.correspondence(rep, ctx)
    except Exception as e:
        ctx.broken.append("correspondence-harness")
        rep.notes["harness_exception"] = traceback.format_exc()[-3000:]

    if ctx.broken and not any(v["found"] for v in rep.violations):
        # something no longer checks: hunt for a concrete failing input on the real code
        found = False
        try:
            found = mod.search(rep, ctx)
        except Exception:
            rep.notes["search_exception"] = traceback.format_exc()[-3000:]
        if not found and not any(v["found"] for v in rep.violations):
            rep.violation(
                "broken-obligation",
                "no longer checks: " + ", ".join(ctx.broken),
                {"broken": ctx.broken, "build_errors": rep.notes.get("build_errors"),
                 "translator_error": ctx.translator_error,
                 "harness_exception": rep.notes.get("harness_exception"),
                 "how_to_replay": f"./check {prop} --tier {tier}"},
                False,
            )
    return rep.finish()


if __name__ == "__main__":
    sys.exit(main())
