"""Oracles for the decay properties.

* `LeanOracle`  — the verified interval evaluation of the closed form (Model/Interval.lean), run
  through the model driver with adaptive precision; this is the reference the real code is
  compared with.
* `amaku_*`     — an *independent* exact Bateman solver built only from the dataset's half-lives,
  branching fractions and progeny lists (Amaku recurrences in rational arithmetic, exponentials by
  mpmath).  Used only to hunt for failing inputs when a proof obligation or correspondence breaks,
  and to cross-check the Lean oracle; no verdict on the unchanged tree rests on it.
"""
from __future__ import annotations

from fractions import Fraction

from common import lean_driver

LN2_DIGITS = {}


def frac_str(q: Fraction) -> str:
    q = Fraction(q)
    return f"{q.numerator}/{q.denominator}"


def parse_frac(s: str) -> Fraction:
    p, _, q = s.partition("/")
    return Fraction(int(p), int(q or 1))


class LeanOracle:
    """batched requests to the model driver"""

    def __init__(self, dataset="icrp107", prelude=None):
        self.ds = dataset
        self._ln2 = {}
        # driver lines that load a run-time dataset (`ds_new … ds_done <dataset>`); sent before every batch
        self.prelude = list(prelude or [])

    def _run(self, lines):
        if not lines:
            return []
        if not self.prelude:
            return lean_driver(lines)
        out = lean_driver(self.prelude + lines)
        head = out[:len(self.prelude)]
        if any(o == "bad-request" for o in head):
            raise RuntimeError("model driver refused a dataset-loading line")
        return out[len(self.prelude):]

    def ln2(self, P: int):
        if P not in self._ln2:
            out = lean_driver([f"ln2\t{P}\t{P + 8}\t{max(30, P // 4)}"])[0]
            if not out.startswith("ok "):
                raise RuntimeError(f"ln2 certificate failed at P={P}: {out}")
            _, a, b = out.split(" ")
            self._ln2[P] = (parse_frac(a), parse_frac(b))
        return self._ln2[P]

    def eval_batch(self, cases, kind="decay", P=256, nterms=None, extra=12):
        """cases: list of (n0: {idx: Fraction}, t_seconds: Fraction).  Returns list of
        {idx: (lo, hi)}.  `kind` = 'decay' or 'cum'."""
        lo2, hi2 = self.ln2(P)
        nterms = nterms or max(24, P // (extra + 1) + 8)
        lines = []
        for n0, t in cases:
            v = ",".join(f"{i}:{frac_str(a)}" for i, a in sorted(n0.items())) or "-"
            lines.append("\t".join([kind, self.ds, str(P), str(nterms), str(extra), frac_str(lo2), frac_str(hi2),
                                    frac_str(t), v]))
        outs = self._run(lines)
        res = []
        for o in outs:
            if not o.startswith("ok"):
                raise RuntimeError(f"model driver refused a {kind} request: {o[:200]}")
            d = {}
            for item in o[3:].split(" "):
                if not item:
                    continue
                i, lo, hi = item.split(":")
                d[int(i)] = (parse_frac(lo), parse_frac(hi))
            res.append(d)
        return res

    def indices(self, idx_lists):
        lines = ["\t".join(["indices", self.ds, ",".join(f"{i}:1" for i in ix) or "-"]) for ix in idx_lists]
        outs = self._run(lines)
        return [[int(x) for x in o[3:].split(" ") if x] for o in outs]

    def coeffs(self, reqs):
        """reqs: list of (n0, i) → list of {k: Fraction}"""
        lines = []
        for n0, i in reqs:
            v = ",".join(f"{j}:{frac_str(a)}" for j, a in sorted(n0.items())) or "-"
            lines.append("\t".join(["coeffs", self.ds, v, str(i)]))
        outs = self._run(lines)
        res = []
        for o in outs:
            d = {}
            for item in o[3:].split(" "):
                if item:
                    k, a = item.split(":")
                    d[int(k)] = parse_frac(a)
            res.append(d)
        return res


def eval_adaptive(oracle: LeanOracle, cases, need, kind="decay", P0=192, Pmax=6000):
    """Evaluate `cases`, raising precision until for every case `need(case_index, result)` is
    True (enclosures narrow enough) or Pmax is reached.  Returns (results, inconclusive_idx)."""
    results = [None] * len(cases)
    todo = list(range(len(cases)))
    P = P0
    import os, time as _t
    while todo and P <= Pmax:
        _t0 = _t.time()
        outs = oracle.eval_batch([cases[i] for i in todo], kind=kind, P=P)
        if os.environ.get("VERIF_DEBUG"):
            print(f"[oracle] P={P} cases={len(todo)} {_t.time() - _t0:.1f}s", flush=True)
        nxt = []
        for i, o in zip(todo, outs):
            results[i] = o
            if not need(i, o):
                nxt.append(i)
        todo = nxt
        P *= 2
    return results, todo


# ----------------------------------------------------------------------------------------------
# dataset view (from the real, loaded DecayData) and independent graph closure
# ----------------------------------------------------------------------------------------------

class DatasetView:
    def __init__(self, dd):
        self.dd = dd
        self.names = [str(x) for x in dd.nuclides]
        self.index = {n: i for i, n in enumerate(self.names)}
        self.n = len(self.names)
        self.progeny = [[str(p) for p in ps] for ps in dd.progeny]
        self.bfs = [[Fraction(repr(float(b))) for b in bs] for bs in dd.bfs]
        self.children = [[self.index[p] for p in ps if p in self.index] for ps in self.progeny]
        self.parents = [[] for _ in range(self.n)]
        for j in range(self.n):
            for p, b in zip(self.progeny[j], self.bfs[j]):
                if p in self.index:
                    self.parents[self.index[p]].append((j, b))
        conv = {"ps": Fraction(1, 10**12), "ns": Fraction(1, 10**9), "μs": Fraction(1, 10**6), "us": Fraction(1, 10**6),
                "ms": Fraction(1, 1000), "s": Fraction(1), "m": Fraction(60), "h": Fraction(3600), "d": Fraction(86400)}
        year = Fraction(repr(float(dd.float_year_conv)))
        for k, m in (("y", 1), ("ky", 10**3), ("My", 10**6), ("By", 10**9), ("Gy", 10**9), ("Ty", 10**12), ("Py", 10**15)):
            conv[k] = 86400 * year * m
        self.unit_s = conv
        self.rate = []   # r_i with λ_i = r_i ln2, from hldata (decimal reading)
        for h in dd.hldata:
            v = float(h[0])
            if v == float("inf"):
                self.rate.append(Fraction(0))
            else:
                self.rate.append(1 / (Fraction(repr(v)) * conv[str(h[1])]))

    def descendants(self, idxs):
        seen = set(idxs)
        stack = list(idxs)
        while stack:
            j = stack.pop()
            for c in self.children[j]:
                if c not in seen:
                    seen.add(c)
                    stack.append(c)
        return seen

    def ancestors(self, i):
        seen = {i}
        stack = [i]
        while stack:
            k = stack.pop()
            for p, _ in self.parents[k]:
                if p not in seen:
                    seen.add(p)
                    stack.append(p)
        return seen


def amaku_solution(view: DatasetView, n0: dict, t: Fraction, digits=60, deadline=None):
    """independent exact Bateman solution at time t (seconds) for the closure of n0's nuclides,
    via the Amaku recurrences on the sub-chain; returns {idx: mpmath.mpf}"""
    import mpmath
    mpmath.mp.dps = digits
    idx = sorted(view.descendants(list(n0)))
    pos = {g: k for k, g in enumerate(idx)}
    m = len(idx)
    r = [view.rate[g] for g in idx]
    # Λ/ln2: lam[i][k] = b_ki r_k for link k→i ; diag −r_i
    links = [[(pos[p], b) for p, b in view.parents[g] if p in pos] for g in idx]
    C = [[Fraction(0)] * m for _ in range(m)]
    import time as _time
    for j in range(m):
        C[j][j] = Fraction(1)
        if deadline is not None and _time.time() > deadline:
            raise TimeoutError("independent solver out of time")
        for i in range(j + 1, m):
            s = Fraction(0)
            for k, b in links[i]:
                if j <= k < i and C[k][j] != 0:
                    s += b * r[k] * C[k][j]
            if s != 0:
                den = r[i] - r[j]      # (Λ_jj − Λ_ii) = −r_j + r_i
                if den == 0:
                    raise ZeroDivisionError("equal decay constants in one chain")
                C[i][j] = s / den
    # C⁻¹ N0 by forward substitution (C unit lower triangular)
    v = [Fraction(n0.get(g, 0)) for g in idx]
    y = [Fraction(0)] * m
    for i in range(m):
        y[i] = v[i] - sum(C[i][j] * y[j] for j in range(i) if C[i][j] != 0)
    ln2 = mpmath.log(2)
    tt = mpmath.mpf(t.numerator) / mpmath.mpf(t.denominator)
    e = [mpmath.exp(-(mpmath.mpf(rk.numerator) / mpmath.mpf(rk.denominator)) * ln2 * tt) for rk in r]
    out = {}
    for i in range(m):
        s = mpmath.mpf(0)
        for j in range(i + 1):
            if C[i][j] != 0 and y[j] != 0:
                c = C[i][j] * y[j]
                s += (mpmath.mpf(c.numerator) / mpmath.mpf(c.denominator)) * e[j]
        out[idx[i]] = s
    return out


def subset_dataset(rd, view: DatasetView, roots, name="verif_subset", reverse_links=False):
    """A smaller dataset built through the PUBLIC constructors: the descendant-closed sub-chain of
    `roots`, re-indexed.  (Restricting C, C^-1 to a descendant-closed index set gives the
    eigenvector matrices of the restricted decay graph, so every calculation on it must agree with
    the same calculation on the full dataset.)  Returns (DecayData, list of names)."""
    import numpy as np
    import sympy
    from scipy import sparse
    dd = view.dd
    idx = sorted(view.descendants(roots))
    sd, sy = dd.scipy_data, dd.sympy_data
    c = sd.matrix_c.tocsr()[idx, :][:, idx]
    ci = sd.matrix_c_inv.tocsr()[idx, :][:, idx]
    scipy_data = rd.decaydata.DecayMatricesScipy(np.asarray(sd.atomic_masses)[idx], np.asarray(sd.decay_consts)[idx],
                                                 sparse.csr_matrix(c), sparse.csr_matrix(ci))
    sel = list(idx)
    cs = sympy.SparseMatrix(len(idx), len(idx), {})
    cis = sympy.SparseMatrix(len(idx), len(idx), {})
    pos = {g: k for k, g in enumerate(idx)}
    for (i, j), v in sy.matrix_c.todok().items():
        if i in pos and j in pos:
            cs[pos[i], pos[j]] = v
    for (i, j), v in sy.matrix_c_inv.todok().items():
        if i in pos and j in pos:
            cis[pos[i], pos[j]] = v
    masses = sympy.Matrix([sy.atomic_masses[g] for g in sel])
    consts = sympy.Matrix([sy.decay_consts[g] for g in sel])
    sympy_data = rd.decaydata.DecayMatricesSympy(masses, consts, cs, cis)

    def pick(arr):
        out = np.empty(len(idx), dtype=object)
        for k, g in enumerate(idx):
            out[k] = arr[g]
        return out
    hld = np.array([tuple(dd.hldata[g]) for g in idx], dtype=object)
    if reverse_links:
        # the same decay scheme with every nuclide's progeny / fraction / mode lists written in the opposite order
        def pick(arr):   # noqa: F811
            out = np.empty(len(idx), dtype=object)
            for k, g in enumerate(idx):
                out[k] = list(arr[g])[::-1]
            return out
    ds = rd.decaydata.DecayData(name, pick(dd.bfs), dd.float_year_conv, hld, pick(dd.modes),
                                np.array([view.names[g] for g in idx]), pick(dd.progeny), scipy_data,
                                sympy_data, dd.sympy_year_conv)
    return ds, [view.names[g] for g in idx]
