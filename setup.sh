#!/bin/sh
# Build the framework offline from files on disk: regenerate Gen/*.lean from /repo, lake build everything.
set -e
cd "$(dirname "$0")"
mkdir -p .work evidence replays
/venv/bin/python harness/setup_all.py
